package main

// GoLite-D extensions for /repo/ble (the advertisement handler, PKCS7Padding, getDeviceConfig,
// bluezAddrBytes): configuration interfaces as records, log.Printf as an event, the AES/CTR
// library calls as primitives.

import (
	"fmt"
	"go/ast"
	"go/constant"
	"go/token"
	"go/types"
	"strings"
)

func (t *dtr) bleType(ty types.Type) string {
	switch typeName(ty) {
	case "ble.DeviceConfig":
		return "devcfg"
	case "cipher.Block":
		return "(list byte)"
	case "cipher.Stream":
		return "(list byte * list byte)"
	case "bleparser.SolarChargerRecord":
		return "SolarChargerRecord"
	}
	if s, ok := ty.Underlying().(*types.Slice); ok && typeName(s.Elem()) == "ble.DeviceConfig" {
		return "(list devcfg)"
	}
	return ""
}

func coqStr2(s string) string {
	return "\"" + strings.ReplaceAll(s, "\"", "\"\"") + "\"%string"
}

// cfgCall: ble.cfg.M()
func (t *dtr) bleCfgCall(x *ast.CallExpr) string {
	sel, ok := x.Fun.(*ast.SelectorExpr)
	if !ok || len(x.Args) != 0 {
		return ""
	}
	in, ok := sel.X.(*ast.SelectorExpr)
	if !ok || in.Sel.Name != "cfg" || !t.isRecv(in.X) {
		return ""
	}
	return map[string]string{"LogDebug": "(bc_debug c)", "Devices": "(bc_devices c)", "Name": "NAME"}[sel.Sel.Name]
}

// logArg: one argument of log.Printf as a log value
func (t *dtr) logArg(a ast.Expr) string {
	ty := t.info.Types[a].Type
	pureTerm := func() string {
		p, s := t.ex(a)
		if len(p) != 0 {
			t.bad(a, "log argument with an effect")
		}
		return s
	}
	switch {
	case isByteSlice(ty):
		return "LBytes " + pureTerm()
	case isError(ty):
		return "LErr"
	case t.coqType(ty) == "SolarChargerRecord":
		return "LSolar " + pureTerm()
	}
	if _, _, ok := intKind(ty); ok {
		if c, isCall := a.(*ast.CallExpr); !isCall || types.ExprString(c.Fun) == "len" {
			return "LInt " + pureTerm()
		}
	}
	// names and other texts: not modelled, but they must not have effects
	ok := true
	ast.Inspect(a, func(n ast.Node) bool {
		if c, isCall := n.(*ast.CallExpr); isCall {
			s, isSel := c.Fun.(*ast.SelectorExpr)
			if !isSel || len(c.Args) != 0 || (s.Sel.Name != "Name" && s.Sel.Name != "String") {
				ok = false
			}
		}
		return ok
	})
	if !ok {
		t.bad(a, "log argument %s", types.ExprString(a))
	}
	return "LOther"
}

func (t *dtr) bleCall(x *ast.CallExpr, tv types.TypeAndValue) ([]bnd, string, bool) {
	if s := t.bleCfgCall(x); s != "" && s != "NAME" {
		return nil, s, true
	}
	fn := types.ExprString(x.Fun)
	switch fn {
	case "log.Printf":
		fv := t.info.Types[x.Args[0]].Value
		if fv == nil || fv.Kind() != constant.String {
			t.bad(x, "log.Printf with a non-constant format")
		}
		var args []string
		for _, a := range x.Args[1:] {
			args = append(args, t.logArg(a))
		}
		v := t.tmp()
		return []bnd{{v, fmt.Sprintf("p_log %s [%s]", coqStr2(constant.StringVal(fv)), strings.Join(args, "; ")), false}}, v, true
	case "aes.NewCipher":
		p, a := t.ex(x.Args[0])
		return p, "(g_aes_new_cipher " + a + ")", true
	case "cipher.NewCTR":
		p, a := t.args(x.Args)
		v := t.tmp()
		return append(p, bnd{v, fmt.Sprintf("g_new_ctr %s %s", a[0], a[1]), false}), v, true
	case "bytes.Repeat":
		p, a := t.args(x.Args)
		v := t.tmp()
		return append(p, bnd{v, fmt.Sprintf("g_repeat %s %s", a[0], a[1]), false}), v, true
	case "bytes.Equal":
		p, a := t.args(x.Args)
		return p, fmt.Sprintf("(g_bytes_eqb %s %s)", a[0], a[1]), true
	case "hex.DecodeString":
		p, a := t.ex(x.Args[0])
		return p, "(g_hex_decode_string " + a + ")", true
	case "strings.ReplaceAll":
		o, n := t.info.Types[x.Args[1]].Value, t.info.Types[x.Args[2]].Value
		if o == nil || n == nil || constant.StringVal(n) != "" || len(constant.StringVal(o)) != 1 {
			t.bad(x, "ReplaceAll form")
		}
		p, a := t.ex(x.Args[0])
		return p, fmt.Sprintf("(g_remove_byte %d %s)", constant.StringVal(o)[0], a), true
	case "bleparser.DecodeSolarChargeRecord":
		p, a := t.ex(x.Args[0])
		v := t.tmp()
		return append(p, bnd{v, "g_decode_solar " + a, false}), v, true
	case "binary.LittleEndian.PutUint16":
		id, ok := x.Args[0].(*ast.Ident)
		if !ok {
			t.bad(x, "PutUint16 destination")
		}
		p, a := t.ex(x.Args[1])
		n := t.varName(id)
		return append(p, bnd{n, fmt.Sprintf("g_put_le16 %s %s", n, a), false}), "tt", true
	}
	if sel, ok := x.Fun.(*ast.SelectorExpr); ok {
		rtv, has := t.info.Types[sel.X]
		if has {
			switch typeName(rtv.Type) {
			case "ble.DeviceConfig":
				f := map[string]string{"EncryptionKey": "dc_key", "MacAddress": "dc_mac"}[sel.Sel.Name]
				if f != "" && len(x.Args) == 0 {
					p, a := t.ex(sel.X)
					return p, fmt.Sprintf("(%s %s)", f, a), true
				}
			case "cipher.Block":
				if sel.Sel.Name == "BlockSize" && len(x.Args) == 0 {
					p, a := t.ex(sel.X)
					return p, "(g_block_size " + a + ")", true
				}
			case "cipher.Stream":
				if sel.Sel.Name == "XORKeyStream" && len(x.Args) == 2 {
					id, ok := x.Args[0].(*ast.Ident)
					if !ok {
						t.bad(x, "XORKeyStream destination")
					}
					p, s := t.ex(sel.X)
					q, src := t.ex(x.Args[1])
					n := t.varName(id)
					return append(append(p, q...), bnd{n, fmt.Sprintf("g_ctr_xor %s %s %s", s, n, src), false}), "tt", true
				}
			}
		}
	}
	return nil, "", false
}

var _ = token.NoPos
