package main

// GoLite-D extensions for /repo/vedirectapi (the register readers and the streaming loop): register
// structs as the records of the observation tables, float64 as exact rationals, the cancellation
// test, handler calls, calls into the translated driver.

import (
	"fmt"
	"go/ast"
	"go/token"
	"go/types"
	"strings"
)

func typeName(ty types.Type) string {
	s := ty.String()
	if strings.HasPrefix(s, "[]") || strings.HasPrefix(s, "*") || strings.HasPrefix(s, "func") || strings.HasPrefix(s, "map") {
		return s
	}
	if i := strings.LastIndex(s, "/"); i >= 0 {
		s = s[i+1:]
	}
	return s
}

func isRegStruct(ty types.Type) bool {
	switch typeName(ty) {
	case "veregister.NumberRegisterStruct", "veregister.TextRegisterStruct", "veregister.EnumRegisterStruct", "veregister.FieldListRegisterStruct":
		return true
	}
	return false
}

func (t *dtr) isRegSlice(ty types.Type) bool {
	s, ok := ty.Underlying().(*types.Slice)
	return ok && isRegStruct(s.Elem())
}

func (t *dtr) apiType(ty types.Type) string {
	if isFloat(ty) {
		return "Q"
	}
	if isRegStruct(ty) {
		return "reg"
	}
	switch typeName(ty) {
	case "veregister.RegisterList":
		return "reglist"
	case "vedirectapi.ValueHandler":
		return "handlers"
	case "veconst.Enum":
		return "(Z * string)"
	case "veconst.FieldList":
		return "(list (Z * bool))"
	case "context.Context", "vedirect.IOPort", "*github.com/koestler/go-victron/vedirect.Vedirect":
		return "unit"
	case "vedirect.Config":
		return "cfg"
	case "vedirectapi.FieldListValue":
		return "flv"
	case "vedirectapi.RegisterValues":
		return "regvalues"
	case "vedirectapi.RegisterValue", "vedirectapi.NumberRegisterValue", "vedirectapi.TextRegisterValue", "vedirectapi.EnumRegisterValue":
		return "(reg * gvalue)"
	case "[]github.com/koestler/go-victron/vedirectapi.RegisterValue":
		return "(list (reg * gvalue))"
	case "veconst.Field":
		return "(Z * string)"
	case "map[github.com/koestler/go-victron/veconst.Field]bool":
		return "(list ((Z * string) * bool))"
	case "[]github.com/koestler/go-victron/veconst.Field":
		return "(list (Z * string))"
	case "[]string":
		return "(list (list byte))"
	case "vedirectapi.RegisterApi":
		return "apiobj"
	case "*github.com/koestler/go-victron/vedirectapi.RegisterApi":
		return "(option apiobj)"
	}
	return ""
}

// isApiObj: a local variable of type RegisterApi (the object NewRegisterApi builds)
func (t *dtr) isApiObj(e ast.Expr) bool {
	id, ok := e.(*ast.Ident)
	if !ok {
		return false
	}
	tv, ok := t.info.Types[e]
	return ok && typeName(tv.Type) == "vedirectapi.RegisterApi" && !t.isRecv(id)
}

// regAccessor: r.Signed() etc. on a register struct -> the projection of the observation record
func (t *dtr) regAccessor(x *ast.CallExpr) string {
	sel, ok := x.Fun.(*ast.SelectorExpr)
	if !ok || len(x.Args) != 0 {
		return ""
	}
	tv, ok := t.info.Types[sel.X]
	if !ok || !isRegStruct(tv.Type) {
		return ""
	}
	return map[string]string{"Signed": "r_signed", "Address": "r_addr", "Name": "name_bytes", "Factor": "r_factor",
		"Offset": "r_offset_q"}[sel.Sel.Name]
}

// handlerFlag: handlers.Number etc. of a ValueHandler parameter (only compared with nil)
func (t *dtr) handlerFlag(e ast.Expr) string {
	sel, ok := e.(*ast.SelectorExpr)
	if !ok {
		return ""
	}
	tv, ok := t.info.Types[sel.X]
	if !ok || typeName(tv.Type) != "vedirectapi.ValueHandler" {
		return ""
	}
	id, ok := sel.X.(*ast.Ident)
	if !ok {
		return ""
	}
	f := map[string]string{"Number": "h_num", "Text": "h_text", "Enum": "h_enum", "FieldList": "h_fl"}[sel.Sel.Name]
	if f == "" {
		return ""
	}
	return fmt.Sprintf("(%s %s)", f, t.varName(id))
}

func (t *dtr) apiSelector(x *ast.SelectorExpr) string {
	tv, ok := t.info.Types[x.X]
	if !ok {
		return ""
	}
	if typeName(tv.Type) == "vedirectapi.RegisterValues" {
		if id, ok := x.X.(*ast.Ident); ok {
			f := map[string]string{"NumberValues": "rv_numbers", "TextValues": "rv_texts", "EnumValues": "rv_enums", "FieldListValues": "rv_fieldlists"}[x.Sel.Name]
			if f != "" {
				return fmt.Sprintf("(%s %s)", f, t.varName(id))
			}
		}
	}
	if t.isApiObj(x.X) {
		n := t.varName(x.X.(*ast.Ident))
		switch x.Sel.Name {
		case "ioPort", "Vd":
			return "tt"
		case "Product":
			return "(ao_product " + n + ")"
		case "Registers":
			return "(ao_registers " + n + ")"
		}
	}
	if typeName(tv.Type) == "veregister.RegisterList" {
		id, ok := x.X.(*ast.Ident)
		if !ok {
			return ""
		}
		f := map[string]string{"NumberRegisters": "l_numbers", "TextRegisters": "l_texts", "EnumRegisters": "l_enums",
			"FieldListRegisters": "l_fieldlists"}[x.Sel.Name]
		if f != "" {
			return fmt.Sprintf("(%s %s)", f, t.varName(id))
		}
	}
	return ""
}

func (t *dtr) apiCall(x *ast.CallExpr, tv types.TypeAndValue) ([]bnd, string, bool) {
	if acc := t.regAccessor(x); acc != "" {
		p, r := t.ex(x.Fun.(*ast.SelectorExpr).X)
		return p, fmt.Sprintf("(%s %s)", acc, r), true
	}
	fn := types.ExprString(x.Fun)
	switch fn {
	case "vedirect.NewVedirect":
		if len(x.Args) != 2 || typeName(t.info.Types[x.Args[1]].Type) != "vedirect.Config" {
			t.bad(x, "NewVedirect arguments")
		}
		p, _ := t.args(x.Args)
		v := t.tmp()
		return append(p, bnd{v, "p_new_vedirect", false}), v, true
	case "veregister.GetRegisterListByProduct":
		p, a := t.ex(x.Args[0])
		return p, "(g_reglist_by_product " + a + ")", true
	}
	if s2, ok := x.Fun.(*ast.SelectorExpr); ok && s2.Sel.Name == "Exists" && len(x.Args) == 0 {
		if rtv, ok := t.info.Types[s2.X]; ok && typeName(rtv.Type) == "veproduct.Product" {
			p, a := t.ex(s2.X)
			return p, "(g_product_exists " + a + ")", true
		}
	}
	if fn == "strings.Join" && len(x.Args) == 2 {
		p, a := t.args(x.Args)
		return p, fmt.Sprintf("(g_join %s %s)", a[1], a[0]), true
	}
	if fn == "sort.SliceStable" && len(x.Args) == 2 {
		lid, ok := x.Args[0].(*ast.Ident)
		fl, ok2 := x.Args[1].(*ast.FuncLit)
		if !ok || !ok2 || t.coqType(t.info.Types[lid].Type) != "(list (reg * gvalue))" || len(fl.Body.List) != 1 {
			t.bad(x, "sort.SliceStable form")
		}
		var pn []string
		for _, p := range fl.Type.Params.List {
			for _, n := range p.Names {
				pn = append(pn, n.Name)
			}
		}
		r, ok := fl.Body.List[0].(*ast.ReturnStmt)
		if !ok || len(r.Results) != 1 || len(pn) != 2 {
			t.bad(x, "sort.SliceStable comparison")
		}
		want := fmt.Sprintf("%s[%s].Sort() < %s[%s].Sort()", lid.Name, pn[0], lid.Name, pn[1])
		if types.ExprString(r.Results[0]) != want {
			t.bad(x, "sort.SliceStable comparison %s", types.ExprString(r.Results[0]))
		}
		n := t.varName(lid)
		return []bnd{{n, "g_sort_values_stable " + n, true}}, "tt", true
	}
	if fn == "sort.Slice" && len(x.Args) == 2 {
		lid, ok := x.Args[0].(*ast.Ident)
		fl, ok2 := x.Args[1].(*ast.FuncLit)
		if !ok || !ok2 || t.coqType(t.info.Types[lid].Type) != "(list (Z * string))" || len(fl.Body.List) != 1 {
			t.bad(x, "sort.Slice form")
		}
		var pn []string
		for _, p := range fl.Type.Params.List {
			for _, n := range p.Names {
				pn = append(pn, n.Name)
			}
		}
		r, ok := fl.Body.List[0].(*ast.ReturnStmt)
		if !ok || len(r.Results) != 1 || len(pn) != 2 {
			t.bad(x, "sort.Slice comparison")
		}
		want := fmt.Sprintf("%s[%s].Idx() < %s[%s].Idx()", lid.Name, pn[0], lid.Name, pn[1])
		if types.ExprString(r.Results[0]) != want {
			t.bad(x, "sort.Slice comparison %s", types.ExprString(r.Results[0]))
		}
		n := t.varName(lid)
		return []bnd{{n, "g_sort_by_idx " + n, true}}, "tt", true
	}
	if s2, ok := x.Fun.(*ast.SelectorExpr); ok && len(x.Args) == 0 {
		if rtv, ok := t.info.Types[s2.X]; ok {
			switch {
			case typeName(rtv.Type) == "veconst.Field" && s2.Sel.Name == "String":
				p, a := t.ex(s2.X)
				return p, "(list_byte_of_string (snd " + a + "))", true
			case typeName(rtv.Type) == "veconst.Field" && s2.Sel.Name == "Idx":
				p, a := t.ex(s2.X)
				return p, "(fst " + a + ")", true
			case typeName(rtv.Type) == "veconst.FieldList" && s2.Sel.Name == "Fields":
				if in, ok := s2.X.(*ast.SelectorExpr); ok && in.Sel.Name == "value" && typeName(t.info.Types[in.X].Type) == "vedirectapi.FieldListValue" {
					p, a := t.ex(in.X)
					return p, "(g_fields_map " + a + ")", true
				}
			}
		}
	}
	if fn == "strings.TrimSpace" {
		p, a := t.ex(x.Args[0])
		return p, "(trim_space " + a + ")", true
	}
	sel, ok := x.Fun.(*ast.SelectorExpr)
	if !ok {
		return nil, "", false
	}
	// sa.StreamRegisterList(ctx, rl, ValueHandler{Number: func(v NumberRegisterValue) { rv.NumberValues[v.Name()] = v }, ...}):
	// the four collector closures.  Each must store its argument under its name into the map of its own kind of one
	// RegisterValues variable; the call is then the stream with all four handlers set, and afterwards that variable
	// holds what the invocations made during the call put into it, in their order (p_collect_since).
	if sel.Sel.Name == "StreamRegisterList" && t.isRecv(sel.X) && len(x.Args) == 3 {
		if cl, ok := x.Args[2].(*ast.CompositeLit); ok && typeName(t.info.Types[cl].Type) == "vedirectapi.ValueHandler" {
			mapOf := map[string]string{"Number": "NumberValues", "Text": "TextValues", "Enum": "EnumValues", "FieldList": "FieldListValues"}
			seen := map[string]bool{}
			var target *ast.Ident
			for _, el := range cl.Elts {
				kv, ok := el.(*ast.KeyValueExpr)
				if !ok {
					t.bad(x, "ValueHandler literal")
				}
				k := types.ExprString(kv.Key)
				fl, ok := kv.Value.(*ast.FuncLit)
				if !ok || mapOf[k] == "" || seen[k] || len(fl.Type.Params.List) != 1 || len(fl.Type.Params.List[0].Names) != 1 || len(fl.Body.List) != 1 {
					t.bad(x, "ValueHandler literal: handler %s is not a collector closure", k)
				}
				pn := fl.Type.Params.List[0].Names[0].Name
				as, ok := fl.Body.List[0].(*ast.AssignStmt)
				if !ok || as.Tok != token.ASSIGN || len(as.Lhs) != 1 || len(as.Rhs) != 1 || types.ExprString(as.Rhs[0]) != pn {
					t.bad(x, "ValueHandler literal: handler %s is not a collector closure", k)
				}
				ix, ok := as.Lhs[0].(*ast.IndexExpr)
				if !ok || types.ExprString(ix.Index) != pn+".Name()" {
					t.bad(x, "ValueHandler literal: handler %s does not store under the value's name", k)
				}
				ms, ok := ix.X.(*ast.SelectorExpr)
				if !ok || ms.Sel.Name != mapOf[k] {
					t.bad(x, "ValueHandler literal: handler %s does not store into %s", k, mapOf[k])
				}
				id, ok := ms.X.(*ast.Ident)
				if !ok || typeName(t.info.Types[id].Type) != "vedirectapi.RegisterValues" || (target != nil && t.info.ObjectOf(id) != t.info.ObjectOf(target)) {
					t.bad(x, "ValueHandler literal: handler %s stores into another variable", k)
				}
				target = id
				seen[k] = true
			}
			if len(seen) != 4 {
				t.bad(x, "ValueHandler literal: %d of 4 collectors", len(seen))
			}
			// the variable must have been given four made maps by a statement of the function body that precedes the
			// call (a write to a nil map panics)
			made := false
			for _, st := range t.curDecl.Body.List {
				if st.End() > x.Pos() {
					break
				}
				if as, ok := st.(*ast.AssignStmt); ok && len(as.Lhs) == 1 && len(as.Rhs) == 1 {
					if id, ok := as.Lhs[0].(*ast.Ident); ok && t.info.ObjectOf(id) == t.info.ObjectOf(target) {
						_, isLit := as.Rhs[0].(*ast.CompositeLit)
						made = isLit // the literal itself is checked where it is translated
					}
				}
			}
			if !made {
				t.bad(x, "collectors store into maps that were not made before the call")
			}
			p, a := t.args(x.Args[:2])
			n0, v := t.tmp(), t.tmp()
			rv := t.varName(target)
			p = append(p, bnd{n0, "p_out_len", false},
				bnd{v, fmt.Sprintf("go_StreamRegisterList c %s %s (mkHandlers true true true true)", a[0], a[1]), false},
				bnd{rv, fmt.Sprintf("p_collect_since %s %s", n0, rv), false})
			t.calls["StreamRegisterList"] = true
			return p, v, true
		}
	}
	// sa.Vd.M(args): the translated driver
	if in, ok := sel.X.(*ast.SelectorExpr); ok && in.Sel.Name == "Vd" && (t.isRecv(in.X) || t.isApiObj(in.X)) {
		switch sel.Sel.Name {
		case "GetUint", "GetInt", "GetString", "GetDeviceId", "Ping":
			p, a := t.args(x.Args)
			v := t.tmp()
			m := "go_" + sel.Sel.Name + " c"
			if len(a) > 0 {
				m += " " + strings.Join(a, " ")
			}
			return append(p, bnd{v, "lift (" + m + ")", false}), v, true
		}
		t.bad(x, "driver method %s", sel.Sel.Name)
	}
	// r.Factory().NewEnum(e) / r.Factory().NewFieldList(e)
	if fc, ok := sel.X.(*ast.CallExpr); ok && len(fc.Args) == 0 {
		if fs, ok := fc.Fun.(*ast.SelectorExpr); ok && fs.Sel.Name == "Factory" {
			if rtv, ok := t.info.Types[fs.X]; ok && isRegStruct(rtv.Type) && len(x.Args) == 1 {
				p, r := t.ex(fs.X)
				q, a := t.ex(x.Args[0])
				p = append(p, q...)
				switch sel.Sel.Name {
				case "NewEnum":
					if bits, signed, ok := intKind(t.info.Types[x.Args[0]].Type); !ok || bits != 64 || !signed {
						t.bad(x, "NewEnum argument type")
					}
					return p, fmt.Sprintf("(g_new_enum (r_factory %s) %s)", r, a), true
				case "NewFieldList":
					if bits, signed, ok := intKind(t.info.Types[x.Args[0]].Type); !ok || bits != 64 || signed {
						t.bad(x, "NewFieldList argument type")
					}
					v := t.tmp()
					return append(p, bnd{v, fmt.Sprintf("g_new_fieldlist (r_factory %s) %s", r, a), false}), v, true
				}
			}
		}
	}
	// handlers.Number(NumberRegisterValue{NumberRegisterStruct: r, value: v})
	if f := t.handlerFlag(sel); f != "" && len(x.Args) == 1 {
		cl, ok := x.Args[0].(*ast.CompositeLit)
		if !ok || len(cl.Elts) != 2 {
			t.bad(x, "handler argument")
		}
		kind := map[string]string{"Number": "num", "Text": "text", "Enum": "enum", "FieldList": "fl"}[sel.Sel.Name]
		wantType := "vedirectapi." + sel.Sel.Name + "RegisterValue"
		if sel.Sel.Name == "FieldList" {
			wantType = "vedirectapi.FieldListValue"
		}
		if typeName(t.info.Types[cl].Type) != wantType {
			t.bad(x, "handler argument of type %s", t.info.Types[cl].Type)
		}
		var reg, val string
		var pre []bnd
		for _, el := range cl.Elts {
			kv, ok := el.(*ast.KeyValueExpr)
			if !ok {
				t.bad(x, "handler argument")
			}
			k := kv.Key.(*ast.Ident).Name
			p, s := t.ex(kv.Value)
			pre = append(pre, p...)
			switch {
			case k == "value":
				val = s
			case k == sel.Sel.Name+"RegisterStruct":
				reg = s
			default:
				t.bad(x, "handler argument field %s", k)
			}
		}
		if reg == "" || val == "" {
			t.bad(x, "handler argument")
		}
		v := t.tmp()
		return append(pre, bnd{v, fmt.Sprintf("p_deliver_%s %s %s", kind, reg, val), false}), v, true
	}
	return nil, "", false
}

// select { case <-ctx.Done(): body; default: }
func (t *dtr) selectStmt(x *ast.SelectStmt, rest []ast.Stmt, c *dctx) string {
	if len(x.Body.List) != 2 {
		t.bad(x, "select form")
	}
	var done *ast.CommClause
	for _, cl := range x.Body.List {
		cc := cl.(*ast.CommClause)
		if cc.Comm == nil {
			if len(cc.Body) != 0 {
				t.bad(x, "select default with statements")
			}
			continue
		}
		es, ok := cc.Comm.(*ast.ExprStmt)
		if !ok {
			t.bad(x, "select communication")
		}
		u, ok := es.X.(*ast.UnaryExpr)
		if !ok || u.Op != token.ARROW {
			t.bad(x, "select communication")
		}
		call, ok := u.X.(*ast.CallExpr)
		if !ok || len(call.Args) != 0 {
			t.bad(x, "select communication")
		}
		s, ok := call.Fun.(*ast.SelectorExpr)
		if !ok || s.Sel.Name != "Done" || typeName(t.info.Types[s.X].Type) != "context.Context" {
			t.bad(x, "select communication")
		}
		done = cc
	}
	if done == nil {
		t.bad(x, "select form")
	}
	v := t.tmp()
	return t.branches(x, []bnd{{v, "p_ctx_done", false}}, v, t.strip(done.Body), nil, rest, c)
}
