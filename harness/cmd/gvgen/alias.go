// gvgen alias: tie T-gen for C17.  Every function or method of veproduct and veconst that
// returns a map or a slice is translated, statement by statement, into a small alias IR
// (coq/Tables/Alias.v): which expressions allocate, which name locals, globals or calls,
// which statements store into a global or write an element.  The analysis itself (is what is
// returned freshly allocated and never stored where the library or another caller can reach
// it?) is a Coq function with a soundness theorem; this file only transcribes syntax.
// Control flow is flattened (the Coq semantics executes the statements in any order, any
// number of times), so loops and branches need no translation.
package main

import (
	"fmt"
	"go/ast"
	"go/importer"
	"go/parser"
	"go/token"
	"go/types"
	"os"
	"path/filepath"
	"sort"
	"strings"
)

type aliasTr struct {
	info    *types.Info
	pkg     *types.Package
	pkgName string
	out     []string
	locals  map[types.Object]bool
}

func isContainer(t types.Type) bool {
	if t == nil {
		return false
	}
	switch u := t.Underlying().(type) {
	case *types.Map, *types.Slice, *types.Pointer, *types.Chan:
		return true
	case *types.Struct:
		for i := 0; i < u.NumFields(); i++ {
			if isContainer(u.Field(i).Type()) {
				return true
			}
		}
	case *types.Array:
		return isContainer(u.Elem())
	}
	return false
}

// functions that neither retain nor return their container arguments in a way that matters
// here (they read them, or modify the argument in place)
var pureCallees = map[string]bool{
	"len": true, "cap": true, "make": true, "new": true, "append": true, "delete": true, "copy": true, "print": true, "println": true, "panic": true,
	"sort.Ints": true, "sort.Strings": true, "sort.Slice": true, "sort.SliceStable": true, "sort.Sort": true,
	"strings.Join": true, "fmt.Sprintf": true, "fmt.Sprint": true, "fmt.Errorf": true, "fmt.Println": true, "fmt.Printf": true,
	"maps.Clone": true, "slices.Clone": true, "slices.Sort": true, "slices.SortFunc": true, "slices.Contains": true,
}

func (a *aliasTr) calleeName(c *ast.CallExpr) string {
	switch f := c.Fun.(type) {
	case *ast.Ident:
		return f.Name
	case *ast.SelectorExpr:
		if id, ok := f.X.(*ast.Ident); ok {
			if _, isPkg := a.info.Uses[id].(*types.PkgName); isPkg {
				return id.Name + "." + f.Sel.Name
			}
		}
		// method call: name it by the receiver's named type
		if sel, ok := a.info.Selections[f]; ok {
			rt := sel.Recv()
			if p, ok := rt.(*types.Pointer); ok {
				rt = p.Elem()
			}
			if n, ok := rt.(*types.Named); ok && n.Obj().Pkg() == a.pkg {
				return a.pkgName + "." + n.Obj().Name() + "." + f.Sel.Name
			}
		}
	}
	return ""
}

func coqStr(s string) string { return "\"" + strings.ReplaceAll(s, "\"", "\"\"") + "\"" }

func (a *aliasTr) isGlobal(id *ast.Ident) bool {
	obj := a.info.Uses[id]
	if obj == nil {
		obj = a.info.Defs[id]
	}
	v, ok := obj.(*types.Var)
	return ok && v.Parent() == a.pkg.Scope()
}

// classify an expression that denotes a container
func (a *aliasTr) expr(e ast.Expr) string {
	switch x := e.(type) {
	case *ast.ParenExpr:
		return a.expr(x.X)
	case *ast.CompositeLit:
		return "AMake"
	case *ast.Ident:
		if x.Name == "nil" {
			return "AMake"
		}
		if a.isGlobal(x) {
			return "AGlobal " + coqStr(a.pkgName+"."+x.Name)
		}
		return "AVar " + coqStr(x.Name)
	case *ast.CallExpr:
		// conversion T(x)
		if tv, ok := a.info.Types[x.Fun]; ok && tv.IsType() && len(x.Args) == 1 {
			return a.expr(x.Args[0])
		}
		name := a.calleeName(x)
		switch name {
		case "make", "new", "maps.Clone", "slices.Clone":
			return "AMake"
		case "append":
			if len(x.Args) > 0 {
				return a.expr(x.Args[0]) // the result may share the first argument's backing array
			}
		}
		if strings.HasPrefix(name, a.pkgName+".") {
			return "ACall " + coqStr(name)
		}
		if name != "" && !strings.Contains(name, ".") {
			if _, ok := a.info.Uses[x.Fun.(*ast.Ident)].(*types.Func); ok {
				return "ACall " + coqStr(a.pkgName+"."+name)
			}
		}
		return "AOther"
	case *ast.UnaryExpr:
		if x.Op == token.AND {
			if _, ok := x.X.(*ast.CompositeLit); ok {
				return "AMake"
			}
		}
	}
	return "AOther"
}

func (a *aliasTr) emit(s string) { a.out = append(a.out, s) }

func (a *aliasTr) typeOf(e ast.Expr) types.Type {
	if tv, ok := a.info.Types[e]; ok {
		return tv.Type
	}
	if id, ok := e.(*ast.Ident); ok {
		if o := a.info.Defs[id]; o != nil {
			return o.Type()
		}
		if o := a.info.Uses[id]; o != nil {
			return o.Type()
		}
	}
	return nil
}

func (a *aliasTr) assign(lhs, rhs ast.Expr) {
	rt := a.typeOf(rhs)
	switch l := lhs.(type) {
	case *ast.Ident:
		if l.Name == "_" {
			return
		}
		if !isContainer(a.typeOf(l)) && !isContainer(rt) {
			return // scalars carry no reference
		}
		if a.isGlobal(l) {
			a.emit("SStoreGlobal " + coqStr(a.pkgName+"."+l.Name) + " (" + a.expr(rhs) + ")")
		} else {
			a.emit("SAssign " + coqStr(l.Name) + " (" + a.expr(rhs) + ")")
		}
	case *ast.IndexExpr:
		base, ok := l.X.(*ast.Ident)
		if !ok || isContainer(rt) {
			a.emit("SOpaque " + coqStr("element store of a reference or through a non-variable"))
			return
		}
		if a.isGlobal(base) {
			a.emit("SWriteGlobalElem " + coqStr(a.pkgName+"."+base.Name))
		} else {
			a.emit("SWriteElem " + coqStr(base.Name))
		}
	default:
		if isContainer(rt) || isContainer(a.typeOf(lhs)) {
			a.emit("SOpaque " + coqStr("store through a selector or dereference"))
		}
	}
}

func (a *aliasTr) call(c *ast.CallExpr) {
	name := a.calleeName(c)
	if pureCallees[name] {
		// delete(g, k) / copy(g, ..) on a global modifies the library's own data
		if (name == "delete" || name == "copy") && len(c.Args) > 0 {
			if id, ok := c.Args[0].(*ast.Ident); ok && a.isGlobal(id) {
				a.emit("SWriteGlobalElem " + coqStr(a.pkgName+"."+id.Name))
			}
		}
		return
	}
	for _, arg := range c.Args {
		if isContainer(a.typeOf(arg)) {
			a.emit("SOpaque " + coqStr("a reference is passed to "+name))
			return
		}
	}
	if sel, ok := c.Fun.(*ast.SelectorExpr); ok {
		if isContainer(a.typeOf(sel.X)) {
			if _, isPkg := a.info.Uses[firstIdent(sel.X)].(*types.PkgName); !isPkg {
				a.emit("SOpaque " + coqStr("method call on a reference: "+name))
			}
		}
	}
}

func firstIdent(e ast.Expr) *ast.Ident {
	if id, ok := e.(*ast.Ident); ok {
		return id
	}
	return ast.NewIdent("_")
}

func (a *aliasTr) stmt(s ast.Stmt, results *ast.FieldList) {
	switch x := s.(type) {
	case nil:
	case *ast.BlockStmt:
		for _, t := range x.List {
			a.stmt(t, results)
		}
	case *ast.AssignStmt:
		if len(x.Lhs) == len(x.Rhs) {
			for i := range x.Lhs {
				a.assign(x.Lhs[i], x.Rhs[i])
			}
		} else if len(x.Rhs) == 1 {
			// v, ok := m[k] / a, b := f(): references among the results
			for _, l := range x.Lhs {
				if isContainer(a.typeOf(l)) {
					if id, ok := l.(*ast.Ident); ok && !a.isGlobal(id) {
						a.emit("SAssign " + coqStr(id.Name) + " (" + a.expr(x.Rhs[0]) + ")")
					} else {
						a.emit("SOpaque " + coqStr("multi-value assignment of a reference"))
					}
				}
			}
		}
		for _, r := range x.Rhs {
			ast.Inspect(r, func(n ast.Node) bool {
				if c, ok := n.(*ast.CallExpr); ok {
					a.call(c)
				}
				return true
			})
		}
	case *ast.DeclStmt:
		if gd, ok := x.Decl.(*ast.GenDecl); ok {
			for _, sp := range gd.Specs {
				if vs, ok := sp.(*ast.ValueSpec); ok {
					for i, n := range vs.Names {
						if !isContainer(a.typeOf(n)) {
							continue
						}
						if i < len(vs.Values) {
							a.emit("SAssign " + coqStr(n.Name) + " (" + a.expr(vs.Values[i]) + ")")
						} else {
							a.emit("SAssign " + coqStr(n.Name) + " (AMake)") // zero value: nil
						}
					}
				}
			}
		}
	case *ast.ExprStmt:
		if c, ok := x.X.(*ast.CallExpr); ok {
			a.call(c)
		}
	case *ast.DeferStmt:
		a.call(x.Call)
	case *ast.IncDecStmt, *ast.BranchStmt, *ast.EmptyStmt:
	case *ast.RangeStmt:
		// for k, v := range src: v of reference type aliases an element of src
		if x.Value != nil && isContainer(a.typeOf(x.Value)) {
			a.emit("SOpaque " + coqStr("range value of reference type"))
		}
		a.stmt(x.Body, results)
	case *ast.ForStmt:
		a.stmt(x.Init, results)
		a.stmt(x.Post, results)
		a.stmt(x.Body, results)
	case *ast.IfStmt:
		a.stmt(x.Init, results)
		a.stmt(x.Body, results)
		a.stmt(x.Else, results)
	case *ast.SwitchStmt:
		a.stmt(x.Init, results)
		a.stmt(x.Body, results)
	case *ast.TypeSwitchStmt:
		a.stmt(x.Init, results)
		a.stmt(x.Body, results)
	case *ast.CaseClause:
		for _, t := range x.Body {
			a.stmt(t, results)
		}
	case *ast.ReturnStmt:
		if len(x.Results) == 0 && results != nil {
			for _, f := range results.List {
				for _, n := range f.Names {
					if isContainer(a.typeOf(n)) {
						a.emit("SReturn (AVar " + coqStr(n.Name) + ")")
					}
				}
			}
		}
		for _, r := range x.Results {
			if isContainer(a.typeOf(r)) {
				a.emit("SReturn (" + a.expr(r) + ")")
			}
			ast.Inspect(r, func(n ast.Node) bool {
				if c, ok := n.(*ast.CallExpr); ok {
					a.call(c)
				}
				return true
			})
		}
	default:
		a.emit("SOpaque " + coqStr(fmt.Sprintf("statement %T", s)))
	}
}

func returnsContainer(sig *types.Signature) bool {
	for i := 0; i < sig.Results().Len(); i++ {
		switch sig.Results().At(i).Type().Underlying().(type) {
		case *types.Map, *types.Slice:
			return true
		}
	}
	return false
}

func translateAlias(repo, outPath string) {
	var sb strings.Builder
	w := func(format string, a ...any) { fmt.Fprintf(&sb, format, a...) }
	w("(* GENERATED by `gvgen alias` from %s/{veproduct,veconst} on every run -- do not edit.\n", repo)
	w("   Alias IR of every function that returns a map or a slice (tie T-gen for C17). *)\n")
	w("From GV Require Import Tables.Alias.\nImport ListNotations.\nLocal Open Scope string_scope.\n\n")
	w("Definition alias_functions : list afun := [\n")
	first := true
	n := 0
	for _, pn := range []string{"veproduct", "veconst"} {
		dir := filepath.Join(repo, pn)
		fset := token.NewFileSet()
		pkgs, err := parser.ParseDir(fset, dir, func(fi os.FileInfo) bool { return !strings.HasSuffix(fi.Name(), "_test.go") }, 0)
		if err != nil {
			fail("parsing %s failed: %v", dir, err)
		}
		var files []*ast.File
		var names []string
		for _, p := range pkgs {
			for name := range p.Files {
				names = append(names, name)
			}
			sort.Strings(names)
			for _, name := range names {
				files = append(files, p.Files[name])
			}
		}
		info := &types.Info{Types: map[ast.Expr]types.TypeAndValue{}, Defs: map[*ast.Ident]types.Object{}, Uses: map[*ast.Ident]types.Object{}, Selections: map[*ast.SelectorExpr]*types.Selection{}}
		conf := types.Config{Importer: importer.ForCompiler(fset, "source", nil)}
		old, _ := os.Getwd()
		_ = os.Chdir(repo)
		pkg, err := conf.Check("github.com/koestler/go-victron/"+pn, fset, files, info)
		_ = os.Chdir(old)
		if err != nil {
			fail("type-checking %s failed: %v", pn, err)
		}
		for _, f := range files {
			for _, d := range f.Decls {
				fd, ok := d.(*ast.FuncDecl)
				if !ok || fd.Body == nil {
					continue
				}
				obj, _ := info.Defs[fd.Name].(*types.Func)
				if obj == nil || !returnsContainer(obj.Type().(*types.Signature)) {
					continue
				}
				name := pn + "." + fd.Name.Name
				if fd.Recv != nil && len(fd.Recv.List) > 0 {
					rt := info.Types[fd.Recv.List[0].Type].Type
					if p, ok := rt.(*types.Pointer); ok {
						rt = p.Elem()
					}
					if nt, ok := rt.(*types.Named); ok {
						name = pn + "." + nt.Obj().Name() + "." + fd.Name.Name
					}
				}
				a := &aliasTr{info: info, pkg: pkg, pkgName: pn}
				// a reference-typed receiver or parameter would be an object of the caller's (or the
				// library's) that the body can return or write to: outside the IR's initial state
				var ins []*ast.Field
				if fd.Recv != nil {
					ins = append(ins, fd.Recv.List...)
				}
				if fd.Type.Params != nil {
					ins = append(ins, fd.Type.Params.List...)
				}
				for _, f := range ins {
					if isContainer(info.Types[f.Type].Type) {
						a.emit("SOpaque " + coqStr("reference-typed receiver or parameter"))
					}
				}
				a.stmt(fd.Body, fd.Type.Results)
				if !first {
					w(";\n")
				}
				first = false
				w("  mkAfun %s [%s]", coqStr(name), strings.Join(a.out, "; "))
				n++
			}
		}
	}
	w("\n].\n")
	if n == 0 {
		fail("no container-returning function found in veproduct/veconst")
	}
	writeIfChanged(outPath, sb.String())
	fmt.Printf("alias: %d functions\n", n)
}
