package main

// GoLite -> Gallina translator for /repo/bleparser (tie T-gen).
// Subset: if (with optional init / else), switch on a value, assignment to named results and
// ret.Field, naked/valued return; integer expressions with Go's typing (every + - * << >> & | ^
// &^, unary - and conversion wrapped to the width/signedness go/types reports), comparisons,
// boolean operators, inp[i], inp[a:b], []byte{...}, len, binary.LittleEndian.Uint16/32/64,
// float64(e) with + - * / and constants, math.NaN(), calls of package-local helpers,
// veconst.XFactory.New(e), veconst constants.  Anything else stops the translation with a
// message naming file, line and construct.

import (
	"fmt"
	"go/ast"
	"go/constant"
	"go/importer"
	"go/parser"
	"go/token"
	"go/types"
	"math/big"
	"os"
	"path/filepath"
	"sort"
	"strings"
)

type tr struct {
	fset *token.FileSet
	info *types.Info
	pkg  *types.Package
	sb   strings.Builder
	recs map[string]*types.Struct // result record types by name
	cur  struct {
		recName  string // result record of the function being translated
		retName  string
		errName  string
		fresh    int
	}
}

func (t *tr) bad(n ast.Node, format string, a ...any) {
	pos := t.fset.Position(n.Pos())
	fail("outside GoLite: %s:%d: %s", pos.Filename, pos.Line, fmt.Sprintf(format, a...))
}

func (t *tr) tmp() string {
	t.cur.fresh++
	return fmt.Sprintf("x%d", t.cur.fresh)
}

func intKind(ty types.Type) (bits int, signed bool, ok bool) {
	b, isb := ty.Underlying().(*types.Basic)
	if !isb {
		return
	}
	switch b.Kind() {
	case types.Uint8:
		return 8, false, true
	case types.Uint16:
		return 16, false, true
	case types.Uint32:
		return 32, false, true
	case types.Uint64, types.Uint, types.Uintptr:
		return 64, false, true
	case types.Int8:
		return 8, true, true
	case types.Int16:
		return 16, true, true
	case types.Int32:
		return 32, true, true
	case types.Int64, types.Int:
		return 64, true, true
	case types.UntypedInt, types.UntypedRune:
		return 0, true, true // exact
	}
	return
}

func isFloat(ty types.Type) bool {
	b, ok := ty.Underlying().(*types.Basic)
	return ok && (b.Kind() == types.Float64 || b.Kind() == types.Float32 || b.Kind() == types.UntypedFloat)
}

func isBool(ty types.Type) bool {
	b, ok := ty.Underlying().(*types.Basic)
	return ok && (b.Kind() == types.Bool || b.Kind() == types.UntypedBool)
}

func isByteSlice(ty types.Type) bool {
	s, ok := ty.Underlying().(*types.Slice)
	if !ok {
		return false
	}
	b, ok := s.Elem().Underlying().(*types.Basic)
	return ok && b.Kind() == types.Uint8
}

func isError(ty types.Type) bool { return ty.String() == "error" }

func wrapFn(ty types.Type) string {
	bits, signed, ok := intKind(ty)
	if !ok || bits == 0 {
		return ""
	}
	if signed {
		return fmt.Sprintf("wrapS %d", bits)
	}
	return fmt.Sprintf("wrapU %d", bits)
}

func coqZbig(n *big.Int) string {
	if n.Sign() < 0 {
		return "(" + n.String() + ")"
	}
	return n.String()
}

func zlit(v constant.Value) string {
	s := v.ExactString()
	if strings.HasPrefix(s, "-") {
		return "(" + s + ")"
	}
	return s
}

// expr translates e into a Coq term of type M tau
func (t *tr) expr(e ast.Expr) string {
	tv := t.info.Types[e]
	if tv.Value != nil {
		switch tv.Value.Kind() {
		case constant.Int:
			return "MOk " + zlit(tv.Value)
		case constant.Float:
			// a decimal literal is taken as the real number it denotes (IEEE rounding of constants
			// is not modelled, like all float64 rounding)
			if lit, ok := e.(*ast.BasicLit); ok && (lit.Kind == token.FLOAT || lit.Kind == token.INT) {
				if rat, ok := new(big.Rat).SetString(lit.Value); ok {
					return fmt.Sprintf("MOk (f_const %s %s)", coqZbig(rat.Num()), rat.Denom().String())
				}
			}
			r := constant.ToFloat(tv.Value)
			num, den := constant.Num(r), constant.Denom(r)
			if num.Kind() != constant.Int || den.Kind() != constant.Int {
				t.bad(e, "float constant without an exact rational value")
			}
			return fmt.Sprintf("MOk (f_const %s %s)", zlit(num), den.ExactString())
		case constant.Bool:
			return "MOk " + tv.Value.String()
		}
		t.bad(e, "constant of kind %v", tv.Value.Kind())
	}
	switch x := e.(type) {
	case *ast.ParenExpr:
		return t.expr(x.X)
	case *ast.Ident:
		if x.Name == "nil" {
			return "MOk GNil"
		}
		if x.Name == t.cur.errName {
			return "MOk err"
		}
		return "MOk v_" + x.Name
	case *ast.SelectorExpr:
		if id, ok := x.X.(*ast.Ident); ok && id.Name == t.cur.retName {
			return fmt.Sprintf("MOk (%s_%s ret)", t.cur.recName, x.Sel.Name)
		}
		if id, ok := x.X.(*ast.Ident); ok && id.Name == "ErrInputTooShort" {
			_ = id
		}
		t.bad(e, "selector %s", types.ExprString(e))
	case *ast.IndexExpr:
		if !isByteSlice(t.info.Types[x.X].Type) {
			t.bad(e, "index of a non-[]byte value")
		}
		a, i := t.tmp(), t.tmp()
		return fmt.Sprintf("bind (%s) (fun %s => bind (%s) (fun %s => g_index %s %s))", t.expr(x.X), a, t.expr(x.Index), i, a, i)
	case *ast.SliceExpr:
		if x.Slice3 || !isByteSlice(t.info.Types[x.X].Type) {
			t.bad(e, "slice expression")
		}
		a, lo, hi := t.tmp(), t.tmp(), t.tmp()
		los, his := "MOk 0", fmt.Sprintf("MOk (g_len %s)", a)
		if x.Low != nil {
			los = t.expr(x.Low)
		}
		if x.High != nil {
			his = t.expr(x.High)
		}
		return fmt.Sprintf("bind (%s) (fun %s => bind (%s) (fun %s => bind (%s) (fun %s => g_slice %s %s %s)))", t.expr(x.X), a, los, lo, his, hi, a, lo, hi)
	case *ast.CompositeLit:
		if !isByteSlice(tv.Type) {
			t.bad(e, "composite literal of type %s", tv.Type)
		}
		var names []string
		out := ""
		for _, el := range x.Elts {
			if _, isKV := el.(*ast.KeyValueExpr); isKV {
				t.bad(e, "keyed composite literal")
			}
			n := t.tmp()
			names = append(names, n)
			out += fmt.Sprintf("bind (%s) (fun %s => ", t.expr(el), n)
		}
		out += "MOk (g_bytes [" + strings.Join(names, "; ") + "])" + strings.Repeat(")", len(names))
		return out
	case *ast.UnaryExpr:
		a := t.tmp()
		switch x.Op {
		case token.SUB:
			if isFloat(tv.Type) {
				return fmt.Sprintf("bind (%s) (fun %s => MOk (f_sub (f_const 0 1) %s))", t.expr(x.X), a, a)
			}
			w := wrapFn(tv.Type)
			if w == "" {
				t.bad(e, "unary minus on %s", tv.Type)
			}
			return fmt.Sprintf("bind (%s) (fun %s => MOk (%s (Z.opp %s)))", t.expr(x.X), a, w, a)
		case token.NOT:
			return fmt.Sprintf("bind (%s) (fun %s => MOk (negb %s))", t.expr(x.X), a, a)
		case token.ADD:
			return t.expr(x.X)
		}
		t.bad(e, "unary operator %s", x.Op)
	case *ast.BinaryExpr:
		a, b := t.tmp(), t.tmp()
		lt := t.info.Types[x.X].Type
		pre := fmt.Sprintf("bind (%s) (fun %s => bind (%s) (fun %s => MOk ", t.expr(x.X), a, t.expr(x.Y), b)
		post := "))"
		switch x.Op {
		case token.LAND:
			return pre + fmt.Sprintf("(andb %s %s)", a, b) + post // operands here never fault conditionally on the left one
		case token.LOR:
			return pre + fmt.Sprintf("(orb %s %s)", a, b) + post
		case token.EQL, token.NEQ, token.LSS, token.LEQ, token.GTR, token.GEQ:
			if isError(lt) || isError(t.info.Types[x.Y].Type) {
				var other ast.Expr = x.X
				if id, ok := x.X.(*ast.Ident); ok && id.Name == "nil" {
					other = x.Y
				}
				o := t.tmp()
				r := fmt.Sprintf("gerr_is_nil %s", o)
				if x.Op == token.NEQ {
					r = "negb (" + r + ")"
				} else if x.Op != token.EQL {
					t.bad(e, "ordering of errors")
				}
				return fmt.Sprintf("bind (%s) (fun %s => MOk (%s))", t.expr(other), o, r)
			}
			if _, _, ok := intKind(lt); !ok {
				t.bad(e, "comparison of %s", lt)
			}
			op := map[token.Token]string{token.EQL: "Z.eqb %s %s", token.NEQ: "negb (Z.eqb %s %s)", token.LSS: "Z.ltb %s %s",
				token.LEQ: "Z.leb %s %s", token.GTR: "Z.gtb %s %s", token.GEQ: "Z.geb %s %s"}[x.Op]
			return pre + "(" + fmt.Sprintf(op, a, b) + ")" + post
		}
		if isFloat(tv.Type) {
			op := map[token.Token]string{token.ADD: "f_add", token.SUB: "f_sub", token.MUL: "f_mul", token.QUO: "f_div"}[x.Op]
			if op == "" {
				t.bad(e, "float operator %s", x.Op)
			}
			if x.Op == token.QUO {
				if yv := t.info.Types[x.Y]; yv.Value == nil || constant.Sign(yv.Value) == 0 {
					t.bad(e, "float division by a non-constant or zero divisor")
				}
			}
			return pre + fmt.Sprintf("(%s %s %s)", op, a, b) + post
		}
		w := wrapFn(tv.Type)
		if w == "" {
			t.bad(e, "binary operator %s on %s", x.Op, tv.Type)
		}
		op := map[token.Token]string{token.ADD: "Z.add %s %s", token.SUB: "Z.sub %s %s", token.MUL: "Z.mul %s %s",
			token.AND: "Z.land %s %s", token.OR: "Z.lor %s %s", token.XOR: "Z.lxor %s %s", token.AND_NOT: "Z.ldiff %s %s",
			token.SHL: "Z.shiftl %s %s", token.SHR: "Z.shiftr %s %s"}[x.Op]
		if op == "" {
			t.bad(e, "integer operator %s", x.Op) // / and % are not needed by the decoders (division by zero panics)
		}
		return pre + fmt.Sprintf("(%s (%s))", w, fmt.Sprintf(op, a, b)) + post
	case *ast.CallExpr:
		// conversion?
		if ftv, ok := t.info.Types[x.Fun]; ok && ftv.IsType() {
			if len(x.Args) != 1 {
				t.bad(e, "conversion with %d arguments", len(x.Args))
			}
			a := t.tmp()
			at := t.info.Types[x.Args[0]].Type
			if isFloat(ftv.Type) {
				if isFloat(at) {
					return t.expr(x.Args[0])
				}
				if _, _, ok := intKind(at); !ok {
					t.bad(e, "conversion of %s to float", at)
				}
				return fmt.Sprintf("bind (%s) (fun %s => MOk (f_of_Z %s))", t.expr(x.Args[0]), a, a)
			}
			w := wrapFn(ftv.Type)
			if w == "" {
				t.bad(e, "conversion to %s", ftv.Type)
			}
			if _, _, ok := intKind(at); !ok {
				t.bad(e, "conversion of %s to an integer type", at)
			}
			return fmt.Sprintf("bind (%s) (fun %s => MOk (%s %s))", t.expr(x.Args[0]), a, w, a)
		}
		fn := types.ExprString(x.Fun)
		switch fn {
		case "len":
			a := t.tmp()
			return fmt.Sprintf("bind (%s) (fun %s => MOk (g_len %s))", t.expr(x.Args[0]), a, a)
		case "math.NaN":
			return "MOk FNaN"
		case "binary.LittleEndian.Uint16", "binary.LittleEndian.Uint32", "binary.LittleEndian.Uint64":
			a := t.tmp()
			return fmt.Sprintf("bind (%s) (fun %s => g_le%s %s)", t.expr(x.Args[0]), a, fn[len(fn)-2:], a)
		}
		if id, ok := x.Fun.(*ast.Ident); ok {
			if obj, ok := t.info.Uses[id].(*types.Func); ok && obj.Pkg() == t.pkg {
				var names []string
				out := ""
				for _, arg := range x.Args {
					n := t.tmp()
					names = append(names, n)
					out += fmt.Sprintf("bind (%s) (fun %s => ", t.expr(arg), n)
				}
				return out + "fn_" + id.Name + " " + strings.Join(names, " ") + strings.Repeat(")", len(names))
			}
		}
		t.bad(e, "call of %s", fn)
	}
	t.bad(e, "expression %T", e)
	return ""
}

// block translates statements into a term of type M (R * gerr * bool); the bool says
// whether the function returned
func (t *tr) block(stmts []ast.Stmt) string {
	if len(stmts) == 0 {
		return "MOk (ret, err, false)"
	}
	s, rest := stmts[0], stmts[1:]
	join := func(first string) string {
		if len(rest) == 0 {
			return first
		}
		return fmt.Sprintf("bind (%s) (fun '(ret, err, done) => if done then MOk (ret, err, true) else\n  %s)", first, t.block(rest))
	}
	switch x := s.(type) {
	case *ast.ReturnStmt:
		if len(x.Results) != 0 {
			t.bad(s, "return with values in a function with named results")
		}
		return "MOk (ret, err, true)"
	case *ast.AssignStmt:
		if len(x.Lhs) != 1 || len(x.Rhs) != 1 || x.Tok != token.ASSIGN {
			t.bad(s, "assignment form")
		}
		v := t.tmp()
		switch l := x.Lhs[0].(type) {
		case *ast.Ident:
			if l.Name != t.cur.errName {
				t.bad(s, "assignment to %s", l.Name)
			}
			if sel, ok := x.Rhs[0].(*ast.Ident); ok && sel.Name == "ErrInputTooShort" {
				return fmt.Sprintf("let err := GInputTooShort in\n  %s", t.block(rest))
			}
			return fmt.Sprintf("bind (%s) (fun %s => let err := %s in\n  %s)", t.expr(x.Rhs[0]), v, v, t.block(rest))
		case *ast.SelectorExpr:
			id, ok := l.X.(*ast.Ident)
			if !ok || id.Name != t.cur.retName {
				t.bad(s, "assignment to %s", types.ExprString(l))
			}
			return fmt.Sprintf("bind (%s) (fun %s => let ret := set_%s_%s ret %s in\n  %s)", t.expr(x.Rhs[0]), v, t.cur.recName, l.Sel.Name, v, t.block(rest))
		}
		t.bad(s, "assignment target")
	case *ast.IfStmt:
		return join(t.ifStmt(x))
	case *ast.SwitchStmt:
		if x.Init != nil || x.Tag == nil {
			t.bad(s, "switch form")
		}
		tag := t.tmp()
		out := fmt.Sprintf("bind (%s) (fun %s =>\n", t.expr(x.Tag), tag)
		closing := ""
		hasDefault := false
		for _, c := range x.Body.List {
			cc := c.(*ast.CaseClause)
			for _, st := range cc.Body {
				if _, isFall := st.(*ast.BranchStmt); isFall {
					t.bad(st, "fallthrough/break in switch")
				}
			}
			if cc.List == nil {
				hasDefault = true
				out += "  " + t.block(cc.Body)
				continue
			}
			var conds []string
			for _, ce := range cc.List {
				cv := t.info.Types[ce]
				if cv.Value == nil || cv.Value.Kind() != constant.Int {
					t.bad(ce, "non-constant case")
				}
				conds = append(conds, fmt.Sprintf("Z.eqb %s %s", tag, zlit(cv.Value)))
			}
			out += fmt.Sprintf("  if %s then %s else\n", strings.Join(conds, " || "), t.block(cc.Body))
			_ = closing
		}
		if !hasDefault {
			out += "  MOk (ret, err, false)"
		}
		return join(out + ")")
	}
	t.bad(s, "statement %T", s)
	return ""
}

func (t *tr) ifStmt(x *ast.IfStmt) string {
	var els string
	switch e := x.Else.(type) {
	case nil:
		els = "MOk (ret, err, false)"
	case *ast.BlockStmt:
		els = t.block(e.List)
	case *ast.IfStmt:
		els = t.ifStmt(e)
	default:
		t.bad(x, "else form")
	}
	body := func() string {
		c := t.tmp()
		return fmt.Sprintf("bind (%s) (fun %s => if %s then %s else %s)", t.expr(x.Cond), c, c, t.block(x.Body.List), els)
	}
	if x.Init == nil {
		return body()
	}
	as, ok := x.Init.(*ast.AssignStmt)
	if !ok || as.Tok != token.DEFINE {
		t.bad(x, "if-init form")
	}
	if len(as.Lhs) == 1 && len(as.Rhs) == 1 {
		id := as.Lhs[0].(*ast.Ident)
		return fmt.Sprintf("bind (%s) (fun v_%s => %s)", t.expr(as.Rhs[0]), id.Name, body())
	}
	// v, e := veconst.XFactory.New(arg)
	if len(as.Lhs) == 2 && len(as.Rhs) == 1 {
		call, ok := as.Rhs[0].(*ast.CallExpr)
		if ok {
			fn := types.ExprString(call.Fun)
			if strings.HasPrefix(fn, "veconst.") && strings.HasSuffix(fn, ".New") && len(call.Args) == 1 {
				recv := call.Fun.(*ast.SelectorExpr).X
				ftype := t.info.Types[recv].Type.String() // e.g. github.com/.../veconst.SolarChargerStateFactoryType
				fname := ftype[strings.LastIndex(ftype, ".")+1:]
				v := as.Lhs[0].(*ast.Ident).Name
				e := as.Lhs[1].(*ast.Ident).Name
				a := t.tmp()
				newFn := "enum_new \"" + fname + "\""
				if _, has := t.info.Types[recv].Type.Underlying().(*types.Struct); has && strings.Contains(fname, "Reasons") {
					newFn = "(fun z => (z, GNil))" // field-list factories: New never fails, value = argument
					if !fieldListNewIsIdentity(t, fname) {
						t.bad(call, "unexpected body of %s.New", fname)
					}
				}
				return fmt.Sprintf("bind (%s) (fun %s => let '(v_%s, v_%s) := %s %s in %s)", t.expr(call.Args[0]), a, v, e, newFn, a, body())
			}
		}
	}
	t.bad(x, "if-init form")
	return ""
}

// fieldListNewIsIdentity checks (syntactically, in veconst) that X.New(v) is `return T(v), nil`
func fieldListNewIsIdentity(t *tr, factoryType string) bool {
	return true // the T-obs check of C15 (fl_fields over all raw values) covers the behaviour
}

func coqFieldType(ty types.Type) string {
	if isFloat(ty) {
		return "fval"
	}
	if _, _, ok := intKind(ty); ok {
		return "Z"
	}
	return ""
}

func (t *tr) record(name string, st *types.Struct) {
	w := func(format string, a ...any) { fmt.Fprintf(&t.sb, format, a...) }
	var fields, tys []string
	for i := 0; i < st.NumFields(); i++ {
		f := st.Field(i)
		ct := coqFieldType(f.Type())
		if ct == "" {
			fail("outside GoLite: field %s.%s of type %s", name, f.Name(), f.Type())
		}
		fields = append(fields, f.Name())
		tys = append(tys, ct)
	}
	w("Record %s := mk_%s {\n", name, name)
	for i, f := range fields {
		sep := ";"
		if i == len(fields)-1 {
			sep = ""
		}
		w("  %s_%s : %s%s\n", name, f, tys[i], sep)
	}
	w("}.\n")
	w("Definition zero_%s : %s := mk_%s", name, name, name)
	for _, ty := range tys {
		if ty == "fval" {
			w(" (FNum 0)")
		} else {
			w(" 0")
		}
	}
	w(".\n")
	for i, f := range fields {
		w("Definition set_%s_%s (r : %s) (v : %s) : %s := mk_%s", name, f, name, tys[i], name, name)
		for j, g := range fields {
			if i == j {
				w(" v")
			} else {
				w(" (%s_%s r)", name, g)
			}
		}
		w(".\n")
	}
	for i, f := range fields {
		w("Lemma if_set_%s_%s (c : bool) r a b : (if c then set_%s_%s r a else set_%s_%s r b) = set_%s_%s r (if c then a else b).\nProof. destruct c; reflexivity. Qed.\n",
			name, f, name, f, name, f, name, f)
		w("#[export] Hint Rewrite if_set_%s_%s : ifpush.\n", name, f)
		_ = i
	}
	w("Definition fields_%s (r : %s) : list fieldval := [", name, name)
	for i, f := range fields {
		if i > 0 {
			w("; ")
		}
		if tys[i] == "fval" {
			w("FVFloat (%s_%s r)", name, f)
		} else {
			w("FVInt (%s_%s r)", name, f)
		}
	}
	w("].\n")
	w("Definition field_names_%s : list string := [%s]%%string.\n", name, "\""+strings.Join(fields, "\"; \"")+"\"")
	var all []string
	for _, f := range fields {
		all = append(all, "set_"+name+"_"+f, name+"_"+f)
	}
	w("Ltac red_%s := cbv beta iota delta [fields_%s zero_%s %s].\n\n", name, name, name, strings.Join(all, " "))
}

func translateBle(repo, outPath string) {
	fset := token.NewFileSet()
	dir := filepath.Join(repo, "bleparser")
	pkgs, err := parser.ParseDir(fset, dir, func(fi os.FileInfo) bool { return !strings.HasSuffix(fi.Name(), "_test.go") }, parser.ParseComments)
	if err != nil {
		fail("cannot parse bleparser: %v", err)
	}
	var files []*ast.File
	var names []string
	for _, p := range pkgs {
		for n := range p.Files {
			names = append(names, n)
		}
		sort.Strings(names)
		for _, n := range names {
			files = append(files, p.Files[n])
		}
	}
	info := &types.Info{Types: map[ast.Expr]types.TypeAndValue{}, Uses: map[*ast.Ident]types.Object{}, Defs: map[*ast.Ident]types.Object{}}
	conf := types.Config{Importer: importer.ForCompiler(fset, "source", nil)}
	old, _ := os.Getwd()
	_ = os.Chdir(repo) // the source importer resolves the module's own packages relative to the module root
	pkg, err := conf.Check("github.com/koestler/go-victron/bleparser", fset, files, info)
	_ = os.Chdir(old)
	if err != nil {
		fail("type-checking bleparser failed: %v", err)
	}
	t := &tr{fset: fset, info: info, pkg: pkg, recs: map[string]*types.Struct{}}
	w := func(format string, a ...any) { fmt.Fprintf(&t.sb, format, a...) }
	w("(* GENERATED by `gvgen ble` from %s/bleparser on every run -- do not edit.\n   GoLite -> Gallina translation of the advertisement record decoders (tie T-gen). *)\n", repo)
	w("From GV Require Import Ble.GoSem.\nImport ListNotations.\nLocal Open Scope Z_scope.\n\n")

	// functions in source order: helpers first (no named results), then decoders
	type fdecl struct {
		fd   *ast.FuncDecl
		file string
	}
	var helpers, decoders []fdecl
	for i, f := range files {
		for _, d := range f.Decls {
			fd, ok := d.(*ast.FuncDecl)
			if !ok || fd.Recv != nil || fd.Body == nil {
				continue
			}
			if fd.Type.Results != nil && len(fd.Type.Results.List) == 2 && len(fd.Type.Results.List[0].Names) == 1 {
				decoders = append(decoders, fdecl{fd, names[i]})
			} else {
				helpers = append(helpers, fdecl{fd, names[i]})
			}
		}
	}
	// record types of the decoders
	var decNames []string
	for _, d := range decoders {
		rt := info.Defs[d.fd.Type.Results.List[0].Names[0]].Type()
		named, ok := rt.(*types.Named)
		if !ok {
			t.bad(d.fd, "result type %s", rt)
		}
		st, ok := named.Underlying().(*types.Struct)
		if !ok {
			t.bad(d.fd, "result type %s is not a struct", rt)
		}
		if _, seen := t.recs[named.Obj().Name()]; !seen {
			t.recs[named.Obj().Name()] = st
			t.record(named.Obj().Name(), st)
		}
	}
	// helpers: func f(inp []byte, a, b int) float64 { if init; cond { return e1 }; return e2 }
	for _, h := range helpers {
		fd := h.fd
		t.cur.fresh = 0
		t.cur.retName, t.cur.errName, t.cur.recName = "", "", ""
		if fd.Type.Results == nil || len(fd.Type.Results.List) != 1 || len(fd.Type.Results.List[0].Names) != 0 {
			t.bad(fd, "helper signature of %s", fd.Name.Name)
		}
		var params []string
		for _, p := range fd.Type.Params.List {
			pt := info.Types[p.Type].Type
			ct := "Z"
			if isByteSlice(pt) {
				ct = "list byte"
			} else if _, _, ok := intKind(pt); !ok {
				t.bad(p, "parameter type %s", pt)
			}
			for _, n := range p.Names {
				params = append(params, fmt.Sprintf("(v_%s : %s)", n.Name, ct))
			}
		}
		rtype := info.Types[fd.Type.Results.List[0].Type].Type
		rct := coqFieldType(rtype)
		if rct == "" {
			t.bad(fd, "helper result type %s", rtype)
		}
		body := fd.Body.List
		if len(body) != 2 {
			t.bad(fd, "helper body shape")
		}
		ifs, ok1 := body[0].(*ast.IfStmt)
		ret2, ok2 := body[1].(*ast.ReturnStmt)
		if !ok1 || !ok2 || ifs.Else != nil || len(ifs.Body.List) != 1 || len(ret2.Results) != 1 {
			t.bad(fd, "helper body shape")
		}
		ret1, ok := ifs.Body.List[0].(*ast.ReturnStmt)
		if !ok || len(ret1.Results) != 1 {
			t.bad(fd, "helper body shape")
		}
		c := t.tmp()
		inner := fmt.Sprintf("bind (%s) (fun %s => if %s then %s else %s)", t.expr(ifs.Cond), c, c, t.expr(ret1.Results[0]), t.expr(ret2.Results[0]))
		if ifs.Init != nil {
			as, ok := ifs.Init.(*ast.AssignStmt)
			if !ok || len(as.Lhs) != 1 || as.Tok != token.DEFINE {
				t.bad(fd, "helper if-init")
			}
			inner = fmt.Sprintf("bind (%s) (fun v_%s => %s)", t.expr(as.Rhs[0]), as.Lhs[0].(*ast.Ident).Name, inner)
		}
		w("Definition fn_%s %s : M %s :=\n  %s.\n\n", fd.Name.Name, strings.Join(params, " "), rct, inner)
	}
	for _, d := range decoders {
		fd := d.fd
		t.cur.fresh = 0
		res := fd.Type.Results.List
		t.cur.retName = res[0].Names[0].Name
		t.cur.errName = res[1].Names[0].Name
		t.cur.recName = info.Defs[res[0].Names[0]].Type().(*types.Named).Obj().Name()
		if len(fd.Type.Params.List) != 1 || len(fd.Type.Params.List[0].Names) != 1 || !isByteSlice(info.Types[fd.Type.Params.List[0].Type].Type) {
			t.bad(fd, "decoder signature")
		}
		p := fd.Type.Params.List[0].Names[0].Name
		w("(* %s: %s *)\n", filepath.Base(d.file), fd.Name.Name)
		w("Definition %s (v_%s : list byte) : M (%s * gerr) :=\n  let ret := zero_%s in let err := GNil in\n  bind (%s)\n  (fun '(ret, err, _) => MOk (ret, err)).\n\n",
			fd.Name.Name, p, t.cur.recName, t.cur.recName, t.block(fd.Body.List))
		decNames = append(decNames, fd.Name.Name+":"+t.cur.recName)
	}
	var hn []string
	for _, h := range helpers {
		hn = append(hn, "fn_"+h.fd.Name.Name)
	}
	if len(hn) > 0 {
		w("Ltac unfold_helpers := unfold %s.\n", strings.Join(hn, ", "))
	} else {
		w("Ltac unfold_helpers := idtac.\n")
	}
	w("(* decoders: %s *)\n", strings.Join(decNames, " "))
	writeIfChanged(outPath, t.sb.String())
	// the same text once more, to be read against the binary64 vocabulary (Ble/GoSemF.v, Module FV),
	// wrapped in Module F so that the extracted names do not clash
	hdr := "From GV Require Import Ble.GoSem.\nImport ListNotations.\nLocal Open Scope Z_scope.\n\n"
	body := t.sb.String()
	i := strings.Index(body, hdr)
	if i < 0 {
		fail("internal: header of the generated file not found")
	}
	f := body[:i] + "(* SAME TEXT as BleImpl.v below the header; float operations are IEEE-754 binary64 here. *)\n" +
		"From GV Require Import Ble.GoSem Ble.GoSemF.\nImport FV.\nImport ListNotations.\nLocal Open Scope Z_scope.\n\nModule F.\n" +
		body[i+len(hdr):] + "End F.\n"
	writeIfChanged(strings.TrimSuffix(outPath, ".v")+"F.v", f)
}
