package main

// GoLite-D extensions for /repo/veregister (registerList.go, filter.go): the register list as a record
// of four lists, predicates as functions into the monad, function literals, the stable sort by key.

import (
	"fmt"
	"go/ast"
	"go/token"
	"go/types"
	"strings"
)

var regFieldGet = map[string]string{"NumberRegisters": "get_numbers", "TextRegisters": "get_texts",
	"EnumRegisters": "get_enums", "FieldListRegisters": "get_fieldlists"}
var regFieldSet = map[string]string{"NumberRegisters": "set_numbers", "TextRegisters": "set_texts",
	"EnumRegisters": "set_enums", "FieldListRegisters": "set_fieldlists"}

func isRegisterish(ty types.Type) bool {
	if isRegStruct(ty) {
		return true
	}
	switch typeName(ty) {
	case "veregister.Register", "NumberRegisterStruct", "TextRegisterStruct", "EnumRegisterStruct", "FieldListRegisterStruct", "Register":
		return true
	}
	if tp, ok := ty.(*types.TypeParam); ok {
		return strings.HasSuffix(typeName(tp.Constraint()), "Register")
	}
	return false
}

func (t *dtr) regType(ty types.Type) string {
	if isRegisterish(ty) {
		return "reg"
	}
	if s, ok := ty.Underlying().(*types.Slice); ok {
		if isRegisterish(s.Elem()) {
			return "(list reg)"
		}
		if isString(s.Elem()) {
			return "(list (list byte))"
		}
	}
	if sg, ok := ty.Underlying().(*types.Signature); ok {
		if sg.Params().Len() == 1 && sg.Results().Len() == 1 && isRegisterish(sg.Params().At(0).Type()) && isBool(sg.Results().At(0).Type()) {
			return "(reg -> D bool)"
		}
	}
	return ""
}

func (t *dtr) regCall(x *ast.CallExpr, tv types.TypeAndValue) ([]bnd, string, bool) {
	// r.Name(), r.Sort() on a register
	if sel, ok := x.Fun.(*ast.SelectorExpr); ok && len(x.Args) == 0 {
		if rtv, ok := t.info.Types[sel.X]; ok && isRegisterish(rtv.Type) {
			f := map[string]string{"Name": "name_bytes", "Sort": "r_sort", "Address": "r_addr"}[sel.Sel.Name]
			if f != "" {
				p, r := t.ex(sel.X)
				return p, fmt.Sprintf("(%s %s)", f, r), true
			}
		}
	}
	// f(r) for a predicate parameter
	if id, ok := x.Fun.(*ast.Ident); ok {
		if obj, isVar := t.info.Uses[id].(*types.Var); isVar && t.coqType(obj.Type()) == "(reg -> D bool)" && len(x.Args) == 1 {
			p, a := t.ex(x.Args[0])
			v := t.tmp()
			return append(p, bnd{v, t.varName(id) + " " + a, false}), v, true
		}
	}
	// sort.SliceStable(l, func(i, j int) bool { return l[i].Sort() < l[j].Sort() })
	if types.ExprString(x.Fun) == "sort.SliceStable" && len(x.Args) == 2 {
		lid, ok := x.Args[0].(*ast.Ident)
		fl, ok2 := x.Args[1].(*ast.FuncLit)
		if !ok || !ok2 || t.coqType(t.info.Types[lid].Type) != "(list reg)" || len(fl.Body.List) != 1 {
			t.bad(x, "SliceStable form")
		}
		var pn []string
		for _, p := range fl.Type.Params.List {
			for _, n := range p.Names {
				pn = append(pn, n.Name)
			}
		}
		r, ok := fl.Body.List[0].(*ast.ReturnStmt)
		if !ok || len(r.Results) != 1 || len(pn) != 2 {
			t.bad(x, "SliceStable comparison")
		}
		want := fmt.Sprintf("%s[%s].Sort() < %s[%s].Sort()", lid.Name, pn[0], lid.Name, pn[1])
		if types.ExprString(r.Results[0]) != want {
			t.bad(x, "SliceStable comparison %s", types.ExprString(r.Results[0]))
		}
		// the slice is sorted in place: re-bind the variable
		n := t.varName(lid)
		return []bnd{{n, "g_sort_stable_by_sort " + n, true}}, "tt", true
	}
	return nil, "", false
}

// funcLit translates a function literal passed as a predicate: fun v_r => <body> : reg -> D bool
func (t *dtr) funcLit(fl *ast.FuncLit) string {
	if t.coqType(t.info.Types[fl].Type) != "(reg -> D bool)" {
		t.bad(fl, "function literal of type %s", t.info.Types[fl].Type)
	}
	savedVars, savedTypes := t.resultVars, t.resultTypes
	t.resultVars = nil
	t.resultTypes = []types.Type{t.info.Types[fl].Type.(*types.Signature).Results().At(0).Type()}
	pn := t.declare(t.info.Defs[fl.Type.Params.List[0].Names[0]])
	if !terminates(fl.Body.List) {
		t.bad(fl, "function literal does not end in return")
	}
	c := &dctx{retT: func(tp string) string { return "ret " + tp }, fall: func() string { t.bad(fl, "fall off a function literal"); return "" }}
	body := t.stmts(fl.Body.List, c)
	t.resultVars, t.resultTypes = savedVars, savedTypes
	return fmt.Sprintf("(fun %s =>\n  %s)", pn, body)
}

var _ = token.NoPos
