// gvgen regenerates, from /repo's current working tree, the Coq files the theorems are
// proved against: observation tables (dump) and the translated BLE decoders (ble).
package main

import (
	"fmt"
	"os"
)

func main() {
	if len(os.Args) < 4 {
		fmt.Fprintln(os.Stderr, "usage: gvgen dump|ble|alias|drv|api|reg|enum|blehandler|dbg|flog <repo> <outfile>")
		os.Exit(2)
	}
	switch os.Args[1] {
	case "dump":
		dump(os.Args[2], os.Args[3])
	case "ble":
		translateBle(os.Args[2], os.Args[3])
	case "alias":
		translateAlias(os.Args[2], os.Args[3])
	case "drv":
		translateDrv(os.Args[2], os.Args[3])
	case "api":
		translateApi(os.Args[2], os.Args[3])
	case "reg":
		translateReg(os.Args[2], os.Args[3])
	case "enum":
		translateEnum(os.Args[2], os.Args[3])
	case "blehandler":
		translateBleHandler(os.Args[2], os.Args[3])
	case "dbg":
		translateDbg(os.Args[2], os.Args[3])
	case "flog":
		translateFlog(os.Args[2], os.Args[3])
	default:
		fmt.Fprintln(os.Stderr, "unknown subcommand")
		os.Exit(2)
	}
}
