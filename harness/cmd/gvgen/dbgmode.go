package main

// GoLite-D for vd.debugPrintf alone (the calls of it are dropped from the driver translation): the
// indentation counter is the state, the text is not modelled.

import (
	"fmt"
	"go/ast"
	"go/constant"
	"go/types"
	"strings"
)

func (t *dtr) dbgCall(x *ast.CallExpr, tv types.TypeAndValue) ([]bnd, string, bool) {
	fn := types.ExprString(x.Fun)
	switch fn {
	case "strings.Contains":
		nv := t.info.Types[x.Args[1]].Value
		if nv == nil || nv.Kind() != constant.String {
			t.bad(x, "Contains with a non-constant needle")
		}
		p, a := t.ex(x.Args[0])
		var bs []string
		for _, c := range []byte(constant.StringVal(nv)) {
			bs = append(bs, fmt.Sprintf("%d", c))
		}
		return p, fmt.Sprintf("(g_contains %s (map zb [%s]))", a, strings.Join(bs, "; ")), true
	case "fmt.Sprintf", "strings.Replace":
		// the text of the debug line is not modelled; the arguments must not have effects
		for _, a := range x.Args {
			if p, _ := t.exAllowVariadic(a); len(p) != 0 {
				t.bad(x, "debug text with an effect")
			}
		}
		return nil, "g_text", true
	case "strings.Repeat":
		p, a := t.ex(x.Args[1])
		v := t.tmp()
		return append(p, bnd{v, "g_repeat_text " + a, false}), v, true
	}
	if sel, ok := x.Fun.(*ast.SelectorExpr); ok && sel.Sel.Name == "Println" && t.cfgFlag(sel.X) == "cfg_debug c" {
		var pre []bnd
		for _, a := range x.Args {
			p, _ := t.ex(a)
			pre = append(pre, p...)
		}
		v := t.tmp()
		return append(pre, bnd{v, "p_debug_println", false}), v, true
	}
	return nil, "", false
}

// exAllowVariadic: an argument that may be the variadic parameter itself (v...)
func (t *dtr) exAllowVariadic(a ast.Expr) ([]bnd, string) {
	if id, ok := a.(*ast.Ident); ok {
		if obj := t.info.Uses[id]; obj != nil && t.ignored[obj] {
			return nil, "tt"
		}
	}
	return t.ex(a)
}
