package main

// GoLite-D -> Gallina translator for /repo/vedirect (tie T-gen for the serial driver).
//
// Every function and method of package vedirect that the typed calls reach is translated into a
// term of the state-and-panic monad of coq/Vedirect/DrvSem.v.  Subset: assignments and
// definitions (also of several values), var declarations, if (init / else), switch on a value,
// `for i := a; i < b; i++`, `for {}`, `for i, b := range []byte`, continue / break / return, the
// leading `if cond { ...; defer func(){...}() }` and `defer call` forms, integer expressions with
// Go's typing, comparisons, && and || (short-circuit), indexing, slicing, append, make, len,
// conversions, and the library calls the package uses (listed in libCall / the patterns below).
// Calls of vd.debugPrintf are dropped (the debug text is not modelled) after checking that their
// arguments have no effects.  Anything else stops the translation with file, line and construct.

import (
	"fmt"
	"go/ast"
	"go/constant"
	"go/importer"
	"go/parser"
	"go/token"
	"go/types"
	"os"
	"path/filepath"
	"sort"
	"strings"
)

type dtr struct {
	fset  *token.FileSet
	info  *types.Info
	pkg   *types.Package
	funcs map[string]*ast.FuncDecl // by name ("computeChecksum", "VeCommandGet", ...)
	fresh int
	names map[types.Object]string // Coq name of a Go variable
	used  map[string]int
	recv  types.Object // the receiver variable of the method being translated
	ignored map[types.Object]bool
	resultVars []types.Object // named results (nil if unnamed)
	resultTypes []types.Type
	calls map[string]bool // functions called by the one being translated
	curFunc string
	curDecl *ast.FuncDecl
	nOracle int // map iterations of the function being translated (one order oracle each)
	curKey  string // enum mode: <method>_<receiver type>
	mode    string // "drv" (package vedirect) or "api" (package vedirectapi)
}

type bnd struct {
	pat, m string // bind (m) (fun pat => ...)   or, if pure, let pat := m in ...
	pure   bool
}

// trErr: a construct outside the subset; caught per function so that every failing function is reported
type trErr struct{ msg string }

func (t *dtr) bad(n ast.Node, format string, a ...any) {
	pos := t.fset.Position(n.Pos())
	panic(trErr{fmt.Sprintf("outside GoLite-D: %s:%d (function %s): %s", pos.Filename, pos.Line, t.curFunc, fmt.Sprintf(format, a...))})
}

func (t *dtr) tmp() string {
	t.fresh++
	return fmt.Sprintf("t%d", t.fresh)
}

func wrapBinds(pre []bnd, body string) string {
	out := body
	for i := len(pre) - 1; i >= 0; i-- {
		b := pre[i]
		if b.pure {
			out = fmt.Sprintf("let %s := %s in\n  %s", b.pat, b.m, out)
		} else {
			out = fmt.Sprintf("bind (%s) (fun %s =>\n  %s)", b.m, b.pat, out)
		}
	}
	return out
}

// ---- types ----

func (t *dtr) coqType(ty types.Type) string {
	if _, _, ok := intKind(ty); ok {
		return "Z"
	}
	if isByteSlice(ty) {
		return "(list byte)"
	}
	if isError(ty) {
		return "gerr"
	}
	if isBool(ty) {
		return "bool"
	}
	if b, ok := ty.Underlying().(*types.Basic); ok && (b.Kind() == types.String || b.Kind() == types.UntypedString) {
		return "(list byte)"
	}
	switch ty.String() {
	case "time.Time":
		return "unit"
	case "*bytes.Reader":
		return "(list byte)"
	}
	if t.mode == "api" {
		return t.apiType(ty)
	}
	if t.mode == "reg" {
		return t.regType(ty)
	}
	if t.mode == "ble" {
		return t.bleType(ty)
	}
	if t.mode == "flog" {
		switch ty.String() {
		case "*os.File", "*bufio.Writer":
			return "unit"
		case "*github.com/koestler/go-victron/vedirectapi.FileLogger":
			return "(option unit)"
		}
	}
	if t.mode == "enum" {
		switch typeName(ty) {
		case "veconst.Enum":
			return "(Z * string)"
		case "veconst.FieldList":
			return "Z"
		}
	}
	return ""
}

func (t *dtr) zero(ty types.Type) string {
	switch t.coqType(ty) {
	case "Z":
		return "0"
	case "(list byte)":
		return "(@nil byte)"
	case "gerr":
		return "(@None err)"
	case "bool":
		return "false"
	case "unit":
		return "tt"
	case "Q":
		return "(inject_Z 0)"
	case "(Z * string)":
		return "(0, EmptyString)"
	case "(list (Z * bool))":
		return "(@nil (Z * bool))"
	case "(option apiobj)":
		return "(@None apiobj)"
	case "(list reg)":
		return "(@nil reg)"
	case "(option devcfg)":
		return "(@None devcfg)"
	case "(option unit)":
		return "(@None unit)"
	case "regvalues":
		return "(mkRV [] [] [] [])" // four nil maps: read like empty ones; the collectors may only write to made ones (checked at the call)
	}
	return ""
}

func isString(ty types.Type) bool {
	b, ok := ty.Underlying().(*types.Basic)
	return ok && (b.Kind() == types.String || b.Kind() == types.UntypedString)
}

func (t *dtr) tupleType(tys []types.Type, at ast.Node) string {
	if len(tys) == 0 {
		return "unit"
	}
	var parts []string
	for _, ty := range tys {
		c := t.coqType(ty)
		if c == "" {
			t.bad(at, "type %s", ty)
		}
		parts = append(parts, c)
	}
	if len(parts) == 1 {
		return parts[0]
	}
	return "(" + strings.Join(parts, " * ") + ")"
}

func tuple(parts []string) string {
	if len(parts) == 0 {
		return "tt"
	}
	if len(parts) == 1 {
		return parts[0]
	}
	return "(" + strings.Join(parts, ", ") + ")"
}

func tuplePat(parts []string) string {
	if len(parts) == 0 {
		return "_"
	}
	if len(parts) == 1 {
		return parts[0]
	}
	return "'(" + strings.Join(parts, ", ") + ")"
}

// ---- variables ----

func (t *dtr) declare(obj types.Object) string {
	base := "v_" + obj.Name()
	n := t.used[base]
	t.used[base] = n + 1
	name := base
	if n > 0 {
		name = fmt.Sprintf("%s_%d", base, n)
	}
	t.names[obj] = name
	return name
}

func (t *dtr) varName(id *ast.Ident) string {
	obj := t.info.Uses[id]
	if obj == nil {
		obj = t.info.Defs[id]
	}
	if obj == nil {
		t.bad(id, "unresolved identifier %s", id.Name)
	}
	if t.ignored[obj] {
		t.bad(id, "use of the log-text parameter %s outside a log text", id.Name)
	}
	if n, ok := t.names[obj]; ok {
		return n
	}
	t.bad(id, "identifier %s is not a local variable", id.Name)
	return ""
}

var errVars = map[string]string{"ErrUnknownId": "EUnknownId", "ErrorNotSupported": "ENotSupported", "ErrorParameterError": "EParameter"}
var apiErrVars = map[string]string{"ErrCtxDone": "ECtxDone"}

func (t *dtr) errVarTable() map[string]string {
	if t.mode == "api" {
		return apiErrVars
	}
	if t.mode == "reg" {
		return map[string]string{}
	}
	if t.mode == "enum" {
		return map[string]string{"ErrInvalidEnumIdx": "EInvalidEnumIdx"}
	}
	if t.mode == "ble" || t.mode == "dbg" || t.mode == "flog" {
		return map[string]string{}
	}
	return errVars
}

// ---- purity (for dropped log texts) ----

func (t *dtr) effectFree(e ast.Expr) bool {
	ok := true
	ast.Inspect(e, func(n ast.Node) bool {
		switch x := n.(type) {
		case *ast.CallExpr:
			if tv, isT := t.info.Types[x.Fun]; isT && tv.IsType() {
				return true
			}
			switch types.ExprString(x.Fun) {
			case "len", "fmt.Sprintf", "byte":
				return true
			}
			if (t.mode == "api" || t.mode == "reg") && t.regAccessor(x) != "" {
				return true
			}
			ok = false
		case *ast.IndexExpr, *ast.SliceExpr, *ast.FuncLit, *ast.StarExpr:
			ok = false
		case *ast.UnaryExpr:
			if x.Op == token.ARROW || x.Op == token.AND {
				ok = false
			}
		case *ast.BinaryExpr:
			if x.Op == token.QUO || x.Op == token.REM {
				ok = false
			}
		}
		return ok
	})
	return ok
}

func (t *dtr) isDebugCall(e ast.Expr) bool {
	call, ok := e.(*ast.CallExpr)
	if !ok {
		return false
	}
	sel, ok := call.Fun.(*ast.SelectorExpr)
	if !ok || sel.Sel.Name != "debugPrintf" || !t.isRecv(sel.X) {
		return false
	}
	for _, a := range call.Args {
		if !t.effectFree(a) {
			t.bad(a, "argument of debugPrintf with an effect")
		}
	}
	return true
}

func (t *dtr) isRecv(e ast.Expr) bool {
	id, ok := e.(*ast.Ident)
	return ok && t.recv != nil && t.info.Uses[id] == t.recv
}

// droppable: a statement that only writes debug text
func (t *dtr) droppable(s ast.Stmt) bool {
	switch x := s.(type) {
	case *ast.ExprStmt:
		return t.isDebugCall(x.X)
	case *ast.DeferStmt:
		if t.isDebugCall(x.Call) {
			return true
		}
		if fl, ok := x.Call.Fun.(*ast.FuncLit); ok && len(x.Call.Args) == 0 {
			return t.allDroppable(fl.Body.List)
		}
	case *ast.IfStmt:
		if x.Init != nil || !t.effectFree(x.Cond) {
			return false
		}
		if !t.allDroppable(x.Body.List) {
			return false
		}
		switch e := x.Else.(type) {
		case nil:
			return true
		case *ast.BlockStmt:
			return t.allDroppable(e.List)
		case *ast.IfStmt:
			return t.droppable(e)
		}
	}
	return false
}

func (t *dtr) allDroppable(l []ast.Stmt) bool {
	for _, s := range l {
		if !t.droppable(s) {
			return false
		}
	}
	return true
}

// ---- expressions ----

// cfgFlag recognises vd.cfg.DebugLogger / vd.cfg.IoLogger
func (t *dtr) cfgFlag(e ast.Expr) string {
	sel, ok := e.(*ast.SelectorExpr)
	if !ok {
		return ""
	}
	in, ok := sel.X.(*ast.SelectorExpr)
	if !ok || in.Sel.Name != "cfg" || !t.isRecv(in.X) {
		return ""
	}
	switch sel.Sel.Name {
	case "DebugLogger":
		return "cfg_debug c"
	case "IoLogger":
		return "cfg_iolog c"
	}
	return ""
}

func isNilIdent(e ast.Expr) bool {
	id, ok := e.(*ast.Ident)
	return ok && id.Name == "nil"
}

var fieldGet = map[string]string{"logIoTxBuff": "get_io_tx", "logIoRxBuff": "get_io_rx"}
var fieldSet = map[string]string{"logIoTxBuff": "set_io_tx", "logIoRxBuff": "set_io_rx"}

// ex translates e; effects (calls, indexing, field reads) are hoisted into pre in evaluation order
func (t *dtr) ex(e ast.Expr) (pre []bnd, term string) {
	tv := t.info.Types[e]
	if tv.Value != nil {
		switch tv.Value.Kind() {
		case constant.Int:
			return nil, zlit(tv.Value)
		case constant.Bool:
			return nil, tv.Value.String()
		case constant.String:
			str := constant.StringVal(tv.Value)
			if str == "" {
				return nil, "(@nil byte)"
			}
			var bs []string
			for _, c := range []byte(str) {
				bs = append(bs, fmt.Sprintf("%d", c))
			}
			return nil, "(map zb [" + strings.Join(bs, "; ") + "])"
		case constant.Float:
			if t.mode == "api" {
				if v, ok := constant.Int64Val(constant.ToInt(tv.Value)); ok && constant.ToInt(tv.Value).Kind() == constant.Int {
					return nil, fmt.Sprintf("(inject_Z %d)", v)
				}
			}
		}
		t.bad(e, "constant of kind %v", tv.Value.Kind())
	}
	switch x := e.(type) {
	case *ast.ParenExpr:
		return t.ex(x.X)
	case *ast.Ident:
		if x.Name == "nil" {
			if isError(tv.Type) || tv.Type == types.Typ[types.UntypedNil] {
				return nil, "None"
			}
			t.bad(e, "nil of type %s", tv.Type)
		}
		if ev, ok := t.errVarTable()[x.Name]; ok {
			if obj, isVar := t.info.Uses[x].(*types.Var); isVar && obj.Parent() == t.pkg.Scope() {
				return nil, "(Some " + ev + ")"
			}
		}
		return nil, t.varName(x)
	case *ast.SelectorExpr:
		if t.isRecv(x.X) {
			if g, ok := fieldGet[x.Sel.Name]; ok {
				v := t.tmp()
				return []bnd{{v, g, false}}, v
			}
		}
		if t.mode == "api" {
			if s := t.apiSelector(x); s != "" {
				return nil, s
			}
		}
		if t.mode == "dbg" && t.isRecv(x.X) && x.Sel.Name == "logDebugIndent" {
			v := t.tmp()
			return []bnd{{v, "get_indent", false}}, v
		}
		if t.mode == "reg" && t.isRecv(x.X) {
			if g, ok := regFieldGet[x.Sel.Name]; ok {
				v := t.tmp()
				return []bnd{{v, g, false}}, v
			}
		}
		t.bad(e, "selector %s", types.ExprString(e))
	case *ast.IndexExpr:
		if !isByteSlice(t.info.Types[x.X].Type) {
			t.bad(e, "index of a non-[]byte value")
		}
		p1, a := t.ex(x.X)
		p2, i := t.ex(x.Index)
		v := t.tmp()
		return append(append(p1, p2...), bnd{v, fmt.Sprintf("g_index %s %s", a, i), false}), v
	case *ast.SliceExpr:
		if x.Slice3 || !isByteSlice(t.info.Types[x.X].Type) {
			t.bad(e, "slice expression")
		}
		p, a := t.ex(x.X)
		lo, hi := "0", fmt.Sprintf("(g_len %s)", a)
		if x.Low != nil {
			var q []bnd
			q, lo = t.ex(x.Low)
			p = append(p, q...)
		}
		if x.High != nil {
			var q []bnd
			q, hi = t.ex(x.High)
			p = append(p, q...)
		}
		v := t.tmp()
		return append(p, bnd{v, fmt.Sprintf("g_slice %s %s %s", a, lo, hi), false}), v
	case *ast.CompositeLit:
		if t.mode == "api" && typeName(tv.Type) == "vedirectapi.RegisterApi" {
			for _, el := range x.Elts {
				kv, ok := el.(*ast.KeyValueExpr)
				if !ok || types.ExprString(kv.Key) != "ioPort" {
					t.bad(e, "RegisterApi literal")
				}
				if p, _ := t.ex(kv.Value); len(p) != 0 {
					t.bad(e, "RegisterApi literal with an effect")
				}
			}
			return nil, "(mkApi 0 empty_reglist)"
		}
		if t.mode == "api" && typeName(tv.Type) == "vedirectapi.RegisterValues" {
			// RegisterValues{NumberValues: make(map[string]NumberRegisterValue, n), ...}: four fresh, empty maps
			want := map[string]string{"NumberValues": "map[string]vedirectapi.NumberRegisterValue", "TextValues": "map[string]vedirectapi.TextRegisterValue",
				"EnumValues": "map[string]vedirectapi.EnumRegisterValue", "FieldListValues": "map[string]vedirectapi.FieldListValue"}
			seen := map[string]bool{}
			for _, el := range x.Elts {
				kv, ok := el.(*ast.KeyValueExpr)
				if !ok {
					t.bad(e, "RegisterValues literal")
				}
				k := types.ExprString(kv.Key)
				mk, ok := kv.Value.(*ast.CallExpr)
				if !ok || types.ExprString(mk.Fun) != "make" || len(mk.Args) < 1 || len(mk.Args) > 2 || want[k] == "" || seen[k] ||
					strings.ReplaceAll(t.info.Types[mk.Args[0]].Type.String(), "github.com/koestler/go-victron/", "") != want[k] {
					t.bad(e, "RegisterValues literal: field %s is not a fresh map", k)
				}
				if len(mk.Args) == 2 && !t.effectFree(mk.Args[1]) {
					t.bad(e, "RegisterValues literal: capacity with an effect")
				}
				seen[k] = true
			}
			if len(seen) != 4 {
				t.bad(e, "RegisterValues literal: %d of 4 maps", len(seen))
			}
			return nil, "(mkRV [] [] [] [])"
		}
		if !isByteSlice(tv.Type) {
			t.bad(e, "composite literal of type %s", tv.Type)
		}
		var parts []string
		for _, el := range x.Elts {
			if _, isKV := el.(*ast.KeyValueExpr); isKV {
				t.bad(e, "keyed composite literal")
			}
			q, s := t.ex(el)
			pre = append(pre, q...)
			parts = append(parts, "zb "+s)
		}
		return pre, "[" + strings.Join(parts, "; ") + "]"
	case *ast.UnaryExpr:
		if cl, isLit := x.X.(*ast.CompositeLit); isLit && x.Op == token.AND && t.mode == "flog" {
			for _, el := range cl.Elts {
				kv, ok := el.(*ast.KeyValueExpr)
				if !ok {
					t.bad(e, "FileLogger literal")
				}
				if p, _ := t.ex(kv.Value); len(p) != 0 {
					t.bad(e, "FileLogger literal with an effect")
				}
			}
			return nil, "(Some tt)"
		}
		if x.Op == token.AND && t.mode == "api" && t.isApiObj(x.X) {
			return nil, "(Some " + t.varName(x.X.(*ast.Ident)) + ")"
		}
		p, a := t.ex(x.X)
		switch x.Op {
		case token.SUB:
			w := arithWrap(tv.Type)
			if w == "" {
				t.bad(e, "unary minus on %s", tv.Type)
			}
			return p, unwrapId(fmt.Sprintf("(%s (Z.opp %s))", w, a))
		case token.NOT:
			return p, fmt.Sprintf("(negb %s)", a)
		case token.ADD:
			return p, a
		}
		t.bad(e, "unary operator %s", x.Op)
	case *ast.BinaryExpr:
		return t.binary(x, tv)
	case *ast.CallExpr:
		return t.call(x, tv)
	case *ast.FuncLit:
		if t.mode == "reg" {
			return nil, t.funcLit(x)
		}
	}
	t.bad(e, "expression %T", e)
	return nil, ""
}

func (t *dtr) binary(x *ast.BinaryExpr, tv types.TypeAndValue) ([]bnd, string) {
	lt := t.info.Types[x.X].Type
	rt := t.info.Types[x.Y].Type
	switch x.Op {
	case token.LAND, token.LOR:
		p1, a := t.ex(x.X)
		p2, b := t.ex(x.Y)
		if len(p2) == 0 {
			op := "andb"
			if x.Op == token.LOR {
				op = "orb"
			}
			return p1, fmt.Sprintf("(%s %s %s)", op, a, b)
		}
		// short circuit: the right operand is evaluated only if needed
		v := t.tmp()
		rhs := wrapBinds(p2, "ret "+b)
		m := fmt.Sprintf("if %s then %s else ret false", a, rhs)
		if x.Op == token.LOR {
			m = fmt.Sprintf("if %s then ret true else %s", a, rhs)
		}
		return append(p1, bnd{v, m, false}), v
	case token.EQL, token.NEQ, token.LSS, token.LEQ, token.GTR, token.GEQ:
		// the idle test of sendReceive
		if x.Op == token.GTR {
			if call, ok := x.X.(*ast.CallExpr); ok {
				if sel, ok := call.Fun.(*ast.SelectorExpr); ok && sel.Sel.Name == "Sub" && t.info.Types[sel.X].Type.String() == "time.Time" {
					arg, ok := call.Args[0].(*ast.SelectorExpr)
					rv := t.info.Types[x.Y]
					if !ok || !t.isRecv(arg.X) || arg.Sel.Name != "lastSent" || rv.Value == nil || rv.Type.String() != "time.Duration" {
						t.bad(x, "time comparison form")
					}
					if d, exact := constant.Int64Val(rv.Value); !exact || d != 100_000_000 {
						t.bad(x, "idle threshold is not 100 ms")
					}
					if _, isId := sel.X.(*ast.Ident); !isId {
						t.bad(x, "time comparison form")
					}
					v := t.tmp()
					return []bnd{{v, "p_idle", false}}, v
				}
			}
		}
		// nil tests
		if isNilIdent(x.X) || isNilIdent(x.Y) {
			other := x.X
			if isNilIdent(x.X) {
				other = x.Y
			}
			var r string
			var p []bnd
			if f := t.handlerFlag(other); f != "" {
				if x.Op == token.NEQ {
					return nil, f
				} else if x.Op == token.EQL {
					return nil, "(negb " + f + ")"
				}
				t.bad(x, "ordering with nil")
			}
			if f := t.cfgFlag(other); f != "" {
				if x.Op == token.NEQ {
					return nil, "(" + f + ")"
				} else if x.Op == token.EQL {
					return nil, "(negb (" + f + "))"
				}
				t.bad(x, "ordering with nil")
			} else if isError(t.info.Types[other].Type) {
				var o string
				p, o = t.ex(other)
				r = "(gerr_isnil " + o + ")"
			} else {
				t.bad(x, "nil comparison of %s", t.info.Types[other].Type)
			}
			if x.Op == token.NEQ {
				r = "(negb " + r + ")"
			} else if x.Op != token.EQL {
				t.bad(x, "ordering with nil")
			}
			return p, r
		}
		if isString(lt) && isString(rt) && (x.Op == token.EQL || x.Op == token.NEQ) {
			p1, a := t.ex(x.X)
			p2, b := t.ex(x.Y)
			r := fmt.Sprintf("(g_bytes_eqb %s %s)", a, b)
			if x.Op == token.NEQ {
				r = "(negb " + r + ")"
			}
			return append(p1, p2...), r
		}
		if _, _, ok := intKind(lt); !ok {
			t.bad(x, "comparison of %s", lt)
		}
		if _, _, ok := intKind(rt); !ok {
			t.bad(x, "comparison of %s", rt)
		}
		p1, a := t.ex(x.X)
		p2, b := t.ex(x.Y)
		op := map[token.Token]string{token.EQL: "(%s =? %s)", token.NEQ: "(negb (%s =? %s))", token.LSS: "(%s <? %s)",
			token.LEQ: "(%s <=? %s)", token.GTR: "(%s >? %s)", token.GEQ: "(%s >=? %s)"}[x.Op]
		return append(p1, p2...), fmt.Sprintf(op, a, b)
	}
	if t.mode == "ble" && x.Op == token.REM {
		if yv := t.info.Types[x.Y]; yv.Value == nil {
			p1, a := t.ex(x.X)
			p2, b := t.ex(x.Y)
			v := t.tmp()
			return append(append(p1, p2...), bnd{v, fmt.Sprintf("g_rem %s %s", a, b), false}), v
		}
	}
	if t.mode == "api" && isFloat(tv.Type) {
		op := map[token.Token]string{token.ADD: "Qplus", token.SUB: "Qminus", token.MUL: "Qmult", token.QUO: "Qdiv"}[x.Op]
		if op == "" {
			t.bad(x, "float operator %s", x.Op)
		}
		p1, a := t.ex(x.X)
		p2, b := t.ex(x.Y)
		return append(p1, p2...), fmt.Sprintf("(%s %s %s)", op, a, b)
	}
	w := arithWrap(tv.Type)
	if w == "" {
		t.bad(x, "binary operator %s on %s", x.Op, tv.Type)
	}
	p1, a := t.ex(x.X)
	p2, b := t.ex(x.Y)
	return append(p1, p2...), t.arith(x, x.Op, w, a, b, x.Y)
}

// arithWrap: the wrap of an arithmetic result.  Go's `int` (lengths, indices, counters) is modelled
// without wrap-around -- a slice cannot be long enough to overflow it -- so that no theorem needs a
// bound on list lengths; every sized type, and every conversion (also to int), wraps.
func unwrapId(s string) string {
	if strings.HasPrefix(s, "(id (") && strings.HasSuffix(s, "))") {
		return s[4 : len(s)-1]
	}
	return s
}

func arithWrap(ty types.Type) string {
	if b, ok := ty.Underlying().(*types.Basic); ok && (b.Kind() == types.Int || b.Kind() == types.UntypedInt) {
		return "id"
	}
	return wrapFn(ty)
}

func (t *dtr) arith(at ast.Node, op token.Token, w, a, b string, y ast.Expr) string {
	switch op {
	case token.QUO, token.REM:
		yv := t.info.Types[y]
		if yv.Value == nil || constant.Sign(yv.Value) == 0 {
			t.bad(at, "division by a non-constant or zero divisor")
		}
		if op == token.QUO {
			return unwrapId(fmt.Sprintf("(%s (Z.quot %s %s))", w, a, b))
		}
		return unwrapId(fmt.Sprintf("(%s (Z.rem %s %s))", w, a, b))
	case token.SHL, token.SHR:
		if _, signed, _ := intKind(t.info.Types[y].Type); signed && t.info.Types[y].Value == nil {
			t.bad(at, "shift by a signed non-constant count")
		}
	}
	f := map[token.Token]string{token.ADD: "Z.add %s %s", token.SUB: "Z.sub %s %s", token.MUL: "Z.mul %s %s",
		token.AND: "Z.land %s %s", token.OR: "Z.lor %s %s", token.XOR: "Z.lxor %s %s", token.AND_NOT: "Z.ldiff %s %s",
		token.SHL: "Z.shiftl %s %s", token.SHR: "Z.shiftr %s %s"}[op]
	if f == "" {
		t.bad(at, "integer operator %s", op)
	}
	return unwrapId(fmt.Sprintf("(%s (%s))", w, fmt.Sprintf(f, a, b)))
}

func (t *dtr) args(list []ast.Expr) (pre []bnd, terms []string) {
	for _, a := range list {
		p, s := t.ex(a)
		pre = append(pre, p...)
		terms = append(terms, s)
	}
	return
}

// sprintf translates fmt.Sprintf with a constant format of literal text and the verbs %X (uint8
// value or []byte) and %02X (uint8 value)
func (t *dtr) sprintf(call *ast.CallExpr) ([]bnd, string) {
	fv := t.info.Types[call.Args[0]].Value
	if fv == nil || fv.Kind() != constant.String {
		t.bad(call, "Sprintf with a non-constant format")
	}
	format := constant.StringVal(fv)
	pre, argv := t.args(call.Args[1:])
	var parts []string
	lit := func(s string) {
		if s == "" {
			return
		}
		var bs []string
		for _, c := range []byte(s) {
			bs = append(bs, fmt.Sprintf("%d", c))
		}
		parts = append(parts, "map zb ["+strings.Join(bs, "; ")+"]")
	}
	ai := 0
	for len(format) > 0 {
		i := strings.IndexByte(format, '%')
		if i < 0 {
			lit(format)
			break
		}
		lit(format[:i])
		format = format[i:]
		var verb string
		switch {
		case strings.HasPrefix(format, "%02X"):
			verb = "%02X"
		case strings.HasPrefix(format, "%X"):
			verb = "%X"
		default:
			t.bad(call, "Sprintf verb in %q", format)
		}
		format = format[len(verb):]
		if ai >= len(argv) {
			t.bad(call, "Sprintf: too few arguments")
		}
		at := t.info.Types[call.Args[1+ai]].Type
		bits, signed, isInt := intKind(at)
		switch {
		case verb == "%X" && isByteSlice(at):
			parts = append(parts, "fmt_X_bytes "+argv[ai])
		case verb == "%X" && isInt && bits == 8 && !signed:
			parts = append(parts, "fmt_X8 "+argv[ai])
		case verb == "%02X" && isInt && bits == 8 && !signed:
			parts = append(parts, "fmt_02X8 "+argv[ai])
		default:
			t.bad(call, "Sprintf %s of %s", verb, at)
		}
		ai++
	}
	if ai != len(argv) {
		t.bad(call, "Sprintf: too many arguments")
	}
	if len(parts) == 0 {
		return pre, "[]"
	}
	return pre, "(" + strings.Join(parts, " ++ ") + ")"
}

// errorf: the class of fmt.Errorf(...): that of the %w argument, otherwise "other"
func (t *dtr) errorf(call *ast.CallExpr) ([]bnd, string) {
	fv := t.info.Types[call.Args[0]].Value
	if fv == nil || fv.Kind() != constant.String {
		t.bad(call, "Errorf with a non-constant format")
	}
	format := constant.StringVal(fv)
	for _, a := range call.Args[1:] {
		if !t.effectFree(a) {
			t.bad(a, "argument of Errorf with an effect")
		}
	}
	if strings.Count(format, "%w") == 0 {
		return nil, "(Some EOther)"
	}
	if strings.Count(format, "%w") > 1 {
		t.bad(call, "Errorf with several %%w")
	}
	// index of the %w verb among the verbs
	idx := 0
	for i := 0; i+1 < len(format); i++ {
		if format[i] != '%' {
			continue
		}
		if format[i+1] == '%' {
			i++
			continue
		}
		j := i + 1
		for j < len(format) && strings.IndexByte("+-# 0123456789.", format[j]) >= 0 {
			j++
		}
		if j < len(format) && format[j] == 'w' {
			break
		}
		idx++
		i = j
	}
	if 1+idx >= len(call.Args) || !isError(t.info.Types[call.Args[1+idx]].Type) {
		t.bad(call, "Errorf: %%w argument")
	}
	p, e := t.ex(call.Args[1+idx])
	if t.mode == "api" {
		for _, a := range call.Args[1:] {
			if c, ok := a.(*ast.CallExpr); ok && t.regAccessor(c) == "name_bytes" {
				_, r := t.ex(c.Fun.(*ast.SelectorExpr).X)
				return p, fmt.Sprintf("(gerr_wrap_name (name_bytes %s) %s)", r, e)
			}
		}
	}
	return p, "(gerr_wrap " + e + ")"
}

func (t *dtr) call(x *ast.CallExpr, tv types.TypeAndValue) ([]bnd, string) {
	// conversion
	if ftv, ok := t.info.Types[x.Fun]; ok && ftv.IsType() {
		if len(x.Args) != 1 {
			t.bad(x, "conversion with %d arguments", len(x.Args))
		}
		at := t.info.Types[x.Args[0]].Type
		p, a := t.ex(x.Args[0])
		to := ftv.Type
		switch {
		case isByteSlice(to) && (isString(at) || isByteSlice(at)), isString(to) && (isByteSlice(at) || isString(at)):
			return p, a
		case isString(to):
			if bits, signed, ok := intKind(at); ok && bits == 8 && !signed {
				return p, "(g_string_of_rune " + a + ")"
			}
			t.bad(x, "conversion of %s to string", at)
		}
		if t.mode == "api" && isFloat(to) {
			if _, _, ok := intKind(at); ok {
				return p, "(inject_Z " + a + ")"
			}
			if isFloat(at) {
				return p, a
			}
			t.bad(x, "conversion of %s to float64", at)
		}
		w := wrapFn(to)
		if w == "" {
			t.bad(x, "conversion to %s", to)
		}
		if _, _, ok := intKind(at); !ok {
			t.bad(x, "conversion of %s to an integer type", at)
		}
		return p, fmt.Sprintf("(%s %s)", w, a)
	}
	if t.mode == "dbg" {
		if p, s, ok := t.dbgCall(x, tv); ok {
			return p, s
		}
	}
	if t.mode == "flog" {
		if p, s, ok := t.flogCall(x, tv); ok {
			return p, s
		}
	}
	fn := types.ExprString(x.Fun)
	switch fn {
	case "len":
		p, a := t.ex(x.Args[0])
		return p, "(g_len " + a + ")"
	case "append":
		if ct := t.coqType(tv.Type); t.mode == "api" && (ct == "(list (Z * string))" || ct == "(list (list byte))" || ct == "(list (reg * gvalue))") && x.Ellipsis == token.NoPos {
			p, a := t.ex(x.Args[0])
			var parts []string
			for _, el := range x.Args[1:] {
				q, s := t.ex(el)
				p = append(p, q...)
				parts = append(parts, s)
			}
			return p, fmt.Sprintf("(%s ++ [%s])", a, strings.Join(parts, "; "))
		}
		if t.mode == "reg" && t.coqType(tv.Type) == "(list reg)" {
			p, a := t.ex(x.Args[0])
			if x.Ellipsis != token.NoPos {
				q, b := t.ex(x.Args[1])
				return append(p, q...), fmt.Sprintf("(%s ++ %s)", a, b)
			}
			var parts []string
			for _, el := range x.Args[1:] {
				q, s := t.ex(el)
				p = append(p, q...)
				parts = append(parts, s)
			}
			return p, fmt.Sprintf("(%s ++ [%s])", a, strings.Join(parts, "; "))
		}
		if !isByteSlice(tv.Type) {
			t.bad(x, "append on %s", tv.Type)
		}
		p, a := t.ex(x.Args[0])
		if x.Ellipsis != token.NoPos {
			q, b := t.ex(x.Args[1])
			return append(p, q...), fmt.Sprintf("(%s ++ %s)", a, b)
		}
		var parts []string
		for _, el := range x.Args[1:] {
			q, s := t.ex(el)
			p = append(p, q...)
			parts = append(parts, "zb "+s)
		}
		return p, fmt.Sprintf("(%s ++ [%s])", a, strings.Join(parts, "; "))
	case "make":
		if ct := t.coqType(tv.Type); t.mode == "api" && ct == "(list (reg * gvalue))" && len(x.Args) >= 2 {
			if lv := t.info.Types[x.Args[1]].Value; lv == nil || lv.ExactString() != "0" {
				t.bad(x, "make with a non-zero length")
			}
			return nil, "(@nil (reg * gvalue))"
		}
		if ct := t.coqType(tv.Type); t.mode == "api" && (ct == "(list (Z * string))" || ct == "(list (list byte))") && len(x.Args) >= 2 {
			if lv := t.info.Types[x.Args[1]].Value; lv == nil || lv.ExactString() != "0" {
				t.bad(x, "make with a non-zero length")
			}
			if ct == "(list (Z * string))" {
				return nil, "(@nil (Z * string))"
			}
			return nil, "(@nil (list byte))"
		}
		if t.mode == "reg" && t.coqType(tv.Type) == "(list reg)" && len(x.Args) >= 2 {
			if lv := t.info.Types[x.Args[1]].Value; lv == nil || lv.ExactString() != "0" {
				t.bad(x, "make of a register slice with a non-zero length")
			}
			for _, a := range x.Args[2:] {
				if p, _ := t.ex(a); len(p) != 0 {
					// the capacity may call rl.Len(): no effect on the state
					_ = p
				}
			}
			return nil, "(@nil reg)"
		}
		if !isByteSlice(tv.Type) || len(x.Args) < 2 {
			t.bad(x, "make of %s", tv.Type)
		}
		p, n := t.ex(x.Args[1])
		if len(x.Args) == 3 && !t.effectFree(x.Args[2]) {
			t.bad(x, "make capacity with an effect")
		}
		v := t.tmp()
		return append(p, bnd{v, "g_make " + n, false}), v
	case "fmt.Sprintf":
		return t.sprintf(x)
	case "fmt.Errorf":
		return t.errorf(x)
	case "binary.LittleEndian.Uint16":
		p, a := t.ex(x.Args[0])
		v := t.tmp()
		return append(p, bnd{v, "g_le16 " + a, false}), v
	case "bytes.NewReader":
		return t.ex(x.Args[0])
	case "time.Now":
		return nil, "tt"
	case "strconv.ParseUint":
		bv, sv := t.info.Types[x.Args[1]].Value, t.info.Types[x.Args[2]].Value
		if bv == nil || sv == nil || bv.ExactString() != "16" || sv.ExactString() != "8" {
			t.bad(x, "ParseUint with base/size other than 16/8")
		}
		p, a := t.ex(x.Args[0])
		return p, "(g_parse_uint_16_8 " + a + ")"
	case "hex.Decode":
		p, a := t.args(x.Args)
		v := t.tmp()
		return append(p, bnd{v, fmt.Sprintf("g_hex_decode %s %s", a[0], a[1]), false}), v
	case "bytes.TrimRightFunc":
		fl, ok := x.Args[1].(*ast.FuncLit)
		if !ok || len(fl.Type.Params.List) != 1 || len(fl.Type.Params.List[0].Names) != 1 || len(fl.Body.List) != 1 {
			t.bad(x, "TrimRightFunc predicate")
		}
		r, ok := fl.Body.List[0].(*ast.ReturnStmt)
		if !ok || len(r.Results) != 1 {
			t.bad(x, "TrimRightFunc predicate")
		}
		be, ok := r.Results[0].(*ast.BinaryExpr)
		if !ok || be.Op != token.EQL {
			t.bad(x, "TrimRightFunc predicate")
		}
		id, ok := be.X.(*ast.Ident)
		zv := t.info.Types[be.Y].Value
		if !ok || id.Name != fl.Type.Params.List[0].Names[0].Name || zv == nil || zv.ExactString() != "0" {
			t.bad(x, "TrimRightFunc predicate")
		}
		p, a := t.ex(x.Args[0])
		return p, "(g_trim_right_nul " + a + ")"
	}
	if t.mode == "api" {
		if p, s, ok := t.apiCall(x, tv); ok {
			return p, s
		}
	}
	if t.mode == "reg" {
		if p, s, ok := t.regCall(x, tv); ok {
			return p, s
		}
	}
	if t.mode == "ble" {
		if p, s, ok := t.bleCall(x, tv); ok {
			return p, s
		}
	}
	if t.mode == "dbg" {
		if p, s, ok := t.dbgCall(x, tv); ok {
			return p, s
		}
	}
	if t.mode == "enum" {
		if sel, ok := x.Fun.(*ast.SelectorExpr); ok && sel.Sel.Name == "New" && t.isRecv(sel.X) && len(x.Args) == 1 {
			rt := typeName(t.info.Types[sel.X].Type)
			rt = rt[strings.LastIndex(rt, ".")+1:]
			bits, signed, isInt := intKind(t.info.Types[x.Args[0]].Type)
			if !isInt || signed {
				t.bad(x, "argument of New")
			}
			p, a := t.ex(x.Args[0])
			if strings.HasPrefix(t.curKey, "NewFieldList_") {
				return p, fmt.Sprintf("(g_fl_new \"%s\"%%string %d %s)", rt, bits, a)
			}
			if bits != 8 {
				t.bad(x, "enum constructor on %d bits", bits)
			}
			return p, fmt.Sprintf("(g_enum_new \"%s\"%%string %s)", rt, a)
		}
	}
	// methods of the receiver's fields, methods of the receiver, package functions
	if sel, ok := x.Fun.(*ast.SelectorExpr); ok {
		if in, ok := sel.X.(*ast.SelectorExpr); ok && t.isRecv(in.X) {
			prim := ""
			switch in.Sel.Name + "." + sel.Sel.Name {
			case "reader.ReadBytes":
				prim = "p_read_bytes"
			case "ioPort.Write":
				prim = "p_port_write"
			case "ioPort.Flush":
				prim = "p_port_flush"
			case "reader.Reset":
				if len(x.Args) != 1 || types.ExprString(x.Args[0]) != types.ExprString(in.X)+".ioPort" {
					t.bad(x, "reader.Reset argument")
				}
				v := t.tmp()
				return []bnd{{v, "p_reader_reset", false}}, v
			}
			if prim != "" {
				p, a := t.args(x.Args)
				v := t.tmp()
				return append(p, bnd{v, prim + " " + strings.Join(a, " "), false}), v
			}
		}
		// vd.cfg.IoLogger.Println(fmt.Sprintf("%q: %q, // %s", tx, rx, comment))
		if f := t.cfgFlag(sel.X); f == "cfg_iolog c" && sel.Sel.Name == "Println" {
			if len(x.Args) == 1 {
				if sp, ok := x.Args[0].(*ast.CallExpr); ok && types.ExprString(sp.Fun) == "fmt.Sprintf" && len(sp.Args) == 4 {
					if fv := t.info.Types[sp.Args[0]].Value; fv != nil && fv.Kind() == constant.String && constant.StringVal(fv) == "%q: %q, // %s" {
						if !t.effectFreeIgnoring(sp.Args[3]) {
							t.bad(x, "I/O log comment with an effect")
						}
						p, a := t.args(sp.Args[1:3])
						v := t.tmp()
						return append(p, bnd{v, fmt.Sprintf("p_io_println %s %s", a[0], a[1]), false}), v
					}
				}
			}
			t.bad(x, "I/O logger line format")
		}
		if t.isRecv(sel.X) {
			if fd, ok := t.funcs[sel.Sel.Name]; ok && fd.Recv != nil {
				if t.mode == "reg" {
					return t.localCall(x, "go_"+sel.Sel.Name, fd)
				}
				if t.mode == "ble" {
					return t.localCall(x, "go_"+sel.Sel.Name+" c", fd)
				}
				return t.localCall(x, "go_"+sel.Sel.Name+" c", fd)
			}
		}
	}
	if id, ok := x.Fun.(*ast.Ident); ok {
		if obj, ok := t.info.Uses[id].(*types.Func); ok && obj.Pkg() == t.pkg {
			if fd, ok := t.funcs[id.Name]; ok && fd.Recv == nil {
				return t.localCall(x, "go_"+id.Name, fd)
			}
		}
	}
	t.bad(x, "call of %s", fn)
	return nil, ""
}

// effectFreeIgnoring: like effectFree, and log-text parameters may be mentioned
func (t *dtr) effectFreeIgnoring(e ast.Expr) bool { return t.effectFree(e) }

func (t *dtr) localCall(x *ast.CallExpr, head string, fd *ast.FuncDecl) ([]bnd, string) {
	t.calls[fd.Name.Name] = true
	var pre []bnd
	var argv []string
	if t.mode == "reg" || t.mode == "ble" {
		if x.Ellipsis != token.NoPos {
			t.bad(x, "variadic call")
		}
		for _, a := range x.Args {
			q, s := t.ex(a)
			pre = append(pre, q...)
			argv = append(argv, s)
		}
		v := t.tmp()
		m := head
		if len(argv) > 0 {
			m += " " + strings.Join(argv, " ")
		}
		return append(pre, bnd{v, m, false}), v
	}
	i := 0
	for _, p := range fd.Type.Params.List {
		n := len(p.Names)
		if n == 0 {
			n = 1
		}
		_, variadic := p.Type.(*ast.Ellipsis)
		for k := 0; k < n; k++ {
			if variadic {
				for ; i < len(x.Args); i++ {
					if !t.effectFree(x.Args[i]) {
						t.bad(x.Args[i], "log-text argument with an effect")
					}
				}
				break
			}
			if i >= len(x.Args) {
				t.bad(x, "too few arguments")
			}
			if isString(t.info.Types[p.Type].Type) {
				if !t.effectFree(x.Args[i]) {
					t.bad(x.Args[i], "log-text argument with an effect")
				}
				i++
				continue
			}
			q, s := t.ex(x.Args[i])
			pre = append(pre, q...)
			argv = append(argv, s)
			i++
		}
	}
	v := t.tmp()
	m := head
	if len(argv) > 0 {
		m += " " + strings.Join(argv, " ")
	}
	return append(pre, bnd{v, m, false}), v
}

// ---- statements ----

type dctx struct {
	retT func(tuple string) string // term for "return <tuple>"
	fall func() string              // term at the end of the statement list
	cont func() string
	brk  func() string
}

func (t *dtr) resultTuple() string {
	var parts []string
	for _, o := range t.resultVars {
		parts = append(parts, t.names[o])
	}
	return tuple(parts)
}

func terminates(l []ast.Stmt) bool {
	if len(l) == 0 {
		return false
	}
	switch x := l[len(l)-1].(type) {
	case *ast.ReturnStmt:
		return true
	case *ast.BranchStmt:
		return x.Tok == token.CONTINUE || x.Tok == token.BREAK
	case *ast.IfStmt:
		if x.Else == nil || !terminates(x.Body.List) {
			return false
		}
		switch e := x.Else.(type) {
		case *ast.BlockStmt:
			return terminates(e.List)
		case *ast.IfStmt:
			return terminates([]ast.Stmt{e})
		}
	case *ast.BlockStmt:
		return terminates(x.List)
	case *ast.SwitchStmt:
		hasDefault := false
		for _, cl := range x.Body.List {
			cc := cl.(*ast.CaseClause)
			if cc.List == nil {
				hasDefault = true
			}
			if !terminates(cc.Body) {
				return false
			}
		}
		return hasDefault
	}
	return false
}

// assigned collects the variables declared before `limit` that the statements assign
func (t *dtr) assigned(l []ast.Stmt, limit token.Pos) []types.Object {
	seen := map[types.Object]bool{}
	var out []types.Object
	add := func(e ast.Expr) {
		if sel, isSel := e.(*ast.SelectorExpr); isSel && t.mode == "api" && t.isApiObj(sel.X) {
			e = sel.X
		}
		id, ok := e.(*ast.Ident)
		if !ok || id.Name == "_" {
			return
		}
		obj := t.info.Uses[id]
		if obj == nil {
			return // a definition
		}
		if _, isVar := obj.(*types.Var); !isVar || obj.Pos() >= limit || obj.Parent() == t.pkg.Scope() {
			return
		}
		if _, known := t.names[obj]; !known {
			return
		}
		if !seen[obj] {
			seen[obj] = true
			out = append(out, obj)
		}
	}
	for _, s := range l {
		ast.Inspect(s, func(n ast.Node) bool {
			switch x := n.(type) {
			case *ast.FuncLit:
				return false
			case *ast.AssignStmt:
				for _, lh := range x.Lhs {
					add(lh)
				}
				// hex.Decode(dst, src) writes dst
			case *ast.IncDecStmt:
				add(x.X)
			case *ast.CallExpr:
				if types.ExprString(x.Fun) == "hex.Decode" && len(x.Args) == 2 {
					add(x.Args[0])
				}
				if types.ExprString(x.Fun) == "binary.Read" && len(x.Args) == 3 {
					add(x.Args[0])
					if u, ok := x.Args[2].(*ast.UnaryExpr); ok && u.Op == token.AND {
						add(u.X)
					}
				}
			}
			return true
		})
	}
	sort.SliceStable(out, func(i, j int) bool { return out[i].Pos() < out[j].Pos() })
	return out
}

func (t *dtr) objNames(objs []types.Object) []string {
	var out []string
	for _, o := range objs {
		out = append(out, t.names[o])
	}
	return out
}

func (t *dtr) objTypes(objs []types.Object) []types.Type {
	var out []types.Type
	for _, o := range objs {
		out = append(out, o.Type())
	}
	return out
}

// bindLhs binds Go left-hand sides to Coq patterns; returns the pattern and the let-renames
func (t *dtr) lhsName(e ast.Expr, define bool) string {
	id, ok := e.(*ast.Ident)
	if !ok {
		t.bad(e, "assignment target %s", types.ExprString(e))
	}
	if id.Name == "_" {
		return "_"
	}
	if define {
		if obj := t.info.Defs[id]; obj != nil {
			return t.declare(obj)
		}
	}
	return t.varName(id)
}

func (t *dtr) stmts(l []ast.Stmt, c *dctx) string {
	for len(l) > 0 && t.droppable(l[0]) {
		l = l[1:]
	}
	if len(l) == 0 {
		return c.fall()
	}
	s, rest := l[0], l[1:]
	next := func() string { return t.stmts(rest, c) }
	switch x := s.(type) {
	case *ast.ReturnStmt:
		if len(x.Results) == 0 {
			return c.retT(t.resultTuple())
		}
		if len(x.Results) == 1 && len(t.resultTypes) > 1 {
			if _, isCall := x.Results[0].(*ast.CallExpr); isCall {
				p, v := t.ex(x.Results[0])
				return wrapBinds(p, c.retT(v))
			}
		}
		var pre []bnd
		var vals []string
		for i, r := range x.Results {
			if t.mode == "ble" && i < len(t.resultTypes) && typeName(t.resultTypes[i]) == "ble.DeviceConfig" {
				if isNilIdent(r) {
					vals = append(vals, "(@None devcfg)")
				} else {
					p, v := t.ex(r)
					pre = append(pre, p...)
					vals = append(vals, "(Some "+v+")")
				}
				continue
			}
			if isNilIdent(r) && i < len(t.resultTypes) && len(x.Results) == len(t.resultTypes) {
				z := t.zero(t.resultTypes[i])
				if z == "" {
					t.bad(r, "nil of type %s", t.resultTypes[i])
				}
				vals = append(vals, z)
				continue
			}
			p, v := t.ex(r)
			pre = append(pre, p...)
			vals = append(vals, v)
		}
		return wrapBinds(pre, c.retT(tuple(vals)))
	case *ast.BranchStmt:
		if x.Label != nil {
			t.bad(s, "labelled branch")
		}
		switch x.Tok {
		case token.CONTINUE:
			if c.cont != nil {
				return c.cont()
			}
		case token.BREAK:
			if c.brk != nil {
				return c.brk()
			}
		}
		t.bad(s, "branch statement %s", x.Tok)
	case *ast.BlockStmt:
		return t.stmts(append(append([]ast.Stmt{}, x.List...), rest...), c)
	case *ast.DeclStmt:
		gd, ok := x.Decl.(*ast.GenDecl)
		if !ok || gd.Tok != token.VAR {
			if ok && gd.Tok == token.CONST {
				return next() // constants are folded by go/types
			}
			t.bad(s, "declaration")
		}
		var pre []bnd
		for _, sp := range gd.Specs {
			vs := sp.(*ast.ValueSpec)
			if len(vs.Values) != 0 && len(vs.Values) != len(vs.Names) {
				t.bad(s, "var declaration form")
			}
			for i, id := range vs.Names {
				obj := t.info.Defs[id]
				val := t.zero(obj.Type())
				if val == "" {
					t.bad(s, "variable of type %s", obj.Type())
				}
				if len(vs.Values) > 0 {
					var q []bnd
					q, val = t.ex(vs.Values[i])
					pre = append(pre, q...)
				}
				pre = append(pre, bnd{t.declare(obj), val, true})
			}
		}
		return wrapBinds(pre, next())
	case *ast.ExprStmt:
		pre, term := t.ex(x.X)
		if len(pre) == 0 {
			t.bad(s, "expression statement without an effect")
		}
		if !pre[len(pre)-1].pure && pre[len(pre)-1].pat == term {
			pre[len(pre)-1].pat = "_" // the result is discarded (otherwise the call re-binds a variable it writes)
		}
		return wrapBinds(pre, next())
	case *ast.IncDecStmt:
		id, ok := x.X.(*ast.Ident)
		if !ok {
			t.bad(s, "inc/dec target")
		}
		w := arithWrap(t.info.Types[x.X].Type)
		op := "Z.add"
		if x.Tok == token.DEC {
			op = "Z.sub"
		}
		n := t.varName(id)
		return wrapBinds([]bnd{{n, unwrapId(fmt.Sprintf("(%s (%s %s 1))", w, op, n)), true}}, next())
	case *ast.AssignStmt:
		return wrapBinds(t.assign(x), next())
	case *ast.IfStmt:
		return t.ifStmt(x, rest, c)
	case *ast.SwitchStmt:
		return t.switchStmt(x, rest, c)
	case *ast.ForStmt:
		return t.forStmt(x, rest, c)
	case *ast.RangeStmt:
		return t.rangeStmt(x, rest, c)
	case *ast.SelectStmt:
		if t.mode == "api" {
			return t.selectStmt(x, rest, c)
		}
	}
	t.bad(s, "statement %T", s)
	return ""
}

func (t *dtr) assign(x *ast.AssignStmt) []bnd {
	define := x.Tok == token.DEFINE
	// op-assignment
	if x.Tok != token.ASSIGN && x.Tok != token.DEFINE {
		if len(x.Lhs) != 1 || len(x.Rhs) != 1 {
			t.bad(x, "assignment form")
		}
		if sel, isSel := x.Lhs[0].(*ast.SelectorExpr); isSel && t.mode == "dbg" && t.isRecv(sel.X) && sel.Sel.Name == "logDebugIndent" {
			opf := map[token.Token]string{token.ADD_ASSIGN: "Z.add", token.SUB_ASSIGN: "Z.sub"}[x.Tok]
			if opf == "" {
				t.bad(x, "op-assignment %s on the indentation", x.Tok)
			}
			p, b := t.ex(x.Rhs[0])
			cur := t.tmp()
			return append(p, bnd{cur, "get_indent", false}, bnd{"_", fmt.Sprintf("set_indent (%s %s %s)", opf, cur, b), false})
		}
		id, ok := x.Lhs[0].(*ast.Ident)
		if !ok {
			t.bad(x, "op-assignment target")
		}
		op := map[token.Token]token.Token{token.ADD_ASSIGN: token.ADD, token.SUB_ASSIGN: token.SUB, token.MUL_ASSIGN: token.MUL,
			token.AND_ASSIGN: token.AND, token.OR_ASSIGN: token.OR, token.XOR_ASSIGN: token.XOR, token.SHL_ASSIGN: token.SHL,
			token.SHR_ASSIGN: token.SHR, token.AND_NOT_ASSIGN: token.AND_NOT, token.QUO_ASSIGN: token.QUO, token.REM_ASSIGN: token.REM}[x.Tok]
		w := arithWrap(t.info.Types[x.Lhs[0]].Type)
		if w == "" || op == token.ILLEGAL {
			t.bad(x, "op-assignment %s", x.Tok)
		}
		n := t.varName(id)
		p, b := t.ex(x.Rhs[0])
		return append(p, bnd{n, t.arith(x, op, w, n, b, x.Rhs[0]), true})
	}
	// field writes on the local API object
	if len(x.Lhs) == 1 && len(x.Rhs) == 1 && t.mode == "api" {
		if sel, ok := x.Lhs[0].(*ast.SelectorExpr); ok && t.isApiObj(sel.X) {
			n := t.varName(sel.X.(*ast.Ident))
			p, v := t.ex(x.Rhs[0])
			switch sel.Sel.Name {
			case "Vd":
				return p
			case "Product":
				return append(p, bnd{n, fmt.Sprintf("mkApi %s (ao_registers %s)", v, n), true})
			case "Registers":
				return append(p, bnd{n, fmt.Sprintf("mkApi (ao_product %s) %s", n, v), true})
			}
			t.bad(x, "assignment to field %s", sel.Sel.Name)
		}
	}
	// field writes
	if len(x.Lhs) == 1 && len(x.Rhs) == 1 {
		if sel, ok := x.Lhs[0].(*ast.SelectorExpr); ok && t.isRecv(sel.X) {
			if sel.Sel.Name == "lastSent" {
				if id, ok := x.Rhs[0].(*ast.Ident); !ok || t.info.Types[id].Type.String() != "time.Time" {
					t.bad(x, "assignment to lastSent")
				}
				return []bnd{{"_", "p_set_last_sent", false}}
			}
			if set, ok := regFieldSet[sel.Sel.Name]; ok && t.mode == "reg" {
				p, v := t.ex(x.Rhs[0])
				return append(p, bnd{"_", set + " " + v, false})
			}
			if set, ok := fieldSet[sel.Sel.Name]; ok {
				p, v := t.ex(x.Rhs[0])
				return append(p, bnd{"_", set + " " + v, false})
			}
			t.bad(x, "assignment to field %s", sel.Sel.Name)
		}
	}
	// several values from one call
	if len(x.Rhs) == 1 && len(x.Lhs) > 1 {
		call, ok := x.Rhs[0].(*ast.CallExpr)
		if !ok {
			t.bad(x, "assignment form")
		}
		var pre []bnd
		var res string
		if types.ExprString(call.Fun) == "hex.Decode" {
			// n, e := hex.Decode(dst, src) also writes dst
			pre, res = t.ex(call)
			dst, ok := call.Args[0].(*ast.Ident)
			if !ok {
				t.bad(x, "hex.Decode destination")
			}
			d := t.varName(dst)
			pre[len(pre)-1].pat = fmt.Sprintf("'(%s, %s, %s)", d, t.lhsName(x.Lhs[0], define), t.lhsName(x.Lhs[1], define))
			_ = res
			return pre
		}
		pre, res = t.ex(call)
		var pats []string
		for _, lh := range x.Lhs {
			pats = append(pats, t.lhsName(lh, define))
		}
		if len(pre) > 0 && pre[len(pre)-1].pat == res && !pre[len(pre)-1].pure {
			pre[len(pre)-1].pat = tuplePat(pats)
			return pre
		}
		return append(pre, bnd{tuplePat(pats), res, true})
	}
	if len(x.Lhs) != len(x.Rhs) {
		t.bad(x, "assignment form")
	}
	// err = binary.Read(buf, binary.LittleEndian, &v)
	if len(x.Rhs) == 1 {
		if call, ok := x.Rhs[0].(*ast.CallExpr); ok && types.ExprString(call.Fun) == "binary.Read" {
			if len(call.Args) != 3 || types.ExprString(call.Args[1]) != "binary.LittleEndian" {
				t.bad(x, "binary.Read form")
			}
			buf, ok1 := call.Args[0].(*ast.Ident)
			u, ok2 := call.Args[2].(*ast.UnaryExpr)
			if !ok1 || !ok2 || u.Op != token.AND {
				t.bad(x, "binary.Read form")
			}
			vid, ok := u.X.(*ast.Ident)
			if !ok {
				t.bad(x, "binary.Read form")
			}
			bits, signed, isInt := intKind(t.info.Types[vid].Type)
			if !isInt || bits == 0 {
				t.bad(x, "binary.Read into %s", t.info.Types[vid].Type)
			}
			b, v := t.varName(buf), t.varName(vid)
			e := t.lhsName(x.Lhs[0], define)
			return []bnd{{fmt.Sprintf("'(%s, %s, %s)", v, b, e), fmt.Sprintf("g_binary_read_le %d %v %s %s", bits/8, signed, v, b), true}}
		}
	}
	var pre []bnd
	var vals []string
	for _, r := range x.Rhs {
		p, v := t.ex(r)
		pre = append(pre, p...)
		vals = append(vals, v)
	}
	if len(x.Lhs) == 1 {
		n := t.lhsName(x.Lhs[0], define)
		if len(pre) > 0 && pre[len(pre)-1].pat == vals[0] && !pre[len(pre)-1].pure {
			pre[len(pre)-1].pat = n
			return pre
		}
		return append(pre, bnd{n, vals[0], true})
	}
	var pats []string
	for _, lh := range x.Lhs {
		pats = append(pats, t.lhsName(lh, define))
	}
	return append(pre, bnd{tuplePat(pats), tuple(vals), true})
}

// branches translates `if cond then A else B; rest` given the two statement lists
func (t *dtr) branches(at ast.Node, pre []bnd, cond string, a, b []ast.Stmt, rest []ast.Stmt, c *dctx) string {
	ta, tb := terminates(a), terminates(b)
	if len(a) == 0 && len(b) == 0 {
		return wrapBinds(pre, t.stmts(rest, c))
	}
	if ta && tb {
		return wrapBinds(pre, fmt.Sprintf("if %s then\n  %s\n  else\n  %s", cond, t.stmts(a, c), t.stmts(b, c)))
	}
	if ta && len(b) == 0 {
		return wrapBinds(pre, fmt.Sprintf("if %s then\n  %s\n  else\n  %s", cond, t.stmts(a, c), t.stmts(rest, c)))
	}
	if tb && len(a) == 0 {
		return wrapBinds(pre, fmt.Sprintf("if %s then\n  %s\n  else\n  %s", cond, t.stmts(rest, c), t.stmts(b, c)))
	}
	// join point: the rest of the list as a local function of the variables the branches assign
	vars := t.assigned(append(append([]ast.Stmt{}, a...), b...), at.Pos())
	t.fresh++
	j := fmt.Sprintf("join%d", t.fresh)
	names := t.objNames(vars)
	inner := &dctx{retT: c.retT, cont: c.cont, brk: c.brk, fall: func() string {
		return fmt.Sprintf("%s %s", j, tuple(t.objNames(vars)))
	}}
	restTerm := t.stmts(rest, c)
	pat := tuplePat(names)
	if len(names) == 0 {
		pat = "(_ : unit)"
	}
	return wrapBinds(pre, fmt.Sprintf("let %s := fun %s =>\n  %s in\n  if %s then\n  %s\n  else\n  %s", j, pat, restTerm, cond, t.stmts(a, inner), t.stmts(b, inner)))
}

func (t *dtr) ifStmt(x *ast.IfStmt, rest []ast.Stmt, c *dctx) string {
	var pre []bnd
	if x.Init != nil {
		as, ok := x.Init.(*ast.AssignStmt)
		if !ok || as.Tok != token.DEFINE {
			t.bad(x, "if-init form")
		}
		pre = t.assign(as)
	}
	p, cond := t.ex(x.Cond)
	pre = append(pre, p...)
	var els []ast.Stmt
	switch e := x.Else.(type) {
	case nil:
	case *ast.BlockStmt:
		els = e.List
	case *ast.IfStmt:
		els = []ast.Stmt{e}
	default:
		t.bad(x, "else form")
	}
	return t.branches(x, pre, cond, t.strip(x.Body.List), t.strip(els), rest, c)
}

// strip removes the droppable statements of a list
func (t *dtr) strip(l []ast.Stmt) []ast.Stmt {
	var out []ast.Stmt
	for _, s := range l {
		if !t.droppable(s) {
			out = append(out, s)
		}
	}
	return out
}

func (t *dtr) switchStmt(x *ast.SwitchStmt, rest []ast.Stmt, c *dctx) string {
	if x.Init != nil || x.Tag == nil {
		t.bad(x, "switch form")
	}
	pre, tag := t.ex(x.Tag)
	tg := t.tmp()
	pre = append(pre, bnd{tg, tag, true})
	// build nested ifs from the clauses; a clause body falls to the rest of the list
	var clauses []*ast.CaseClause
	var deflt *ast.CaseClause
	for _, cl := range x.Body.List {
		cc := cl.(*ast.CaseClause)
		for _, st := range cc.Body {
			if br, isBr := st.(*ast.BranchStmt); isBr && (br.Tok == token.BREAK || br.Tok == token.FALLTHROUGH) {
				t.bad(st, "break/fallthrough in switch")
			}
		}
		if cc.List == nil {
			deflt = cc
		} else {
			clauses = append(clauses, cc)
		}
	}
	allTerm := deflt != nil && terminates(deflt.Body)
	var all []ast.Stmt
	for _, cc := range clauses {
		allTerm = allTerm && terminates(cc.Body)
		all = append(all, cc.Body...)
	}
	if deflt != nil {
		all = append(all, deflt.Body...)
	}
	inner := c
	head := ""
	restTerm := ""
	if !allTerm {
		vars := t.assigned(all, x.Pos())
		t.fresh++
		j := fmt.Sprintf("join%d", t.fresh)
		names := t.objNames(vars)
		inner = &dctx{retT: c.retT, cont: c.cont, brk: c.brk, fall: func() string {
			return fmt.Sprintf("%s %s", j, tuple(t.objNames(vars)))
		}}
		restTerm = t.stmts(rest, c)
		pat := tuplePat(names)
		if len(names) == 0 {
			pat = "(_ : unit)"
		}
		head = fmt.Sprintf("let %s := fun %s =>\n  %s in\n  ", j, pat, restTerm)
	}
	out := ""
	for _, cc := range clauses {
		var conds []string
		for _, ce := range cc.List {
			cv := t.info.Types[ce]
			if cv.Value == nil || cv.Value.Kind() != constant.Int {
				t.bad(ce, "non-constant case")
			}
			conds = append(conds, fmt.Sprintf("(%s =? %s)", tg, zlit(cv.Value)))
		}
		out += fmt.Sprintf("if %s then\n  %s\n  else ", strings.Join(conds, " || "), t.stmts(t.strip(cc.Body), inner))
	}
	if deflt != nil {
		out += t.stmts(t.strip(deflt.Body), inner)
	} else {
		out += inner.fall()
	}
	return wrapBinds(pre, head+out)
}

// loop emits the loop term and what follows it
func (t *dtr) loop(at ast.Node, comb, lead, params string, body []ast.Stmt, rest []ast.Stmt, c *dctx) string {
	vars := t.assigned(body, at.Pos())
	names := t.objNames(vars)
	vt := t.tupleType(t.objTypes(vars), at)
	rt := t.tupleType(t.resultTypes, at)
	if t.mode == "ble" && len(t.resultTypes) == 1 && typeName(t.resultTypes[0]) == "ble.DeviceConfig" {
		rt = "(option devcfg)"
	}
	inner := &dctx{
		retT: func(tp string) string { return "ret (LRet " + tp + ")" },
		fall: func() string { return "ret (LCont " + tuple(t.objNames(vars)) + ")" },
		cont: func() string { return "ret (LCont " + tuple(t.objNames(vars)) + ")" },
		brk:  func() string { return "ret (LBrk " + tuple(t.objNames(vars)) + ")" },
	}
	pat := tuplePat(names)
	if len(names) == 0 {
		pat = "(_ : unit)"
	}
	bodyTerm := t.stmts(body, inner)
	r := t.tmp()
	donePat := tuple(names)
	if len(names) == 0 {
		donePat = "_"
	}
	after := t.stmts(rest, c)
	return fmt.Sprintf("bind (@%s %s %s %s (fun %s%s =>\n  %s) %s) (fun %s =>\n  match %s with\n  | LDone %s =>\n  %s\n  | LReturned %s_r => %s\n  end)",
		comb, vt, rt, lead, params, pat, bodyTerm, tuple(names), r, r, donePat, after, r, c.retT(r+"_r"))
}

func (t *dtr) forStmt(x *ast.ForStmt, rest []ast.Stmt, c *dctx) string {
	if x.Init == nil && x.Cond == nil && x.Post == nil {
		return t.loop(x, "forever", "", "", x.Body.List, rest, c)
	}
	// for i := a; i < b; i++
	init, ok1 := x.Init.(*ast.AssignStmt)
	cond, ok2 := x.Cond.(*ast.BinaryExpr)
	post, ok3 := x.Post.(*ast.IncDecStmt)
	if !ok1 || !ok2 || !ok3 || init.Tok != token.DEFINE || len(init.Lhs) != 1 || cond.Op != token.LSS || post.Tok != token.INC {
		t.bad(x, "for form")
	}
	iv, ok := init.Lhs[0].(*ast.Ident)
	ci, ok4 := cond.X.(*ast.Ident)
	pi, ok5 := post.X.(*ast.Ident)
	if !ok || !ok4 || !ok5 || ci.Name != iv.Name || pi.Name != iv.Name {
		t.bad(x, "for form")
	}
	av, bv := t.info.Types[init.Rhs[0]].Value, t.info.Types[cond.Y].Value
	if av == nil || bv == nil {
		t.bad(x, "for bounds are not constant")
	}
	a, _ := constant.Int64Val(av)
	b, _ := constant.Int64Val(bv)
	if b < a || b-a > 1000 {
		t.bad(x, "for bounds")
	}
	obj := t.info.Defs[iv]
	for _, o := range t.assignedAll(x.Body.List) {
		if o == obj {
			t.bad(x, "loop variable assigned in the body")
		}
	}
	name := t.declare(obj)
	return t.loop(x, "for_count", fmt.Sprintf("%d%%nat %d", b-a, a), name+" ", x.Body.List, rest, c)
}

func (t *dtr) assignedAll(l []ast.Stmt) []types.Object {
	var out []types.Object
	for _, s := range l {
		ast.Inspect(s, func(n ast.Node) bool {
			switch x := n.(type) {
			case *ast.AssignStmt:
				for _, lh := range x.Lhs {
					if id, ok := lh.(*ast.Ident); ok {
						if o := t.info.Uses[id]; o != nil {
							out = append(out, o)
						}
					}
				}
			case *ast.IncDecStmt:
				if id, ok := x.X.(*ast.Ident); ok {
					if o := t.info.Uses[id]; o != nil {
						out = append(out, o)
					}
				}
			}
			return true
		})
	}
	return out
}

func (t *dtr) rangeStmt(x *ast.RangeStmt, rest []ast.Stmt, c *dctx) string {
	if t.mode == "api" && x.Tok == token.DEFINE && t.coqType(t.info.Types[x.X].Type) == "(list ((Z * string) * bool))" {
		pre, l := t.ex(x.X)
		kid, ok1 := x.Key.(*ast.Ident)
		vid, ok2 := x.Value.(*ast.Ident)
		if !ok1 || !ok2 || kid.Name == "_" || vid.Name == "_" {
			t.bad(x, "range over a map needs key and value")
		}
		kn, vn := t.declare(t.info.Defs[kid]), t.declare(t.info.Defs[vid])
		t.nOracle++
		return wrapBinds(pre, t.loop(x, "range_map (Z * string) bool", fmt.Sprintf("ord%d %s", t.nOracle, l), kn+" "+vn+" ", x.Body.List, rest, c))
	}
	if t.mode == "api" && x.Tok == token.DEFINE && strings.HasPrefix(t.info.Types[x.X].Type.String(), "map[string]github.com/koestler/go-victron/vedirectapi.") {
		pre, l := t.ex(x.X)
		if id, ok := x.Key.(*ast.Ident); !ok || id.Name != "_" {
			t.bad(x, "range over a value map with a key variable")
		}
		vid, ok := x.Value.(*ast.Ident)
		if !ok || vid.Name == "_" {
			t.bad(x, "range form")
		}
		vn := t.declare(t.info.Defs[vid])
		t.nOracle++
		return wrapBinds(pre, t.loop(x, "range_map (list byte) (reg * gvalue)", fmt.Sprintf("ord%d %s", t.nOracle, l), "_ "+vn+" ", x.Body.List, rest, c))
	}
	if t.mode == "api" && x.Tok == token.DEFINE && t.coqType(t.info.Types[x.X].Type) == "(list (Z * string))" {
		pre, l := t.ex(x.X)
		if id, ok := x.Key.(*ast.Ident); !ok || id.Name != "_" {
			t.bad(x, "range with an index variable")
		}
		id, ok := x.Value.(*ast.Ident)
		if !ok || id.Name == "_" {
			t.bad(x, "range form")
		}
		vn := t.declare(t.info.Defs[id])
		return wrapBinds(pre, t.loop(x, "range_list (Z * string)", l, vn+" ", x.Body.List, rest, c))
	}
	if t.mode == "api" && x.Tok == token.DEFINE && t.isRegSlice(t.info.Types[x.X].Type) {
		pre, l := t.ex(x.X)
		if id, ok := x.Key.(*ast.Ident); !ok || id.Name != "_" {
			t.bad(x, "range over registers with an index variable")
		}
		id, ok := x.Value.(*ast.Ident)
		if !ok || id.Name == "_" {
			t.bad(x, "range form")
		}
		vn := t.declare(t.info.Defs[id])
		for _, o := range t.assignedAll(x.Body.List) {
			if n, ok := t.names[o]; ok && n == vn {
				t.bad(x, "range variable assigned in the body")
			}
		}
		return wrapBinds(pre, t.loop(x, "range_regs", l, vn+" ", x.Body.List, rest, c))
	}
	if (t.mode == "reg" || t.mode == "ble") && x.Tok == token.DEFINE {
		et := ""
		switch t.coqType(t.info.Types[x.X].Type) {
		case "(list reg)":
			et = "reg"
		case "(list (list byte))":
			et = "(list byte)"
		case "(list devcfg)":
			et = "devcfg"
		}
		if et != "" {
			pre, l := t.ex(x.X)
			if id, ok := x.Key.(*ast.Ident); !ok || id.Name != "_" {
				t.bad(x, "range with an index variable")
			}
			id, ok := x.Value.(*ast.Ident)
			if !ok || id.Name == "_" {
				t.bad(x, "range form")
			}
			vn := t.declare(t.info.Defs[id])
			for _, o := range t.assignedAll(x.Body.List) {
				if n, ok := t.names[o]; ok && n == vn {
					t.bad(x, "range variable assigned in the body")
				}
			}
			return wrapBinds(pre, t.loop(x, "range_list "+et, l, vn+" ", x.Body.List, rest, c))
		}
	}
	if x.Tok != token.DEFINE || !isByteSlice(t.info.Types[x.X].Type) {
		t.bad(x, "range form")
	}
	pre, l := t.ex(x.X)
	kn, vn := "_", "_"
	if id, ok := x.Key.(*ast.Ident); ok && id.Name != "_" {
		kn = t.declare(t.info.Defs[id])
	}
	if x.Value != nil {
		if id, ok := x.Value.(*ast.Ident); ok && id.Name != "_" {
			vn = t.declare(t.info.Defs[id])
		}
	}
	for _, o := range t.assignedAll(x.Body.List) {
		if n, ok := t.names[o]; ok && (n == kn || n == vn) {
			t.bad(x, "range variable assigned in the body")
		}
	}
	return wrapBinds(pre, t.loop(x, "range_bytes", l+" 0", kn+" "+vn+" ", x.Body.List, rest, c))
}

// ---- functions ----

func (t *dtr) function(fd *ast.FuncDecl) string {
	t.curFunc = fd.Name.Name
	t.curDecl = fd
	t.nOracle = 0
	t.fresh = 0
	t.names = map[types.Object]string{}
	t.used = map[string]int{}
	t.ignored = map[types.Object]bool{}
	t.recv = nil
	t.resultVars, t.resultTypes = nil, nil
	var params []string
	if fd.Recv != nil {
		if len(fd.Recv.List) != 1 || len(fd.Recv.List[0].Names) != 1 {
			t.bad(fd, "receiver form")
		}
		t.recv = t.info.Defs[fd.Recv.List[0].Names[0]]
		if rt := strings.TrimPrefix(types.ExprString(fd.Recv.List[0].Type), "*"); rt == "FieldListValue" {
			params = append(params, fmt.Sprintf("(%s : flv)", t.declare(t.recv)))
			t.recv = nil
		} else if rt == "RegisterValues" {
			params = append(params, fmt.Sprintf("(%s : regvalues)", t.declare(t.recv)))
			t.recv = nil
		} else if t.mode == "flog" {
			// the receiver is the one open file of the state
		} else if t.mode == "ble" {
			params = append(params, "(c : blecfg)")
		} else if t.mode != "reg" && t.mode != "enum" {
			params = append(params, "(c : cfg)")
		}
	}
	for _, p := range fd.Type.Params.List {
		_, variadic := p.Type.(*ast.Ellipsis)
		var pt types.Type
		if !variadic {
			pt = t.info.Types[p.Type].Type
		}
		for _, n := range p.Names {
			obj := t.info.Defs[n]
			if t.mode == "flog" {
				params = append(params, fmt.Sprintf("(%s : (list byte))", t.declare(obj)))
				continue
			}
			if t.mode == "dbg" && !variadic {
				params = append(params, fmt.Sprintf("(%s : (list byte))", t.declare(obj)))
				continue
			}
			if t.mode == "reg" || t.mode == "ble" {
				ct := t.coqType(obj.Type())
				if ct == "" {
					t.bad(p, "parameter type %s", obj.Type())
				}
				params = append(params, fmt.Sprintf("(%s : %s)", t.declare(obj), ct))
				continue
			}
			if variadic || isString(pt) {
				t.ignored[obj] = true // log text
				continue
			}
			ct := t.coqType(pt)
			if ct == "" {
				t.bad(p, "parameter type %s", pt)
			}
			if ct == "cfg" {
				t.names[obj] = "c"
				params = append(params, "(c : cfg)")
				continue
			}
			params = append(params, fmt.Sprintf("(%s : %s)", t.declare(obj), ct))
		}
	}
	var inits []bnd
	if fd.Type.Results != nil {
		for _, r := range fd.Type.Results.List {
			rt := t.info.Types[r.Type].Type
			if len(r.Names) == 0 {
				t.resultTypes = append(t.resultTypes, rt)
			}
			for _, n := range r.Names {
				obj := t.info.Defs[n]
				t.resultTypes = append(t.resultTypes, rt)
				t.resultVars = append(t.resultVars, obj)
				z := t.zero(rt)
				if z == "" {
					t.bad(r, "result type %s", rt)
				}
				inits = append(inits, bnd{t.declare(obj), z, true})
			}
		}
	}
	rtype := t.tupleType(t.resultTypes, fd)
	if t.mode == "ble" && len(t.resultTypes) == 1 && typeName(t.resultTypes[0]) == "ble.DeviceConfig" {
		rtype = "(option devcfg)" // an interface result that may be nil
	}
	body := fd.Body.List
	// leading defers
	type dfr struct{ cond, body string }
	var defers []dfr
	deferCtx := &dctx{retT: func(string) string { t.bad(fd, "return in a deferred function"); return "" }, fall: func() string { return "ret tt" }}
	deferred := func(ds *ast.DeferStmt, cond string) {
		if t.droppable(ds) {
			return
		}
		fl, ok := ds.Call.Fun.(*ast.FuncLit)
		if !ok || len(ds.Call.Args) != 0 {
			t.bad(ds, "defer form")
		}
		if len(t.assigned(fl.Body.List, fl.Pos())) != 0 {
			t.bad(ds, "deferred function assigns a variable")
		}
		defers = append(defers, dfr{cond, t.stmts(fl.Body.List, deferCtx)})
	}
	for len(body) > 0 {
		if t.droppable(body[0]) {
			body = body[1:]
			continue
		}
		if ds, ok := body[0].(*ast.DeferStmt); ok {
			deferred(ds, "true")
			body = body[1:]
			continue
		}
		is, ok := body[0].(*ast.IfStmt)
		if !ok || is.Init != nil || is.Else != nil {
			break
		}
		hasDefer := false
		for _, s := range is.Body.List {
			if _, ok := s.(*ast.DeferStmt); ok {
				hasDefer = true
			}
		}
		if !hasDefer {
			break
		}
		p, cond := t.ex(is.Cond)
		if len(p) != 0 {
			t.bad(is, "condition of a block with defer has an effect")
		}
		for _, s := range is.Body.List {
			if t.droppable(s) {
				continue
			}
			ds, ok := s.(*ast.DeferStmt)
			if !ok {
				t.bad(s, "statement beside a defer")
			}
			deferred(ds, cond)
		}
		body = body[1:]
	}
	ast.Inspect(&ast.BlockStmt{List: body}, func(n ast.Node) bool {
		if _, ok := n.(*ast.DeferStmt); ok {
			t.bad(n, "defer after the leading statements")
		}
		return true
	})
	if len(t.resultVars) == 0 && len(t.resultTypes) > 0 && !terminates(body) {
		t.bad(fd, "function with unnamed results does not end in return")
	}
	fctx := &dctx{retT: func(tp string) string { return "ret " + tp }, fall: func() string { return "ret " + t.resultTuple() }}
	term := wrapBinds(inits, t.stmts(body, fctx))
	if len(defers) > 0 {
		r := "res"
		out := "ret " + r
		for i := 0; i < len(defers); i++ { // registered first runs last: innermost here
			d := defers[i]
			run := d.body
			if d.cond != "true" {
				run = fmt.Sprintf("(if %s then\n  %s\n  else ret tt)", d.cond, d.body)
			}
			out = fmt.Sprintf("bind (%s) (fun _ => %s)", run, out)
		}
		term = fmt.Sprintf("bind (%s) (fun %s =>\n  %s)", term, r, out)
	}
	defName := fd.Name.Name
	if t.mode == "enum" {
		defName = t.curKey
	}
	for i := 1; i <= t.nOracle; i++ {
		params = append(params, fmt.Sprintf("(ord%d : list nat)", i)) // the iteration order of the i-th map range
	}
	return fmt.Sprintf("Definition go_%s %s : D %s :=\n  %s.\n", defName, strings.Join(params, " "), rtype, term)
}

func translateDrv(repo, outPath string) {
	translatePkg(repo, outPath, "drv", "vedirect",
		[]string{"Ping", "GetDeviceId", "GetUint", "GetInt", "GetString", "VeCommandGet", "VeCommand"},
		"From GV Require Import Vedirect.DrvSem.\nImport ListNotations.\nLocal Open Scope Z_scope.\n\n",
		"GoLite-D -> Gallina translation of the serial driver (tie T-gen).")
}

func translateApi(repo, outPath string) {
	translatePkg(repo, outPath, "api", "vedirectapi",
		[]string{"ReadNumberRegister", "ReadTextRegister", "ReadEnumRegister", "ReadFieldListRegister", "StreamRegisterList", "ReadRegisterList", "NewRegisterApi", "CommaString", "GetList"},
		"From Coq Require Import QArith.\nFrom GV Require Import Vedirect.DrvSem Gen.DrvImpl Api.ApiSem.\nImport ListNotations.\nLocal Open Scope Z_scope.\n\n",
		"GoLite-D -> Gallina translation of the register readers and the streaming loop (tie T-gen).")
}

func translateReg(repo, outPath string) {
	translatePkg(repo, outPath, "reg", "veregister",
		[]string{"Len", "AppendNumberRegisterStruct", "AppendTextRegisterStruct", "AppendEnumRegisterStruct",
			"AppendFieldListRegisterStruct", "FilterRegister", "FilterByName", "GetRegisters"},
		"From GV Require Import Vedirect.DrvSem Tables.RegSem.\nImport ListNotations.\nLocal Open Scope Z_scope.\n\n",
		"GoLite-D -> Gallina translation of the register list operations (tie T-gen).")
}

func translateBleHandler(repo, outPath string) {
	translatePkg(repo, outPath, "ble", "ble",
		[]string{"PKCS7Padding", "bluezAddrBytes", "getDeviceConfig", "handleNewManufacturerData"},
		"From GV Require Import Vedirect.DrvSem Ble.BleSem.\nImport ListNotations.\nLocal Open Scope Z_scope.\n\n",
		"GoLite-D -> Gallina translation of the advertisement handler (tie T-gen).")
}

func translateFlog(repo, outPath string) {
	translatePkg(repo, outPath, "flog", "vedirectapi", []string{"NewFileLogger", "Println", "Close"},
		"From GV Require Import Vedirect.DrvSem Api.FlogSem.\nImport ListNotations.\nLocal Open Scope Z_scope.\n\n",
		"GoLite-D -> Gallina translation of the file logger (tie T-gen).")
}

func translateDbg(repo, outPath string) {
	translatePkg(repo, outPath, "dbg", "vedirect", []string{"debugPrintf"},
		"From GV Require Import Vedirect.DrvSem Vedirect.DbgSem.\nImport ListNotations.\nLocal Open Scope Z_scope.\n\n",
		"GoLite-D -> Gallina translation of vd.debugPrintf (tie T-gen).")
}

func translateEnum(repo, outPath string) {
	translatePkg(repo, outPath, "enum", "veconst", nil,
		"From GV Require Import Vedirect.DrvSem Tables.EnumSem.\nImport ListNotations.\nLocal Open Scope Z_scope.\n\n",
		"GoLite-D -> Gallina translation of every NewEnum and NewFieldList of package veconst (tie T-gen).")
}

func translatePkg(repo, outPath, mode, pkgName string, entries []string, header, title string) {
	fset := token.NewFileSet()
	dir := filepath.Join(repo, pkgName)
	pkgs, err := parser.ParseDir(fset, dir, func(fi os.FileInfo) bool {
		return !strings.HasSuffix(fi.Name(), "_test.go") && fi.Name() != "verif_hooks.go"
	}, parser.ParseComments)
	if err != nil {
		fail("cannot parse %s: %v", pkgName, err)
	}
	var files []*ast.File
	var names []string
	for _, p := range pkgs {
		for n := range p.Files {
			names = append(names, n)
		}
		sort.Strings(names)
		for _, n := range names {
			files = append(files, p.Files[n])
		}
	}
	info := &types.Info{Types: map[ast.Expr]types.TypeAndValue{}, Uses: map[*ast.Ident]types.Object{}, Defs: map[*ast.Ident]types.Object{}}
	conf := types.Config{Importer: importer.ForCompiler(fset, "source", nil)}
	old, _ := os.Getwd()
	_ = os.Chdir(repo)
	pkg, err := conf.Check("github.com/koestler/go-victron/"+pkgName, fset, files, info)
	_ = os.Chdir(old)
	if err != nil {
		fail("type-checking %s failed: %v", pkgName, err)
	}
	t := &dtr{fset: fset, info: info, pkg: pkg, funcs: map[string]*ast.FuncDecl{}, mode: mode}
	fileOf := map[string]string{}
	for i, f := range files {
		for _, d := range f.Decls {
			if fd, ok := d.(*ast.FuncDecl); ok && fd.Body != nil {
				if mode == "enum" {
					if fd.Recv == nil || len(fd.Recv.List) != 1 {
						continue
					}
					rt := strings.TrimPrefix(types.ExprString(fd.Recv.List[0].Type), "*")
					if !strings.HasSuffix(rt, "FactoryType") || (fd.Name.Name != "NewEnum" && fd.Name.Name != "NewFieldList") {
						continue
					}
					key := fd.Name.Name + "_" + rt
					t.funcs[key] = fd
					fileOf[key] = filepath.Base(names[i])
					entries = append(entries, key)
					continue
				}
				if mode == "flog" && (fd.Recv == nil || strings.TrimPrefix(types.ExprString(fd.Recv.List[0].Type), "*") != "FileLogger") && fd.Name.Name != "NewFileLogger" {
					continue
				}
				if fd.Recv != nil && len(fd.Recv.List) == 1 {
					rt := strings.TrimPrefix(types.ExprString(fd.Recv.List[0].Type), "*")
					if rt != "Vedirect" && rt != "RegisterApi" && rt != "RegisterList" && rt != "BleStruct" && rt != "FieldListValue" && rt != "RegisterValues" && !(mode == "flog" && rt == "FileLogger") {
						continue // methods of other types are not translated
					}
				}
				if _, dup := t.funcs[fd.Name.Name]; dup {
					fail("outside GoLite-D: two functions named %s", fd.Name.Name)
				}
				t.funcs[fd.Name.Name] = fd
				fileOf[fd.Name.Name] = filepath.Base(names[i])
			}
		}
	}
	// the error variables must be what the class table says
	for n := range t.errVarTable() {
		obj := pkg.Scope().Lookup(n)
		if obj == nil || !isError(obj.Type()) {
			fail("outside GoLite-D: error variable %s not found", n)
		}
	}
	// translate everything reachable from the entry points, callees first
	text := map[string]string{}
	var order []string
	var errs []string
	var visit func(name string, from string)
	state := map[string]int{}
	visit = func(name, from string) {
		if state[name] == 2 {
			return
		}
		if state[name] == 1 {
			fail("outside GoLite-D: recursion through %s", name)
		}
		fd, ok := t.funcs[name]
		if !ok {
			fail("outside GoLite-D: function %s (needed by %s) not found", name, from)
		}
		state[name] = 1
		t.calls = map[string]bool{}
		t.curKey = name
		s := ""
		func() {
			defer func() {
				if r := recover(); r != nil {
					e, isTr := r.(trErr)
					if !isTr {
						panic(r)
					}
					errs = append(errs, e.msg)
					s = ""
				}
			}()
			s = t.function(fd)
		}()
		var callees []string
		for c := range t.calls {
			callees = append(callees, c)
		}
		sort.Strings(callees)
		for _, c := range callees {
			visit(c, name)
		}
		state[name] = 2
		if s != "" {
			text[name] = s
			order = append(order, name)
		}
	}
	for _, e := range entries {
		visit(e, "entry")
	}
	var sb strings.Builder
	fmt.Fprintf(&sb, "(* GENERATED by `gvgen %s` from %s/%s on every run -- do not edit.\n   %s *)\n", mode, repo, pkgName, title)
	sb.WriteString(header)
	for _, n := range order {
		fmt.Fprintf(&sb, "(* %s: %s *)\n%s\n", fileOf[n], n, text[n])
	}
	if mode == "enum" {
		var en, fl []string
		for _, n := range order {
			if strings.HasPrefix(n, "NewEnum_") {
				en = append(en, fmt.Sprintf("(\"%s\"%%string, go_%s)", strings.TrimPrefix(n, "NewEnum_"), n))
			} else {
				fl = append(fl, fmt.Sprintf("(\"%s\"%%string, go_%s)", strings.TrimPrefix(n, "NewFieldList_"), n))
			}
		}
		fmt.Fprintf(&sb, "Definition all_new_enum : list (string * (Z -> D ((Z * string) * gerr))) :=\n  [%s].\n\n", strings.Join(en, ";\n   "))
		fmt.Fprintf(&sb, "Definition all_new_fieldlist : list (string * (Z -> D (Z * gerr))) :=\n  [%s].\n\n", strings.Join(fl, ";\n   "))
	}
	fmt.Fprintf(&sb, "(* functions: %s *)\n", strings.Join(order, " "))
	if len(errs) > 0 {
		// the functions that could be translated go to <out>.partial (for the comparison with the reference
		// translation); the previous <out> stays as it is
		writeIfChanged(outPath+".partial", sb.String())
		fail("%s", strings.Join(errs, "\ngvgen: "))
	}
	os.Remove(outPath + ".partial")
	writeIfChanged(outPath, sb.String())
}
