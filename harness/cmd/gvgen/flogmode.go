package main

// GoLite-D for vedirectapi/fileLogger.go: NewFileLogger, Println, Close over a one-file model of
// os.OpenFile(O_APPEND|O_CREATE|O_WRONLY) and bufio.Writer.

import (
	"go/ast"
	"go/constant"
	"go/types"
)

func (t *dtr) flogCall(x *ast.CallExpr, tv types.TypeAndValue) ([]bnd, string, bool) {
	fn := types.ExprString(x.Fun)
	switch fn {
	case "os.OpenFile":
		fv := t.info.Types[x.Args[1]].Value
		if fv == nil || fv.Kind() != constant.Int {
			t.bad(x, "OpenFile flags")
		}
		flags, _ := constant.Int64Val(fv)
		// linux: O_WRONLY 0x1, O_CREATE 0x40, O_APPEND 0x400
		if flags != 0x1|0x40|0x400 {
			t.bad(x, "OpenFile flags are not O_APPEND|O_CREATE|O_WRONLY")
		}
		v := t.tmp()
		return []bnd{{v, "p_open_append", false}}, v, true
	case "bufio.NewWriter":
		return nil, "tt", true
	case "fmt.Fprintln":
		// fmt.Fprintln(l.w, v...): the operands rendered with spaces, and a line feed
		if len(x.Args) != 2 || x.Ellipsis == 0 {
			t.bad(x, "Fprintln form")
		}
		sel, ok := x.Args[0].(*ast.SelectorExpr)
		if !ok || sel.Sel.Name != "w" || !t.isRecv(sel.X) {
			t.bad(x, "Fprintln destination")
		}
		id, ok := x.Args[1].(*ast.Ident)
		if !ok {
			t.bad(x, "Fprintln operands")
		}
		v := t.tmp()
		return []bnd{{v, "p_fprintln " + t.names[t.info.Uses[id]], false}}, v, true
	case "fmt.Printf":
		for _, a := range x.Args[1:] {
			if !t.effectFree(a) {
				t.bad(a, "Printf argument with an effect")
			}
		}
		v := t.tmp()
		return []bnd{{v, "p_stdout", false}}, v, true
	}
	if sel, ok := x.Fun.(*ast.SelectorExpr); ok && len(x.Args) == 0 {
		if in, ok := sel.X.(*ast.SelectorExpr); ok && t.isRecv(in.X) {
			switch in.Sel.Name + "." + sel.Sel.Name {
			case "w.Flush":
				v := t.tmp()
				return []bnd{{v, "p_flush", false}}, v, true
			case "f.Close":
				v := t.tmp()
				return []bnd{{v, "p_close", false}}, v, true
			}
		}
	}
	return nil, "", false
}
