package main

import (
	"os"

	"github.com/koestler/go-victron/vedirect"
)

func os_Arg(i int, def string) string {
	if len(os.Args) > i {
		return os.Args[i]
	}
	return def
}

func vedirectapiConfig() vedirect.Config { return vedirect.Config{} }

// splitmix64: the harness's only source of randomness, seeded from VERIF_SEED
type splitmix struct{ s uint64 }

func (r *splitmix) next() uint64 {
	r.s += 0x9E3779B97F4A7C15
	z := r.s
	z = (z ^ (z >> 30)) * 0xBF58476D1CE4E5B9
	z = (z ^ (z >> 27)) * 0x94D049BB133111EB
	return z ^ (z >> 31)
}
