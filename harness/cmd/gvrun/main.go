// gvrun runs the implementation (koestler/go-victron as found in /repo) on generated
// cases and prints canonical observations, one line per case.
package main

import (
	"bufio"
	"fmt"
	"os"
)

var out *bufio.Writer

func main() {
	out = bufio.NewWriterSize(os.Stdout, 1<<20)
	defer out.Flush()
	if len(os.Args) < 2 {
		fmt.Fprintln(os.Stderr, "usage: gvrun <subcommand> [args]")
		os.Exit(2)
	}
	switch os.Args[1] {
	case "tx":
		runTx()
	case "script":
		runScript()
	case "filelog":
		runFileLog()
	case "fieldlist":
		runFieldList()
	case "api":
		runApi()
	case "reglist":
		runRegList()
	case "reglisttwin":
		runRegListTwin()
	case "copies":
		runCopies()
	case "ble":
		runBle()
	case "blehandler":
		runBleHandler()
	case "ioreplay":
		runIoReplay()
	default:
		fmt.Fprintf(os.Stderr, "unknown subcommand %q\n", os.Args[1])
		os.Exit(2)
	}
}
