package main

import (
	"bufio"
	"bytes"
	"crypto/aes"
	"encoding/hex"
	"fmt"
	"log"
	"os"
	"regexp"
	"strings"

	"github.com/koestler/go-victron/ble"
	"github.com/koestler/go-victron/bleparser"
)

type fakeDev struct {
	name string
	mac  []byte
	key  []byte
}

func (d fakeDev) Name() string          { return d.name }
func (d fakeDev) MacAddress() []byte    { return d.mac }
func (d fakeDev) EncryptionKey() []byte { return d.key }

type fakeCfg struct {
	devs  []ble.DeviceConfig
	debug *bool
}

func (c fakeCfg) Name() string                { return "verif" }
func (c fakeCfg) LogDebug() bool              { return c.debug != nil && *c.debug }
func (c fakeCfg) Devices() []ble.DeviceConfig { return c.devs }

var reDecrypted = regexp.MustCompile(`decryptedBytes=([0-9a-f]*), len=(\d+)`)
var rePadded = regexp.MustCompile(`paddedEncryptedBytes=([0-9a-f]*), len=(\d+)`)

func hexOrDash(b []byte) string {
	if len(b) == 0 {
		return "-"
	}
	return hex.EncodeToString(b)
}

// runBleHandler: gvrun blehandler <casefile>
//
//	"h <id> key=<hex|-> raw=<hex|->"            advertisement handling
//	"m <id> addr=<hex of the address string> macs=<hex|->,<hex>,..."   device lookup
var handleSeq int

func runBleHandler() {
	f, err := os.Open(os.Args[2])
	if err != nil {
		panic(err)
	}
	defer f.Close()
	log.SetFlags(0)
	sc := bufio.NewScanner(f)
	sc.Buffer(make([]byte, 1<<16), 1<<22)
	dec := func(s string) []byte {
		if s == "-" {
			return []byte{}
		}
		b, _ := hex.DecodeString(s)
		return b
	}
	// one instance handles the whole history of advertisements (same device name, changing keys)
	debugFlag := false
	instance := ble.VerifNewBleStruct(fakeCfg{debug: &debugFlag})
	for sc.Scan() {
		fs := strings.Fields(sc.Text())
		if len(fs) < 3 {
			continue
		}
		kv := map[string]string{}
		for _, t := range fs[2:] {
			i := strings.IndexByte(t, '=')
			kv[t[:i]] = t[i+1:]
		}
		switch fs[0] {
		case "m":
			var devs []ble.DeviceConfig
			for i, m := range strings.Split(kv["macs"], ",") {
				devs = append(devs, fakeDev{name: fmt.Sprintf("dev%d", i), mac: dec(m)})
			}
			var buf bytes.Buffer
			log.SetOutput(&buf)
			res := func() (res string) {
				defer func() {
					if r := recover(); r != nil {
						res = "P"
					}
				}()
				d := ble.VerifGetDeviceConfig(fakeCfg{devs: devs}, string(dec(kv["addr"])))
				if d == nil {
					return "none"
				}
				return d.Name()
			}()
			fmt.Fprintf(out, "m %s %s\n", fs[1], res)
		case "h":
			key, raw := dec(kv["key"]), dec(kv["raw"])
			debugFlag = kv["dbg"] == "1"
			rawCopy := append([]byte{}, raw...)
			// every other advertisement is handed over as the front part of a larger receive buffer (spare
			// capacity, poisoned): an append on a sub-slice of the payload then works in place
			handleSeq++
			spare := 0
			if handleSeq%2 == 0 {
				spare = 64
			}
			big := make([]byte, len(raw)+spare)
			copy(big, raw)
			for i := len(raw); i < len(big); i++ {
				big[i] = 0xA5
			}
			rawCopy = big[:len(raw)]
			var buf bytes.Buffer
			log.SetOutput(&buf)
			panicked := false
			func() {
				defer func() {
					if r := recover(); r != nil {
						panicked = true
					}
				}()
				instance.VerifHandle(fakeDev{name: "dev", key: key}, rawCopy)
			}()
			logs := buf.String()
			outcome := "other"
			plain, padded := "-", "-"
			switch {
			case panicked:
				outcome = "P"
			case strings.Contains(logs, "len(rawBytes) is to low"):
				outcome = "ignored"
			case strings.Contains(logs, "cannot create aes cipher"):
				outcome = "badkey"
			default:
				if m := reDecrypted.FindStringSubmatch(logs); m != nil {
					outcome = "plain"
					plain = m[1]
					if plain == "" {
						plain = "-"
					}
				}
				if m := rePadded.FindStringSubmatch(logs); m != nil {
					padded = m[1]
				}
			}
			// what the solar charger decoder yields on the logged plaintext, and whether the log agrees
			rec := "-"
			logrec := "-"
			if outcome == "plain" {
				pb := dec(plain)
				r, derr := bleparser.DecodeSolarChargeRecord(pb)
				if derr != nil {
					rec = bleErrClass(derr)
					if strings.Contains(logs, "cannot decode solar charger record: "+derr.Error()) {
						logrec = "err"
					} else if strings.Contains(logs, "solar charger record=") {
						logrec = "mismatch"
					} else {
						logrec = "none"
					}
				} else {
					rec = "ok:" + renderRecord(r)
					want := fmt.Sprintf("solar charger record=%#v", r)
					if strings.Contains(logs, want) {
						logrec = "rec"
					} else if strings.Contains(logs, "solar charger record=") || strings.Contains(logs, "cannot decode solar charger record") {
						logrec = "mismatch"
					} else {
						logrec = "none"
					}
				}
			}
			// AES oracle: E_k(counter_i) for the counter blocks nonce_lo nonce_hi 0^14, +1 big-endian
			oracle := "-"
			if len(raw) >= 9 && (len(key) == 16 || len(key) == 24 || len(key) == 32) {
				blk, _ := aes.NewCipher(key)
				ctr := make([]byte, 16)
				ctr[0], ctr[1] = raw[5], raw[6]
				n := (len(raw)-8)/16 + 2
				var parts []string
				for i := 0; i < n; i++ {
					ks := make([]byte, 16)
					blk.Encrypt(ks, ctr)
					parts = append(parts, hex.EncodeToString(ctr)+":"+hex.EncodeToString(ks))
					for j := 15; j >= 0; j-- {
						ctr[j]++
						if ctr[j] != 0 {
							break
						}
					}
				}
				oracle = strings.Join(parts, ",")
			}
			mutated := 0
			if !bytes.Equal(raw, rawCopy) {
				mutated = 1
			}
			// (PKCS7Padding appends the padding behind the payload, i.e. into spare capacity when there is some: the
			// property does not speak about that, so the spare region is not compared)
			fmt.Fprintf(out, "h %s key=%s raw=%s out=%s padded=%s plain=%s rec=%s logrec=%s mutated=%d E=%s\n",
				fs[1], hexOrDash(key), hexOrDash(raw), outcome, padded, plain, rec, logrec, mutated, oracle)
		}
	}
}
