package main

import (
	"context"
	"encoding/hex"
	"fmt"
	"sort"
	"strconv"
	"strings"

	"github.com/koestler/go-victron/veconst"
	"github.com/koestler/go-victron/vedirectapi"
	"github.com/koestler/go-victron/veproduct"
	"github.com/koestler/go-victron/veregister"
	"verif/harness/lists"
	"verif/harness/sport"
)

func frameBytes(resp int, payload []byte) []byte {
	c := byte(0x55 - resp)
	for _, b := range payload {
		c -= b
	}
	return []byte(fmt.Sprintf(":%X%X%02X\n", resp, append(append([]byte{}, payload...), c), 0)[0:2+2*(len(payload)+1)] + "\n")
}

func getResp(addr uint16, flag byte, value []byte) []byte {
	return frameBytes(7, append([]byte{byte(addr), byte(addr >> 8), flag}, value...))
}

// connectAPI builds a RegisterApi for the product id against a scripted port
func connectAPI(id uint16) (*vedirectapi.RegisterApi, *sport.Port, error) {
	p := &sport.Port{Reactions: [][]sport.Event{
		{{Kind: sport.EvData, Data: frameBytes(5, []byte{0x16, 0x41})}},
		{{Kind: sport.EvData, Data: frameBytes(1, []byte{byte(id), byte(id >> 8)})}},
	}}
	api, err := vedirectapi.NewRegisterApi(p, vedirectapiConfig())
	return api, p, err
}

func fieldsString(fl veconst.FieldList) string {
	return fieldMapString(fl.Fields())
}

func fieldMapString(m map[veconst.Field]bool) string {
	type kv struct {
		idx int
		set bool
	}
	var l []kv
	for f, s := range m {
		l = append(l, kv{f.Idx(), s})
	}
	sort.Slice(l, func(i, j int) bool { return l[i].idx < l[j].idx })
	parts := make([]string, len(l))
	for i, e := range l {
		b := 0
		if e.set {
			b = 1
		}
		parts[i] = fmt.Sprintf("%d:%d", e.idx, b)
	}
	if len(parts) == 0 {
		return "-"
	}
	return strings.Join(parts, ",")
}

// runFieldList: gvrun fieldlist <quick|thorough> <seed>
// lines: "<factory> <via> <raw> <fields> <renderhex|-> <stable>"
func runFieldList() {
	tier := os_Arg(2, "quick")
	seed, _ := strconv.ParseUint(os_Arg(3, "1"), 10, 64)
	rng := splitmix{seed}
	// an application that prints a name for every raw bit asks for the names of undocumented positions too: asking must
	// not change what counts as a documented field afterwards (the tables were dumped by another process before this one)
	for i := 0; i < 256; i++ {
		_ = veconst.InverterOffReason(i).String()
		_ = veconst.SolarOffReason(i).String()
		_ = veconst.InverterWarningReason(i).String()
		_ = veconst.InverterOffReason(i).Idx()
		_ = veconst.SolarOffReason(i).Idx()
		_ = veconst.InverterWarningReason(i).Idx()
	}
	// a product and register for each factory
	type target struct {
		fl   lists.FieldListFactory
		prod veproduct.Product
		reg  string
	}
	// for each factory find a product whose register list carries a register decoded by it
	var targets []target
	for _, fl := range lists.FieldLists {
		t := target{fl: fl}
		for id := 0; id < 65536 && t.reg == ""; id++ {
			rl, err := veregister.GetRegisterListByProduct(veproduct.Product(id))
			if err != nil {
				continue
			}
			for _, r := range rl.FieldListRegisters {
				if fmt.Sprintf("%T", r.Factory()) == "veconst."+fl.Name {
					t.prod, t.reg = veproduct.Product(id), r.Name()
					break
				}
			}
		}
		targets = append(targets, t)
	}
	for _, t := range targets {
		m := t.fl.F.IntToStringMap()
		var docBits []int
		for k := range m {
			docBits = append(docBits, k)
		}
		sort.Ints(docBits)
		// raw values: all combinations of documented bits x settings of the remaining bits
		var raws []uint64
		others := []uint64{0, ^uint64(0), 0xAAAAAAAAAAAAAAAA, 0x5555555555555555, 0xFFFFFFFF00000000, 0x0000000100000000}
		for i := 0; i < 4; i++ {
			others = append(others, rng.next())
		}
		var docMask uint64
		for _, b := range docBits {
			docMask |= 1 << uint(b)
		}
		for combo := 0; combo < 1<<len(docBits); combo++ {
			var v uint64
			for i, b := range docBits {
				if combo&(1<<i) != 0 {
					v |= 1 << uint(b)
				}
			}
			for _, o := range others {
				raws = append(raws, v|(o&^docMask))
			}
		}
		if t.fl.Bits == 16 || tier == "thorough" {
			for v := 0; v < 65536; v++ {
				raws = append(raws, uint64(v))
			}
		}
		// 1. the factory directly; the field set handed out for the previous value is kept and must still read
		// the same after the next value was decoded (two decoded sets alive at once)
		var prevSet map[veconst.Field]bool
		var prevStr string
		var prevRaw uint64
		for _, raw := range raws {
			fl, err := t.fl.F.NewFieldList(uint(raw))
			if err != nil {
				fmt.Fprintf(out, "%s direct %d ERR - 1\n", t.fl.Name, raw)
				continue
			}
			cur := fl.Fields()
			curStr := fieldMapString(cur)
			fmt.Fprintf(out, "%s direct %d %s - 1\n", t.fl.Name, raw, fieldsString(fl))
			if prevSet != nil && fieldMapString(prevSet) != prevStr {
				fmt.Fprintf(out, "%s altered %d %s - 1\n", t.fl.Name, prevRaw, fieldMapString(prevSet))
			}
			prevSet, prevStr, prevRaw = cur, curStr, raw
		}
		// 2. through the register API (value handler -> FieldListValue -> CommaString)
		if t.reg == "" {
			fmt.Fprintf(out, "%s unreachable 0 - - 1\n", t.fl.Name) // no product's register list uses this factory
			continue
		}
		api, p, err := connectAPI(uint16(t.prod))
		if err != nil {
			fmt.Fprintf(out, "%s api 0 CONNECT-ERR - 1\n", t.fl.Name)
			continue
		}
		var reg *veregister.FieldListRegisterStruct
		for i := range api.Registers.FieldListRegisters {
			if api.Registers.FieldListRegisters[i].Name() == t.reg {
				reg = &api.Registers.FieldListRegisters[i]
			}
		}
		if reg == nil || fmt.Sprintf("%T", reg.Factory()) != "veconst."+t.fl.Name {
			fmt.Fprintf(out, "%s api 0 NO-REGISTER - 1\n", t.fl.Name)
			continue
		}
		rl := veregister.NewRegisterList()
		rl.AppendFieldListRegisterStruct(*reg)
		step := 1
		if tier == "quick" && len(raws) > 4000 {
			step = len(raws) / 4000
		}
		// one answer of the natural width per value, and one of every width 1..8 holding the value's low
		// bytes (the device decides how many bytes it sends; the raw value is what those bytes encode)
		apiCase := func(raw uint64, width int) {
			val := make([]byte, width)
			for j := 0; j < width; j++ {
				val[j] = byte(raw >> (8 * uint(j)))
			}
			p.Reactions = append(p.Reactions, []sport.Event{{Kind: sport.EvData, Data: getResp(reg.Address(), 0, val)}})
			var got *vedirectapi.FieldListValue
			err := api.StreamRegisterList(context.Background(), rl, vedirectapi.ValueHandler{
				FieldList: func(v vedirectapi.FieldListValue) { got = &v },
			})
			if err != nil || got == nil {
				fmt.Fprintf(out, "%s api %d ERR - 1 w%d\n", t.fl.Name, raw, width)
				return
			}
			first := got.CommaString()
			stable := 1
			for k := 0; k < 64; k++ {
				if got.CommaString() != first {
					stable = 0
				}
			}
			if got.String() != reg.Name()+"="+first {
				stable = 0
			}
			r := hex.EncodeToString([]byte(first))
			if r == "" {
				r = "-"
			}
			fmt.Fprintf(out, "%s api %d %s %s %d w%d\n", t.fl.Name, raw, fieldsString(got.Value()), r, stable, width)
		}
		for i := 0; i < len(raws); i += step {
			raw := raws[i]
			width := []int{2, 4, 8}[rng.next()%3]
			if raw>>32 != 0 {
				width = 8
			} else if raw>>16 != 0 && width < 4 {
				width = 4
			}
			apiCase(raw, width)
			w := 1 + int(rng.next()%8)
			if w < 8 {
				apiCase(raw&(uint64(1)<<(8*uint(w))-1), w)
			} else {
				apiCase(raw, w)
			}
		}
		// every one-byte answer and the boundary patterns of every width
		for w := 1; w <= 8; w++ {
			top := uint64(1) << (8*uint(w) - 1)
			for _, raw := range []uint64{top, top - 1, top | 1, top | (top - 1), top >> 1, 0} {
				apiCase(raw, w)
			}
		}
		for v := uint64(0); v < 256; v++ {
			apiCase(v, 1)
		}
	}
}
