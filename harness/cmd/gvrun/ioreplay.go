package main

import (
	"bufio"
	"context"
	"fmt"
	"os"
	"strings"

	"github.com/koestler/go-victron/vedirect"
	"github.com/koestler/go-victron/vedirectapi"
)

// runIoReplay: gvrun ioreplay <io-log file>
// Builds a lookup port from the logged (tx, rx) pairs and runs NewRegisterApi + ReadAllRegisters
// against it; prints the values in the CLI's format (one per line, sorted by sort key).
func runIoReplay() {
	f, err := os.Open(os.Args[2])
	if err != nil {
		fmt.Fprintln(out, "REPLAY-ERROR cannot open log:", err)
		return
	}
	defer f.Close()
	table := map[string]string{}
	sc := bufio.NewScanner(f)
	sc.Buffer(make([]byte, 1<<20), 1<<26)
	n := 0
	for sc.Scan() {
		line := sc.Text()
		if strings.TrimSpace(line) == "" {
			continue
		}
		tx, rx, ok := parseIoLine(line)
		if !ok {
			fmt.Fprintf(out, "REPLAY-ERROR unparsable io log line %d: %q\n", n, line)
			return
		}
		n++
		table[tx] = rx
	}
	lp := &lookupPort{table: table}
	api, err := vedirectapi.NewRegisterApi(lp, vedirect.Config{})
	if err != nil {
		fmt.Fprintf(out, "REPLAY-CONNECT-ERROR %v\n", err)
		return
	}
	rv, err := api.ReadAllRegisters(context.Background())
	if err != nil {
		fmt.Fprintf(out, "REPLAY-FETCH-ERROR %v\n", err)
		return
	}
	list := rv.GetList()
	fmt.Fprintf(out, "REPLAY-OK lines=%d registers=%d\n", n, len(list))
	for _, l := range list {
		fmt.Fprintln(out, l)
	}
}
