package main

import (
	"fmt"
	"sort"
	"strings"

	"github.com/koestler/go-victron/veconst"
	"github.com/koestler/go-victron/vedirect"
	"github.com/koestler/go-victron/vedirectapi"
	"github.com/koestler/go-victron/veproduct"
	"github.com/koestler/go-victron/veregister"
	"verif/harness/lists"
	"verif/harness/sport"
)

// C17: lookup data handed out by the library cannot be corrupted by callers.
// For every lookup function L and every caller mutation M:
//   base := render(L()); x := L(); x2 := L(); M(x); render(x2) == base; render(L()) == base
// Mutations are applied cumulatively over a history, so a corruption that needs two steps
// (e.g. filter, then append) is reached too.

func renderIntMap(m map[int]string) string {
	ks := make([]int, 0, len(m))
	for k := range m {
		ks = append(ks, k)
	}
	sort.Ints(ks)
	var sb strings.Builder
	for _, k := range ks {
		fmt.Fprintf(&sb, "%d=%q;", k, m[k])
	}
	return sb.String()
}

func renderRegList(rl veregister.RegisterList) string {
	var sb strings.Builder
	for _, r := range rl.NumberRegisters {
		fmt.Fprintf(&sb, "N:%s,%s,%s,%d,%d,%v,%v,%v,%d,%v,%s;", r.Category(), r.Name(), r.Description(), r.Sort(), r.Address(), r.Static(), r.Writable(), r.Signed(), r.Factor(), r.Offset(), r.Unit())
	}
	for _, r := range rl.TextRegisters {
		fmt.Fprintf(&sb, "T:%s,%s,%s,%d,%d,%v,%v;", r.Category(), r.Name(), r.Description(), r.Sort(), r.Address(), r.Static(), r.Writable())
	}
	for _, r := range rl.EnumRegisters {
		fmt.Fprintf(&sb, "E:%s,%s,%s,%d,%d,%v,%v,%T;", r.Category(), r.Name(), r.Description(), r.Sort(), r.Address(), r.Static(), r.Writable(), r.Factory())
	}
	for _, r := range rl.FieldListRegisters {
		fmt.Fprintf(&sb, "F:%s,%s,%s,%d,%d,%v,%v,%T;", r.Category(), r.Name(), r.Description(), r.Sort(), r.Address(), r.Static(), r.Writable(), r.Factory())
	}
	return sb.String()
}

// foreignField: a caller's own implementation of veconst.Field
type foreignField struct{ i int }

func (f foreignField) Idx() int       { return f.i }
func (f foreignField) String() string { return "foreign" }

type copyCheck struct {
	n     int
	fails []string
}

func (c *copyCheck) expect(lookup, mutation string, got, base string) {
	c.n++
	if got != base {
		c.fails = append(c.fails, fmt.Sprintf("COPY-FAIL %s after %s: later call returned %d bytes of data that differ from the original %d", lookup, mutation, len(got), len(base)))
	}
}

func mutateIntMap(m map[int]string, step int) string {
	switch step % 4 {
	case 0:
		for k := range m {
			m[k] = "corrupted"
		}
		return "overwrite"
	case 1:
		for k := range m {
			delete(m, k)
		}
		return "delete"
	case 2:
		m[9999] = "inserted"
		m[-1] = "inserted"
		return "insert"
	default:
		for k := range m {
			m[k+1000] = m[k]
			delete(m, k)
		}
		return "rekey"
	}
}

func mutateRegList(rl *veregister.RegisterList, step int) string {
	var zeroN veregister.NumberRegisterStruct
	var zeroT veregister.TextRegisterStruct
	var zeroE veregister.EnumRegisterStruct
	var zeroF veregister.FieldListRegisterStruct
	switch step % 8 {
	case 0:
		for i := range rl.NumberRegisters {
			rl.NumberRegisters[i] = zeroN
		}
		for i := range rl.TextRegisters {
			rl.TextRegisters[i] = zeroT
		}
		for i := range rl.EnumRegisters {
			rl.EnumRegisters[i] = zeroE
		}
		for i := range rl.FieldListRegisters {
			rl.FieldListRegisters[i] = zeroF
		}
		return "overwrite-in-place"
	case 1:
		rl.FilterByName("ProductId", "OffReason", "WarningReason", "SerialNumber", "DeviceMode", "State")
		return "filter-by-name"
	case 2:
		rl.FilterRegister(func(r veregister.Register) bool { return r.Address()%2 == 0 })
		return "filter-predicate"
	case 3:
		rl.NumberRegisters = append(rl.NumberRegisters[:0], zeroN, zeroN)
		rl.TextRegisters = append(rl.TextRegisters[:0], zeroT)
		rl.EnumRegisters = append(rl.EnumRegisters[:0], zeroE)
		rl.FieldListRegisters = append(rl.FieldListRegisters[:0], zeroF)
		return "truncate-and-append"
	case 4:
		for i, j := 0, len(rl.NumberRegisters)-1; i < j; i, j = i+1, j-1 {
			rl.NumberRegisters[i], rl.NumberRegisters[j] = rl.NumberRegisters[j], rl.NumberRegisters[i]
		}
		for i, j := 0, len(rl.FieldListRegisters)-1; i < j; i, j = i+1, j-1 {
			rl.FieldListRegisters[i], rl.FieldListRegisters[j] = rl.FieldListRegisters[j], rl.FieldListRegisters[i]
		}
		return "reverse-in-place"
	case 5:
		veregister.AppendSolarLoadData(rl)
		veregister.AppendBmvProduct(rl)
		return "append-families"
	case 6:
		rl.FilterRegister(func(r veregister.Register) bool { return false })
		veregister.AppendInverter(rl)
		return "filter-all-then-append"
	default:
		if n := len(rl.NumberRegisters); n > 1 {
			rl.NumberRegisters = rl.NumberRegisters[:n/2]
			rl.NumberRegisters = append(rl.NumberRegisters, zeroN)
		}
		if n := len(rl.FieldListRegisters); n > 0 {
			rl.FieldListRegisters = rl.FieldListRegisters[:n-1]
			rl.FieldListRegisters = append(rl.FieldListRegisters, zeroF)
		}
		return "shrink-and-append"
	}
}

func runCopies() {
	c := &copyCheck{}
	// ---- product string map ----
	{
		render := func(m map[veproduct.Product]string) string {
			im := map[int]string{}
			for k, v := range m {
				im[int(k)] = v
			}
			return renderIntMap(im)
		}
		// the result of the very FIRST call of the process is mutated too (step 0): a lazily
		// built cache that is handed out by the call that builds it would otherwise go unnoticed
		first := veproduct.GetStringMap()
		base := render(first)
		for step := 0; step < 8; step++ {
			x, x2 := veproduct.GetStringMap(), veproduct.GetStringMap()
			if step == 0 {
				x = first
			}
			mut := ""
			switch step % 4 {
			case 0:
				for k := range x {
					x[k] = "corrupted"
				}
				mut = "overwrite"
			case 1:
				for k := range x {
					delete(x, k)
				}
				mut = "delete"
			case 2:
				x[veproduct.Product(0x1234)] = "inserted"
				mut = "insert"
			default:
				x[veproduct.BMV700] = ""
				mut = "blank-one"
			}
			c.expect("veproduct.GetStringMap", mut+"(other copy)", render(x2), base)
			c.expect("veproduct.GetStringMap", mut, render(veproduct.GetStringMap()), base)
			if veproduct.BMV700.String() != "BMV 700" || !veproduct.BMV700.Exists() {
				c.fails = append(c.fails, "COPY-FAIL veproduct accessors changed after mutating the string map: "+mut)
			}
		}
	}
	// ---- IntToStringMap of every enum and field-list factory ----
	type imf struct {
		name string
		f    func() map[int]string
	}
	var imfs []imf
	for _, e := range lists.Enums {
		e := e
		imfs = append(imfs, imf{e.Name, e.F.IntToStringMap})
	}
	for _, f := range lists.FieldLists {
		f := f
		imfs = append(imfs, imf{f.Name, f.F.IntToStringMap})
	}
	for _, l := range imfs {
		first := l.f()
		base := renderIntMap(first)
		for step := 0; step < 8; step++ {
			x, x2 := l.f(), l.f()
			if step == 0 {
				x = first
			}
			mut := mutateIntMap(x, step)
			c.expect(l.name+".IntToStringMap", mut+"(other copy)", renderIntMap(x2), base)
			c.expect(l.name+".IntToStringMap", mut, renderIntMap(l.f()), base)
		}
	}
	// enum constants still name themselves after the maps were mutated
	for _, e := range lists.Enums {
		for k, v := range e.F.IntToStringMap() {
			en, err := e.F.NewEnum(k)
			c.n++
			if err != nil || en.String() != v || en.Idx() != k {
				c.fails = append(c.fails, fmt.Sprintf("COPY-FAIL %s.NewEnum(%d) changed after caller mutations", e.Name, k))
			}
		}
	}
	// ---- decoded field sets: Fields() (interface) and Decode() (typed), incl. raw value 0 ----
	renderFields := func(fl veconst.FieldList) string { return fieldsString(fl) }
	for _, f := range lists.FieldLists {
		for _, raw := range []uint{0, 1, 0x5, 0x21, 0x205, 0xFFFF, 0xFFFFFFFF, 0} {
			fl, _ := f.F.NewFieldList(raw)
			base := renderFields(fl)
			for step := 0; step < 6; step++ {
				m := fl.Fields()
				mut := ""
				switch step {
				case 4:
					m[foreignField{100}] = true // a key of the caller's own Field type
					m[foreignField{101}] = false
					mut = "insert-foreign-keys"
				case 5:
					// another value of the same type is decoded while this set is still held, and edited
					other, _ := f.F.NewFieldList(^raw & 0xFFFF)
					om := other.Fields()
					for k := range om {
						om[k] = !om[k]
					}
					if got := fieldMapString(m); got != base {
						c.fails = append(c.fails, fmt.Sprintf("COPY-FAIL %s.Fields(raw=%#x) changed when another value was decoded and edited: %s, was %s", f.Name, raw, got, base))
					}
					mut = "two-live-results"
				case 0:
					for k := range m {
						m[k] = !m[k]
					}
					mut = "flip"
				case 1:
					for k := range m {
						delete(m, k)
					}
					mut = "delete"
				case 2:
					for k := range m {
						m[k] = true
					}
					mut = "set-all"
				default:
					for k := range m {
						m[k] = false
					}
					mut = "clear-all"
				}
				fl2, _ := f.F.NewFieldList(raw)
				c.expect(fmt.Sprintf("%s.Fields(raw=%#x)", f.Name, raw), mut, renderFields(fl2), base)
				c.expect(fmt.Sprintf("%s.Fields(raw=%#x) same value", f.Name, raw), mut, renderFields(fl), base)
			}
			// typed Decode()
			switch v := fl.(type) {
			case veconst.SolarOffReasons:
				d := v.Decode()
				for k := range d {
					d[k] = !d[k]
				}
				delete(d, veconst.SolarOffReasonNoInputPower)
			case veconst.InverterOffReasons:
				d := v.Decode()
				for k := range d {
					d[k] = !d[k]
				}
				delete(d, veconst.InverterOffReasonNoInputPower)
			case veconst.InverterWarningReasons:
				d := v.Decode()
				for k := range d {
					delete(d, k)
				}
			}
			fl3, _ := f.F.NewFieldList(raw)
			c.expect(fmt.Sprintf("%s.Decode(raw=%#x)", f.Name, raw), "mutate-decoded-map", renderFields(fl3), base)
			c.expect(fmt.Sprintf("%s.Decode(raw=%#x) same value", f.Name, raw), "mutate-decoded-map", renderFields(fl), base)
		}
	}
	// ---- per-product register lists ----
	prods := []veproduct.Product{veproduct.BMV700, veproduct.BMV702, veproduct.BMV712Smart, veproduct.SmartShunt500A_50mV,
		veproduct.SmartSolarMPPT100_30, veproduct.SmartSolarMPPT75_15, veproduct.BlueSolarMPPT75_10, veproduct.SmartSolarMPPT250_100,
		veproduct.PhoenixInverter12V250VA230V, veproduct.PhoenixInverterSmart24V5000VA230Vac64k}
	bases := map[veproduct.Product]string{}
	firsts := map[veproduct.Product]veregister.RegisterList{}
	for _, p := range prods {
		rl, _ := veregister.GetRegisterListByProduct(p)
		bases[p] = renderRegList(rl)
		firsts[p] = rl
	}
	for round := 0; round < 2; round++ {
		for step := 0; step < 8; step++ {
			for _, p := range prods {
				x, _ := veregister.GetRegisterListByProduct(p)
				x2, _ := veregister.GetRegisterListByProduct(p)
				if round == 0 && step == 0 {
					x = firsts[p] // the first list ever handed out for this product
				}
				mut := mutateRegList(&x, step)
				c.expect(fmt.Sprintf("GetRegisterListByProduct(%#x)", uint16(p)), mut+"(other copy)", renderRegList(x2), bases[p])
				for _, q := range prods { // every product, also others of the same class
					y, _ := veregister.GetRegisterListByProduct(q)
					c.expect(fmt.Sprintf("GetRegisterListByProduct(%#x)", uint16(q)), fmt.Sprintf("%s of the list of %#x", mut, uint16(p)), renderRegList(y), bases[q])
				}
			}
		}
	}
	// ---- the merged, sorted view of one list: GetRegisters hands out a list too ----
	renderRegs := func(rs []veregister.Register) string {
		var sb strings.Builder
		for _, r := range rs {
			if r == nil {
				sb.WriteString("<nil>;")
				continue
			}
			fmt.Fprintf(&sb, "%d:%s,%s,%s,%d,%d,%v,%v;", r.Type(), r.Category(), r.Name(), r.Description(), r.Sort(), r.Address(), r.Static(), r.Writable())
		}
		return sb.String()
	}
	for step := 0; step < 6; step++ {
		for _, p := range prods {
			rl, _ := veregister.GetRegisterListByProduct(p)
			g := rl.GetRegisters()
			base := renderRegs(g)
			mut := ""
			switch step {
			case 0:
				for i := range g {
					g[i] = nil
				}
				mut = "overwrite every entry with nil"
			case 1:
				for i, j := 0, len(g)-1; i < j; i, j = i+1, j-1 {
					g[i], g[j] = g[j], g[i]
				}
				mut = "reverse in place"
			case 2:
				kept := g[:0]
				for _, r := range g {
					if r != nil && r.Static() {
						kept = append(kept, r)
					}
				}
				for i := len(kept); i < len(g); i++ {
					g[i] = nil
				}
				mut = "filter in place (kept := regs[:0])"
			case 3:
				if len(g) > 2 {
					g = append(g[:1], g[2:]...)
				}
				mut = "delete the second entry in place"
			case 4:
				if len(g) > 1 {
					g = append(g, g[0])
					g[0] = g[len(g)-2]
				}
				mut = "append and overwrite the first entry"
			default:
				sort.Slice(g, func(i, j int) bool { return g[i] != nil && g[j] != nil && g[i].Name() > g[j].Name() })
				mut = "sort by name in place"
			}
			c.expect(fmt.Sprintf("GetRegisters() of the list of %#x", uint16(p)), mut+" on the slice returned earlier", renderRegs(rl.GetRegisters()), base)
			cp := rl
			c.expect(fmt.Sprintf("GetRegisters() of a copy of the list of %#x", uint16(p)), mut+" on the slice returned earlier", renderRegs(cp.GetRegisters()), base)
			y, _ := veregister.GetRegisterListByProduct(p)
			c.expect(fmt.Sprintf("GetRegisterListByProduct(%#x).GetRegisters()", uint16(p)), mut+" on the slice returned by an earlier list", renderRegs(y.GetRegisters()), base)
		}
	}
	// ---- values and lists handed out by a RegisterApi object (a simulated device answers every Get with a fixed value) ----
	for _, devId := range []uint16{0xA056, 0xA231, 0xA381} {
		func() {
			defer func() {
				if r := recover(); r != nil {
					c.fails = append(c.fails, fmt.Sprintf("COPY-FAIL register API on device %#x: panic %v", devId, r))
				}
			}()
			frame := func(resp byte, payload []byte) []byte {
				sum := resp
				for _, b := range payload {
					sum += b
				}
				chk := byte(0x55 - sum)
				return []byte(fmt.Sprintf(":%X%X\n", resp, append(append([]byte{}, payload...), chk)))
			}
			unhex := func(c byte) byte {
				switch {
				case c >= '0' && c <= '9':
					return c - '0'
				case c >= 'A' && c <= 'F':
					return c - 'A' + 10
				}
				return 0
			}
			p := &sport.Port{}
			p.OnWrite = func(k int, b []byte) {
				if len(b) < 3 || b[0] != ':' {
					return
				}
				var ans []byte
				switch b[1] {
				case '1':
					ans = frame(5, []byte{0x16, 0x41})
				case '4':
					ans = frame(1, []byte{byte(devId), byte(devId >> 8)})
				case '7':
					if len(b) >= 6 {
						lo := unhex(b[2])<<4 | unhex(b[3])
						hi := unhex(b[4])<<4 | unhex(b[5])
						// every register holds 1 (off reason "no input power", warning "low battery", state 1, ...)
						ans = frame(7, []byte{lo, hi, 0, 1, 0})
					}
				}
				p.Queue = append(p.Queue, sport.Event{Kind: sport.EvData, Data: ans})
			}
			api, err := vedirectapi.NewRegisterApi(p, vedirect.Config{})
			if err != nil || api == nil {
				c.fails = append(c.fails, fmt.Sprintf("COPY-FAIL cannot connect to the simulated device %#x: %v", devId, err))
				return
			}
			prod := veproduct.Product(devId)
			fresh, _ := veregister.GetRegisterListByProduct(prod)
			listBase := renderRegList(fresh)
			// (1) decoded field sets of values read through the API
			for _, r := range api.Registers.FieldListRegisters {
				v1, err := api.ReadFieldListRegister(r)
				if err != nil {
					continue
				}
				base := fieldMapString(v1.Fields())
				m := v1.Fields()
				for k := range m {
					m[k] = !m[k]
				}
				m[foreignField{99}] = true
				c.expect(fmt.Sprintf("Fields() of the value of %s read through the API (device %#x)", r.Name(), devId), "flip every entry and add one in the map returned earlier", fieldMapString(v1.Fields()), base)
				v2, err := api.ReadFieldListRegister(r)
				if err == nil {
					c.expect(fmt.Sprintf("ReadFieldListRegister(%s).Fields() (device %#x, same raw value as before)", r.Name(), devId), "flip every entry and add one in the map of the earlier value", fieldMapString(v2.Fields()), base)
				}
			}
			// (2) the exported register list of the object: in-place writes by its owner must not reach later lookups
			for i, j := 0, len(api.Registers.NumberRegisters)-1; i < j; i, j = i+1, j-1 {
				api.Registers.NumberRegisters[i], api.Registers.NumberRegisters[j] = api.Registers.NumberRegisters[j], api.Registers.NumberRegisters[i]
			}
			for i := range api.Registers.EnumRegisters {
				api.Registers.EnumRegisters[i] = veregister.EnumRegisterStruct{}
			}
			api.Registers.TextRegisters = api.Registers.TextRegisters[:0]
			again, _ := veregister.GetRegisterListByProduct(prod)
			c.expect(fmt.Sprintf("GetRegisterListByProduct(%#x)", devId), "in-place writes (reverse numbers, zero enums, truncate texts) into RegisterApi.Registers of an object connected to that product", renderRegList(again), listBase)
			p2 := &sport.Port{}
			p2.OnWrite = func(k int, b []byte) {
				p.Queue = nil
				p.OnWrite(k, b)
				p2.Queue = append(p2.Queue, p.Queue...)
				p.Queue = nil
			}
			api2, err := vedirectapi.NewRegisterApi(p2, vedirect.Config{})
			if err == nil && api2 != nil {
				c.expect(fmt.Sprintf("Registers of a second RegisterApi on a device %#x", devId), "in-place writes into the first object's Registers", renderRegList(api2.Registers), listBase)
			}
		}()
	}
	// ---- family lists appended into a caller's list ----
	famBase := func() string {
		rl := veregister.NewRegisterList()
		veregister.AppendBmv(&rl)
		veregister.AppendSolar(&rl)
		veregister.AppendInverter(&rl)
		return renderRegList(rl)
	}
	fb := famBase()
	for step := 0; step < 8; step++ {
		rl := veregister.NewRegisterList()
		veregister.AppendBmv(&rl)
		veregister.AppendSolar(&rl)
		veregister.AppendInverter(&rl)
		mut := mutateRegList(&rl, step)
		c.expect("Append{Bmv,Solar,Inverter}", mut, famBase(), fb)
	}
	for _, f := range c.fails {
		fmt.Fprintln(out, f)
	}
	fmt.Fprintf(out, "COPY-SUMMARY checks=%d failures=%d\n", c.n, len(c.fails))
}
