package main

import (
	"bufio"
	"fmt"
	"os"
	"strconv"
	"strings"

	"github.com/koestler/go-victron/veproduct"
	"github.com/koestler/go-victron/veregister"
)

func regFp(r veregister.Register) string {
	return fmt.Sprintf("%d.%s.%d.%d", r.Type(), r.Name(), r.Address(), r.Sort())
}

func idxList(s string) []int {
	if s == "" {
		return nil
	}
	var out []int
	for _, t := range strings.Split(s, ",") {
		n, _ := strconv.Atoi(t)
		out = append(out, n)
	}
	return out
}

func mkPred(spec string) func(r veregister.Register) bool {
	f := strings.SplitN(spec, ":", 2)
	arg := ""
	if len(f) > 1 {
		arg = f[1]
	}
	inSet := func(name string) bool {
		for _, n := range strings.Split(arg, ",") {
			if n == name {
				return true
			}
		}
		return false
	}
	switch f[0] {
	case "namein":
		return func(r veregister.Register) bool { return inSet(r.Name()) }
	case "namenotin":
		return func(r veregister.Register) bool { return !inSet(r.Name()) }
	case "even":
		return func(r veregister.Register) bool { return r.Address()%2 == 0 }
	case "odd":
		return func(r veregister.Register) bool { return r.Address()%2 == 1 }
	case "kind":
		k, _ := strconv.Atoi(arg)
		kindSeq++
		if kindSeq%2 == 0 {
			// the same predicate written as callers do who need the kind-specific accessors: by the dynamic type
			// of the stored value
			return func(r veregister.Register) bool {
				got := veregister.Undefined
				switch r.(type) {
				case veregister.NumberRegisterStruct:
					got = veregister.Number
				case veregister.TextRegisterStruct:
					got = veregister.Text
				case veregister.EnumRegisterStruct:
					got = veregister.Enum
				case veregister.FieldListRegisterStruct:
					got = veregister.FieldList
				}
				return int(got) == k
			}
		}
		return func(r veregister.Register) bool { return int(r.Type()) == k }
	case "sortbelow":
		k, _ := strconv.Atoi(arg)
		return func(r veregister.Register) bool { return r.Sort() < k }
	case "static":
		return func(r veregister.Register) bool { return r.Static() }
	case "writable":
		return func(r veregister.Register) bool { return r.Writable() }
	case "true":
		return func(r veregister.Register) bool { return true }
	}
	return func(r veregister.Register) bool { return false }
}

var kindSeq int

// runRegList: gvrun reglist <casefile>; lines "<id> ops=<op>;<op>;..."
func runRegList() {
	alpha := veregister.NewRegisterList()
	veregister.AppendBmv(&alpha)
	veregister.AppendSolar(&alpha)
	veregister.AppendInverter(&alpha)
	f, err := os.Open(os.Args[2])
	if err != nil {
		panic(err)
	}
	defer f.Close()
	sc := bufio.NewScanner(f)
	sc.Buffer(make([]byte, 1<<20), 1<<26)
	for sc.Scan() {
		line := sc.Text()
		if line == "" || line[0] == '#' {
			continue
		}
		fs := strings.Fields(line)
		id := fs[0]
		ops := strings.TrimPrefix(fs[1], "ops=")
		res := func() (res string) {
			defer func() {
				if r := recover(); r != nil {
					res = id + " PANIC"
				}
			}()
			rl := veregister.NewRegisterList()
			var lens []string
			var mids []string
			if ops != "" {
				for _, op := range strings.Split(ops, ";") {
					kv := strings.SplitN(op, ":", 2)
					arg := ""
					if len(kv) > 1 {
						arg = kv[1]
					}
					switch kv[0] {
					case "aN":
						var rs []veregister.NumberRegisterStruct
						for _, i := range idxList(arg) {
							rs = append(rs, alpha.NumberRegisters[i])
						}
						rl.AppendNumberRegisterStruct(rs...)
						// the caller goes on using its own slice: overwrite it, spare capacity included
						rs = rs[:cap(rs)]
						for i := range rs {
							rs[i] = veregister.NumberRegisterStruct{}
						}
					case "aT":
						var rs []veregister.TextRegisterStruct
						for _, i := range idxList(arg) {
							rs = append(rs, alpha.TextRegisters[i])
						}
						rl.AppendTextRegisterStruct(rs...)
						// the caller goes on using its own slice: overwrite it, spare capacity included
						rs = rs[:cap(rs)]
						for i := range rs {
							rs[i] = veregister.TextRegisterStruct{}
						}
					case "aE":
						var rs []veregister.EnumRegisterStruct
						for _, i := range idxList(arg) {
							rs = append(rs, alpha.EnumRegisters[i])
						}
						rl.AppendEnumRegisterStruct(rs...)
						// the caller goes on using its own slice: overwrite it, spare capacity included
						rs = rs[:cap(rs)]
						for i := range rs {
							rs[i] = veregister.EnumRegisterStruct{}
						}
					case "aF":
						var rs []veregister.FieldListRegisterStruct
						for _, i := range idxList(arg) {
							rs = append(rs, alpha.FieldListRegisters[i])
						}
						rl.AppendFieldListRegisterStruct(rs...)
						// the caller goes on using its own slice: overwrite it, spare capacity included
						rs = rs[:cap(rs)]
						for i := range rs {
							rs[i] = veregister.FieldListRegisterStruct{}
						}
					case "g":
						// observe the combined view in the middle of the history
						g := rl.GetRegisters()
						ps := make([]string, len(g))
						for i, r := range g {
							ps[i] = regFp(r)
						}
						mids = append(mids, strings.Join(ps, ","))
					case "fp":
						rl.FilterRegister(mkPred(arg))
					case "fn":
						if arg == "" {
							rl.FilterByName()
						} else {
							rl.FilterByName(strings.Split(arg, ",")...)
						}
					}
					lens = append(lens, strconv.Itoa(rl.Len()))
				}
			}
			join := func(n int, at func(i int) veregister.Register) string {
				if n == 0 {
					return "-"
				}
				p := make([]string, n)
				for i := 0; i < n; i++ {
					p[i] = regFp(at(i))
				}
				return strings.Join(p, ",")
			}
			g := rl.GetRegisters()
			if len(lens) == 0 {
				lens = []string{"-"}
			}
			mid := "-"
			if len(mids) > 0 {
				mid = strings.Join(mids, "|")
			}
			return fmt.Sprintf("%s len=%s N=%s T=%s E=%s F=%s M=%s G=%s", id, strings.Join(lens, ","),
				join(len(rl.NumberRegisters), func(i int) veregister.Register { return rl.NumberRegisters[i] }),
				join(len(rl.TextRegisters), func(i int) veregister.Register { return rl.TextRegisters[i] }),
				join(len(rl.EnumRegisters), func(i int) veregister.Register { return rl.EnumRegisters[i] }),
				join(len(rl.FieldListRegisters), func(i int) veregister.Register { return rl.FieldListRegisters[i] }),
				mid,
				join(len(g), func(i int) veregister.Register { return g[i] }))
		}()
		fmt.Fprintln(out, res)
	}
}

// runRegListTwin: gvrun reglisttwin.  Two lists obtained by two separate lookups of the same product are two lists:
// appends to the one and then to the other (which fit whatever spare capacity the lists came with) leave each equal to
// its own four plain sequences -- base followed by its own block.  Prints TWIN-FAIL lines and a summary.
func runRegListTwin() {
	alpha := veregister.NewRegisterList()
	veregister.AppendBmv(&alpha)
	veregister.AppendSolar(&alpha)
	veregister.AppendInverter(&alpha)
	fpN := func(rs []veregister.NumberRegisterStruct) string {
		p := make([]string, len(rs))
		for i, r := range rs {
			p[i] = regFp(r)
		}
		return strings.Join(p, ",")
	}
	fpE := func(rs []veregister.EnumRegisterStruct) string {
		p := make([]string, len(rs))
		for i, r := range rs {
			p[i] = regFp(r)
		}
		return strings.Join(p, ",")
	}
	fpT := func(rs []veregister.TextRegisterStruct) string {
		p := make([]string, len(rs))
		for i, r := range rs {
			p[i] = regFp(r)
		}
		return strings.Join(p, ",")
	}
	prods := []veproduct.Product{veproduct.BMV700, veproduct.BMV712Smart, veproduct.SmartShunt500A_50mV, veproduct.SmartSolarMPPT100_30,
		veproduct.SmartSolarMPPT75_15, veproduct.BlueSolarMPPT75_10, veproduct.SmartSolarMPPT250_100, veproduct.BlueSolarMPPT75_50,
		veproduct.PhoenixInverter12V250VA230V, veproduct.PhoenixInverterSmart24V5000VA230Vac64k}
	n, fails := 0, 0
	for _, p := range prods {
		for k := 1; k <= 4; k++ {
			for off := 0; off < 3; off++ {
				func() {
					defer func() {
						if r := recover(); r != nil {
							fails++
							fmt.Fprintf(out, "TWIN-FAIL product=%#x panic: %v\n", uint16(p), r)
						}
					}()
					a, _ := veregister.GetRegisterListByProduct(p)
					b, _ := veregister.GetRegisterListByProduct(p)
					baseN := append([]veregister.NumberRegisterStruct{}, a.NumberRegisters...)
					baseT := append([]veregister.TextRegisterStruct{}, a.TextRegisters...)
					baseE := append([]veregister.EnumRegisterStruct{}, a.EnumRegisters...)
					blkAN := append([]veregister.NumberRegisterStruct{}, alpha.NumberRegisters[off*7:off*7+k]...)
					blkBN := append([]veregister.NumberRegisterStruct{}, alpha.NumberRegisters[40+off : 40+off+k]...)
					blkAE := append([]veregister.EnumRegisterStruct{}, alpha.EnumRegisters[off:off+k]...)
					blkBE := append([]veregister.EnumRegisterStruct{}, alpha.EnumRegisters[10+off : 10+off+k]...)
					blkAT := append([]veregister.TextRegisterStruct{}, alpha.TextRegisters[0:1]...)
					blkBT := append([]veregister.TextRegisterStruct{}, alpha.TextRegisters[1:2]...)
					if off == 2 {
						veregister.AppendSolarLoadData(&a) // the block a caller of the factory is most likely to add
						blkAN = nil
						la := veregister.NewRegisterList()
						veregister.AppendSolarLoadData(&la)
						blkAN = append(blkAN, la.NumberRegisters...)
						blkAE = append([]veregister.EnumRegisterStruct{}, la.EnumRegisters...)
						blkAT = nil
					} else {
						a.AppendNumberRegisterStruct(blkAN...)
						a.AppendEnumRegisterStruct(blkAE...)
						a.AppendTextRegisterStruct(blkAT...)
					}
					b.AppendNumberRegisterStruct(blkBN...)
					b.AppendEnumRegisterStruct(blkBE...)
					b.AppendTextRegisterStruct(blkBT...)
					check := func(which, kind, got, want string) {
						n++
						if got != want {
							fails++
							fmt.Fprintf(out, "TWIN-FAIL product=%#x block=%d variant=%d: the %s sequence of list %s is not its base followed by its own block after appends to the other list of the same product\n", uint16(p), k, off, kind, which)
						}
					}
					check("A", "number", fpN(a.NumberRegisters), fpN(append(append([]veregister.NumberRegisterStruct{}, baseN...), blkAN...)))
					check("A", "enum", fpE(a.EnumRegisters), fpE(append(append([]veregister.EnumRegisterStruct{}, baseE...), blkAE...)))
					check("A", "text", fpT(a.TextRegisters), fpT(append(append([]veregister.TextRegisterStruct{}, baseT...), blkAT...)))
					check("B", "number", fpN(b.NumberRegisters), fpN(append(append([]veregister.NumberRegisterStruct{}, baseN...), blkBN...)))
					check("B", "enum", fpE(b.EnumRegisters), fpE(append(append([]veregister.EnumRegisterStruct{}, baseE...), blkBE...)))
					check("B", "text", fpT(b.TextRegisters), fpT(append(append([]veregister.TextRegisterStruct{}, baseT...), blkBT...)))
					n++
					if a.Len() != len(baseN)+len(blkAN)+len(baseE)+len(blkAE)+len(baseT)+len(blkAT)+len(a.FieldListRegisters) {
						fails++
						fmt.Fprintf(out, "TWIN-FAIL product=%#x block=%d variant=%d: Len of list A\n", uint16(p), k, off)
					}
				}()
			}
		}
	}
	fmt.Fprintf(out, "TWIN-SUMMARY checks=%d failures=%d\n", n, fails)
}
