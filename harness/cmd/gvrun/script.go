package main

import (
	"bufio"
	"encoding/hex"
	"errors"
	"fmt"
	"io"
	"os"
	"strconv"
	"strings"
	"time"

	"github.com/koestler/go-victron/vedirect"
	"verif/harness/sport"
)

// ---- case parsing (format documented in DESIGN.md / lib/cases.py) ----

type scall struct {
	kind string
	cmd  int
	addr int
	idle byte
}

type scase struct {
	id     string
	cfg    int
	np     bool
	stale  []sport.Event
	wf, ff []bool
	react  [][]sport.Event
	calls  []scall
}

func parseEvents(s string) []sport.Event {
	if s == "-" || s == "" {
		return nil
	}
	var evs []sport.Event
	for _, t := range strings.Split(s, ",") {
		switch t[0] {
		case 'd':
			b, err := hex.DecodeString(t[1:])
			if err != nil {
				panic("bad hex in case: " + t)
			}
			evs = append(evs, sport.Event{Kind: sport.EvData, Data: b})
		case 'e':
			evs = append(evs, sport.Event{Kind: sport.EvEOF})
		case 'x':
			evs = append(evs, sport.Event{Kind: sport.EvErr})
		case 'z':
			evs = append(evs, sport.Event{Kind: sport.EvEmpty})
		}
	}
	return evs
}

func parseBits(s string) []bool {
	if s == "-" {
		return nil
	}
	r := make([]bool, len(s))
	for i := range s {
		r[i] = s[i] == '1'
	}
	return r
}

func parseCase(line string) scase {
	f := strings.Fields(line)
	c := scase{id: f[0]}
	for _, kv := range f[1:] {
		i := strings.IndexByte(kv, '=')
		k, v := kv[:i], kv[i+1:]
		switch k {
		case "cfg":
			c.cfg, _ = strconv.Atoi(v)
		case "np":
			c.np = v == "1"
		case "stale":
			c.stale = parseEvents(v)
		case "wf":
			c.wf = parseBits(v)
		case "ff":
			c.ff = parseBits(v)
		case "re":
			if v != "-" {
				for _, r := range strings.Split(v, "|") {
					c.react = append(c.react, parseEvents(r))
				}
			}
		case "calls":
			for _, cs := range strings.Split(v, ";") {
				p := strings.Split(cs, "/")
				sc := scall{kind: p[0], idle: p[2][0]}
				sc.addr, _ = strconv.Atoi(p[1])
				if strings.HasPrefix(sc.kind, "cmd") {
					sc.cmd, _ = strconv.Atoi(sc.kind[3:])
					sc.kind = "cmd"
				}
				c.calls = append(c.calls, sc)
			}
		}
	}
	return c
}

// ---- loggers ----

type countLogger struct{ n int }

func (l *countLogger) Println(v ...any) { l.n++ }

type ioLogger struct{ lines []string }

func (l *ioLogger) Println(v ...any) { l.lines = append(l.lines, fmt.Sprint(v...)) }

func errClass(err error) string {
	switch {
	case errors.Is(err, vedirect.ErrUnknownId):
		return "Eunknownid"
	case errors.Is(err, vedirect.ErrorNotSupported):
		return "Enotsupported"
	case errors.Is(err, vedirect.ErrorParameterError):
		return "Eparameter"
	default:
		return "Eother"
	}
}

// parse `"tx": "rx", // comment`
func parseIoLine(s string) (string, string, bool) {
	q1, err := strconv.QuotedPrefix(s)
	if err != nil {
		return "", "", false
	}
	tx, err := strconv.Unquote(q1)
	if err != nil {
		return "", "", false
	}
	rest := s[len(q1):]
	if !strings.HasPrefix(rest, ": ") {
		return "", "", false
	}
	rest = rest[2:]
	q2, err := strconv.QuotedPrefix(rest)
	if err != nil {
		return "", "", false
	}
	rx, err := strconv.Unquote(q2)
	if err != nil {
		return "", "", false
	}
	if !strings.HasPrefix(rest[len(q2):], ", // ") {
		return "", "", false
	}
	return tx, rx, true
}

type obs struct {
	results []string
	port    *sport.Port
	marks   []int
	lines   []string
	dbg     int
	kept    [][]byte // returned slices, re-checked after all later calls (C02 last clause)
	keptHex []string
	altered bool
}

func runCaseOnce(c scase) obs {
	p := &sport.Port{NoProgress: c.np, WriteFaults: c.wf, FlushFaults: c.ff}
	for _, ev := range c.stale {
		p.Queue = append(p.Queue, sport.Event{Kind: ev.Kind, Data: append([]byte{}, ev.Data...)})
	}
	for _, r := range c.react {
		p.Reactions = append(p.Reactions, r)
	}
	var conf vedirect.Config
	dl := &countLogger{}
	il := &ioLogger{}
	if c.cfg&1 != 0 {
		conf.DebugLogger = dl
	}
	if c.cfg&2 != 0 {
		conf.IoLogger = il
	}
	vd, err := vedirect.NewVedirect(p, conf)
	if err != nil {
		panic(err)
	}
	o := obs{port: p}
	for _, k := range c.calls {
		switch k.idle {
		case 'i':
			// idle: the previous command lies at least 100 ms back -- a little, seconds, a day, or never
			idleSeq++
			switch idleSeq % 4 {
			case 0:
				vd.VerifSetLastSent(time.Time{})
			case 1:
				vd.VerifSetLastSent(time.Now().Add(-150 * time.Millisecond))
			case 2:
				vd.VerifSetLastSent(time.Now().Add(-2 * time.Second))
			default:
				vd.VerifSetLastSent(time.Now().Add(-24 * time.Hour))
			}
		case 'b':
			vd.VerifSetLastSent(time.Now().Add(time.Hour))
		}
		res := execCall(vd, k, &o)
		o.results = append(o.results, res)
		o.marks = append(o.marks, len(p.Delivered))
		if res == "P" || res == "H" {
			break
		}
	}
	for i, v := range o.kept {
		if hex.EncodeToString(v) != o.keptHex[i] {
			o.altered = true
		}
	}
	o.lines = il.lines
	o.dbg = dl.n
	return o
}

func execCall(vd *vedirect.Vedirect, k scall, o *obs) (res string) {
	defer func() {
		if r := recover(); r != nil {
			if _, ok := r.(sport.BudgetExceeded); ok {
				res = "H" // unbounded reads after end of data: the call hangs on a real port
			} else {
				res = "P"
			}
		}
	}()
	switch k.kind {
	case "ping":
		if err := vd.Ping(); err != nil {
			res = errClass(err)
		} else {
			res = "ok"
		}
	case "devid":
		if v, err := vd.GetDeviceId(); err != nil {
			res = errClass(err) + nz(v != 0)
		} else {
			res = "n" + strconv.FormatUint(uint64(v), 10)
		}
	case "raw":
		if v, err := vd.VeCommandGet(uint16(k.addr)); err != nil {
			res = errClass(err) + nz(len(v) != 0)
		} else {
			res = "h" + hex.EncodeToString(v)
			if o != nil {
				o.kept = append(o.kept, v)
				o.keptHex = append(o.keptHex, hex.EncodeToString(v))
			}
		}
	case "uint":
		if v, err := vd.GetUint(uint16(k.addr)); err != nil {
			res = errClass(err) + nz(v != 0)
		} else {
			res = "n" + strconv.FormatUint(v, 10)
		}
	case "int":
		if v, err := vd.GetInt(uint16(k.addr)); err != nil {
			res = errClass(err) + nz(v != 0)
		} else {
			res = "n" + strconv.FormatInt(v, 10)
		}
	case "str":
		if v, err := vd.GetString(uint16(k.addr)); err != nil {
			res = errClass(err) + nz(v != "")
		} else {
			res = "h" + hex.EncodeToString([]byte(v))
		}
	case "cmd":
		if v, err := vd.VeCommand(vedirect.VeCommand(k.cmd), uint16(k.addr)); err != nil {
			res = errClass(err) + nz(len(v) != 0)
		} else {
			res = "h" + hex.EncodeToString(v)
			if o != nil {
				o.kept = append(o.kept, v)
				o.keptHex = append(o.keptHex, hex.EncodeToString(v))
			}
		}
	}
	return
}

// nz marks an error that came with a non-zero value (C05: "returns the zero value and an error")
func nz(nonzero bool) string {
	if nonzero {
		return "+NONZERO"
	}
	return ""
}

// lookupPort replays one logged (tx, rx) pair: the harness's own lookup port
type lookupPort struct {
	table map[string]string
	buf   []byte
}

func (l *lookupPort) Write(b []byte) (int, error) {
	if rx, ok := l.table[string(b)]; ok {
		l.buf = append(l.buf, rx...)
	}
	return len(b), nil
}
func (l *lookupPort) Read(b []byte) (int, error) {
	if len(l.buf) == 0 {
		return 0, io.EOF
	}
	n := copy(b, l.buf)
	l.buf = l.buf[n:]
	return n, nil
}
func (l *lookupPort) Close() error { return nil }
func (l *lookupPort) Flush() error { l.buf = nil; return nil }

// replays: for every typed call completed in a single exchange, replay its logged pair
func replays(c scase, o obs) []string {
	var typed []scall
	for i, k := range c.calls {
		if i >= len(o.results) {
			break
		}
		if k.kind != "raw" && k.kind != "cmd" {
			typed = append(typed, k)
		}
	}
	if len(typed) != len(o.lines) {
		return nil
	}
	rp := make([]string, len(typed))
	for i, k := range typed {
		rp[i] = "-"
		tx, rx, ok := parseIoLine(o.lines[i])
		if !ok || strings.Count(tx, "\n") != 1 || !strings.HasSuffix(tx, "\n") {
			continue
		}
		lp := &lookupPort{table: map[string]string{tx: rx}}
		vd, _ := vedirect.NewVedirect(lp, vedirect.Config{})
		rp[i] = execCall(vd, k, nil)
	}
	return rp
}

func expectedFlushes(c scase) int {
	n := 0
	for i, k := range c.calls {
		if k.idle == 'i' || (k.idle == 'n' && i == 0) {
			n++
		}
	}
	return n
}

func formatObs(c scase, o obs) string {
	var sb strings.Builder
	p := o.port
	sb.WriteString(c.id)
	sb.WriteString(" R=" + strings.Join(o.results, ";"))
	ws := make([]string, len(p.Written))
	for i, w := range p.Written {
		ws[i] = hex.EncodeToString(w)
	}
	if len(ws) == 0 {
		ws = []string{"-"}
	}
	sb.WriteString(" W=" + strings.Join(ws, ","))
	fmt.Fprintf(&sb, " nw=%d nr=%d nf=%d re=%d", p.NWrites, p.NReads, p.NFlushes, p.ReadsAtEnd)
	d := hex.EncodeToString(p.Delivered)
	if d == "" {
		d = "-"
	}
	sb.WriteString(" D=" + d)
	ms := make([]string, len(o.marks))
	for i, m := range o.marks {
		ms[i] = strconv.Itoa(m)
	}
	sb.WriteString(" dm=" + strings.Join(ms, ","))
	ls := []string{}
	for _, l := range o.lines {
		tx, rx, ok := parseIoLine(l)
		if !ok {
			ls = append(ls, "BAD")
			continue
		}
		ls = append(ls, hex.EncodeToString([]byte(tx))+"/"+hex.EncodeToString([]byte(rx)))
	}
	if len(ls) == 0 {
		ls = []string{"-"}
	}
	sb.WriteString(" L=" + strings.Join(ls, ","))
	if c.cfg&2 != 0 {
		if rp := replays(c, o); len(rp) > 0 {
			sb.WriteString(" RP=" + strings.Join(rp, ";"))
		}
	}
	if o.altered {
		sb.WriteString(" ALTERED=1")
	}
	return sb.String()
}

// runScript: gvrun script <casefile>
var idleSeq int

func runScript() {
	f, err := os.Open(os.Args[2])
	if err != nil {
		panic(err)
	}
	defer f.Close()
	sc := bufio.NewScanner(f)
	sc.Buffer(make([]byte, 1<<20), 1<<26)
	for sc.Scan() {
		line := sc.Text()
		if line == "" || line[0] == '#' {
			continue
		}
		c := parseCase(line)
		var o obs
		for try := 0; try < 3; try++ {
			done := make(chan obs, 1)
			go func() { done <- runCaseOnce(c) }()
			select {
			case o = <-done:
			case <-time.After(20 * time.Second):
				fmt.Fprintf(out, "%s R=H W=- nw=0 nr=0 nf=0 re=0 D=- dm=0 L=- WATCHDOG=1\n", c.id)
				out.Flush()
				os.Exit(3)
			}
			// a scheduler stall of >100ms inside a call would add a flush; re-run then
			if o.port.NFlushes == expectedFlushes(c) || containsPanic(o.results) {
				break
			}
		}
		fmt.Fprintln(out, formatObs(c, o))
	}
}

func containsPanic(rs []string) bool {
	for _, r := range rs {
		if r == "P" || r == "H" {
			return true
		}
	}
	return false
}
