package main

import (
	"bufio"
	"encoding/hex"
	"errors"
	"fmt"
	"math"
	"os"
	"reflect"
	"strconv"
	"strings"

	"github.com/koestler/go-victron/bleparser"
	"github.com/koestler/go-victron/veconst"
)

var bleDecoders = map[string]func([]byte) (any, error){
	"DecodeAcChargerRecord":           func(b []byte) (any, error) { return bleparser.DecodeAcChargerRecord(b) },
	"DecodeBatteryMonitorRecord":      func(b []byte) (any, error) { return bleparser.DecodeBatteryMonitorRecord(b) },
	"DecodeDcDcConverterRecord":       func(b []byte) (any, error) { return bleparser.DecodeDcDcConverterRecord(b) },
	"DecodeDcEnergyMeterRecord":       func(b []byte) (any, error) { return bleparser.DecodeDcEnergyMeterRecord(b) },
	"DecodeGxDeviceRecord":            func(b []byte) (any, error) { return bleparser.DecodeGxDeviceRecord(b) },
	"DecodeInverterRecord":            func(b []byte) (any, error) { return bleparser.DecodeInverterRecord(b) },
	"DecodeInverterRsRecord":          func(b []byte) (any, error) { return bleparser.DecodeInverterRsRecord(b) },
	"DecodeLynxSmartBms":              func(b []byte) (any, error) { return bleparser.DecodeLynxSmartBms(b) },
	"DecodeMultiRsRecord":             func(b []byte) (any, error) { return bleparser.DecodeMultiRsRecord(b) },
	"DecodeSmartBatteryProtectRecord": func(b []byte) (any, error) { return bleparser.DecodeSmartBatteryProtectRecord(b) },
	"DecodeSmartLithiumRecord":        func(b []byte) (any, error) { return bleparser.DecodeSmartLithiumRecord(b) },
	"DecodeSolarChargeRecord":         func(b []byte) (any, error) { return bleparser.DecodeSolarChargeRecord(b) },
	"DecodeVeBusRecord":               func(b []byte) (any, error) { return bleparser.DecodeVeBusRecord(b) },
}

func renderRecord(v any) string {
	rv := reflect.ValueOf(v)
	parts := make([]string, rv.NumField())
	for i := 0; i < rv.NumField(); i++ {
		f := rv.Field(i)
		switch f.Kind() {
		case reflect.Float64, reflect.Float32:
			x := f.Float()
			if math.IsNaN(x) {
				parts[i] = "nan"
			} else {
				parts[i] = "q" + strconv.FormatFloat(x, 'g', 17, 64)
			}
		case reflect.Int, reflect.Int8, reflect.Int16, reflect.Int32, reflect.Int64:
			parts[i] = "i" + strconv.FormatInt(f.Int(), 10)
		case reflect.Uint, reflect.Uint8, reflect.Uint16, reflect.Uint32, reflect.Uint64:
			parts[i] = "i" + strconv.FormatUint(f.Uint(), 10)
		default:
			parts[i] = "?"
		}
	}
	return strings.Join(parts, ",")
}

func bleErrClass(err error) string {
	switch {
	case errors.Is(err, bleparser.ErrInputTooShort):
		return "Einputtooshort"
	case errors.Is(err, veconst.ErrInvalidEnumIdx):
		return "Einvalidenum"
	default:
		return "Eother"
	}
}

func withCap(data []byte, mode int) []byte {
	switch mode {
	case 0:
		b := make([]byte, len(data), len(data))
		copy(b, data)
		return b
	default:
		poison := byte(0xA5)
		if mode == 2 {
			poison = 0xFF
		}
		arr := make([]byte, len(data)+24)
		for i := range arr {
			arr[i] = poison
		}
		copy(arr, data)
		return arr[:len(data)]
	}
}

// runBle: gvrun ble <casefile>; lines "<decoder> <hex|-> <capmode>"
func runBle() {
	f, err := os.Open(os.Args[2])
	if err != nil {
		panic(err)
	}
	defer f.Close()
	sc := bufio.NewScanner(f)
	sc.Buffer(make([]byte, 1<<16), 1<<20)
	for sc.Scan() {
		fs := strings.Fields(sc.Text())
		if len(fs) < 3 {
			continue
		}
		dec := bleDecoders[fs[0]]
		h := fs[1]
		if h == "-" {
			h = ""
		}
		data, _ := hex.DecodeString(h)
		mode, _ := strconv.Atoi(fs[2])
		res := func() (res string) {
			defer func() {
				if r := recover(); r != nil {
					res = "P"
				}
			}()
			if dec == nil {
				return "NODECODER"
			}
			inp := withCap(data, mode)
			before := hex.EncodeToString(inp[:cap(inp)])
			v, err := dec(inp)
			if hex.EncodeToString(inp[:cap(inp)]) != before {
				return "MUTATED-INPUT"
			}
			if err != nil {
				return bleErrClass(err)
			}
			return "ok:" + renderRecord(v)
		}()
		fmt.Fprintf(out, "%s %s %s %s\n", fs[0], fs[1], fs[2], res)
	}
}
