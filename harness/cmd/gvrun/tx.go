package main

import (
	"encoding/hex"
	"fmt"
	"strings"

	"github.com/koestler/go-victron/vedirect"
	"verif/harness/sport"
)

// runTx enumerates every frame the driver writes: all seven commands x all 65536
// addresses through VeCommand, and every typed entry point for every address, against a
// silent device.  Line: "<entry> <cmd> <addr> <nWriteCalls> <hexframe>*<count> ..."
func runTx() {
	cmds := []vedirect.VeCommand{
		vedirect.VeCommandPing, vedirect.VeCommandAppVersion, vedirect.VeCommandDeviceId,
		vedirect.VeCommandRestart, vedirect.VeCommandGet, vedirect.VeCommandSet, vedirect.VeCommandAsync,
	}
	emit := func(entry string, cmd int, addr int, p *sport.Port, panicked bool) {
		var sb strings.Builder
		i := 0
		for i < len(p.Written) {
			j := i
			for j < len(p.Written) && string(p.Written[j]) == string(p.Written[i]) {
				j++
			}
			fmt.Fprintf(&sb, " %s*%d", hex.EncodeToString(p.Written[i]), j-i)
			i = j
		}
		pn := 0
		if panicked {
			pn = 1
		}
		fmt.Fprintf(out, "%s %d %d %d %d%s\n", entry, cmd, addr, p.NWrites, pn, sb.String())
	}
	run := func(entry string, cmd int, addr int, f func(vd *vedirect.Vedirect)) {
		p := &sport.Port{}
		vd, err := vedirect.NewVedirect(p, vedirect.Config{})
		if err != nil {
			panic(err)
		}
		panicked := false
		func() {
			defer func() {
				if r := recover(); r != nil {
					panicked = true
				}
			}()
			f(vd)
		}()
		emit(entry, cmd, addr, p, panicked)
	}
	for _, c := range cmds {
		c := c
		for a := 0; a < 65536; a++ {
			a := a
			run("VeCommand", int(c), a, func(vd *vedirect.Vedirect) { _, _ = vd.VeCommand(c, uint16(a)) })
		}
	}
	run("Ping", 1, 0, func(vd *vedirect.Vedirect) { _ = vd.Ping() })
	run("GetDeviceId", 4, 0, func(vd *vedirect.Vedirect) { _, _ = vd.GetDeviceId() })
	for a := 0; a < 65536; a++ {
		a := a
		run("VeCommandGet", 7, a, func(vd *vedirect.Vedirect) { _, _ = vd.VeCommandGet(uint16(a)) })
		run("GetUint", 7, a, func(vd *vedirect.Vedirect) { _, _ = vd.GetUint(uint16(a)) })
		run("GetInt", 7, a, func(vd *vedirect.Vedirect) { _, _ = vd.GetInt(uint16(a)) })
		run("GetString", 7, a, func(vd *vedirect.Vedirect) { _, _ = vd.GetString(uint16(a)) })
	}
}
