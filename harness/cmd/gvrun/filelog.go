package main

import (
	"bytes"
	"fmt"
	"os"
	"path/filepath"
	"strings"

	"github.com/koestler/go-victron/vedirectapi"
)

// runFileLog: the file logger, once closed, has appended every line in order after the
// file's previous content.  Scenarios: pre-existing content, empty/new file, lines longer
// than the 4096-byte buffer between short ones, multi-argument Println, many lines.
func runFileLog() {
	dir := os.Args[2]
	_ = os.MkdirAll(dir, 0o755)
	type scen struct {
		name  string
		prev  []byte
		exist bool
		lines [][]any
	}
	long := func(n int, c byte) string { return strings.Repeat(string([]byte{c}), n) }
	var scens []scen
	scens = append(scens, scen{"new-file", nil, false, [][]any{{"a"}, {"b", 1, "c"}, {""}}})
	scens = append(scens, scen{"previous-content", []byte("old line 1\nold line 2\n"), true, [][]any{{"x"}, {"y"}}})
	scens = append(scens, scen{"previous-no-newline", []byte("partial"), true, [][]any{{"x"}}})
	// single string operands that themselves end in a line feed or CR LF (an I/O log line of a text register whose
	// value ends so), empty strings, a lone line feed, non-string single operands
	scens = append(scens, scen{"lines-ending-in-newline", []byte("prev\n"), true,
		[][]any{{"ends in lf\n"}, {"ends in crlf\r\n"}, {"\n"}, {""}, {"plain"}, {42}, {[]byte("bytes\n")}, {"two\n", "operands\n"}}})
	for _, n := range []int{4095, 4096, 4097, 5000, 9000, 20000} {
		scens = append(scens, scen{fmt.Sprintf("long-%d", n), []byte("prev\n"), true,
			[][]any{{"short1"}, {"short2"}, {long(n, 'L')}, {"short3"}, {long(n, 'M'), long(10, 'z')}, {"short4"}}})
	}
	many := [][]any{}
	for i := 0; i < 3000; i++ {
		many = append(many, []any{fmt.Sprintf("%q: %q, // line %d", ":7F0ED0071\n", ":7F0ED009600DB\n", i)})
	}
	scens = append(scens, scen{"many", nil, false, many})
	scens = append(scens, scen{"no-lines", []byte("keep\n"), true, nil})
	ok := 0
	for _, s := range scens {
		path := filepath.Join(dir, "filelog-"+s.name+".log")
		_ = os.Remove(path)
		if s.exist {
			if err := os.WriteFile(path, s.prev, 0o644); err != nil {
				panic(err)
			}
		}
		fl, err := vedirectapi.NewFileLogger(path)
		if err != nil {
			fmt.Fprintf(out, "FILELOG-FAIL %s cannot open: %v\n", s.name, err)
			continue
		}
		var want bytes.Buffer
		want.Write(s.prev)
		for _, l := range s.lines {
			fl.Println(l...)
			fmt.Fprintln(&want, l...)
		}
		if err := fl.Close(); err != nil {
			fmt.Fprintf(out, "FILELOG-FAIL %s close: %v\n", s.name, err)
			continue
		}
		got, _ := os.ReadFile(path)
		if !bytes.Equal(got, want.Bytes()) {
			fmt.Fprintf(out, "FILELOG-FAIL %s file content differs: got %d bytes, want %d bytes\n", s.name, len(got), want.Len())
		} else {
			ok++
		}
		_ = os.Remove(path)
	}
	fmt.Fprintf(out, "FILELOG-OK %d\n", ok)
}
