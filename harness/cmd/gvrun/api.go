package main

import (
	"bufio"
	"context"
	"encoding/hex"
	"errors"
	"fmt"
	"os"
	"reflect"
	"sort"
	"strconv"
	"strings"
	"time"

	"github.com/koestler/go-victron/veconst"
	"github.com/koestler/go-victron/vedirect"
	"github.com/koestler/go-victron/vedirectapi"
	"github.com/koestler/go-victron/veregister"
	"verif/harness/sport"
)

// API-level cases: "<id> cls=.. cfg=N np=.. stale=.. wf=.. ff=.. re=..|.. ops=<op>;<op>"
//   connect
//   read/<regname>/<idle n|i|b>[/<rawhex>]
//   stream/<hmask 0..15>/<all|rev|name,name,..>/<cancel: -|b|c<k>|w<k>>/<s|m>

func apiErrClass(err error) string {
	switch {
	case errors.Is(err, vedirect.ErrUnknownId):
		return "Eunknownid"
	case errors.Is(err, vedirect.ErrorNotSupported):
		return "Enotsupported"
	case errors.Is(err, vedirect.ErrorParameterError):
		return "Eparameter"
	case errors.Is(err, veconst.ErrInvalidEnumIdx):
		return "Einvalidenum"
	case errors.Is(err, vedirectapi.ErrCtxDone):
		return "Ectxdone"
	case errors.Is(err, veregister.ErrUnsupportedType):
		return "Eunsupportedtype"
	default:
		return "Eother"
	}
}

func fmtEnum(e veconst.Enum) string {
	return fmt.Sprintf("e%d:%s", e.Idx(), hex.EncodeToString([]byte(e.String())))
}

func fmtNum(f float64) string { return "q" + strconv.FormatFloat(f, 'g', 17, 64) }

func fmtText(s string) string { return "t" + hex.EncodeToString([]byte(s)) }

func fmtFields(fl veconst.FieldList) string { return "f" + fieldsString(fl) }

type apiState struct {
	port *sport.Port
	api  *vedirectapi.RegisterApi
	vd   *vedirect.Vedirect
}

func findReg(rl veregister.RegisterList, name string) (kind int, idx int) {
	for i, r := range rl.NumberRegisters {
		if r.Name() == name {
			return 1, i
		}
	}
	for i, r := range rl.TextRegisters {
		if r.Name() == name {
			return 2, i
		}
	}
	for i, r := range rl.EnumRegisters {
		if r.Name() == name {
			return 3, i
		}
	}
	for i, r := range rl.FieldListRegisters {
		if r.Name() == name {
			return 4, i
		}
	}
	return 0, 0
}

func subList(rl veregister.RegisterList, spec string) veregister.RegisterList {
	if spec == "all" {
		return rl
	}
	out := veregister.NewRegisterList()
	if spec == "rev" {
		for i := len(rl.NumberRegisters) - 1; i >= 0; i-- {
			out.AppendNumberRegisterStruct(rl.NumberRegisters[i])
		}
		for i := len(rl.TextRegisters) - 1; i >= 0; i-- {
			out.AppendTextRegisterStruct(rl.TextRegisters[i])
		}
		for i := len(rl.EnumRegisters) - 1; i >= 0; i-- {
			out.AppendEnumRegisterStruct(rl.EnumRegisters[i])
		}
		for i := len(rl.FieldListRegisters) - 1; i >= 0; i-- {
			out.AppendFieldListRegisterStruct(rl.FieldListRegisters[i])
		}
		return out
	}
	if spec == "none" {
		return out
	}
	for _, n := range strings.Split(spec, ",") {
		k, i := findReg(rl, n)
		switch k {
		case 1:
			out.AppendNumberRegisterStruct(rl.NumberRegisters[i])
		case 2:
			out.AppendTextRegisterStruct(rl.TextRegisters[i])
		case 3:
			out.AppendEnumRegisterStruct(rl.EnumRegisters[i])
		case 4:
			out.AppendFieldListRegisterStruct(rl.FieldListRegisters[i])
		}
	}
	return out
}

var streamSeq int

func runApiOp(st *apiState, conf vedirect.Config, op string) (res string) {
	defer func() {
		if r := recover(); r != nil {
			if _, ok := r.(sport.BudgetExceeded); ok {
				res = "H"
			} else {
				res = "P"
			}
		}
	}()
	f := strings.Split(op, "/")
	switch f[0] {
	case "connect":
		api, err := vedirectapi.NewRegisterApi(st.port, conf)
		if err != nil {
			if api != nil {
				return "BOTH" // an object together with an error
			}
			return apiErrClass(err)
		}
		if api == nil {
			return "NEITHER"
		}
		st.api, st.vd = api, api.Vd
		want, werr := veregister.GetRegisterListByProduct(api.Product)
		eq := 0
		if werr == nil && reflect.DeepEqual(want, api.Registers) {
			eq = 1
		}
		rl := api.Registers
		return fmt.Sprintf("ok:%d:%d/%d/%d/%d:%d", uint16(api.Product), len(rl.NumberRegisters), len(rl.TextRegisters),
			len(rl.EnumRegisters), len(rl.FieldListRegisters), eq)
	case "read":
		if st.api == nil {
			return "NOAPI"
		}
		switch f[2] {
		case "i":
			st.vd.VerifSetLastSent(time.Time{})
		case "b":
			st.vd.VerifSetLastSent(time.Now().Add(time.Hour))
		}
		k, i := findReg(st.api.Registers, f[1])
		wrapTag := func(err error, name string) string {
			w := 0
			if strings.Contains(err.Error(), "'"+name+"'") {
				w = 1
			}
			return fmt.Sprintf("%s:%d", apiErrClass(err), w)
		}
		switch k {
		case 1:
			r := st.api.Registers.NumberRegisters[i]
			v, err := st.api.ReadNumberRegister(r)
			if err != nil {
				if v != 0 {
					return "NONZERO-WITH-ERROR"
				}
				return wrapTag(err, r.Name())
			}
			return fmtNum(v)
		case 2:
			r := st.api.Registers.TextRegisters[i]
			v, err := st.api.ReadTextRegister(r)
			if err != nil {
				if v != "" {
					return "NONZERO-WITH-ERROR"
				}
				return wrapTag(err, r.Name())
			}
			return fmtText(v)
		case 3:
			r := st.api.Registers.EnumRegisters[i]
			v, err := st.api.ReadEnumRegister(r)
			if err != nil {
				if v != nil {
					return "NONZERO-WITH-ERROR"
				}
				return wrapTag(err, r.Name())
			}
			return fmtEnum(v)
		case 4:
			r := st.api.Registers.FieldListRegisters[i]
			v, err := st.api.ReadFieldListRegister(r)
			if err != nil {
				if v != nil {
					return "NONZERO-WITH-ERROR"
				}
				return wrapTag(err, r.Name())
			}
			return fmtFields(v)
		}
		return "NOREG"
	case "stream":
		if st.api == nil {
			return "NOAPI"
		}
		hmask, _ := strconv.Atoi(f[1])
		rl := subList(st.api.Registers, f[2])
		ctx, cancel := context.WithCancel(context.Background())
		defer cancel()
		cancelAt := -1
		deadline := false
		st.port.OnWrite = nil
		if f[3] == "b" {
			cancel()
		} else if f[3][0] == 'd' {
			// a context with a deadline some milliseconds ahead that is NOT reached during the run:
			// nothing is cancelled (if the machine is so slow that it is reached, the case is skipped)
			ms, _ := strconv.Atoi(f[3][1:])
			var c2 context.CancelFunc
			ctx, c2 = context.WithTimeout(ctx, time.Duration(ms)*time.Millisecond)
			defer c2()
			deadline = true
		} else if f[3][0] == 'c' {
			cancelAt, _ = strconv.Atoi(f[3][1:])
		} else if f[3][0] == 'w' {
			wk, _ := strconv.Atoi(f[3][1:])
			base := st.port.NWrites
			st.port.OnWrite = func(k int, b []byte) {
				if k-base+1 == wk {
					cancel()
				}
			}
		}
		st.vd.VerifSetLastSent(time.Now().Add(time.Hour))
		var delivered []string
		streamSeq++
		note := func(name, val string) {
			delivered = append(delivered, name+"="+val)
			if len(delivered) == 1 && streamSeq%2 == 0 {
				// inside the first callback of every other run the caller filters ITS copy of the object's register list
				// (a struct copy, as any caller holds): neither the running stream nor the object's list may change
				mine := st.api.Registers
				var drop []string
				for i, r := range mine.GetRegisters() {
					if i%2 == 1 {
						drop = append(drop, r.Name())
					}
				}
				mine.FilterByName(drop...)
				mine.FilterRegister(func(r veregister.Register) bool { return r.Static() })
			}
			if len(delivered) == cancelAt {
				cancel()
			}
		}
		var end string
		if f[4] == "s" {
			var h vedirectapi.ValueHandler
			if hmask&1 != 0 {
				h.Number = func(v vedirectapi.NumberRegisterValue) { note(v.Name(), fmtNum(v.Value())) }
			}
			if hmask&2 != 0 {
				h.Text = func(v vedirectapi.TextRegisterValue) { note(v.Name(), fmtText(v.Value())) }
			}
			if hmask&4 != 0 {
				h.Enum = func(v vedirectapi.EnumRegisterValue) { note(v.Name(), fmtEnum(v.Value())) }
			}
			if hmask&8 != 0 {
				h.FieldList = func(v vedirectapi.FieldListValue) { note(v.Name(), fmtFields(v.Value())) }
			}
			err := st.api.StreamRegisterList(ctx, rl, h)
			end = "ok"
			if err != nil {
				end = apiErrClass(err)
			}
			st.port.OnWrite = nil
			if deadline && ctx.Err() != nil {
				return "SKIPDEADLINE"
			}
			return "S" + end + "|" + strings.Join(delivered, "~")
		}
		// map variant: cancellation only before the run or inside a Write
		rv, err := st.api.ReadRegisterList(ctx, rl)
		st.port.OnWrite = nil
		if deadline && ctx.Err() != nil {
			return "SKIPDEADLINE"
		}
		end = "ok"
		if err != nil {
			end = apiErrClass(err)
		}
		var items []string
		for k, v := range rv.NumberValues {
			items = append(items, k+"="+fmtNum(v.Value()))
			if k != v.Name() {
				items = append(items, "KEYMISMATCH")
			}
		}
		for k, v := range rv.TextValues {
			items = append(items, k+"="+fmtText(v.Value()))
			if k != v.Name() {
				items = append(items, "KEYMISMATCH")
			}
		}
		for k, v := range rv.EnumValues {
			items = append(items, k+"="+fmtEnum(v.Value()))
			if k != v.Name() {
				items = append(items, "KEYMISMATCH")
			}
		}
		for k, v := range rv.FieldListValues {
			items = append(items, k+"="+fmtFields(v.Value()))
			if k != v.Name() {
				items = append(items, "KEYMISMATCH")
			}
		}
		sort.Strings(items)
		// GetList: sorted by sort key, stable
		list := rv.GetList()
		sorted := 1
		for i := 1; i < len(list); i++ {
			if list[i-1].Sort() > list[i].Sort() {
				sorted = 0
			}
		}
		if len(list) != len(rv.NumberValues)+len(rv.TextValues)+len(rv.EnumValues)+len(rv.FieldListValues) {
			sorted = 0
		}
		return fmt.Sprintf("M%s|%s|%d", end, strings.Join(items, "~"), sorted)
	}
	return "BADOP"
}

func runApi() {
	f, err := os.Open(os.Args[2])
	if err != nil {
		panic(err)
	}
	defer f.Close()
	sc := bufio.NewScanner(f)
	sc.Buffer(make([]byte, 1<<20), 1<<26)
	for sc.Scan() {
		line := sc.Text()
		if line == "" || line[0] == '#' {
			continue
		}
		c := parseCase(line)
		ops := ""
		for _, kv := range strings.Fields(line) {
			if strings.HasPrefix(kv, "ops=") {
				ops = kv[4:]
			}
		}
		done := make(chan string, 1)
		go func() {
			p := &sport.Port{NoProgress: c.np, WriteFaults: c.wf, FlushFaults: c.ff}
			for _, ev := range c.stale {
				p.Queue = append(p.Queue, sport.Event{Kind: ev.Kind, Data: append([]byte{}, ev.Data...)})
			}
			p.Reactions = append(p.Reactions, c.react...)
			var conf vedirect.Config
			il := &ioLogger{}
			if c.cfg&1 != 0 {
				conf.DebugLogger = &countLogger{}
			}
			if c.cfg&2 != 0 {
				conf.IoLogger = il
			}
			st := &apiState{port: p}
			var results []string
			var perOp []string // frames written during each operation
			for _, op := range strings.Split(ops, ";") {
				before := len(p.Written)
				r := runApiOp(st, conf, op)
				results = append(results, r)
				perOp = append(perOp, strconv.Itoa(len(p.Written)-before))
				if r == "P" || r == "H" {
					break
				}
			}
			ws := make([]string, len(p.Written))
			for i, w := range p.Written {
				ws[i] = hex.EncodeToString(w)
			}
			if len(ws) == 0 {
				ws = []string{"-"}
			}
			done <- fmt.Sprintf("%s R=%s W=%s nw=%d nf=%d re=%d wo=%s", c.id, strings.Join(results, ";"), strings.Join(ws, ","),
				p.NWrites, p.NFlushes, p.ReadsAtEnd, strings.Join(perOp, ","))
		}()
		select {
		case s := <-done:
			fmt.Fprintln(out, s)
		case <-time.After(20 * time.Second):
			fmt.Fprintf(out, "%s R=H W=- nw=0 nf=0 re=0 WATCHDOG=1\n", c.id)
			out.Flush()
			os.Exit(3)
		}
	}
}
