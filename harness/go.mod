module verif/harness

go 1.21.5

require github.com/koestler/go-victron v0.0.0

require (
	github.com/tarm/serial v0.0.0-20180830185346-98f6abe2eb07 // indirect
	golang.org/x/sys v0.1.0 // indirect
)

replace github.com/koestler/go-victron => /repo
