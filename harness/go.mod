module verif/harness

go 1.21.5

require github.com/koestler/go-victron v0.0.0

replace github.com/koestler/go-victron => /repo
