module verif/harness

go 1.21.5

require github.com/koestler/go-victron v0.0.0

require (
	github.com/fatih/structs v1.1.0 // indirect
	github.com/godbus/dbus/v5 v5.0.3 // indirect
	github.com/muka/go-bluetooth v0.0.0-20221213043340-85dc80edc4e1 // indirect
	github.com/sirupsen/logrus v1.6.0 // indirect
	github.com/tarm/serial v0.0.0-20180830185346-98f6abe2eb07 // indirect
	golang.org/x/sys v0.1.0 // indirect
)

replace github.com/koestler/go-victron => /repo
