// Package lists names the veconst factories the harness enumerates.  gvgen checks this list
// against a scan of /repo/veconst, so a factory added to the library is noticed.
package lists

import "github.com/koestler/go-victron/veconst"

type EnumFactory struct {
	Name string
	F    veconst.EnumFactory
	New  func(b uint8) (idx int, name string, err error)
}

func wrap[T veconst.Enum](f func(uint8) (T, error)) func(uint8) (int, string, error) {
	return func(b uint8) (int, string, error) {
		v, err := f(b)
		return v.Idx(), v.String(), err
	}
}

var Enums = []EnumFactory{
	{"BmvAuxModeFactoryType", veconst.BmvAuxModeFactory, wrap(veconst.BmvAuxModeFactory.New)},
	{"BooleanDisabledEnabledFactoryType", veconst.BooleanDisabledEnabledFactory, wrap(veconst.BooleanDisabledEnabledFactory.New)},
	{"BooleanFalseTrueFactoryType", veconst.BooleanFalseTrueFactory, wrap(veconst.BooleanFalseTrueFactory.New)},
	{"BooleanInactiveActiveFactoryType", veconst.BooleanInactiveActiveFactory, wrap(veconst.BooleanInactiveActiveFactory.New)},
	{"BooleanNoYesFactoryType", veconst.BooleanNoYesFactory, wrap(veconst.BooleanNoYesFactory.New)},
	{"BooleanOffOnFactoryType", veconst.BooleanOffOnFactory, wrap(veconst.BooleanOffOnFactory.New)},
	{"DcDcConverterErrorFactoryType", veconst.DcDcConverterErrorFactory, wrap(veconst.DcDcConverterErrorFactory.New)},
	{"DcDcConverterStateFactoryType", veconst.DcDcConverterStateFactory, wrap(veconst.DcDcConverterStateFactory.New)},
	{"DcEnergyMeterAuxModeFactoryType", veconst.DcEnergyMeterAuxModeFactory, wrap(veconst.DcEnergyMeterAuxModeFactory.New)},
	{"InverterFrequencyFactoryType", veconst.InverterFrequencyFactory, wrap(veconst.InverterFrequencyFactory.New)},
	{"InverterModeFactoryType", veconst.InverterModeFactory, wrap(veconst.InverterModeFactory.New)},
	{"InverterStateFactoryType", veconst.InverterStateFactory, wrap(veconst.InverterStateFactory.New)},
	{"MultiRsActiveInputFactoryType", veconst.MultiRsActiveInputFactory, wrap(veconst.MultiRsActiveInputFactory.New)},
	{"SolarChargerBatteryTypeFactoryType", veconst.SolarChargerBatteryTypeFactory, wrap(veconst.SolarChargerBatteryTypeFactory.New)},
	{"SolarChargerBatteryVoltageFactoryType", veconst.SolarChargerBatteryVoltageFactory, wrap(veconst.SolarChargerBatteryVoltageFactory.New)},
	{"SolarChargerDeviceModeFactoryType", veconst.SolarChargerDeviceModeFactory, wrap(veconst.SolarChargerDeviceModeFactory.New)},
	{"SolarChargerErrorFactoryType", veconst.SolarChargerErrorFactory, wrap(veconst.SolarChargerErrorFactory.New)},
	{"SolarChargerStateFactoryType", veconst.SolarChargerStateFactory, wrap(veconst.SolarChargerStateFactory.New)},
	{"SolarChargerTrackerModeFactoryType", veconst.SolarChargerTrackerModeFactory, wrap(veconst.SolarChargerTrackerModeFactory.New)},
	{"VeBusAlarmFactoryType", veconst.VeBusAlarmFactory, wrap(veconst.VeBusAlarmFactory.New)},
}

type FieldListFactory struct {
	Name string
	F    veconst.FieldListFactory
	Bits int // width of the typed constructor's argument
}

var FieldLists = []FieldListFactory{
	{"InverterOffReasonsFactoryType", veconst.InverterOffReasonsFactory, 32},
	{"SolarOffReasonsFactoryType", veconst.SolarOffReasonsFactory, 32},
	{"InverterWarningReasonsFactoryType", veconst.InverterWarningReasonFactory, 16},
}
