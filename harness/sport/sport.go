// Package sport is the scripted serial port used by the correspondence checks.
// It implements vedirect.IOPort and mirrors coq/Vedirect/Port.v event for event.
package sport

import (
	"errors"
	"io"
)

// Event kinds of the read queue.
const (
	EvData  = 0 // non-empty data
	EvEOF   = 1 // (0, io.EOF)   : read timeout / end of data
	EvErr   = 2 // (0, ErrRead)  : read error
	EvEmpty = 3 // (0, nil)      : empty read
)

type Event struct {
	Kind int
	Data []byte
}

var ErrRead = errors.New("sport: injected read error")
var ErrWrite = errors.New("sport: injected write error")
var ErrFlush = errors.New("sport: injected flush error")

// BudgetExceeded is the panic value used when the driver keeps reading after the port has
// reported "no more data" more than ReadBudget times: the call would hang on a real port.
type BudgetExceeded struct{}

const ReadBudget = 5000

// Port is a scripted device.  Write number k (0-based) fails if WriteFaults[k] is true,
// otherwise it records the frame and appends Reactions[k] to the read queue.
type Port struct {
	Queue       []Event
	Reactions   [][]Event
	WriteFaults []bool
	FlushFaults []bool
	NoProgress  bool // exhausted queue answers (0,nil) forever instead of EOF

	Written    [][]byte // frames successfully written
	NWrites    int      // Write calls (including failed ones)
	NReads     int      // Read calls
	NFlushes   int      // Flush calls
	NClose     int
	ReadsAtEnd int    // Read calls answered because the queue was exhausted
	Delivered  []byte // every byte handed out by Read

	// optional callback invoked at the beginning of every Write (used for cancellation mid-read)
	OnWrite func(k int, b []byte)
}

func (p *Port) Read(b []byte) (int, error) {
	p.NReads++
	if len(b) == 0 {
		return 0, nil
	}
	if len(p.Queue) == 0 {
		p.ReadsAtEnd++
		if p.ReadsAtEnd > ReadBudget {
			panic(BudgetExceeded{})
		}
		if p.NoProgress {
			return 0, nil
		}
		return 0, io.EOF
	}
	ev := p.Queue[0]
	switch ev.Kind {
	case EvData:
		n := copy(b, ev.Data)
		if n < len(ev.Data) {
			p.Queue[0] = Event{Kind: EvData, Data: ev.Data[n:]}
		} else {
			p.Queue = p.Queue[1:]
		}
		p.Delivered = append(p.Delivered, b[:n]...)
		return n, nil
	case EvEOF:
		p.Queue = p.Queue[1:]
		return 0, io.EOF
	case EvErr:
		p.Queue = p.Queue[1:]
		return 0, ErrRead
	default:
		p.Queue = p.Queue[1:]
		return 0, nil
	}
}

func (p *Port) Write(b []byte) (int, error) {
	k := p.NWrites
	p.NWrites++
	if p.OnWrite != nil {
		p.OnWrite(k, b)
	}
	if k < len(p.WriteFaults) && p.WriteFaults[k] {
		return 0, ErrWrite
	}
	p.Written = append(p.Written, append([]byte{}, b...))
	nw := len(p.Written) - 1
	if nw < len(p.Reactions) {
		for _, ev := range p.Reactions[nw] {
			if ev.Kind == EvData && len(ev.Data) == 0 {
				continue
			}
			p.Queue = append(p.Queue, Event{Kind: ev.Kind, Data: append([]byte{}, ev.Data...)})
		}
	}
	return len(b), nil
}

func (p *Port) Flush() error {
	k := p.NFlushes
	p.NFlushes++
	p.Queue = nil
	if k < len(p.FlushFaults) && p.FlushFaults[k] {
		return ErrFlush
	}
	return nil
}

func (p *Port) Close() error {
	p.NClose++
	return nil
}
