#!/bin/bash
# Independent re-check of the compiled development with coqchk (thorough tier; takes several minutes).
# Prints the axioms the property files rely on.
cd /verif/coq
mods=$(ls Props/*.v | sed 's#/#.#; s#\.v$##; s#^#GV.#')
timeout 7200 coqchk -silent -o -Q . GV $mods 2>&1 | tail -40
