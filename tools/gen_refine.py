decs = [("AcCharger","DecodeAcChargerRecord","AcChargerRecord",13),("BatteryMonitor","DecodeBatteryMonitorRecord","BatteryMonitorRecord",15),
 ("DcDcConverter","DecodeDcDcConverterRecord","DcDcConverterRecord",10),("DcEnergyMeter","DecodeDcEnergyMeterRecord","DcEnergyMeterRecord",11),
 ("GxDevice","DecodeGxDeviceRecord","GxDeviceRecord",11),("Inverter","DecodeInverterRecord","InverterRecord",11),
 ("InverterRs","DecodeInverterRsRecord","InverterRsRecord",12),("LynxSmartBms","DecodeLynxSmartBms","LynxSmartBms",16),
 ("MultiRs","DecodeMultiRsRecord","MultiRsRecord",14),("SmartBatteryProtect","DecodeSmartBatteryProtectRecord","SmartBatteryProtectRecord",15),
 ("SmartLithium","DecodeSmartLithiumRecord","SmartLithiumRecord",16),("SolarCharger","DecodeSolarChargeRecord","SolarChargerRecord",12),
 ("VeBus","DecodeVeBusRecord","VeBusRecord",13)]
for name, fn, rec, L in decs:
    open('/verif/coq/Ble/Refine_%s.v' % name, 'w').write('''(* C07/C08: the translated decoder %(fn)s equals the layout specification, for every input. *)
From GV Require Import Ble.RefineTac.

Lemma layout_len_%(name)s : layout_len layout_%(name)s = %(L)d.
Proof. vm_compute. reflexivity. Qed.

Theorem refine_%(name)s inp :
  good fields_%(rec)s (%(fn)s inp) (spec_decode layout_%(name)s inp).
Proof.
  unfold spec_decode. rewrite layout_len_%(name)s.
  unfold %(fn)s. unfold_helpers. cbn [bind].
  destruct (Z.ltb_spec (g_len inp) %(L)d) as [Hs|Hl].
  - cbn. reflexivity.
  - do %(L)d (destruct inp as [|? inp]; [exfalso; unfold g_len in Hl; cbn [List.length] in Hl; lia|]); clear Hl.
    refine_core red_%(rec)s.
Qed.
''' % dict(name=name, fn=fn, rec=rec, L=L))
print("ok")
