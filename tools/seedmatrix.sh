#!/bin/bash
# run every seeded change against the check of its property; writes seeded/MATRIX.txt
cd /verif
out=seeded/MATRIX.txt
: > $out
for d in seeded/C*-[ab]; do
  id=$(basename $d); prop=${id%%-*}
  res=$(timeout 3000 python3 tools/seedtest.py $d --no-verify --props $prop 2>&1 | grep -o 'VIOLATION[^"]*\|OK property[^"]*' | head -1)
  echo "$id $prop :: $res" | tee -a $out
done
git -C /repo status --short
