#!/bin/bash
# run every seeded change against the check(s) of its property; appends to seeded/MATRIX.txt (skips entries already there)
cd /verif
out=seeded/MATRIX.txt
touch $out
for d in seeded/C*-[a-p] seeded/fixrevert-*; do
  [ -f $d/patch.diff ] || continue
  id=$(basename $d)
  grep -q "^$id " $out && continue
  prop=$(python3 -c "import json;print(json.load(open('$d/meta.json'))['property'].replace('/',','))" 2>/dev/null || echo ${id%%-*})
  res=$(timeout 3000 python3 tools/seedtest.py $d --no-verify --props $prop 2>&1 | grep -o 'VIOLATION[^"]*\|OK property[^"]*' | tr '\n' ';')
  echo "$id $prop :: $res" | tee -a $out
done
git -C /repo status --short
