#!/bin/bash
# confirm every seed under /tmp/seed_out in its own worktree; copy confirmed ones to /verif/seeded/<ID>-<v>/
for d in /tmp/seed_out/C*/[ab]; do
  id=$(basename $(dirname $d)); v=$(basename $d)
  [ -f $d/patch.diff ] || continue
  [ -d /verif/seeded/$id-$v ] && continue
  wt=/tmp/wt_$id
  [ -d $wt ] || git -C /repo worktree add -q --detach $wt HEAD
  python3 /verif/tools/seedtest.py $d --wt $wt > /tmp/seed_out/$id-$v.confirm.json 2>&1
  if grep -q '"confirmed": true' /tmp/seed_out/$id-$v.confirm.json; then
    mkdir -p /verif/seeded/$id-$v && cp -r $d/* /verif/seeded/$id-$v/ && cp /tmp/seed_out/$id-$v.confirm.json /verif/seeded/$id-$v/confirm.json
    echo "confirmed $id-$v"
  else
    echo "NOT confirmed $id-$v"
  fi
done
