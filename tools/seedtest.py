#!/usr/bin/env python3
"""tools/seedtest.py <seed_dir> [--wt DIR] [--props C03,C06] [--no-verify]
Confirms a seeded change (suite passes with it, its demo fails with it and passes without it)
in a scratch worktree, then runs the named checks against /repo with the patch applied and
reverts /repo straight afterwards."""
import argparse, json, os, re, shutil, subprocess, sys

ENV = dict(os.environ, GOFLAGS="-mod=mod", GOPROXY="off", GOSUMDB="off", GOTOOLCHAIN="local")


def sh(cmd, cwd=None, timeout=1800):
    p = subprocess.run(cmd, cwd=cwd, env=ENV, shell=True, stdout=subprocess.PIPE, stderr=subprocess.STDOUT, text=True, timeout=timeout)
    return p.returncode, p.stdout


def demo_dir(seed):
    f = os.path.join(seed, "demo_test.go")
    if not os.path.exists(f):
        return None, None
    pkg = re.search(r"^package\s+(\w+)", open(f).read(), re.M).group(1)
    d = pkg[:-5] if pkg.endswith("_test") else pkg
    for cand in (d, "vecli/" + d):
        if os.path.isdir(os.path.join("/repo", cand)):
            return f, cand
    return f, d


def run_demo(wt, seed):
    f, d = demo_dir(seed)
    if f is None:
        return None, "no demo_test.go"
    dst = os.path.join(wt, d, "zz_seed_demo_test.go")
    shutil.copyfile(f, dst)
    try:
        rc, out = sh("go test -vet=off -count=1 ./%s/" % d, cwd=wt, timeout=600)
    finally:
        os.remove(dst)
    return rc, out


def main():
    ap = argparse.ArgumentParser()
    ap.add_argument("seed")
    ap.add_argument("--wt")
    ap.add_argument("--props", default="")
    ap.add_argument("--no-verify", action="store_true")
    a = ap.parse_args()
    seed = os.path.abspath(a.seed)
    patch = os.path.join(seed, "patch.diff")
    report = {"seed": seed}
    if not a.no_verify:
        wt = a.wt or "/tmp/wt_seedtest"
        if not os.path.isdir(wt):
            sh("git -C /repo worktree add -q --detach %s HEAD" % wt)
        sh("git checkout -q -- . && git clean -fdq", cwd=wt)
        rc0, out0 = run_demo(wt, seed)
        report["demo_clean"] = rc0
        rc, out = sh("git apply %s" % patch, cwd=wt)
        report["apply"] = rc
        if rc != 0:
            print(out)
        rcb, outb = sh("go build ./...", cwd=wt)
        report["build"] = rcb
        rcs, outs = sh("go test -vet=off -count=1 ./...", cwd=wt)
        report["suite"] = rcs
        rc1, out1 = run_demo(wt, seed)
        report["demo_patched"] = rc1
        report["demo_patched_tail"] = (out1 or "")[-600:]
        sh("git checkout -q -- . && git clean -fdq", cwd=wt)
        report["confirmed"] = (rc0 == 0 and rc == 0 and rcb == 0 and rcs == 0 and rc1 not in (0, None))
    if a.props:
        rc, out = sh("git -C /repo status --porcelain")
        if out.strip():
            print("refusing: /repo is dirty\n" + out)
            sys.exit(2)
        rc, out = sh("git -C /repo apply %s" % patch)
        if rc != 0:
            print("patch does not apply to /repo:\n" + out)
            sys.exit(2)
        try:
            report["checks"] = {}
            for p in a.props.split(","):
                rc, out = sh("./check %s" % p, cwd="/verif", timeout=3600)
                lines = [l for l in out.splitlines() if l.startswith(("VIOLATION", "OK", "KNOWN"))]
                report["checks"][p] = {"rc": rc, "lines": lines}
        finally:
            sh("git -C /repo checkout -- . && git -C /repo clean -fdq")
            # restore the evidence files (and rebuilt binaries/tables) of the unchanged tree
            for p in a.props.split(","):
                sh("./check %s" % p, cwd="/verif", timeout=3600)
    print(json.dumps(report, indent=1))


if __name__ == "__main__":
    main()
