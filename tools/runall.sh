#!/bin/bash
# run every claimed check on the current tree; validate evidence against the schema
cd /verif
rc=0
for p in $(python3 -c "import json;print(' '.join(c['property_id'] for c in json.load(open('MANIFEST.json'))['checks']))"); do
  s=$(date +%s)
  out=$(./check $p --tier ${1:-quick} 2>&1 | tail -2)
  e=$(( $(date +%s) - s ))
  echo "$p ${e}s $out" | tr '\n' ' '; echo
  echo "$out" | grep -q "^OK" || rc=1
done
python3-vt - <<'PY'
import json, jsonschema, glob
sch=json.load(open('/root/.vp/EVIDENCE.schema.json'))
jsonschema.validate(json.load(open('/verif/MANIFEST.json')), json.load(open('/root/.vp/MANIFEST.schema.json')))
for c in json.load(open('/verif/MANIFEST.json'))['checks']:
    e=json.load(open(c['evidence_file']))
    jsonschema.validate(e, sch)
    cov=e['coverage']
    assert cov.get('discharged')==cov.get('obligations') and cov['obligations']>=1, (c['property_id'], cov.get('discharged'), cov.get('obligations'))
    assert e.get('violations',0)==0, c['property_id']
print("evidence valid")
PY
exit $rc
