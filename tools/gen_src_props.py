#!/usr/bin/env python3
"""Writes coq/Props/C??src.v (driver T-gen obligations) and coq/Props/C??api.v (register-API T-gen
obligations): statements restated in full, closed by `exact`, each followed by Print Assumptions.
Run by hand when the set of source theorems changes; the files are committed."""
import os, re, json, sys
ROOT = os.path.dirname(os.path.dirname(os.path.abspath(__file__)))
hdr = '''(* %s -- the property's anchored source (package vedirect) translated on every run into
   Gen/DrvImpl.v and proved equal in behaviour to the hand-written model (tie T-gen).  Only statements,
   `exact` and Print Assumptions. *)
From GV Require Import Vedirect.DrvSem Gen.DrvImpl Base.HexFacts Vedirect.FrameFacts Vedirect.PortFacts
     Vedirect.DriverFacts Vedirect.DriverSpec Vedirect.DrvRefine Vedirect.DrvProps.
Import ListNotations.
Local Open Scope Z_scope.

'''
ahdr = '''(* %s -- the property's anchored source (vedirectapi/registerApi.go) translated on every run into
   Gen/ApiImpl.v and proved equal in behaviour to the hand-written model Api/Api.v (tie T-gen).  Only
   statements, `exact` and Print Assumptions. *)
From Coq Require Import QArith.
From GV Require Import Vedirect.DrvSem Gen.DrvImpl Vedirect.DrvRefine Api.ApiSem Gen.ApiImpl Api.ApiRefine
     Api.ApiRefineTables Api.ApiProps Api.ApiValueFacts Api.ApiMapsRefine.
Import ListNotations.
Local Open Scope Z_scope.

'''
T = {}
T['VeCommand'] = '''Theorem %s_src_VeCommand : forall c cmd addr v idle, 0 <= cmd < 256 -> 0 <= addr < 65536 ->
  exists o, go_VeCommand c cmd addr (mkD v idle) = (o, mkD (snd (ve_command c idle cmd addr v)) false)
            /\\ res_rel o (fst (ve_command c idle cmd addr v)).
Proof. exact go_VeCommand_spec. Qed.
Print Assumptions %s_src_VeCommand.
'''
T['VeCommandGet'] = '''Theorem %s_src_VeCommandGet : forall c addr v idle, 0 <= addr < 65536 ->
  exists o idle', go_VeCommandGet c addr (mkD v idle) = (o, mkD (snd (ve_command_get c idle addr v)) idle')
            /\\ res_rel o (fst (ve_command_get c idle addr v))
            /\\ (o <> DPanic -> o <> DFuel -> idle' = false).
Proof. exact go_VeCommandGet_spec. Qed.
Print Assumptions %s_src_VeCommandGet.
'''
T['checksum'] = '''Theorem %s_src_computeChecksum : forall cmd data s,
  go_computeChecksum cmd data s = (DVal (bz (compute_checksum cmd data)), s).
Proof. exact go_computeChecksum_spec. Qed.
Print Assumptions %s_src_computeChecksum.
'''
T['rfc'] = '''Theorem %s_src_ResponseForCommand : forall cmd s,
  go_ResponseForCommand cmd s = (DVal (response_for_command cmd), s).
Proof. exact go_ResponseForCommand_spec. Qed.
Print Assumptions %s_src_ResponseForCommand.
'''
T['get_sound'] = '''(* the property on the translated source: a value is returned only if the received bytes contain a
   valid Get response for the address with flag 0 and that value *)
Theorem %s_src_get_sound : forall c idle addr s v sd, 0 <= addr < 65536 ->
  go_VeCommandGet c addr (mkD s idle) = (DVal (v, None), sd) ->
  exists d pre body post,
    delivered (pt (d_vd sd)) = delivered (pt s) ++ d /\\
    rbuf (rd s) ++ d = pre ++ c_colon :: body ++ c_nl :: post /\\
    valid_get_response addr v body.
Proof. exact src_get_sound. Qed.
Print Assumptions %s_src_get_sound.
'''
T['uint_sound'] = '''Theorem %s_src_uint_sound : forall c idle addr s n sd, 0 <= addr < 65536 ->
  go_GetUint c addr (mkD s idle) = (DVal (n, None), sd) ->
  exists v d pre body post, n = le_uint v /\\
    delivered (pt (d_vd sd)) = delivered (pt s) ++ d /\\
    rbuf (rd s) ++ d = pre ++ c_colon :: body ++ c_nl :: post /\\
    valid_get_response addr v body.
Proof. exact src_uint_sound. Qed.
Print Assumptions %s_src_uint_sound.
'''
T['devid_sound'] = '''Theorem %s_src_device_id_sound : forall c idle s id sd,
  go_GetDeviceId c (mkD s idle) = (DVal (id, None), sd) ->
  exists d pre body post lo hi rest,
    delivered (pt (d_vd sd)) = delivered (pt s) ++ d /\\
    rbuf (rd s) ++ d = pre ++ c_colon :: body ++ c_nl :: post /\\
    valid_response 1 body (lo :: hi :: rest) /\\ id = bz lo + 256 * bz hi.
Proof. exact src_device_id_sound. Qed.
Print Assumptions %s_src_device_id_sound.
'''
T['le_uint'] = '''Theorem %s_src_littleEndianBytesToUint : forall bs s,
  go_littleEndianBytesToUint bs s = (DVal (le_uint bs), s).
Proof. exact go_littleEndianBytesToUint_spec. Qed.
Print Assumptions %s_src_littleEndianBytesToUint.
'''
T['le_int'] = '''Theorem %s_src_littleEndianBytesToInt : forall bs s,
  go_littleEndianBytesToInt bs s = (DVal (int_result bs), s).
Proof. exact go_littleEndianBytesToInt_spec. Qed.
Print Assumptions %s_src_littleEndianBytesToInt.
'''
T['typed'] = '''Theorem %s_src_GetUint : forall c addr v idle, 0 <= addr < 65536 ->
  call_rel VNum (go_GetUint c addr (mkD v idle)) (get_uint c idle addr v).
Proof. exact go_GetUint_refines. Qed.
Print Assumptions %s_src_GetUint.

Theorem %s_src_GetInt : forall c addr v idle, 0 <= addr < 65536 ->
  call_rel VNum (go_GetInt c addr (mkD v idle)) (get_int c idle addr v).
Proof. exact go_GetInt_refines. Qed.
Print Assumptions %s_src_GetInt.

Theorem %s_src_GetString : forall c addr v idle, 0 <= addr < 65536 ->
  call_rel VBytes (go_GetString c addr (mkD v idle)) (get_string c idle addr v).
Proof. exact go_GetString_refines. Qed.
Print Assumptions %s_src_GetString.

Theorem %s_src_GetDeviceId : forall c v idle,
  call_rel VNum (go_GetDeviceId c (mkD v idle)) (get_device_id c idle v).
Proof. exact go_GetDeviceId_refines. Qed.
Print Assumptions %s_src_GetDeviceId.
'''
T['sendCommand'] = '''Theorem %s_src_sendCommand : forall c cmd data v idle, 0 <= cmd < 256 ->
  go_sendCommand c cmd data (mkD v idle)
  = (DVal (if fst (vd_write c (tx_frame_data cmd data) v) then None else Some EOther),
     mkD (snd (vd_write c (tx_frame_data cmd data) v)) idle).
Proof. exact go_sendCommand_spec. Qed.
Print Assumptions %s_src_sendCommand.
'''
T['write'] = '''Theorem %s_src_write : forall c b v idle,
  go_write c b (mkD v idle)
  = (DVal (if fst (vd_write c b v) then (g_len b, None) else (0, Some EOther)), mkD (snd (vd_write c b v)) idle).
Proof. exact go_write_spec. Qed.
Print Assumptions %s_src_write.
'''
T['frame_written'] = '''(* the property on the translated source: whatever sendCommand hands to Write is a well-formed frame *)
Theorem %s_src_frame_written : forall c cmd data v idle, 0 <= cmd < 16 ->
  let out := go_sendCommand c cmd data (mkD v idle) in
  written (pt (d_vd (snd out))) = written (pt v) \\/
  (written (pt (d_vd (snd out))) = written (pt v) ++ [tx_frame_data cmd data] /\\ tx_wellformed (tx_frame_data cmd data) = true).
Proof. exact src_frame_written. Qed.
Print Assumptions %s_src_frame_written.
'''
T['sendReceive'] = '''Theorem %s_src_sendReceive : forall c cmd data v idle, 0 <= cmd < 256 ->
  go_sendReceive c cmd data (mkD v idle)
  = (plain_out (fst (send_receive c idle cmd data v)), mkD (snd (send_receive c idle cmd data v)) false).
Proof. exact go_sendReceive_spec. Qed.
Print Assumptions %s_src_sendReceive.
'''
T['receiveResponse'] = '''Theorem %s_src_receiveResponse : forall c v idle,
  go_receiveResponse c (mkD v idle)
  = (plain_out (fst (receive_response (rr_fuel v) c v)), mkD (snd (receive_response (rr_fuel v) c v)) idle).
Proof. exact go_receiveResponse_spec. Qed.
Print Assumptions %s_src_receiveResponse.
'''
T['flushReceiver'] = '''Theorem %s_src_flushReceiver : forall c v idle,
  go_flushReceiver c (mkD v idle) = (DVal tt, mkD (flush_receiver v) idle).
Proof. exact go_flushReceiver_spec. Qed.
Print Assumptions %s_src_flushReceiver.
'''
T['recvUntil'] = '''Theorem %s_src_recvUntil : forall c needle v idle,
  exists o, go_recvUntil c needle (mkD v idle) = (o, mkD (snd (recv_until c (zb needle) v)) idle)
            /\\ res_rel o (fst (recv_until c (zb needle) v)).
Proof. exact go_recvUntil_spec. Qed.
Print Assumptions %s_src_recvUntil.
'''
T['responseError'] = '''Theorem %s_src_responseError : forall flag s, go_responseError flag s = (DVal (response_error flag), s).
Proof. exact go_responseError_spec. Qed.
Print Assumptions %s_src_responseError.
'''
T['error_zero'] = '''(* the property on the translated source: an error is returned together with the zero value *)
Theorem %s_src_uint_error_zero : forall c addr s n e sd, go_GetUint c addr s = (DVal (n, Some e), sd) -> n = 0.
Proof. exact src_uint_error_zero. Qed.
Print Assumptions %s_src_uint_error_zero.

Theorem %s_src_int_error_zero : forall c addr s n e sd, go_GetInt c addr s = (DVal (n, Some e), sd) -> n = 0.
Proof. exact src_int_error_zero. Qed.
Print Assumptions %s_src_int_error_zero.

Theorem %s_src_string_error_zero : forall c addr s t e sd, go_GetString c addr s = (DVal (t, Some e), sd) -> t = [].
Proof. exact src_string_error_zero. Qed.
Print Assumptions %s_src_string_error_zero.
'''
T['error_class'] = '''Theorem %s_src_device_error_class : forall flag s,
  go_responseError flag s =
  (DVal (if flag =? 0 then None else if flag =? 1 then Some EUnknownId else if flag =? 2 then Some ENotSupported
         else if flag =? 4 then Some EParameter else Some EOther), s).
Proof. exact src_device_error_class. Qed.
Print Assumptions %s_src_device_error_class.
'''
T['call_refines'] = '''(* every entry point of the translated driver against the model's call: same value or same error
   class, and the same driver state -- port traffic, buffered bytes, I/O log lines *)
Theorem %s_src_call_refines : forall c idle k s, call_in_range k ->
  outcome_rel (go_call c k (mkD s idle)) (do_call c idle k s).
Proof. exact go_call_refines. Qed.
Print Assumptions %s_src_call_refines.
'''
T['call_total'] = '''(* the property on the translated source: no entry point panics or exhausts the fuel of its loops *)
Theorem %s_src_call_total : forall c idle k s, call_in_range k ->
  fst (go_call c k (mkD s idle)) <> DPanic /\\ fst (go_call c k (mkD s idle)) <> DFuel.
Proof. exact src_call_total. Qed.
Print Assumptions %s_src_call_total.
'''
T['line_end'] = '''Theorem %s_src_line_end : forall c v idle,
  (if orb (cfg_debug c) (cfg_iolog c) then bind (go_ioLoggerLineEnd c) (fun _ => ret tt) else ret tt) (mkD v idle)
  = (DVal tt, mkD (io_line_end c v) idle).
Proof. exact line_end_spec. Qed.
Print Assumptions %s_src_line_end.
'''
plan = {
    'C01': ['VeCommand', 'VeCommandGet', 'checksum', 'rfc', 'get_sound', 'uint_sound', 'devid_sound'],
    'C02': ['le_uint', 'le_int', 'typed'],
    'C03': ['sendCommand', 'write', 'checksum', 'frame_written'],
    'C04': ['VeCommandGet', 'sendReceive', 'receiveResponse', 'flushReceiver', 'recvUntil'],
    'C05': ['responseError', 'error_zero', 'error_class'],
    'C06': ['call_total', 'call_refines'],
    'C18': ['call_refines', 'line_end', 'write', 'recvUntil'],
}
A = {}
A['num'] = '''Theorem %s_api_ReadNumberRegister : forall c r v idle hist cn, r_kind r = 1 -> addr_ok r ->
  read_rel (fun q rv => exists n, rv = RVNum q n) (go_ReadNumberRegister c r (mkA (mkD v idle) hist cn))
           (read_register c idle r v) hist cn.
Proof. exact go_ReadNumberRegister_refines. Qed.
Print Assumptions %s_api_ReadNumberRegister.
'''
A['text'] = '''Theorem %s_api_ReadTextRegister : forall c r v idle hist cn, r_kind r = 2 -> addr_ok r ->
  read_rel (fun t rv => rv = RVText t) (go_ReadTextRegister c r (mkA (mkD v idle) hist cn))
           (read_register c idle r v) hist cn.
Proof. exact go_ReadTextRegister_refines. Qed.
Print Assumptions %s_api_ReadTextRegister.
'''
A['enum'] = '''Theorem %s_api_ReadEnumRegister : forall c r v idle hist cn, r_kind r = 3 -> addr_ok r ->
  read_rel (fun e rv => rv = RVEnum (fst e) (snd e)) (go_ReadEnumRegister c r (mkA (mkD v idle) hist cn))
           (read_register c idle r v) hist cn.
Proof. exact go_ReadEnumRegister_refines. Qed.
Print Assumptions %s_api_ReadEnumRegister.
'''
A['fl'] = '''Theorem %s_api_ReadFieldListRegister : forall c r v idle hist cn, r_kind r = 4 -> addr_ok r ->
  read_rel (fun fs rv => rv = RVFields fs) (go_ReadFieldListRegister c r (mkA (mkD v idle) hist cn))
           (read_register c idle r v) hist cn.
Proof. exact go_ReadFieldListRegister_refines. Qed.
Print Assumptions %s_api_ReadFieldListRegister.
'''
A['fl_bits'] = '''(* the property on the translated source: the field set is the bit set of the unsigned value the
   driver read, cut to the width of the type *)
Theorem %s_api_fieldlist_bits : forall c r v idle hist cn fs sa, r_kind r = 4 -> addr_ok r ->
  go_ReadFieldListRegister c r (mkA (mkD v idle) hist cn) = (DVal (fs, None), sa) ->
  exists n v1 f, get_uint c idle (r_addr r) v = (Ok (VNum n), v1) /\\ fl_of (r_factory r) = Some f /\\
                 fs = fl_fields (f_map f) (n mod 2 ^ f_bits f).
Proof. exact src_fieldlist_bits. Qed.
Print Assumptions %s_api_fieldlist_bits.
'''
A['wrapped'] = '''(* the property on the translated source: every error of a reader is wrapped with the register's name *)
Theorem %s_api_number_error_wrapped : forall c r s q e sd,
  go_ReadNumberRegister c r s = (DVal (q, Some e), sd) -> wrapped_with r e /\\ q = inject_Z 0.
Proof. exact src_number_error_wrapped. Qed.
Print Assumptions %s_api_number_error_wrapped.

Theorem %s_api_text_error_wrapped : forall c r s t e sd,
  go_ReadTextRegister c r s = (DVal (t, Some e), sd) -> wrapped_with r e /\\ t = [].
Proof. exact src_text_error_wrapped. Qed.
Print Assumptions %s_api_text_error_wrapped.

Theorem %s_api_enum_error_wrapped : forall c r s v e sd,
  go_ReadEnumRegister c r s = (DVal (v, Some e), sd) -> wrapped_with r e.
Proof. exact src_enum_error_wrapped. Qed.
Print Assumptions %s_api_enum_error_wrapped.

Theorem %s_api_fieldlist_error_wrapped : forall c r s v e sd,
  go_ReadFieldListRegister c r s = (DVal (v, Some e), sd) -> wrapped_with r e.
Proof. exact src_fieldlist_error_wrapped. Qed.
Print Assumptions %s_api_fieldlist_error_wrapped.
'''
A['stream'] = '''(* the streaming loop of the translated source against the model's: returned error, the values
   handed to the handlers in order, the driver state *)
Theorem %s_api_StreamRegisterList : forall c rl h cn v, reglist_ok rl ->
  run_rel (go_StreamRegisterList c tt rl h (mkA (mkD v false) [] cn)) (stream_register_list c h rl cn v) cn.
Proof. exact go_StreamRegisterList_refines. Qed.
Print Assumptions %s_api_StreamRegisterList.

(* ... on the register list of every product id (the hypothesis is closed over the regenerated tables) *)
Theorem %s_api_stream_product_lists : forall c id h cn v,
  run_rel (go_StreamRegisterList c tt (snd (obs_reglist id)) h (mkA (mkD v false) [] cn))
          (stream_register_list c h (snd (obs_reglist id)) cn v) cn.
Proof. exact go_stream_product_lists. Qed.
Print Assumptions %s_api_stream_product_lists.
'''
A['readlist'] = '''(* ReadRegisterList of the translated source (the map-returning variant: the four collector closures over the stream):
   the same end of the stream and driver state as the model's read_register_list, and per value kind the same map from
   register names to values -- what the handlers of StreamRegisterList would have been given, nothing else *)
Theorem %s_api_ReadRegisterList : forall c rl cn v, reglist_ok rl ->
  readlist_rel (go_ReadRegisterList c tt rl (mkA (mkD v false) [] cn)) (GV.Api.Maps.read_register_list c rl cn v).
Proof. exact go_ReadRegisterList_refines. Qed.
Print Assumptions %s_api_ReadRegisterList.

Theorem %s_api_ReadRegisterList_collects : forall c rl cn v G e s', reglist_ok rl ->
  go_ReadRegisterList c tt rl (mkA (mkD v false) [] cn) = (DVal (G, e), s') ->
  exists acc, G = fold_left g_put (map gpair acc) (mkRV [] [] [] []) /\\ a_out s' = map gpair acc /\\
              snd (fst (stream_register_list c all_handlers rl cn v)) = acc.
Proof. exact go_ReadRegisterList_collects. Qed.
Print Assumptions %s_api_ReadRegisterList_collects.

(* ... on the register list of every product id *)
Theorem %s_api_read_product_lists : forall c id cn v,
  readlist_rel (go_ReadRegisterList c tt (snd (obs_reglist id)) (mkA (mkD v false) [] cn))
               (GV.Api.Maps.read_register_list c (snd (obs_reglist id)) cn v).
Proof. exact go_read_product_lists. Qed.
Print Assumptions %s_api_read_product_lists.
'''
A['connect'] = '''(* NewRegisterApi of the translated source against the model's connect: ping, then the device id, an
   object iff both succeed and the id is a known product with a register list -- then product = id and
   registers = the list of that id; a fresh driver has never sent (clock flag true) *)
Theorem %s_api_NewRegisterApi : forall c v hist cn,
  connect_rel (go_NewRegisterApi tt c (mkA (mkD v true) hist cn)) (connect c v) hist cn.
Proof. exact go_NewRegisterApi_refines. Qed.
Print Assumptions %s_api_NewRegisterApi.
'''
A['comma'] = '''(* THE RENDERING CLAUSE of the property on the translated source: for every field-list type of the tables,
   every raw value and EVERY order in which `range` may visit the field map (every permutation is a
   shuffle: shuffle_surjective), CommaString names exactly the set fields, each once, by ascending index --
   the model's fl_render -- and is therefore identical every time it is produced *)
Theorem %s_api_CommaString : forall f r raw ord s, In f obs_fieldlists -> fl_of (r_factory r) = Some f ->
  go_CommaString (mkFlv r (fl_fields (f_map f) raw)) ord s
  = (DVal (list_byte_of_string (fl_render (f_map f) raw)), s).
Proof. exact go_CommaString_spec. Qed.
Print Assumptions %s_api_CommaString.

Theorem %s_api_CommaString_deterministic : forall f r raw ord1 ord2 s, In f obs_fieldlists -> fl_of (r_factory r) = Some f ->
  go_CommaString (mkFlv r (fl_fields (f_map f) raw)) ord1 s = go_CommaString (mkFlv r (fl_fields (f_map f) raw)) ord2 s.
Proof. exact go_CommaString_deterministic. Qed.
Print Assumptions %s_api_CommaString_deterministic.

Theorem %s_api_every_map_order : forall (l l' : list ((Z * string) * bool)),
  Sorting.Permutation.Permutation l l' -> exists ks, shuffle ks l = l'.
Proof. exact (@shuffle_surjective ((Z * string) * bool)). Qed.
Print Assumptions %s_api_every_map_order.
'''
A['getlist'] = '''(* RegisterValues.GetList of the translated source (what the CLI prints, in this order): for EVERY order in which the
   four maps are visited the list holds every fetched value exactly once and is ordered by non-decreasing sort key *)
Theorem %s_api_GetList : forall rv o1 o2 o3 o4 s,
  exists l, go_GetList rv o1 o2 o3 o4 s = (DVal l, s) /\\
            Sorting.Permutation.Permutation (all_values rv) l /\\
            Sorting.Sorted.Sorted (GV.Tables.RegListFacts.le_by value_key) l.
Proof. exact go_GetList_spec. Qed.
Print Assumptions %s_api_GetList.
'''
aplan = {
    'C20': ['getlist'],
    'C11': ['connect'],
    'C05': ['wrapped'],
    'C09': ['num', 'text', 'enum', 'fl', 'fl_bits'],
    'C10': ['stream', 'readlist'],
    'C15': ['fl', 'fl_bits', 'comma'],
}
rhdr = '''(* %s -- the property's anchored source (veregister/registerList.go, filter.go) translated on every run into
   Gen/RegImpl.v and proved equal to the four-sequence model Tables/RegList.v (tie T-gen).  Only statements,
   `exact` and Print Assumptions. *)
From Coq Require Import Strings.Byte.
From GV Require Import Vedirect.DrvSem Tables.RegSem Gen.RegImpl Tables.RegListFacts Tables.RegRefine.
Import ListNotations.
Local Open Scope Z_scope.

'''
G = {}
G['len'] = '''Theorem %s_reg_Len : forall rl, go_Len rl = (DVal (Z.of_nat (rl_len rl)), rl).
Proof. exact go_Len_spec. Qed.
Print Assumptions %s_reg_Len.
'''
G['append'] = '''Theorem %s_reg_AppendNumber : forall rs rl, go_AppendNumberRegisterStruct rs rl = (DVal tt, rl_step rl (OAppendNumbers rs)).
Proof. exact go_AppendNumber_spec. Qed.
Print Assumptions %s_reg_AppendNumber.

Theorem %s_reg_AppendText : forall rs rl, go_AppendTextRegisterStruct rs rl = (DVal tt, rl_step rl (OAppendTexts rs)).
Proof. exact go_AppendText_spec. Qed.
Print Assumptions %s_reg_AppendText.

Theorem %s_reg_AppendEnum : forall rs rl, go_AppendEnumRegisterStruct rs rl = (DVal tt, rl_step rl (OAppendEnums rs)).
Proof. exact go_AppendEnum_spec. Qed.
Print Assumptions %s_reg_AppendEnum.

Theorem %s_reg_AppendFieldList : forall rs rl, go_AppendFieldListRegisterStruct rs rl = (DVal tt, rl_step rl (OAppendFieldLists rs)).
Proof. exact go_AppendFieldList_spec. Qed.
Print Assumptions %s_reg_AppendFieldList.
'''
G['filter'] = '''(* the generic filter keeps exactly the elements satisfying the predicate, in their order *)
Theorem %s_reg_filterRegisters : forall inp f p s, pure_pred f p ->
  go_filterRegisters inp f s = (DVal (filter p inp), s).
Proof. exact go_filterRegisters_spec. Qed.
Print Assumptions %s_reg_filterRegisters.

Theorem %s_reg_FilterRegister : forall f p rl, pure_pred f p ->
  go_FilterRegister f rl = (DVal tt, rl_filter p rl).
Proof. exact go_FilterRegister_spec. Qed.
Print Assumptions %s_reg_FilterRegister.

(* name filters drop exactly the named registers, of every kind *)
Theorem %s_reg_FilterByName : forall names rl,
  go_FilterByName (map list_byte_of_string names) rl = (DVal tt, rl_step rl (OFilterByName names)).
Proof. exact go_FilterByName_spec. Qed.
Print Assumptions %s_reg_FilterByName.
'''
G['get'] = '''Theorem %s_reg_GetRegisters : forall rl, go_GetRegisters rl = (DVal (rl_get_registers rl), rl).
Proof. exact go_GetRegisters_spec. Qed.
Print Assumptions %s_reg_GetRegisters.
'''
G['history'] = '''(* the property on the translated source: after ANY history of append and filter operations the list is the
   model's list (C16_history: four plain sequences), its length the total count, the combined view the
   stable sort -- and GetRegisters/Len leave the list as it is *)
Theorem %s_reg_history : forall ops rl, go_ops ops rl = (DVal tt, fold_left rl_step ops rl).
Proof. exact go_history. Qed.
Print Assumptions %s_reg_history.

Theorem %s_reg_history_view : forall ops,
  let rl := fold_left rl_step ops rl_empty in
  bind (go_ops ops) (fun _ => bind go_Len (fun n => bind go_GetRegisters (fun l => ret (n, l)))) rl_empty
  = (DVal (Z.of_nat (rl_len rl), rl_get_registers rl), rl).
Proof. exact go_history_view. Qed.
Print Assumptions %s_reg_history_view.
'''
gplan = {'C16': ['len', 'append', 'filter', 'get', 'history'], 'C12': ['filter']}
ehdr = '''(* %s -- every NewEnum / NewFieldList of package veconst translated on every run into Gen/EnumImpl.v and
   proved equal to the model of Tables/Enum.v for every integer (tie T-gen; the typed constructor New is the
   regenerated observation of all 256 bytes).  Only statements, `exact` and Print Assumptions. *)
From GV Require Import Vedirect.DrvSem Tables.EnumSem Gen.EnumImpl Tables.EnumRefine.
Import ListNotations.
Local Open Scope Z_scope.

'''
E = {}
E['enum'] = '''Theorem %s_src_all_new_enum :
  Forall (fun p => forall v s, snd p v s = (DVal (new_enum_model (fst p) v), s)) all_new_enum.
Proof. exact all_new_enum_refine. Qed.
Print Assumptions %s_src_all_new_enum.

Theorem %s_src_all_new_enum_complete :
  forallb (fun e => existsb (String.eqb (e_name e)) (map fst all_new_enum)) obs_enums = true.
Proof. exact all_new_enum_complete. Qed.
Print Assumptions %s_src_all_new_enum_complete.

(* the property on the translated source: for every enumeration and EVERY integer v construction succeeds iff
   v is a key of the index-to-name map -- then index v and the mapped name -- and otherwise ErrInvalidEnumIdx *)
Theorem %s_src_new_enum_iff : forall name f, In (name, f) all_new_enum -> forall e, enum_of name = Some e -> forall v s,
  match assoc v (e_map e) with
  | Some n => 0 <= v <= 255 -> f v s = (DVal ((v, n), None), s)
  | None => f v s = (DVal ((0, EmptyString), Some EInvalidEnumIdx), s)
  end.
Proof. exact src_new_enum_iff. Qed.
Print Assumptions %s_src_new_enum_iff.
'''
E['fl'] = '''Theorem %s_src_all_new_fieldlist :
  Forall (fun p => forall v s, snd p v s = (DVal (new_fieldlist_model (fst p) v), s)) all_new_fieldlist.
Proof. exact all_new_fieldlist_refine. Qed.
Print Assumptions %s_src_all_new_fieldlist.

Theorem %s_src_all_new_fieldlist_complete :
  forallb (fun f => existsb (String.eqb (f_name f)) (map fst all_new_fieldlist)) obs_fieldlists = true.
Proof. exact all_new_fieldlist_complete. Qed.
Print Assumptions %s_src_all_new_fieldlist_complete.
'''
eplan = {'C14': ['enum'], 'C15': ['fl']}
bhdr = '''(* %s -- the advertisement handler, PKCS7Padding, bluezAddrBytes and getDeviceConfig of /repo/ble/ble.go translated
   on every run into Gen/BleHandlerImpl.v and proved against the model Ble/Handler.v (tie T-gen).  Only statements,
   `exact` and Print Assumptions. *)
From GV Require Import Vedirect.DrvSem Ble.BleSem Gen.BleHandlerImpl Ble.BleHandlerRefine.
From GV Require Ble.GoSem Gen.BleImpl Ble.Handler Ble.Aes.
Import ListNotations.
Local Open Scope Z_scope.

'''
B = {}
B['all'] = '''Theorem %s_src_PKCS7Padding : forall data (bs : nat) s, (1 <= bs <= 255)%%nat ->
  go_PKCS7Padding data (Z.of_nat bs) s = (DVal (GV.Ble.Handler.pkcs7 data bs), s).
Proof. exact go_PKCS7Padding_spec. Qed.
Print Assumptions %s_src_PKCS7Padding.

(* the handler of the translated source, for every payload, key and configuration: what it logs -- too short,
   bad key, the plaintext, the decoded solar-charger record or its decoding error -- is what the model computes
   (Ble/Handler.v: AES-CTR under the device key with the nonce of bytes 5..6 over the padded bytes 8.., type 0x01
   decoded by the translated decoder of Gen/BleImpl.v) *)
Theorem %s_src_handle : forall c dc raw,
  handler_rel (go_handleNewManufacturerData c dc raw [])
              (GV.Ble.Handler.handle (GV.Ble.Aes.aes_encrypt (dc_key dc)) (List.length (dc_key dc)) raw).
Proof. exact go_handle_refines. Qed.
Print Assumptions %s_src_handle.

(* the property on the translated source: advertisement handling never panics *)
Theorem %s_src_handle_no_panic : forall c dc raw, fst (go_handleNewManufacturerData c dc raw []) = DVal tt.
Proof. exact go_handle_no_panic. Qed.
Print Assumptions %s_src_handle_no_panic.

Theorem %s_src_bluezAddrBytes : forall addr s,
  exists s', go_bluezAddrBytes addr s = (DVal (GV.Ble.Handler.bluez_addr_bytes addr), s').
Proof. exact go_bluezAddrBytes_value. Qed.
Print Assumptions %s_src_bluezAddrBytes.

(* a device is matched to the first configuration whose MAC equals the address bytes *)
Theorem %s_src_getDeviceConfig : forall devs dbg addr s,
  exists s', go_getDeviceConfig (mkBle dbg devs) addr s =
             (DVal (match GV.Ble.Handler.get_device_config (map dc_mac devs) addr with
                    | Some i => nth_error devs i
                    | None => None
                    end), s').
Proof. exact go_getDeviceConfig_spec. Qed.
Print Assumptions %s_src_getDeviceConfig.
'''
bplan = {'C19': ['all']}
names = {}
for (pl, tbl, h, suf) in ((bplan, B, bhdr, 'src'), (eplan, E, ehdr, 'enum'), (plan, T, hdr, 'src'), (aplan, A, ahdr, 'api'), (gplan, G, rhdr, 'reg')):
    for pid, keys in pl.items():
        out = h % (pid + suf)
        for k in keys:
            t = tbl[k]
            out += t % tuple([pid] * t.count('%s')) + "\n"
        open(os.path.join(ROOT, 'coq', 'Props', '%s%s.v' % (pid, suf)), 'w').write(out)
        names[pid + suf] = re.findall(r"^Theorem (\w+)", out, re.M)
print(json.dumps(names, indent=1))
