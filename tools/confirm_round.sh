#!/bin/bash
# tools/confirm_round.sh <seed_out_dir> <wt_prefix> <letter_for_a> <letter_for_b>
# confirm every seed under <seed_out_dir>/Cxx/{a,b} in its own worktree <wt_prefix>Cxx; copy confirmed ones to
# /verif/seeded/Cxx-<letter>/
src=$1; wtp=$2; la=$3; lb=$4
for d in $src/C*/[ab]; do
  id=$(basename $(dirname $d)); v=$(basename $d)
  [ -f $d/patch.diff ] || continue
  if [ $v = a ]; then L=$la; else L=$lb; fi
  [ -d /verif/seeded/$id-$L ] && continue
  wt=$wtp$id
  [ -d $wt ] || git -C /repo worktree add -q --detach $wt HEAD
  python3 /verif/tools/seedtest.py $d --wt $wt > $src/$id-$v.confirm.json 2>&1
  if grep -q '"confirmed": true' $src/$id-$v.confirm.json; then
    mkdir -p /verif/seeded/$id-$L && cp -r $d/* /verif/seeded/$id-$L/ && cp $src/$id-$v.confirm.json /verif/seeded/$id-$L/confirm.json
    echo "confirmed $id-$L"
  else
    echo "NOT confirmed $id-$v"
  fi
done
