(* Glue between text case files and the extracted model (trusted, small). *)
open Gvcore

(* the extracted code defines its own [string] (Coq's inductive strings); keep OCaml's *)
type string = Stdlib.String.t
module String = Stdlib.String

(* Init.Byte.byte has 256 constant constructors x00..xff in order; OCaml represents the
   k-th constant constructor as the immediate integer k.  Checked at start-up against
   the extracted [bz]. *)
let byte_of_int (i : int) : byte = (Obj.magic (i land 255) : byte)
let int_of_byte (b : byte) : int = (Obj.magic b : int)

let rec pos_of_int (n : int) : positive =
  if n = 1 then XH
  else if n land 1 = 0 then XO (pos_of_int (n lsr 1))
  else XI (pos_of_int (n lsr 1))

let z_of_int (n : int) : z =
  if n = 0 then Z0 else if n > 0 then Zpos (pos_of_int n) else Zneg (pos_of_int (-n))

let rec int_of_pos (p : positive) : int =
  match p with XH -> 1 | XO q -> 2 * int_of_pos q | XI q -> 2 * int_of_pos q + 1

let int_of_z (x : z) : int =
  match x with Z0 -> 0 | Zpos p -> int_of_pos p | Zneg p -> - (int_of_pos p)

(* arbitrary-size decimal conversion for Z (values may exceed 2^62) *)
let z_of_string (s : string) : z =
  let neg = String.length s > 0 && s.[0] = '-' in
  let digits = if neg then String.sub s 1 (String.length s - 1) else s in
  let ten = z_of_int 10 in
  let acc = ref Z0 in
  String.iter (fun c -> acc := Z.add (Z.mul !acc ten) (z_of_int (Char.code c - 48))) digits;
  if neg then Z.opp !acc else !acc

let string_of_z (x : z) : string =
  let ten = z_of_int 10 in
  let rec go (v : z) (acc : string list) =
    match v with
    | Z0 -> acc
    | _ ->
      let q = Z.div v ten and r = Z.modulo v ten in
      go q (string_of_int (int_of_z r) :: acc)
  in
  match x with
  | Z0 -> "0"
  | Zpos _ -> String.concat "" (go x [])
  | Zneg p -> "-" ^ String.concat "" (go (Zpos p) [])

let rec nat_of_int (n : int) : nat = if n <= 0 then O else S (nat_of_int (n - 1))
let rec int_of_nat (n : nat) : int = match n with O -> 0 | S m -> 1 + int_of_nat m

let bytes_of_hex (h : string) : byte list =
  let n = String.length h / 2 in
  List.init n (fun i -> byte_of_int (int_of_string ("0x" ^ String.sub h (2 * i) 2)))

let hex_of_bytes (bs : byte list) : string =
  String.concat "" (List.map (fun b -> Printf.sprintf "%02x" (int_of_byte b)) bs)

let self_check () =
  for i = 0 to 255 do
    if int_of_z (bz (byte_of_int i)) <> i then failwith "byte representation check failed";
    if int_of_byte (zb (z_of_int i)) <> i then failwith "byte representation check failed (zb)"
  done;
  if string_of_z (z_of_string "-18446744073709551617") <> "-18446744073709551617" then
    failwith "z decimal conversion check failed"

(* a non-negative z below 2^64 as 16 hex digits *)
let hex64_of_z (x : z) : string =
  let sixteen = z_of_int 16 in
  let rec go (v : z) (n : int) (acc : string) =
    if n = 0 then acc
    else go (Z.div v sixteen) (n - 1) (Printf.sprintf "%x" (int_of_z (Z.modulo v sixteen)) ^ acc)
  in
  go x 16 ""

let split_ws (s : string) : string list =
  List.filter (fun x -> x <> "") (String.split_on_char ' ' s)

(* Coq strings (inductive, one ascii = 8 booleans per character) <-> OCaml strings *)
let char_of_ascii (a : Gvcore.ascii) : char =
  match a with
  | Ascii (b0, b1, b2, b3, b4, b5, b6, b7) ->
    let v b k = if b then 1 lsl k else 0 in
    Char.chr (v b0 0 + v b1 1 + v b2 2 + v b3 3 + v b4 4 + v b5 5 + v b6 6 + v b7 7)

let ascii_of_char (c : char) : Gvcore.ascii =
  let n = Char.code c in
  let b k = (n lsr k) land 1 = 1 in
  Ascii (b 0, b 1, b 2, b 3, b 4, b 5, b 6, b 7)

let rec ostring_of_coq (s : Gvcore.string) : string =
  match s with
  | EmptyString -> ""
  | String (a, r) -> String.make 1 (char_of_ascii a) ^ ostring_of_coq r

let coq_of_ostring (s : string) : Gvcore.string =
  let r = ref EmptyString in
  for i = String.length s - 1 downto 0 do r := Gvcore.String (ascii_of_char s.[i], !r) done;
  !r
