(* C15: field lists.  Compares Fields() of the implementation with the model fl_fields over
   the regenerated IntToStringMap tables, and judges every rendering with render_ok. *)
open Gvcore
open Util

let string_of_coq = ostring_of_coq
let coq_of_string = coq_of_ostring

let run () =
  let n = ref 0 and mism = ref 0 and bad = ref 0 and api = ref 0 and distinct = Hashtbl.create 1000 in
  (try
     while true do
       let line = input_line stdin in
       match (match split_ws line with [ a; b; c; d; e; f; w ] -> [ a; b; c; d; e; f ], w | l -> l, "") with
       | [ fname; via; raw; fields; render; stable ], width when via <> "unreachable" ->
         incr n;
         Hashtbl.replace distinct (fname ^ raw ^ width) ();
         let f = List.find (fun f -> string_of_coq f.f_name = fname) obs_fieldlists in
         let rawz = z_of_string raw in
         let expect = String.concat ","
             (List.map (fun (k, b) -> Printf.sprintf "%s:%d" (string_of_z k) (if b then 1 else 0)) (fl_fields f.f_map rawz)) in
         if fields <> expect then begin
           incr mism; if !mism <= 20 then Printf.printf "MISMATCH %s expected-fields=%s\n" line expect end;
         if via = "api" then begin
           incr api;
           let r = if render = "-" then "" else
               String.concat "" (List.map (fun b -> String.make 1 (Char.chr (int_of_byte b))) (bytes_of_hex render)) in
           let bits = List.map snd (fl_fields f.f_map rawz) in
           if stable <> "1" then begin incr bad; if !bad <= 20 then Printf.printf "JUDGE-FAIL unstable-rendering %s\n" line end
           else if not (render_ok f.f_map bits (coq_of_string r)) then begin
             incr bad; if !bad <= 20 then Printf.printf "JUDGE-FAIL rendering-does-not-name-exactly-the-set-fields %s\n" line end
           else if coq_of_string r <> fl_render f.f_map rawz then begin
             (* order differs from the model's index order: allowed by the property, but the model must be told *)
             incr mism; if !mism <= 20 then Printf.printf "MISMATCH-RENDER-ORDER %s\n" line end
         end
       | _ -> ()
     done
   with End_of_file -> ());
  Printf.printf "SUMMARY cases=%d api=%d distinct=%d mismatches=%d judge_failures=%d\n" !n !api (Hashtbl.length distinct) !mism !bad
