(* C03: compare every observed transmitted frame with the model's tx_frame and judge it
   with the independent grammar. *)
open Gvcore
open Util

let run () =
  let n = ref 0 and frames = ref 0 and mism = ref 0 and bad = ref 0 in
  let distinct = Hashtbl.create 100000 in
  (try
     while true do
       let line = input_line stdin in
       match split_ws line with
       | entry :: cmd :: addr :: nwrites :: panicked :: fs ->
         incr n;
         let cmd = int_of_string cmd and addr = int_of_string addr in
         let nwrites = int_of_string nwrites in
         let expect_writes = match entry with
           | "VeCommand" | "Ping" | "GetDeviceId" -> 1 | _ -> 8 in
         let model = hex_of_bytes (tx_frame (z_of_int cmd) (z_of_int addr)) in
         let total = ref 0 in
         let line_bad = ref false and line_mism = ref false in
         List.iter (fun f ->
             match String.split_on_char '*' f with
             | [h; c] ->
               total := !total + int_of_string c;
               incr frames;
               Hashtbl.replace distinct h ();
               if h <> model then line_mism := true;
               if not (c03_frame_ok (z_of_int cmd) (z_of_int addr) (bytes_of_hex h)) then line_bad := true
             | _ -> line_bad := true) fs;
         if panicked <> "0" then line_bad := true;
         (* one frame per Write call and per attempt *)
         if !total <> nwrites || nwrites <> expect_writes then line_bad := true;
         if !line_mism then begin incr mism; if !mism <= 20 then Printf.printf "MISMATCH %s model=%s\n" line model end;
         if !line_bad then begin incr bad; if !bad <= 20 then Printf.printf "JUDGE-FAIL %s\n" line end
       | _ -> ()
     done
   with End_of_file -> ());
  Printf.printf "SUMMARY cases=%d frames=%d distinct_frames=%d mismatches=%d judge_failures=%d\n"
    !n !frames (Hashtbl.length distinct) !mism !bad
