let () =
  Util.self_check ();
  match Sys.argv with
  | [| _; "c03" |] -> C03.run ()
  | [| _; "script"; f |] -> Script.run f
  | _ -> prerr_endline "usage: gvmodel <subcommand>"; exit 2
