let () =
  Util.self_check ();
  match Sys.argv with
  | [| _; "c03" |] -> C03.run ()
  | [| _; "c15" |] -> C15.run ()
  | [| _; "ble" |] -> Ble.run 1
  | [| _; "ble"; stride |] -> Ble.run (int_of_string stride)
  | [| _; "blehandler"; f; o |] -> Blehandler.run f o
  | [| _; "script"; f |] -> Script.run f
  | [| _; "judge"; f; o |] -> Judge.run f o
  | [| _; "api"; f; o |] -> Api.run f o
  | [| _; "apimodel"; f |] -> Api.run_model_only f
  | [| _; "reglist"; f; o |] -> Reglist.run f o
  | _ -> prerr_endline "usage: gvmodel <subcommand>"; exit 2
