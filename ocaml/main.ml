let () =
  Util.self_check ();
  match Sys.argv with
  | [| _; "c03" |] -> C03.run ()
  | _ -> prerr_endline "usage: gvmodel <subcommand>"; exit 2
