(* C07/C08: the implementation's decoders vs (a) the translated decoders (validates the
   translator) and (b) the layout specification spec_decode (the judge). *)
open Gvcore
open Util

let float_of_z (x : z) : float = float_of_string (string_of_z x)
let q_to_float (q : q) : float = float_of_z q.qnum /. float_of_z (Zpos q.qden)

let close (f : float) (q : float) : bool = Float.abs (f -. q) <= 1e-9 *. Float.max 1.0 (Float.abs q)

let gerr_class (e : gerr) = match e with GNil -> "ok" | GInputTooShort -> "Einputtooshort" | GInvalidEnumIdx -> "Einvalidenum"

(* compare an implementation field token with a model field value *)
let field_eq (tok : string) (v : fieldval) : bool =
  match v with
  | FVFloat FNaN -> tok = "nan"
  | FVFloat (FNum q) ->
    String.length tok > 1 && tok.[0] = 'q' &&
    (try close (float_of_string (String.sub tok 1 (String.length tok - 1))) (q_to_float q) with _ -> false)
  | FVInt z -> tok = "i" ^ string_of_z z

let fields_match (impl : string) (fs : fieldval list) : bool =
  let toks = String.split_on_char ',' impl in
  List.length toks = List.length fs && List.for_all2 field_eq toks fs

let show_fields (fs : fieldval list) : string =
  String.concat "," (List.map (function
      | FVFloat FNaN -> "nan"
      | FVFloat (FNum q) -> Printf.sprintf "q%.17g" (q_to_float q)
      | FVInt z -> "i" ^ string_of_z z) fs)

(* the same translated text under the binary64 vocabulary (Gen/BleImplF.v): float fields are bit
   patterns; compared bit for bit with the implementation (which prints 17 significant digits) *)
let fieldf_eq (tok : string) (v : FV.fieldval) : bool =
  match v with
  | FV.FVFloat b ->
    if FV.is_nan_bits b then tok = "nan"
    else String.length tok > 1 && tok.[0] = 'q' &&
         (try Printf.sprintf "%016Lx" (Int64.bits_of_float (float_of_string (String.sub tok 1 (String.length tok - 1)))) = hex64_of_z b
          with _ -> false)
  | FV.FVInt z -> tok = "i" ^ string_of_z z

let fieldsf_match (impl : string) (fs : FV.fieldval list) : bool =
  let toks = String.split_on_char ',' impl in
  List.length toks = List.length fs && List.for_all2 fieldf_eq toks fs

let show_fieldsf (fs : FV.fieldval list) : string =
  String.concat "," (List.map (function
      | FV.FVFloat b -> if FV.is_nan_bits b then "nan" else "b" ^ hex64_of_z b
      | FV.FVInt z -> "i" ^ string_of_z z) fs)

type dec = { layout : field list; run : byte list -> ((fieldval list * gerr), unit) Either.t;
             runf : byte list -> ((FV.fieldval list * gerr), unit) Either.t }

let wrap f fields = fun inp -> match f inp with MOk (r, e) -> Either.Left (fields r, e) | MFault -> Either.Right ()

let decoders : (string * dec) list = [
  "DecodeAcChargerRecord", { layout = layout_AcCharger; run = wrap decodeAcChargerRecord fields_AcChargerRecord; runf = wrap F.coq_DecodeAcChargerRecord F.fields_AcChargerRecord };
  "DecodeBatteryMonitorRecord", { layout = layout_BatteryMonitor; run = wrap decodeBatteryMonitorRecord fields_BatteryMonitorRecord; runf = wrap F.coq_DecodeBatteryMonitorRecord F.fields_BatteryMonitorRecord };
  "DecodeDcDcConverterRecord", { layout = layout_DcDcConverter; run = wrap decodeDcDcConverterRecord fields_DcDcConverterRecord; runf = wrap F.coq_DecodeDcDcConverterRecord F.fields_DcDcConverterRecord };
  "DecodeDcEnergyMeterRecord", { layout = layout_DcEnergyMeter; run = wrap decodeDcEnergyMeterRecord fields_DcEnergyMeterRecord; runf = wrap F.coq_DecodeDcEnergyMeterRecord F.fields_DcEnergyMeterRecord };
  "DecodeGxDeviceRecord", { layout = layout_GxDevice; run = wrap decodeGxDeviceRecord fields_GxDeviceRecord; runf = wrap F.coq_DecodeGxDeviceRecord F.fields_GxDeviceRecord };
  "DecodeInverterRecord", { layout = layout_Inverter; run = wrap decodeInverterRecord fields_InverterRecord; runf = wrap F.coq_DecodeInverterRecord F.fields_InverterRecord };
  "DecodeInverterRsRecord", { layout = layout_InverterRs; run = wrap decodeInverterRsRecord fields_InverterRsRecord; runf = wrap F.coq_DecodeInverterRsRecord F.fields_InverterRsRecord };
  "DecodeLynxSmartBms", { layout = layout_LynxSmartBms; run = wrap decodeLynxSmartBms fields_LynxSmartBms; runf = wrap F.coq_DecodeLynxSmartBms F.fields_LynxSmartBms };
  "DecodeMultiRsRecord", { layout = layout_MultiRs; run = wrap decodeMultiRsRecord fields_MultiRsRecord; runf = wrap F.coq_DecodeMultiRsRecord F.fields_MultiRsRecord };
  "DecodeSmartBatteryProtectRecord", { layout = layout_SmartBatteryProtect; run = wrap decodeSmartBatteryProtectRecord fields_SmartBatteryProtectRecord; runf = wrap F.coq_DecodeSmartBatteryProtectRecord F.fields_SmartBatteryProtectRecord };
  "DecodeSmartLithiumRecord", { layout = layout_SmartLithium; run = wrap decodeSmartLithiumRecord fields_SmartLithiumRecord; runf = wrap F.coq_DecodeSmartLithiumRecord F.fields_SmartLithiumRecord };
  "DecodeSolarChargeRecord", { layout = layout_SolarCharger; run = wrap decodeSolarChargeRecord fields_SolarChargerRecord; runf = wrap F.coq_DecodeSolarChargeRecord F.fields_SolarChargerRecord };
  "DecodeVeBusRecord", { layout = layout_VeBus; run = wrap decodeVeBusRecord fields_VeBusRecord; runf = wrap F.coq_DecodeVeBusRecord F.fields_VeBusRecord };
]

let run (stride : int) =
  let nf = ref 0 in
  let n = ref 0 and mism = ref 0 and bad7 = ref 0 and bad8 = ref 0 in
  let distinct = Hashtbl.create 10000 in
  (try
     while true do
       let line = input_line stdin in
       match split_ws line with
       | [ dname; hexs; cap; res ] ->
         incr n;
         Hashtbl.replace distinct (dname ^ hexs) ();
         let d = List.assoc dname decoders in
         let inp = if hexs = "-" then [] else bytes_of_hex hexs in
         let len = List.length inp and reclen = int_of_z (layout_len d.layout) in
         (* (a) translated decoder *)
         let tr = d.run inp in
         let tr_ok = (match tr with
             | Either.Right () -> res = "P" && cap = "0"      (* a fault of the model is a panic only when cap == len *)
             | Either.Left (fs, GNil) -> String.length res > 3 && String.sub res 0 3 = "ok:" && fields_match (String.sub res 3 (String.length res - 3)) fs
             | Either.Left (_, e) -> res = gerr_class e) in
         if not tr_ok then begin
           incr mism;
           if !mism <= 15 then Printf.printf "MISMATCH %s translated=%s\n" line
               (match tr with Either.Right () -> "FAULT" | Either.Left (fs, GNil) -> "ok:" ^ show_fields fs | Either.Left (_, e) -> gerr_class e) end;
         (* (a') the same translated text in binary64: bit-exact *)
         if tr_ok && !n mod stride = 0 then begin
           incr nf;
           let trf = d.runf inp in
           let trf_ok = (match trf with
               | Either.Right () -> res = "P" && cap = "0"
               | Either.Left (fs, GNil) -> String.length res > 3 && String.sub res 0 3 = "ok:" && fieldsf_match (String.sub res 3 (String.length res - 3)) fs
               | Either.Left (_, e) -> res = gerr_class e) in
           if not trf_ok then begin
             incr mism;
             if !mism <= 15 then Printf.printf "MISMATCH %s binary64=%s\n" line
                 (match trf with Either.Right () -> "FAULT" | Either.Left (fs, GNil) -> "ok:" ^ show_fieldsf fs | Either.Left (_, e) -> gerr_class e) end
         end;
         (* (b) the specification *)
         let sp = spec_decode d.layout inp in
         let spec_ok = (match sp with
             | SpecError e -> res = gerr_class e
             | SpecFields fs -> String.length res > 3 && String.sub res 0 3 = "ok:" && fields_match (String.sub res 3 (String.length res - 3)) fs) in
         if not spec_ok then begin
           (* length / panic / too-short problems are C08's, field values C07's *)
           let is8 = res = "P" || res = "MUTATED-INPUT" || (res = "Einputtooshort") <> (len < reclen) in
           if len > reclen && not is8 then begin
             (* longer than the record and wrong: also a dependence on the bytes after the record unless the record alone is wrong too *)
             let alone = d.run (List.filteri (fun i _ -> i < reclen) inp) in
             let sp_alone = spec_decode d.layout (List.filteri (fun i _ -> i < reclen) inp) in
             ignore alone;
             (match sp, sp_alone with
              | SpecFields a, SpecFields b when a = b ->
                incr bad8; if !bad8 <= 15 then Printf.printf "JUDGE-FAIL C08 %s len=%d record=%d spec=%s\n" line len reclen
                    (match sp with SpecError e -> gerr_class e | SpecFields fs -> "ok:" ^ show_fields fs)
              | _ -> ())
           end;
           if is8 then begin incr bad8; if !bad8 <= 15 then Printf.printf "JUDGE-FAIL C08 %s len=%d record=%d spec=%s\n" line len reclen
                   (match sp with SpecError e -> gerr_class e | SpecFields fs -> "ok:" ^ show_fields fs);
             (* C07 speaks of every input at least as long as the record: refusing such an input
                (or panicking on it) also withholds the fields C07 demands *)
             if len >= reclen && (res = "Einputtooshort" || res = "P") then begin
               incr bad7; if !bad7 <= 15 then Printf.printf "JUDGE-FAIL C07 %s spec=%s\n" line
                   (match sp with SpecError e -> gerr_class e | SpecFields fs -> "ok:" ^ show_fields fs) end
           end
           else begin incr bad7; if !bad7 <= 15 then Printf.printf "JUDGE-FAIL C07 %s spec=%s\n" line
                   (match sp with SpecError e -> gerr_class e | SpecFields fs -> "ok:" ^ show_fields fs) end
         end
       | _ -> ()
     done
   with End_of_file -> ());
  Printf.printf "SUMMARY cases=%d distinct=%d mismatches=%d c07_failures=%d c08_failures=%d binary64_compared=%d\n" !n (Hashtbl.length distinct) !mism !bad7 !bad8 !nf
