(* Scripted-port cases: run the extracted driver model on the same case lines the Go
   harness ran and print observations in the same canonical format. *)
open Gvcore
open Util

type scall = { kind : string; cmd : int; addr : int; idle : char; expect : string }

type scase = {
  id : string; cfg : int; np : bool; stale : revent list; wf : bool list; ff : bool list;
  react : revent list list; calls : scall list; tags : (string * string) list;
}

let parse_events (s : string) : revent list =
  if s = "-" || s = "" then []
  else List.map (fun t ->
      match t.[0] with
      | 'd' -> RData (bytes_of_hex (String.sub t 1 (String.length t - 1)))
      | 'e' -> REof
      | 'x' -> RErr
      | _ -> REmpty) (String.split_on_char ',' s)

let parse_bits (s : string) : bool list =
  if s = "-" then [] else List.init (String.length s) (fun i -> s.[i] = '1')

let parse_case (line : string) : scase =
  match split_ws line with
  | [] -> failwith "empty case"
  | id :: kvs ->
    let c = ref { id; cfg = 0; np = false; stale = []; wf = []; ff = []; react = []; calls = []; tags = [] } in
    List.iter (fun kv ->
        let i = String.index kv '=' in
        let k = String.sub kv 0 i and v = String.sub kv (i + 1) (String.length kv - i - 1) in
        match k with
        | "cfg" -> c := { !c with cfg = int_of_string v }
        | "np" -> c := { !c with np = (v = "1") }
        | "stale" -> c := { !c with stale = parse_events v }
        | "wf" -> c := { !c with wf = parse_bits v }
        | "ff" -> c := { !c with ff = parse_bits v }
        | "re" -> if v <> "-" then c := { !c with react = List.map parse_events (String.split_on_char '|' v) }
        | "calls" ->
          let calls = List.map (fun cs ->
              match String.split_on_char '/' cs with
              | kind :: addr :: idle :: rest ->
                let kind, cmd =
                  if String.length kind > 3 && String.sub kind 0 3 = "cmd"
                  then "cmd", int_of_string (String.sub kind 3 (String.length kind - 3))
                  else kind, 0 in
                { kind; cmd; addr = int_of_string addr; idle = idle.[0];
                  expect = (match rest with e :: _ -> e | [] -> "") }
              | _ -> failwith "bad call") (String.split_on_char ';' v) in
          c := { !c with calls }
        | _ -> c := { !c with tags = (k, v) :: !c.tags }) kvs;
    !c

let model_call (k : scall) : call =
  let a = z_of_int k.addr in
  match k.kind with
  | "ping" -> CPing
  | "devid" -> CDeviceId
  | "raw" -> CGetRaw a
  | "uint" -> CGetUint a
  | "int" -> CGetInt a
  | "str" -> CGetString a
  | "cmd" -> CCommand (z_of_int k.cmd, a)
  | s -> failwith ("unknown call kind " ^ s)

let rec err_class (e : err) : string =
  match e with
  | EUnknownId -> "Eunknownid"
  | ENotSupported -> "Enotsupported"
  | EParameter -> "Eparameter"
  | EInvalidEnumIdx -> "Einvalidenum"
  | ECtxDone -> "Ectxdone"
  | EUnsupportedType -> "Eunsupportedtype"
  | EInputTooShort -> "Einputtooshort"
  | EOther -> "Eother"
  | EWrap (_, e') -> err_class e'

let res_string (r : value res) : string =
  match r with
  | Ok VUnit -> "ok"
  | Ok (VNum z) -> "n" ^ string_of_z z
  | Ok (VBytes b) -> "h" ^ hex_of_bytes b
  | Err e -> err_class e
  | Panic -> "P"
  | OutOfFuel -> "F"

let or_dash s = if s = "" then "-" else s

(* runs the model; returns (obs line, results, final state, per-call (state before, state after)) *)
let run_model (c : scase) =
  let p = { queue = c.stale; reactions = c.react; wfaults = c.wf; ffaults = c.ff; noprog = c.np;
            written = []; nwrites = O; nreads = O; nflushes = O; reads_at_end = O; delivered = [] } in
  let cf = { cfg_debug = (c.cfg land 1 <> 0); cfg_iolog = (c.cfg land 2 <> 0) } in
  (* run call by call to record the delivered marks *)
  let s = ref (vd_new p) in
  let results = ref [] and marks = ref [] and stop = ref false in
  let states = ref [] in
  List.iteri (fun i k ->
      if not !stop then begin
        let idle = (k.idle = 'i') || (k.idle = 'n' && i = 0) in
        let before = !s in
        match run_calls cf [ (idle, model_call k) ] !s with
        | ([ r ], s') ->
          s := s';
          states := (before, s') :: !states;
          results := r :: !results;
          marks := List.length s'.pt.delivered :: !marks;
          (match r with Panic | OutOfFuel -> stop := true | _ -> ())
        | _ -> failwith "run_calls: unexpected result shape"
      end) c.calls;
  let results = List.rev !results and marks = List.rev !marks in
  let s = !s in
  let b = Buffer.create 256 in
  Buffer.add_string b c.id;
  Buffer.add_string b (" R=" ^ String.concat ";" (List.map res_string results));
  Buffer.add_string b (" W=" ^ or_dash (String.concat "," (List.map hex_of_bytes s.pt.written)));
  Buffer.add_string b (Printf.sprintf " nw=%d nr=%d nf=%d re=%d"
                         (int_of_nat s.pt.nwrites) (int_of_nat s.pt.nreads)
                         (int_of_nat s.pt.nflushes) (int_of_nat s.pt.reads_at_end));
  Buffer.add_string b (" D=" ^ or_dash (hex_of_bytes s.pt.delivered));
  Buffer.add_string b (" dm=" ^ String.concat "," (List.map string_of_int marks));
  Buffer.add_string b (" L=" ^ or_dash (String.concat ","
                                          (List.map (fun (tx, rx) -> hex_of_bytes tx ^ "/" ^ hex_of_bytes rx) s.io_lines)));
  (Buffer.contents b, results, s, List.rev !states)

let run (file : string) =
  let ic = open_in file in
  (try
     while true do
       let line = input_line ic in
       if line <> "" && line.[0] <> '#' then begin
         let c = parse_case line in
         let (o, _, _, _) = run_model c in
         print_endline o
       end
     done
   with End_of_file -> ());
  close_in ic
