(* Judges: evaluate the extracted `Cxx_holds_on` predicates on the IMPLEMENTATION's
   observations (one impl observation line per case line, same order). *)
open Gvcore
open Util
open Script

type iobs = {
  oid : string; results : string list; written : string list; nw : int; nr : int; nf : int; re : int;
  deliv : byte list; marks : int list; lines : string list; altered : bool; replays : string list;
}

let parse_obs (line : string) : iobs =
  match split_ws line with
  | [] -> failwith "empty obs"
  | oid :: kvs ->
    let o = ref { oid; results = []; written = []; nw = 0; nr = 0; nf = 0; re = 0; deliv = []; marks = [];
                  lines = []; altered = false; replays = [] } in
    List.iter (fun kv ->
        let i = String.index kv '=' in
        let k = String.sub kv 0 i and v = String.sub kv (i + 1) (String.length kv - i - 1) in
        let lst sep = if v = "-" || v = "" then [] else String.split_on_char sep v in
        match k with
        | "R" -> o := { !o with results = String.split_on_char ';' v }
        | "W" -> o := { !o with written = lst ',' }
        | "nw" -> o := { !o with nw = int_of_string v }
        | "nr" -> o := { !o with nr = int_of_string v }
        | "nf" -> o := { !o with nf = int_of_string v }
        | "re" -> o := { !o with re = int_of_string v }
        | "D" -> o := { !o with deliv = (if v = "-" then [] else bytes_of_hex v) }
        | "dm" -> o := { !o with marks = List.map int_of_string (lst ',') }
        | "L" -> o := { !o with lines = lst ',' }
        | "RP" -> o := { !o with replays = lst ';' }
        | "ALTERED" -> o := { !o with altered = true }
        | _ -> ()) kvs;
    !o

let res_of_string (s : string) : value res =
  if s = "ok" then Ok VUnit
  else if s = "P" || s = "H" then Panic
  else if s = "F" then OutOfFuel
  else match s.[0] with
    | 'n' -> Ok (VNum (z_of_string (String.sub s 1 (String.length s - 1))))
    | 'h' -> Ok (VBytes (bytes_of_hex (String.sub s 1 (String.length s - 1))))
    | 'E' -> Err (match s with
        | "Eunknownid" -> EUnknownId | "Enotsupported" -> ENotSupported | "Eparameter" -> EParameter
        | "Einvalidenum" -> EInvalidEnumIdx | "Ectxdone" -> ECtxDone | _ -> EOther)
    | _ -> failwith ("bad result token " ^ s)

let rec drop n l = if n <= 0 then l else match l with [] -> [] | _ :: r -> drop (n - 1) r
let rec take n l = if n <= 0 then [] else match l with [] -> [] | x :: r -> x :: take (n - 1) r

let is_get k = match k.kind with "raw" | "uint" | "int" | "str" -> true | _ -> false

let tag c k = try Some (List.assoc k c.tags) with Not_found -> None

let fails : (string, int) Hashtbl.t = Hashtbl.create 16
let applicable : (string, int) Hashtbl.t = Hashtbl.create 16
let bump t k = Hashtbl.replace t k (1 + (try Hashtbl.find t k with Not_found -> 0))
let report prop c msg =
  bump fails prop;
  if Hashtbl.find fails prop <= 25 then Printf.printf "JUDGE-FAIL %s %s %s\n" prop c.id msg

let judge_case (c : scase) (o : iobs) =
  let (_, mresults, mfinal, states) = run_model c in
  let ncalls_done = List.length o.results in
  let calls = take ncalls_done c.calls in
  let results = List.map res_of_string o.results in
  (* ---- C01 ---- *)
  let prev = ref 0 in
  List.iteri (fun i k ->
      let r = List.nth results i in
      let mark = (try List.nth o.marks i with _ -> List.length o.deliv) in
      let during = take (mark - !prev) (drop !prev o.deliv) in
      prev := mark;
      (* bytes buffered before the call: from the model's state (same script) *)
      let before = (try (fst (List.nth states i)).rd.rbuf with _ -> []) in
      bump applicable "C01";
      if not (c01_call_ok (model_call k) (before @ during) r) then
        report "C01" c (Printf.sprintf "call %d (%s/%d) returned %s but the received bytes hold no valid matching frame"
                          i k.kind k.addr (List.nth o.results i))) calls;
  (* ---- C02 / C05: expectations of a conforming exchange ---- *)
  List.iteri (fun i k ->
      if k.expect <> "" then begin
        let got = List.nth o.results i in
        let prop = if String.length k.expect > 1 && k.expect.[0] = 'E' && k.expect <> "ERR" then "C05" else "C02" in
        bump applicable prop;
        let ok =
          if k.expect = "ERR" then String.length got > 0 && got.[0] = 'E'
          else if k.expect.[0] = '?' then   (* an error or exactly the value *)
            (String.length got > 0 && got.[0] = 'E') || got = String.sub k.expect 1 (String.length k.expect - 1)
          else got = k.expect in
        if not ok then report prop c (Printf.sprintf "call %d (%s/%d) expected %s got %s" i k.kind k.addr k.expect got);
        if prop = "C05" then begin
          match tag c "frames" with
          | Some "1" when List.length c.calls = 1 ->
            if List.length o.written <> 1 || o.nw <> 1 then
              report "C05" c (Printf.sprintf "device error must not be retried: %d frames written" (List.length o.written))
          | _ -> ()
        end
      end) calls;
  if o.altered then report "C02" c "a value returned earlier was altered by a later call";
  (* ---- C03: every frame written, also under faults ---- *)
  List.iter (fun w ->
      bump applicable "C03";
      if not (tx_wellformed (bytes_of_hex w)) then report "C03" c ("malformed frame written: " ^ w)) o.written;
  (* ... and each frame carries the command and the address of the call it was written for
     ("a Get for address a carries exactly the payload a_lo a_hi 00"): the frames are, call by
     call and in call order, repetitions of that call's own frame *)
  let frame_of (k : scall) : string =
    let cmd = (match k.kind with "ping" -> 1 | "devid" -> 4 | "cmd" -> k.cmd land 255 | _ -> 7) in
    let addr = (match k.kind with "ping" | "devid" -> 0 | _ -> k.addr land 65535) in
    hex_of_bytes (tx_frame (z_of_int cmd) (z_of_int addr)) in
  let rec consume frames cs = (match frames with
      | [] -> None
      | f :: r -> (match cs with
          | [] -> Some f
          | k :: cr -> if f = frame_of k then consume r cs else consume frames cr)) in
  bump applicable "C03";
  (match consume o.written calls with
   | Some f -> report "C03" c ("a frame does not carry the command and address of the call it was written for: " ^ f)
   | None -> ());
  (* one frame per attempt: when results and received bytes are the model's, so is the number of frames
     (C04_frames_written, C06_one_write_per_exchange: the model writes one frame per attempt) *)
  if o.results = List.map res_string mresults && hex_of_bytes o.deliv = hex_of_bytes mfinal.pt.delivered then begin
    bump applicable "C03";
    let mw = List.length mfinal.pt.written in
    if List.length o.written <> mw then
      report "C03" c (Printf.sprintf "%d frames written where the attempts made call for %d (one frame per attempt)" (List.length o.written) mw)
  end;
  (* ---- C04: abstract line machine (fault-free, EOF-mode scripts; get calls only) ---- *)
  let no_faults = List.for_all (fun b -> not b) c.wf && not c.np in
  let rec empty_run l n best = match l with
    | [] -> max n best | REmpty :: r -> empty_run r (n + 1) best | _ :: r -> empty_run r 0 (max n best) in
  let max_empty = List.fold_left (fun a r -> max a (empty_run r 0 0)) (empty_run c.stale 0 0) c.react in
  if no_faults && max_empty < 50 && List.for_all is_get c.calls && ncalls_done = List.length c.calls then begin
    bump applicable "C04";
    let rest = ref (items_of_events c.stale) and reacts = ref c.react and wtotal = ref 0 in
    List.iteri (fun i k ->
        let idle = (k.idle = 'i') || (k.idle = 'n' && i = 0) in
        let (((a, w), rest'), reacts') = a_get_call idle (z_of_int k.addr) !rest !reacts in
        rest := rest'; reacts := reacts'; wtotal := !wtotal + int_of_nat w;
        let r = List.nth results i in
        if not (a_result_matches a (model_call k) r) then
          report "C04" c (Printf.sprintf "call %d (%s/%d): result %s differs from the abstract line machine"
                            i k.kind k.addr (List.nth o.results i))) c.calls;
    if !wtotal <> o.nw then
      report "C04" c (Printf.sprintf "frames written %d, abstract line machine %d" o.nw !wtotal);
    if o.nw > 8 * List.length c.calls then report "C04" c "more than eight frames for one read"
  end;
  (* ---- C06: totals over the history ---- *)
  bump applicable "C06";
  let maxw = List.fold_left (fun a k -> a + (if is_get k then 8 else 1)) 0 calls in
  if List.mem "H" o.results then report "C06" c "unbounded reads after the port reported no more data (the call hangs)"
  else if List.mem "P" o.results then report "C06" c "panic"
  else begin
    if o.nw > maxw then report "C06" c (Printf.sprintf "%d write calls, bound %d" o.nw maxw);
    let bound = maxw * (if c.np then 100 else 1) in
    if o.re > bound then report "C06" c (Printf.sprintf "%d reads after the port reported no more data, bound %d" o.re bound)
  end;
  (* ---- C18: one line per typed call, tx/rx content, replay ---- *)
  if c.cfg land 2 <> 0 then begin
    bump applicable "C18";
    let typed = List.filter (fun k -> not (is_get k && k.kind = "raw") && k.kind <> "cmd") calls in
    if List.length o.lines <> List.length typed then
      report "C18" c (Printf.sprintf "%d I/O log lines for %d typed calls" (List.length o.lines) (List.length typed))
    else begin
      if List.mem "BAD" o.lines then report "C18" c "unparsable I/O log line";
      (* all frames written appear, in order, in the tx parts (when the last call is typed) *)
      let last_typed = (match List.rev calls with k :: _ -> not (k.kind = "raw" || k.kind = "cmd") | [] -> true) in
      if last_typed && not (List.mem "BAD" o.lines) then begin
        let txs = String.concat "" (List.map (fun l -> List.hd (String.split_on_char '/' l)) o.lines) in
        if txs <> String.concat "" o.written then report "C18" c "tx parts of the I/O log differ from the frames written"
      end;
      (* the rx parts: when the implementation's port traffic and results are the model's, every line is the
         model's line -- whose rx part is, by C18_one_line, the bytes consumed during that call *)
      if not (List.mem "BAD" o.lines)
         && hex_of_bytes o.deliv = hex_of_bytes mfinal.pt.delivered
         && o.written = List.map hex_of_bytes mfinal.pt.written
         && o.results = List.map res_string mresults then begin
        let mlines = List.map (fun (tx, rx) -> hex_of_bytes tx ^ "/" ^ hex_of_bytes rx) mfinal.io_lines in
        if o.lines <> mlines then
          report "C18" c ("an I/O log line does not hold the bytes written / consumed during its call: logged "
                          ^ String.concat "," o.lines ^ " consumed " ^ String.concat "," mlines)
      end;
      List.iteri (fun i rp ->
          if rp <> "-" then begin
            (* i-th typed call *)
            let k = List.nth typed i in
            let idx = (let rec find j l = match l with [] -> -1 | x :: r -> if x == k then j else find (j + 1) r in find 0 calls) in
            let got = List.nth o.results idx in
            if rp <> got then report "C18" c (Printf.sprintf "replaying the logged pair of typed call %d gives %s, the call gave %s" i rp got)
          end) o.replays
    end
  end else if o.lines <> [] then report "C18" c "I/O log lines without an I/O logger";
  ignore mresults

let run (casefile : string) (obsfile : string) =
  let ic = open_in casefile and io = open_in obsfile in
  let n = ref 0 in
  (try
     while true do
       let line = input_line ic in
       if line <> "" && line.[0] <> '#' then begin
         let ol = input_line io in
         let c = parse_case line and o = parse_obs ol in
         if c.id <> o.oid then failwith ("case/observation mismatch at " ^ c.id);
         incr n;
         judge_case c o
       end
     done
   with End_of_file -> ());
  List.iter (fun p ->
      Printf.printf "JUDGE-SUMMARY %s applicable=%d failures=%d\n" p
        (try Hashtbl.find applicable p with Not_found -> 0)
        (try Hashtbl.find fails p with Not_found -> 0))
    [ "C01"; "C02"; "C03"; "C04"; "C05"; "C06"; "C18" ];
  Printf.printf "JUDGE-CASES %d\n" !n
