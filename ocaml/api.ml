(* API-level cases (C09, C10, C11): run the extracted Api model on the case lines, compare
   with the implementation's observations (floats with tolerance) and evaluate the judges. *)
open Gvcore
open Util
open Script

let tag_ops (c : scase) : string list =
  match (try Some (List.assoc "ops" c.tags) with Not_found -> None) with
  | Some v -> String.split_on_char ';' v
  | None -> []

let float_of_z (x : z) : float = float_of_string (string_of_z x)

let q_to_float (q : q) : float =
  float_of_z q.qnum /. float_of_z (Zpos q.qden)

let close (f : float) (q : float) : bool =
  if Float.is_nan f || Float.is_nan q then Float.is_nan f && Float.is_nan q
  else Float.abs (f -. q) <= 1e-9 *. Float.max 1.0 (Float.abs q)

let hex_of_coqstring (s : Gvcore.string) : string =
  let o = ostring_of_coq s in
  String.concat "" (List.map (fun c -> Printf.sprintf "%02x" (Char.code c)) (List.init (String.length o) (String.get o)))

let fields_string (fs : (z * bool) list) : string =
  if fs = [] then "-" else
    String.concat "," (List.map (fun (k, b) -> Printf.sprintf "%s:%d" (string_of_z k) (if b then 1 else 0)) fs)

(* model value token; numbers are kept as rationals: "q<num>/<den>" *)
let value_token_r (r : reg option) (v : rvalue) : string =
  match v with
  | RVNum (q, raw) ->
    (* the exact rational, and — when the register is known — the float64 the code must return
       (Float.number_value_bits, Flocq binary64), as 16 hex digits *)
    let bits = (match r with
        | Some r ->
          (* ... and what %f prints for it: the exact binary value rounded half-even to six decimals *)
          let fixed = (match number_value_fixed6 r raw with
              | Some (neg, q) ->
                let million = z_of_int 1000000 in
                let frac = string_of_z (Z.modulo q million) in
                (if neg then "-" else "") ^ string_of_z (Z.div q million) ^ "." ^ String.make (6 - String.length frac) '0' ^ frac
              | None -> "nonfinite") in
          "#" ^ hex64_of_z (number_value_bits r raw) ^ "%" ^ fixed
        | None -> "") in
    Printf.sprintf "q%s/%s%s" (string_of_z q.qnum) (string_of_z (Zpos q.qden)) bits
  | RVText t -> "t" ^ hex_of_bytes t
  | RVEnum (i, n) -> Printf.sprintf "e%s:%s" (string_of_z i) (hex_of_coqstring n)
  | RVFields fs -> "f" ^ fields_string fs

let value_token (v : rvalue) : string = value_token_r None v

(* compare an implementation token with a model token *)
let token_eq (impl : string) (model : string) : bool =
  if String.length model > 0 && model.[0] = 'q' && String.length impl > 0 && impl.[0] = 'q' then begin
    let body = String.sub model 1 (String.length model - 1) in
    let body, bits = (match String.index_opt body '#' with
        | Some i ->
          let b = String.sub body (i + 1) (String.length body - i - 1) in
          let b = (match String.index_opt b '%' with Some j -> String.sub b 0 j | None -> b) in
          String.sub body 0 i, Some b
        | None -> body, None) in
    let implf = (try Some (float_of_string (String.sub impl 1 (String.length impl - 1))) with _ -> None) in
    match String.split_on_char '/' body, implf, bits with
    | [ _; _ ], Some f, Some b ->
      (* bit-exact: Go printed 17 significant digits, which identify the float64 *)
      Printf.sprintf "%016Lx" (Int64.bits_of_float f) = b
    | [ n; d ], Some f, None -> close f (float_of_string n /. float_of_string d)
    | _ -> false
  end else impl = model

let regs_of (rl : reglist) : reg list = rl.l_numbers @ rl.l_texts @ rl.l_enums @ rl.l_fieldlists

let find_reg (rl : reglist) (name : string) : reg option =
  try Some (List.find (fun r -> ostring_of_coq r.r_name = name) (regs_of rl)) with Not_found -> None

let sub_list (rl : reglist) (spec : string) : reglist =
  match spec with
  | "all" -> rl
  | "none" -> { l_numbers = []; l_texts = []; l_enums = []; l_fieldlists = [] }
  | "rev" -> { l_numbers = List.rev rl.l_numbers; l_texts = List.rev rl.l_texts;
               l_enums = List.rev rl.l_enums; l_fieldlists = List.rev rl.l_fieldlists }
  | _ ->
    let names = String.split_on_char ',' spec in
    let pick kind = List.filter_map (fun n ->
        match find_reg rl n with
        | Some r when int_of_z r.r_kind = kind -> Some r
        | _ -> None) names in
    { l_numbers = pick 1; l_texts = pick 2; l_enums = pick 3; l_fieldlists = pick 4 }

let name_of (r : reg) = ostring_of_coq r.r_name

type mstate = { mutable vd : vdstate; mutable api : (z * reglist) option }

(* returns the model's result token for one op *)
let model_op (cf : cfg) (st : mstate) (op : string) : string =
  let f = String.split_on_char '/' op in
  match f with
  | [ "connect" ] ->
    let (r, s') = connect cf st.vd in
    st.vd <- s';
    (match r with
     | Connected (id, rl) ->
       st.api <- Some (id, rl);
       Printf.sprintf "ok:%s:%d/%d/%d/%d:1" (string_of_z id) (List.length rl.l_numbers) (List.length rl.l_texts)
         (List.length rl.l_enums) (List.length rl.l_fieldlists)
     | ConnectFailed e -> err_class e
     | ConnectPanic -> "P")
  | "read" :: name :: idle :: _ ->
    (match st.api with
     | None -> "NOAPI"
     | Some (_, rl) ->
       (match find_reg rl name with
        | None -> "NOREG"
        | Some r ->
          let (res, s') = read_register cf (idle = "i") r st.vd in
          st.vd <- s';
          (match res with
           | Ok v -> value_token_r (Some r) v
           | Err e -> err_class e ^ (match e with EWrap (n, _) when hex_of_bytes n = hex_of_bytes (List.map (fun c -> byte_of_int (Char.code c)) (List.init (String.length name) (String.get name))) -> ":1" | _ -> ":0")
           | Panic -> "P"
           | OutOfFuel -> "F")))
  | [ "stream"; hmask; spec; cancel; variant ] ->
    (match st.api with
     | None -> "NOAPI"
     | Some (_, rl0) ->
       let hm = int_of_string hmask in
       let h = { h_num = hm land 1 <> 0; h_text = hm land 2 <> 0; h_enum = hm land 4 <> 0; h_fl = hm land 8 <> 0 } in
       let h = if variant = "m" then { h_num = true; h_text = true; h_enum = true; h_fl = true } else h in
       let rl = sub_list rl0 spec in
       let ca = if cancel = "-" || cancel.[0] = 'd' then None      (* d<ms>: a deadline that is not reached *)
         else if cancel = "b" then Some O
         else Some (nat_of_int (int_of_string (String.sub cancel 1 (String.length cancel - 1)))) in
       (* a cancellation inside the k-th Write becomes visible after the register being read: same number *)
       let endtok_of e = match e with
         | SDone -> "ok" | SError er -> err_class er | SCancelled -> "Ectxdone" | SPanic -> "P" | SFuel -> "F" in
       if variant = "s" then begin
         let ((e, delivered), s') = stream_register_list cf h rl ca st.vd in
         st.vd <- s';
         let items = List.map (fun (r, v) -> name_of r ^ "=" ^ value_token_r (Some r) v) delivered in
         "S" ^ endtok_of e ^ "|" ^ String.concat "~" items
       end else begin
         (* the map variant is the Coq model read_register_list (Api/Maps.v): four
            association maps with Go's m[k] = v semantics; iteration order is not observable *)
         let ((e, m), s') = read_register_list cf rl ca st.vd in
         st.vd <- s';
         let l = List.concat_map (fun k -> List.map (fun (n, v) -> ostring_of_coq n ^ "=" ^ value_token_r (find_reg rl (ostring_of_coq n)) v) (rv_map k m))
             [KNum; KText; KEnum; KFields] in
         "M" ^ endtok_of e ^ "|" ^ String.concat "~" (List.sort compare l) ^ "|1"
       end)
  | _ -> "BADOP"

(* compare result tokens op by op (stream items one by one) *)
let result_eq (impl : string) (model : string) : bool =
  if impl = model || impl = "SKIPDEADLINE" then true
  else if String.length impl > 1 && String.length model > 1 && impl.[0] = model.[0] && (impl.[0] = 'S' || impl.[0] = 'M') then begin
    match String.split_on_char '|' impl, String.split_on_char '|' model with
    | ie :: ii :: irest, me :: mi :: mrest ->
      ie = me && irest = mrest &&
      (let a = if ii = "" then [] else String.split_on_char '~' ii
       and b = if mi = "" then [] else String.split_on_char '~' mi in
       List.length a = List.length b &&
       List.for_all2 (fun x y ->
           match String.index_opt x '=', String.index_opt y '=' with
           | Some i, Some j ->
             String.sub x 0 i = String.sub y 0 j &&
             token_eq (String.sub x (i + 1) (String.length x - i - 1)) (String.sub y (j + 1) (String.length y - j - 1))
           | _ -> x = y) a b)
    | _ -> false
  end else token_eq impl model

let fails : (string, int) Hashtbl.t = Hashtbl.create 16
let applicable : (string, int) Hashtbl.t = Hashtbl.create 16
let bump t k = Hashtbl.replace t k (1 + (try Hashtbl.find t k with Not_found -> 0))
let report prop id msg =
  bump fails prop;
  if Hashtbl.find fails prop <= 25 then Printf.printf "JUDGE-FAIL %s %s %s\n" prop id msg

let kv_of_line (line : string) : (string * string) list =
  List.filter_map (fun kv -> match String.index_opt kv '=' with
      | Some i -> Some (String.sub kv 0 i, String.sub kv (i + 1) (String.length kv - i - 1))
      | None -> None) (split_ws line)

(* ---- judges on the implementation's observation ---- *)

(* C09: the value the reader must yield for the raw payload the device sent *)
let c09_expected (r : reg) (raw : byte list) : string =
  let k = int_of_z r.r_kind in
  if k = 1 then begin
    let n = if r.r_signed then le_int raw else Some (le_uint raw) in
    match n with
    | Some n -> value_token_r (Some r) (RVNum (number_value r n, n))
    | None -> "Eother:1"
  end else if k = 2 then value_token (RVText (trim_space (strip_nul raw)))
  else if k = 3 then begin
    match new_enum (enum_map_of r.r_factory) (int_of_uint64 (le_uint raw)) with
    | Some (i, n) -> value_token (RVEnum (i, n))
    | None -> "Einvalidenum:1"
  end else begin
    match fl_of r.r_factory with
    | Some f -> value_token (RVFields (fl_fields f.f_map (le_uint raw)))
    | None -> "P"
  end

let judge (c : scase) (ops : string list) (impl_results : string list) (written : string list) (nw : int) (re : int) =
  (* replay the model alongside to know the connected product *)
  let p = { queue = c.stale; reactions = c.react; wfaults = c.wf; ffaults = c.ff; noprog = c.np;
            written = []; nwrites = O; nreads = O; nflushes = O; reads_at_end = O; delivered = [] } in
  let cf = { cfg_debug = (c.cfg land 1 <> 0); cfg_iolog = (c.cfg land 2 <> 0) } in
  let st = { vd = vd_new p; api = None } in
  let dev = (try Some (int_of_string (List.assoc "dev" c.tags)) with Not_found -> None) in
  List.iteri (fun i op ->
      let impl = (try List.nth impl_results i with _ -> "MISSING") in
      let model = model_op cf st op in
      let f = String.split_on_char '/' op in
      (match f with
       | [ "connect" ] ->
         bump applicable "C11";
         (* frames: ping first, then the device id query *)
         (match written with
          | w1 :: rest ->
            if w1 <> "3a3135340a" then report "C11" c.id ("first frame is not a ping: " ^ w1);
            (match rest with
             | w2 :: _ -> if w2 <> "3a3435310a" then report "C11" c.id ("second frame is not the device id query: " ^ w2)
             | [] -> ())
          | [] -> ());
         (* iff: object <-> both answered and id known & supported (from the class spec) *)
         let mode = (try List.assoc "mode" c.tags with Not_found -> "") in
         (match dev, mode with
          | Some id, "answers" ->
            let o = obs_product (z_of_int id) in
            let supported = (match class_of o with ClsUnsupported -> false | _ -> true) in
            let got_obj = String.length impl > 2 && String.sub impl 0 3 = "ok:" in
            if supported && not got_obj then report "C11" c.id (Printf.sprintf "device id %d is a supported product but connecting failed: %s" id impl)
            else if (not supported) && got_obj then report "C11" c.id (Printf.sprintf "device id %d is not a known supported product but an API object was returned" id)
            else if got_obj then begin
              match String.split_on_char ':' impl with
              | [ _; prod; _; eq ] ->
                if int_of_string prod <> id then report "C11" c.id (Printf.sprintf "product %s for device id %d" prod id);
                if eq <> "1" then report "C11" c.id (Printf.sprintf "device id %d: register list differs from the list defined for the product" id)
              | _ -> report "C11" c.id ("unparsable connect result " ^ impl)
            end
          | _, ("silent-ping" | "silent-id" | "malformed-ping" | "malformed-id" | "fault") ->
            if String.length impl > 1 && String.sub impl 0 2 = "ok" then report "C11" c.id ("API object returned although the device did not answer properly: mode " ^ mode)
          | _ -> ());
         if impl = "BOTH" || impl = "NEITHER" then report "C11" c.id ("object and error: " ^ impl)
       | "read" :: name :: _ :: rawhex :: _ ->
         bump applicable "C09";
         (match st.api with
          | Some (_, rl) ->
            (match find_reg rl name with
             | Some r ->
               let exp = c09_expected r (bytes_of_hex rawhex) in
               if not (token_eq impl exp) then
                 report "C09" c.id (Printf.sprintf "register %s raw %s: got %s expected %s" name rawhex impl exp)
             | None -> ())
          | None -> ())
       | "read" :: name :: _ ->
         (* transport / device errors: wrapped with the register name and still matchable;
            the case's "prop" tag says which property the expectation belongs to (C05 or C09) *)
         let prop = (try List.assoc "prop" c.tags with Not_found -> "C09") in
         bump applicable prop;
         let exp = (try List.assoc ("x" ^ string_of_int i) c.tags with Not_found -> "") in
         if exp <> "" && impl <> exp then report prop c.id (Printf.sprintf "register %s: got %s expected %s" name impl exp)
       | [ "stream"; hmask; spec; cancel; variant ] ->
         bump applicable "C10";
         (match st.api with
          | Some (_, rl0) ->
            let hm = if variant = "m" then 15 else int_of_string hmask in
            let rl = sub_list rl0 spec in
            let plan = List.map name_of
                ((if hm land 1 <> 0 then rl.l_numbers else []) @ (if hm land 2 <> 0 then rl.l_texts else []) @
                 (if hm land 4 <> 0 then rl.l_enums else []) @ (if hm land 8 <> 0 then rl.l_fieldlists else [])) in
            (* independent expectation computed by the generator: delivered count and end *)
            let tagi name = (try Some (List.assoc (name ^ string_of_int i) c.tags) with Not_found ->
                if i = 1 then (try Some (List.assoc name c.tags) with Not_found -> None) else None) in
            (match (match tagi "expect_n" with Some v -> Some (int_of_string v) | None -> None), String.split_on_char '|' impl with
             | Some en, e :: items :: _ ->
               let got = if items = "" then [] else List.map (fun x -> List.hd (String.split_on_char '=' x)) (String.split_on_char '~' items) in
               let rec take n l = if n <= 0 then [] else match l with [] -> [] | x :: r -> x :: take (n - 1) r in
               let want = take en plan in
               let want = if variant = "m" then List.sort_uniq compare want else want in
               let got = if variant = "m" then List.sort_uniq compare got else got in
               if got <> want then
                 report "C10" c.id (Printf.sprintf "%d values delivered/held, expected exactly the first %d registers of the plan" (List.length got) en);
               let ende = String.sub e 1 (String.length e - 1) in
               let ee = (match tagi "expect_end" with Some v -> v | None -> "") in
               if (ee = "ok" && ende <> "ok") || (ee = "Ectxdone" && ende <> "Ectxdone") ||
                  (ee = "ERR" && (ende = "ok" || ende = "Ectxdone")) then
                 report "C10" c.id (Printf.sprintf "run ended with %s, expected %s" ende ee)
             | _ -> ());
            (match String.split_on_char '|' impl with
             | e :: items :: _ when variant = "s" ->
               let names = if items = "" then [] else List.map (fun x -> List.hd (String.split_on_char '=' x)) (String.split_on_char '~' items) in
               let rec is_prefix a b = match a, b with [], _ -> true | x :: r, y :: s -> x = y && is_prefix r s | _, [] -> false in
               if not (is_prefix names plan) then report "C10" c.id "handler calls are not a prefix of numbers, texts, enums, field lists in list order";
               let ende = String.sub e 1 (String.length e - 1) in
               if ende = "ok" && names <> plan then report "C10" c.id "run ended without error but not every register was reported";
               let ca = if cancel = "-" || cancel.[0] = 'd' then max_int else if cancel = "b" then 0 else int_of_string (String.sub cancel 1 (String.length cancel - 1)) in
               if List.length names > ca then report "C10" c.id (Printf.sprintf "%d registers reported although the context was cancelled after %d" (List.length names) ca);
               if ende = "Ectxdone" && cancel = "-" then report "C10" c.id "ErrCtxDone without cancellation";
               if cancel <> "-" && ca < List.length plan && ende = "ok" then report "C10" c.id "registers remained after cancellation but no ErrCtxDone"
             | _ -> ())
          | None -> ())
       | _ -> ());
      (* C09 on streamed values: a value reported under a register's name must be what the
         model (= decode_register of the raw value the device sent in THIS run) yields *)
      (match f with
       | [ "stream"; _; _; _; _ ] when impl <> "SKIPDEADLINE" ->
         (match String.split_on_char '|' impl, String.split_on_char '|' model with
          | _ :: ii :: _, _ :: mi :: _ ->
            let items x = if x = "" then [] else List.filter_map (fun kv -> match String.index_opt kv '=' with
                | Some j -> Some (String.sub kv 0 j, String.sub kv (j + 1) (String.length kv - j - 1)) | None -> None)
                (String.split_on_char '~' x) in
            let mit = items mi in
            List.iter (fun (n, v) ->
                match List.assoc_opt n mit with
                | Some mv when not (token_eq v mv) ->
                  report "C09" c.id (Printf.sprintf "op %d: register %s reported as %s, the device's answer in this run decodes to %s" i n v mv)
                | _ -> ()) (items ii)
          | _ -> ())
       | _ -> ());
      if not (result_eq impl model) then begin
        bump fails "MISMATCH";
        if Hashtbl.find fails "MISMATCH" <= 20 then Printf.printf "MISMATCH %s op=%d %s impl=%s model=%s\n" c.id i op impl model
      end) ops;
  (* model frames vs implementation frames *)
  let mw = List.map hex_of_bytes st.vd.pt.written in
  if mw <> written then begin
    bump fails "MISMATCH";
    if Hashtbl.find fails "MISMATCH" <= 20 then Printf.printf "MISMATCH %s frames impl=%s model=%s\n" c.id (String.concat "," written) (String.concat "," mw)
  end;
  (* independent expectation on the number of command frames (C05: one frame per failing read) *)
  (match (try Some (int_of_string (List.assoc "frames" c.tags)) with Not_found -> None) with
   | Some n when n <> List.length written ->
     report (try List.assoc "prop" c.tags with Not_found -> "C09") c.id
       (Printf.sprintf "%d command frames written, expected %d (a device-reported error must not be retried)" (List.length written) n)
   | _ -> ());
  if List.mem "P" impl_results then report "C06" c.id "panic in a register-API call";
  if List.mem "H" impl_results then report "C06" c.id "register-API call hangs (unbounded reads)";
  ignore nw; ignore re

let run (casefile : string) (obsfile : string) =
  let ic = open_in casefile and io = open_in obsfile in
  let n = ref 0 in
  (try
     while true do
       let line = input_line ic in
       if line <> "" && line.[0] <> '#' then begin
         let ol = input_line io in
         let c = parse_case line in
         let kv = kv_of_line ol in
         let get k = (try List.assoc k kv with Not_found -> "") in
         let impl_results = String.split_on_char ';' (get "R") in
         let written = if get "W" = "-" || get "W" = "" then [] else String.split_on_char ',' (get "W") in
         incr n;
         judge c (tag_ops c) impl_results written (int_of_string (get "nw")) (int_of_string (get "re"))
       end
     done
   with End_of_file -> ());
  List.iter (fun p ->
      Printf.printf "JUDGE-SUMMARY %s applicable=%d failures=%d\n" p
        (try Hashtbl.find applicable p with Not_found -> 0)
        (try Hashtbl.find fails p with Not_found -> 0))
    [ "C05"; "C06"; "C09"; "C10"; "C11"; "MISMATCH" ];
  Printf.printf "JUDGE-CASES %d\n" !n

(* print the model's result tokens for API cases (used by the CLI check) *)
let run_model_only (casefile : string) =
  let ic = open_in casefile in
  (try
     while true do
       let line = input_line ic in
       if line <> "" && line.[0] <> '#' then begin
         let c = parse_case line in
         let p = { queue = c.stale; reactions = c.react; wfaults = c.wf; ffaults = c.ff; noprog = c.np;
                   written = []; nwrites = O; nreads = O; nflushes = O; reads_at_end = O; delivered = [] } in
         let cf = { cfg_debug = (c.cfg land 1 <> 0); cfg_iolog = (c.cfg land 2 <> 0) } in
         let st = { vd = vd_new p; api = None } in
         let rs = List.map (model_op cf st) (tag_ops c) in
         Printf.printf "%s R=%s W=%s\n" c.id (String.concat ";" rs) (String.concat "," (List.map hex_of_bytes st.vd.pt.written))
       end
     done
   with End_of_file -> ())
