(* C16: register list histories: model vs implementation, plus direct judges. *)
open Gvcore
open Util

let fp (r : reg) : string =
  Printf.sprintf "%d.%s.%d.%d" (int_of_z r.r_kind) (ostring_of_coq r.r_name) (int_of_z r.r_addr) (int_of_z r.r_sort)

let alpha_n = obs_family_bmv.l_numbers @ obs_family_solar.l_numbers @ obs_family_inverter.l_numbers
let alpha_t = obs_family_bmv.l_texts @ obs_family_solar.l_texts @ obs_family_inverter.l_texts
let alpha_e = obs_family_bmv.l_enums @ obs_family_solar.l_enums @ obs_family_inverter.l_enums
let alpha_f = obs_family_bmv.l_fieldlists @ obs_family_solar.l_fieldlists @ obs_family_inverter.l_fieldlists

let idx_list s = if s = "" then [] else List.map int_of_string (String.split_on_char ',' s)
let names s = if s = "" then [] else List.map coq_of_ostring (String.split_on_char ',' s)

let parse_pred (spec : string) : rpred =
  let k, arg = match String.index_opt spec ':' with
    | Some i -> String.sub spec 0 i, String.sub spec (i + 1) (String.length spec - i - 1)
    | None -> spec, "" in
  match k with
  | "namein" -> PNameIn (names arg)
  | "namenotin" -> PNameNotIn (names arg)
  | "even" -> PAddrEven
  | "odd" -> PAddrOdd
  | "kind" -> PKind (z_of_int (int_of_string arg))
  | "sortbelow" -> PSortBelow (z_of_int (int_of_string arg))
  | "static" -> PStatic
  | "writable" -> PWritable
  | "true" -> PTrue
  | _ -> PFalse

let parse_op (op : string) : rlop =
  let k, arg = match String.index_opt op ':' with
    | Some i -> String.sub op 0 i, String.sub op (i + 1) (String.length op - i - 1)
    | None -> op, "" in
  match k with
  | "aN" -> OAppendNumbers (List.map (List.nth alpha_n) (idx_list arg))
  | "aT" -> OAppendTexts (List.map (List.nth alpha_t) (idx_list arg))
  | "aE" -> OAppendEnums (List.map (List.nth alpha_e) (idx_list arg))
  | "aF" -> OAppendFieldLists (List.map (List.nth alpha_f) (idx_list arg))
  | "fp" -> OFilter (parse_pred arg)
  | "g" -> OFilter PTrue                       (* observation point: no effect on the list *)
  | _ -> OFilterByName (names arg)

let join l = if l = [] then "-" else String.concat "," (List.map fp l)

let run (casefile : string) (obsfile : string) =
  let ic = open_in casefile and io = open_in obsfile in
  let n = ref 0 and mism = ref 0 and bad = ref 0 and nontrivial = ref 0 in
  (try
     while true do
       let line = input_line ic in
       if line <> "" && line.[0] <> '#' then begin
         let ol = input_line io in
         incr n;
         match split_ws line with
         | id :: opsf :: _ ->
           let opss = String.sub opsf 4 (String.length opsf - 4) in
           let ops = if opss = "" then [] else List.map parse_op (String.split_on_char ';' opss) in
           let lens = ref [] and mids = ref [] in
           let opnames = if opss = "" then [] else String.split_on_char ';' opss in
           let rl = List.fold_left2 (fun rl o name ->
               let r = rl_step rl o in
               lens := string_of_int (int_of_nat (rl_len r)) :: !lens;
               if name = "g" then mids := String.concat "," (List.map fp (rl_get_registers r)) :: !mids;
               r) rl_empty ops opnames in
           let g = rl_get_registers rl in
           if g <> [] then incr nontrivial;
           let model = Printf.sprintf "%s len=%s N=%s T=%s E=%s F=%s M=%s G=%s" id
               (if !lens = [] then "-" else String.concat "," (List.rev !lens))
               (join rl.l_numbers) (join rl.l_texts) (join rl.l_enums) (join rl.l_fieldlists)
               (if !mids = [] then "-" else String.concat "|" (List.rev !mids)) (join g) in
           if model <> ol then begin
             incr mism; if !mism <= 10 then Printf.printf "MISMATCH %s\n  impl =%s\n  model=%s\n" line ol model end;
           (* direct judge on the implementation's combined view: ascending, stable, same multiset *)
           (match List.filter (fun kv -> String.length kv > 2 && String.sub kv 0 2 = "G=") (split_ws ol) with
            | [ gkv ] ->
              let gl = if gkv = "G=-" then [] else String.split_on_char ',' (String.sub gkv 2 (String.length gkv - 2)) in
              let key s = int_of_string (List.nth (String.split_on_char '.' s) 3) in
              let rec asc = function a :: (b :: _ as r) -> key a <= key b && asc r | _ -> true in
              let all = List.map fp (rl.l_numbers @ rl.l_texts @ rl.l_enums @ rl.l_fieldlists) in
              let stable = List.for_all (fun k -> List.filter (fun s -> key s = k) gl = List.filter (fun s -> key s = k) all)
                  (List.sort_uniq compare (List.map key all)) in
              if not (asc gl && stable && List.length gl = List.length all) then begin
                incr bad; if !bad <= 10 then Printf.printf "JUDGE-FAIL C16 %s combined view is not the stable ascending sort of all elements\n" id end
            | _ -> if ol <> "" then begin incr bad; if !bad <= 10 then Printf.printf "JUDGE-FAIL C16 %s %s\n" id ol end)
         | _ -> ()
       end
     done
   with End_of_file -> ());
  Printf.printf "SUMMARY cases=%d nontrivial=%d mismatches=%d judge_failures=%d\n" !n !nontrivial !mism !bad
