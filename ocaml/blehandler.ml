(* C19: the advertisement handler and the device lookup: model vs implementation. *)
open Gvcore
open Util
open Ble

let kv_of (toks : string list) : (string * string) list =
  List.filter_map (fun kv -> match String.index_opt kv '=' with
      | Some i -> Some (String.sub kv 0 i, String.sub kv (i + 1) (String.length kv - i - 1))
      | None -> None) toks

let dec s = if s = "-" then [] else bytes_of_hex s

let run (casefile : string) (obsfile : string) =
  let ic = open_in casefile and io = open_in obsfile in
  let n = ref 0 and mism = ref 0 and bad = ref 0 and distinct = Hashtbl.create 1000 in
  let fail kind line msg =
    if kind = "MISMATCH" then begin incr mism; if !mism <= 15 then Printf.printf "MISMATCH %s :: %s\n" (String.sub line 0 (min 300 (String.length line))) msg end
    else begin incr bad; if !bad <= 15 then Printf.printf "JUDGE-FAIL C19 %s :: %s\n" (String.sub line 0 (min 300 (String.length line))) msg end in
  (try
     while true do
       let cl = input_line ic in
       if cl <> "" then begin
         let ol = input_line io in
         incr n;
         Hashtbl.replace distinct cl ();
         match split_ws cl, split_ws ol with
         | "m" :: _ :: ckv, [ "m"; _; res ] ->
           let kv = kv_of ckv in
           let addr = dec (List.assoc "addr" kv) in
           let macs = List.map dec (String.split_on_char ',' (List.assoc "macs" kv)) in
           let model = (match get_device_config macs addr with Some i -> "dev" ^ string_of_int (int_of_nat i) | None -> "none") in
           if res = "P" then fail "JUDGE" ol "device lookup panicked"
           else if res <> model then fail "MISMATCH" ol ("model=" ^ model);
           (* judge for well-formed addresses: matched iff the colon-separated hex address equals a configured MAC (first one) *)
           (match (try Some (List.assoc "wf" kv) with Not_found -> None) with
            | Some exp -> if res <> exp then fail "JUDGE" ol ("expected " ^ exp)
            | None -> ())
         | "h" :: _ :: _, "h" :: _ :: okv ->
           let kv = kv_of okv in
           let get k = List.assoc k kv in
           let key = dec (get "key") and raw = dec (get "raw") in
           let oracle = if get "E" = "-" then [] else
               List.map (fun p -> match String.split_on_char ':' p with [ c; k ] -> (c, bytes_of_hex k) | _ -> failwith "oracle") (String.split_on_char ',' (get "E")) in
           (* the block cipher is the Coq AES model (Ble/Aes.v, FIPS-197) under the case's key; the
              harness's table of crypto/aes outputs for the counter blocks is only cross-checked *)
           let missed = ref false in
           let e (c : byte list) : byte list = aes_encrypt key c in
           List.iter (fun (c, k) ->
               if hex_of_bytes (aes_encrypt key (bytes_of_hex c)) <> hex_of_bytes k then
                 fail "JUDGE" ol ("crypto/aes output for counter block " ^ c ^ " differs from FIPS-197 AES")) oracle;
           let outcome = get "out" in
           if outcome = "P" then fail "JUDGE" ol "advertisement handling panicked";
           if get "mutated" = "1" then fail "JUDGE" ol "the handler modified the caller's manufacturer data";
           let h = handle e (nat_of_int (List.length key)) raw in
           let plain_tok p = if p = [] then "-" else hex_of_bytes p in
           (match h with
            | HIgnored -> if outcome <> "ignored" then fail "MISMATCH" ol "model=ignored";
              if List.length raw >= 9 then fail "JUDGE" ol "payload with header and data was ignored"
            | HBadKey -> if outcome <> "badkey" then fail "MISMATCH" ol "model=badkey"
            | HPlain p ->
              if outcome <> "plain" || get "plain" <> plain_tok p then fail "MISMATCH" ol ("model plain=" ^ plain_tok p);
              if get "logrec" <> "none" then fail "JUDGE" ol "a record of a type other than 0x01 was decoded"
            | HSolar (p, r) ->
              if outcome <> "plain" || get "plain" <> plain_tok p then fail "MISMATCH" ol ("model plain=" ^ plain_tok p)
              else begin
                (* a type 0x01 record is decoded exactly as the solar charger decoder decodes that plaintext *)
                let lr = get "logrec" in
                if lr <> "rec" && lr <> "err" then fail "JUDGE" ol ("type 0x01: logged record does not match the solar charger decoder on the plaintext: " ^ lr);
                let rec_tok = get "rec" in
                let ok = (match r with
                    | MFault -> false
                    | MOk (rr, GNil) -> String.length rec_tok > 3 && fields_match (String.sub rec_tok 3 (String.length rec_tok - 3)) (fields_SolarChargerRecord rr)
                    | MOk (_, e) -> rec_tok = gerr_class e) in
                if not ok then fail "MISMATCH" ol "translated solar charger decoder differs on the plaintext"
              end);
           if !missed then fail "MISMATCH" ol "the model asked the AES oracle for a counter block the harness did not provide";
           (* independent judge: first |enc| plaintext bytes = enc xor keystream of the counter blocks; padding shape *)
           if outcome = "plain" && oracle = [] then
             fail "JUDGE" ol "the payload was decrypted although the key is not a valid AES key / the payload holds no data"
           else if outcome = "plain" then begin
             let enc = List.filteri (fun i _ -> i >= 8) raw in
             let ks = List.concat (List.map snd oracle) in
             let refp = List.mapi (fun i b -> byte_of_int ((int_of_byte b) lxor (int_of_byte (List.nth ks i)))) enc in
             let plain = dec (get "plain") in
             if List.filteri (fun i _ -> i < List.length enc) plain <> refp then fail "JUDGE" ol "plaintext is not the AES-CTR decryption of bytes 8.. under the nonce of bytes 5..6";
             let padded = dec (get "padded") in
             if List.length plain > List.length padded then
               fail "JUDGE" ol (Printf.sprintf "the record plaintext has %d bytes, more than the %d (padded) bytes of this payload: it holds bytes that are no decryption of it"
                                  (List.length plain) (List.length padded));
             let padn = List.length padded - List.length enc in
             if not (padn >= 1 && padn <= 16 && List.length padded mod 16 = 0 &&
                     List.filteri (fun i _ -> i < List.length enc) padded = enc &&
                     List.for_all (fun b -> int_of_byte b = padn) (List.filteri (fun i _ -> i >= List.length enc) padded)) then
               fail "JUDGE" ol "padding is not 1..16 bytes each equal to the pad length up to a multiple of 16"
           end
         | _ -> fail "MISMATCH" ol "unparsable"
       end
     done
   with End_of_file -> ());
  Printf.printf "SUMMARY cases=%d distinct=%d mismatches=%d judge_failures=%d\n" !n (Hashtbl.length distinct) !mism !bad
