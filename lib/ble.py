"""Shared pipeline of C07 and C08."""
import os, re
from lib import common, gen, blecases
from lib.common import Broken

_cache = {}


def run(tier, seed):
    key = (tier, seed)
    if key in _cache:
        return _cache[key]
    lines = blecases.generate(tier, seed, None)
    cf = os.path.join(common.BUILD, "blecases.txt")
    ob = os.path.join(common.BUILD, "bleimpl.obs")
    open(cf, "w").write("\n".join(lines) + "\n")
    rc, out = common.sh("timeout 1800 %s ble %s > %s" % (common.GVRUN, cf, ob))
    if rc != 0:
        raise Broken("gvrun ble failed", out[-2000:])
    # every 7th (quick) / 19th (thorough) case is also run through the binary64 reading of the translated text
    rc, out = common.sh("timeout 3000 %s ble %d < %s" % (common.GVMODEL, 7 if tier == "quick" else 19, ob))
    m = re.search(r"SUMMARY cases=(\d+) distinct=(\d+) mismatches=(\d+) c07_failures=(\d+) c08_failures=(\d+) binary64_compared=(\d+)", out)
    if rc != 0 or not m:
        raise Broken("gvmodel ble failed", out[-2000:])
    r = dict(lines=lines, out=out, cases=int(m.group(1)), distinct=int(m.group(2)), mism=int(m.group(3)),
             bad7=int(m.group(4)), bad8=int(m.group(5)), nf=int(m.group(6)))
    _cache[key] = r
    return r


def standard(res, args, pid, theorems, note):
    common.build_harness()
    gen.regenerate_all()
    if gen.BLE_BROKEN is not None:
        # the tie T-gen is broken: the theorems no longer speak about the current code.  Keep going with the
        # previous translation so that the implementation can still be judged against the layout specification.
        res.broken.append(gen.BLE_BROKEN)
    common.coq_make()
    ok = common.standard_proof_cov(res, pid, theorems, extra_obligations=13, extra_discharged=0)
    # the 13 per-decoder refinement theorems are obligations generated for this run
    done = sum(1 for n in blecases.DECODER_OF if os.path.exists(os.path.join(common.COQ, "Ble", "Refine_%s.vo" % n))
               and os.path.getmtime(os.path.join(common.COQ, "Ble", "Refine_%s.vo" % n)) >= os.path.getmtime(os.path.join(common.GEN, "BleImpl.vo")))
    if ok:
        res.cov["discharged"] = res.cov["obligations"] - 13 + done
        if done != 13:
            res.broken.append(Broken("%d of 13 refinement theorems are not up to date" % (13 - done)))
        res.cov["trusted_base"].append("T-gen translator harness/cmd/gvgen (GoLite -> Gallina, integer typing from go/types) and coq/Ble/GoSem.v; cross-checked on every run by running the translated decoders against the real ones")
    common.build_ocaml()
    r = run(res.tier, res.seed)
    lines = r["lines"]
    res.cov.update(evaluations=r["cases"], distinct_nontrivial=r["distinct"],
                   rule="13 decoders: every raw value of every field (exhaustive up to %d bits, boundary/one-hot/random beyond) in three contexts of "
                        "the remaining bits (all-zero, all-one, random), all 256 values of every enumerated byte, all lengths 0..64 x {zero, ones, "
                        "random} x {cap == len, spare capacity poisoned with 0xA5 / 0xFF}, complete records with six kinds of suffix; every "
                        "result is compared with the translated decoder (translator validation; every 7th/19th case also bit for bit with the same "
                        "translated text read in IEEE-754 binary64, Gen/BleImplF.v) and judged by spec_decode of the layout. %s"
                        % (12 if res.tier == "quick" else 16, note),
                   samples=lines[:: max(1, len(lines) // 6)][:6], disagreements_checked=r["mism"],
                   judge_failures=r["bad7"] if pid == "C07" else r["bad8"], binary64_compared=r["nf"])
    for l in r["out"].splitlines():
        if l.startswith("JUDGE-FAIL %s " % pid):
            f = l.split()
            res.add_violation("%s on input %s (cap mode %s): implementation %s, layout specification %s" % (f[2], f[3], f[4], f[5], f[-1][:200]),
                              key="%s:%s" % (pid, f[2]), input={"decoder": f[2], "input_hex": f[3], "cap_mode": f[4]}, observed=f[5], expected=f[-1])
    if r["mism"] and not res.violations and gen.BLE_BROKEN is None:
        first = [l for l in r["out"].splitlines() if l.startswith("MISMATCH")][:3]
        res.broken.append(Broken("translator validation: %d results of the real decoders differ from the translated decoders" % r["mism"], "\n".join(first)))
    return r
