"""Generation of scripted-port cases (one text line per case).

Line format (tokens separated by one space):
  <id> cls=<class> cfg=<0..3> np=<0|1> stale=<events> wf=<bits|-> ff=<bits|-> re=<events>|<events>|... calls=<call>;<call>...
  events: comma separated  d<hex> (data) | e (EOF / read timeout) | x (read error) | z (empty read);  '-' = none
  call:   <kind>/<addr>/<idle>[/<expect>]   kind: ping devid raw uint int str cmd<N>
          idle: n (natural: first call of a fresh instance = idle) | i (forced idle) | b (forced busy)
          expect: n<decimal> | h<hex> | ok | E<class> | ERR (any error)   -- what a conforming exchange must yield
"""
import itertools

MASK = (1 << 64) - 1


class Rng:
    """splitmix64; every random choice of a run derives from one seed."""

    def __init__(self, seed):
        self.s = seed & MASK

    def next(self):
        self.s = (self.s + 0x9E3779B97F4A7C15) & MASK
        z = self.s
        z = ((z ^ (z >> 30)) * 0xBF58476D1CE4E5B9) & MASK
        z = ((z ^ (z >> 27)) * 0x94D049BB133111EB) & MASK
        return z ^ (z >> 31)

    def below(self, n):
        return self.next() % n

    def choice(self, l):
        return l[self.below(len(l))]

    def bytes(self, n):
        return [self.below(256) for _ in range(n)]

    def chance(self, num, den):
        return self.below(den) < num


# ---------------------------------------------------------------- frames (generator side)

def chk(cmd, data):
    return (0x55 - cmd - sum(data)) & 0xFF


def hexs(bs, lower=False):
    s = "".join("%02X" % b for b in bs)
    return s.lower() if lower else s


def frame(resp, payload, lower=False, bad_chk=0):
    c = (chk(resp, payload) + bad_chk) & 0xFF
    return (":%X" % resp + hexs(list(payload) + [c], lower) + "\n").encode("latin1")


def get_resp(addr, value, flag=0, lower=False, bad_chk=0):
    return frame(7, [addr & 0xFF, addr >> 8, flag] + list(value), lower, bad_chk)


def done_resp(payload, lower=False):
    return frame(1, payload, lower)


def ping_resp():
    return frame(5, [0x16, 0x41])  # typical ping answer: app version


def async_frame(rng):
    return frame(0xA, [rng.below(256), 0xED, 0x00] + rng.bytes(rng.below(4) + 1))


NOISE_ALPHABET = [c for c in range(32, 127) if c != ord(":")] + [9, 13, 10, 0x80, 0xFF, 0]


def noise(rng, n=None):
    n = rng.below(40) + 1 if n is None else n
    return bytes(rng.choice(NOISE_ALPHABET) for _ in range(n))


def text_protocol_noise(rng):
    fields = [b"PID\t0xA053", b"V\t12800", b"I\t-150", b"SOC\t876", b"Checksum\t)", b"H1\t-32112"]
    return b"".join(b"\r\n" + rng.choice(fields) for _ in range(rng.below(4) + 1)) + b"\r\n"


def le(n, w):
    return [(n >> (8 * i)) & 0xFF for i in range(w)]


# ---------------------------------------------------------------- case building

def ev_data(b):
    return "d" + bytes(b).hex() if len(b) else None


def events(lst):
    toks = [t for t in lst if t]
    return ",".join(toks) if toks else "-"


def chunked(rng, data, maxparts=4):
    """split data into up to maxparts RData events at random cut points"""
    data = bytes(data)
    if len(data) < 2 or maxparts < 2 or rng.chance(1, 3):
        return [ev_data(data)]
    k = rng.below(min(maxparts, len(data)) - 1) + 1
    cuts = sorted(set(rng.below(len(data) - 1) + 1 for _ in range(k)))
    parts, prev = [], 0
    for c in cuts + [len(data)]:
        parts.append(data[prev:c])
        prev = c
    return [ev_data(p) for p in parts]


class Case:
    n = 0

    def __init__(self, cls, calls, react=(), stale=(), cfg=0, np=0, wf="-", ff="-", tags=None):
        Case.n += 1
        self.id = "k%d" % Case.n
        self.cls, self.calls, self.react, self.stale = cls, calls, list(react), list(stale)
        self.cfg, self.np, self.wf, self.ff, self.tags = cfg, np, wf, ff, tags or {}

    def line(self):
        re_ = "|".join(events(r) for r in self.react) if self.react else "-"
        t = "".join(" %s=%s" % kv for kv in sorted(self.tags.items()))
        return "%s cls=%s cfg=%d np=%d stale=%s wf=%s ff=%s re=%s calls=%s%s" % (
            self.id, self.cls, self.cfg, self.np, events(self.stale), self.wf, self.ff, re_,
            ";".join(self.calls), t)


def call(kind, addr=0, idle="n", expect=None):
    s = "%s/%d/%s" % (kind, addr, idle)
    return s + ("/" + expect if expect else "")


BOUNDARY_ADDRS = [0x0000, 0x0001, 0x00FF, 0x0100, 0x0040, 0x0140, 0xED52, 0xEDF0, 0x7FFF, 0x8000, 0xFFFE, 0xFFFF,
                  0x0A0D, 0x3A3A, 0x413A, 0x0A41]


def rand_addr(rng):
    return rng.choice(BOUNDARY_ADDRS) if rng.chance(1, 4) else rng.below(65536)


def expect_for(kind, value):
    """what a conforming exchange must return for payload bytes [value]"""
    if kind == "raw":
        return "h" + bytes(value).hex()
    if kind == "uint":
        return "n%d" % int.from_bytes(bytes(value[:8]), "little")
    if kind == "int":
        if len(value) in (1, 2, 4, 8):
            return "n%d" % int.from_bytes(bytes(value), "little", signed=True)
        return "ERR"
    if kind == "str":
        v = bytes(value)
        while v.endswith(b"\x00"):
            v = v[:-1]
        return "h" + v.hex()
    raise ValueError(kind)


KINDS = ["raw", "uint", "int", "str"]


# ---------------------------------------------------------------- classes

def gen_valid(rng, n):
    """good frame at attempt 1 behind optional noise/async prefix, random chunking, both hex cases"""
    out = []
    for _ in range(n):
        kind = rng.choice(KINDS)
        addr = rand_addr(rng)
        w = rng.choice([1, 2, 4, 8]) if kind in ("uint", "int") else rng.below(17)
        value = rng.bytes(w)
        if kind == "str" and rng.chance(1, 2):
            value = value + [0] * rng.below(4)
        pre = b""
        if rng.chance(1, 3):
            pre += text_protocol_noise(rng)
        if rng.chance(1, 3):
            pre += b"".join(async_frame(rng) for _ in range(rng.below(3) + 1))
        data = pre + get_resp(addr, value, lower=rng.chance(1, 4))
        out.append(Case("valid", [call(kind, addr, "n", expect_for(kind, value))],
                        react=[chunked(rng, data)], cfg=rng.below(4)))
    for _ in range(max(4, n // 8)):
        out.append(Case("valid-ping", [call("ping", 0, "n", "ok")], react=[chunked(rng, ping_resp())], cfg=rng.below(4)))
        did = rng.below(65536)
        out.append(Case("valid-devid", [call("devid", 0, "n", "n%d" % did)],
                        react=[chunked(rng, done_resp(le(did, 2) + rng.choice([[], [0xFF], [0, 0]])))], cfg=rng.below(4)))
    return out


# hex digits of both cases, protocol characters, and the characters next to the three hex ranges ('/' ':' '@' 'G' '`' 'g'):
# a hand-written nibble decoder goes wrong exactly there
SUBST_CHARS = [ord(c) for c in "0123456789ABCDEFabcdef"] + [ord(":"), 10, ord("A"), ord("G"), ord(" "), 0, 0xFF, ord("x"),
                                                            ord("/"), ord("@"), ord("`"), ord("g"), 13, 9]


def mutations_of(f):
    """every single-character substitution / deletion / insertion, truncation at every length"""
    f = bytes(f)
    for i in range(len(f)):
        for c in SUBST_CHARS:
            if c != f[i]:
                yield "subst", f[:i] + bytes([c]) + f[i + 1:]
        yield "delete", f[:i] + f[i + 1:]
    for i in range(len(f) + 1):
        for c in [ord("0"), ord("F"), ord("a"), ord(":"), 10, ord("A"), 13, ord(" "), 0]:
            yield "insert", f[:i] + bytes([c]) + f[i:]
    for i in range(len(f)):
        yield "trunc", f[:i]


def gen_mutations(rng, bases, attempts=(1,), per_base=None):
    """C01: corrupted frames as the answer to attempt k (other attempts silent)"""
    out = []
    for (kind, addr, value) in bases:
        good = get_resp(addr, value) if kind != "devid" else done_resp(value)
        muts = list(mutations_of(good))
        if per_base is not None and len(muts) > per_base:
            idx = sorted(set(rng.below(len(muts)) for _ in range(per_base)))
            muts = [muts[i] for i in idx]
        for (mk, m) in muts:
            k = rng.choice(list(attempts))
            react = [[] for _ in range(k - 1)] + [chunked(rng, m, 3)]
            out.append(Case("mut-" + mk, [call(kind, addr, "n")], react=react, cfg=rng.below(4)))
    return out


def gen_wrong(rng, n):
    """C01: wrong response type, wrong address, every flag, multi-character corruption, splices"""
    out = []
    for _ in range(n):
        kind = rng.choice(KINDS)
        addr = rand_addr(rng)
        value = rng.bytes(rng.choice([1, 2, 4]))
        sel = rng.below(6)
        if sel == 0:   # every response nibble with a correct check byte for that nibble
            resp = rng.below(16)
            data = frame(resp, [addr & 0xFF, addr >> 8, 0] + value)
            cls = "wrong-type"
        elif sel == 1:  # foreign address: one bit flipped / bytes swapped / random
            a2 = rng.choice([addr ^ (1 << rng.below(16)), ((addr & 0xFF) << 8) | (addr >> 8), rng.below(65536)])
            data = get_resp(a2, value)
            cls = "wrong-addr"
        elif sel == 2:  # any flag byte
            data = get_resp(addr, value, flag=rng.below(256))
            cls = "flag"
        elif sel == 3:  # multi-character corruption
            g = bytearray(get_resp(addr, value))
            for _ in range(rng.below(4) + 2):
                g[rng.below(len(g))] = rng.choice(SUBST_CHARS)
            data = bytes(g)
            cls = "multi-corrupt"
        elif sel == 4:  # splice of two valid frames at random cut points
            g1, g2 = get_resp(addr, value), get_resp(rand_addr(rng), rng.bytes(2))
            data = g1[:rng.below(len(g1))] + g2[rng.below(len(g2)):]
            cls = "splice"
        else:           # bad check byte
            data = get_resp(addr, value, bad_chk=rng.below(255) + 1)
            cls = "bad-chk"
        k = rng.below(8) + 1
        react = [[] for _ in range(k - 1)] + [chunked(rng, data, 3)]
        # a frame for another register is never this register's value: the read fails (C02: no guess)
        exp = "ERR" if cls == "wrong-addr" and a2 != addr else None
        out.append(Case(cls, [call(kind, addr, "n", exp)], react=react, cfg=rng.below(4)))
    return out


def gen_headless(rng, n):
    """C01: a frame cut after ':' and a few body bytes (read timeout), then a line WITHOUT ':' that would be a valid
    body for the request: no complete frame was ever received, nothing may be accepted.  Within one call (the retries
    follow immediately) and across two calls on one object."""
    out = []
    for i in range(n):
        kind = rng.choice(KINDS + ["devid"])
        addr = rand_addr(rng) if kind != "devid" else 0
        value = rng.bytes(rng.choice([1, 2, 4]))
        good = get_resp(addr, value) if kind != "devid" else done_resp(le(0xA056, 2))
        cut = 1 + rng.below(len(good) - 2)              # ':' plus at least ... bytes, never the whole frame
        head, body = good[:cut], good[1:]               # body: everything after ':' incl. the newline
        tail_variants = [body, good[cut:], body[:-1] + b"\r\n"]
        tail = tail_variants[i % 3]
        if i % 2 == 0:   # one call: attempt 1 sees the head and a timeout, attempt 2 the colon-less line, then silence
            react = [[ev_data(head), "e"], [ev_data(tail)]] + [[] for _ in range(6)]
            out.append(Case("headless", [call(kind, addr, "n")], react=react, cfg=rng.below(4)))
        else:            # two calls on one object, the second one right after the first (busy line)
            k1 = "ping" if rng.chance(1, 3) else kind
            if k1 == "ping":
                react = [[ev_data(head), "e"], [ev_data(tail)]] + [[] for _ in range(7)]
            elif kind == "devid":
                react = [[ev_data(head), "e"], [ev_data(tail)]] + [[] for _ in range(7)]
            else:
                react = [[ev_data(head), "e"]] + [[] for _ in range(7)] + [[ev_data(tail)]] + [[] for _ in range(7)]
            out.append(Case("headless-2calls", [call(k1, addr, "n"), call(kind, addr, "b")], react=react, cfg=rng.below(4)))
    return out


def gen_flags_all(rng):
    """every flag byte 0x00..0xFF for one exchange per accessor (C01 flag 0; C05 flags 1,2,4)"""
    out = []
    for flag in range(256):
        kind = KINDS[flag % 4]
        addr = rand_addr(rng)
        value = rng.bytes(rng.choice([0, 1, 2, 4]))
        exp = {1: "Eunknownid", 2: "Enotsupported", 4: "Eparameter"}.get(flag)
        if flag == 0:
            exp = expect_for(kind, value)
        elif exp is None:
            exp = "ERR"
        out.append(Case("flag-all", [call(kind, addr, "n", exp)], react=[chunked(rng, get_resp(addr, value, flag=flag))],
                        cfg=rng.below(4), tags={"frames": "1"}))
    return out


def gen_c05(rng, n):
    out = []
    # the error frame arrives on a later attempt, after discarded responses (foreign address, bad check byte, noise, silence)
    for _ in range(n * 2):
        for flag, exp in ((1, "Eunknownid"), (2, "Enotsupported"), (4, "Eparameter")):
            kind = rng.choice(KINDS)
            addr = rand_addr(rng)
            k = rng.below(7) + 1
            react = []
            for _ in range(k):
                sym = rng.choice(["foreign", "badchk", "noise", "silence", "short", "badhex"])
                react.append(chunked(rng, reaction(rng, sym, addr, [1, 2]), 2))
            react.append(chunked(rng, get_resp(addr, rng.bytes(rng.below(3)), flag=flag)))
            out.append(Case("deverr-late", [call(kind, addr, rng.choice("nib"), exp)], react=react, cfg=rng.below(4)))
    for _ in range(n):
        for flag, exp in ((1, "Eunknownid"), (2, "Enotsupported"), (4, "Eparameter")):
            for kind in KINDS:
                addr = rand_addr(rng)
                trailing = rng.bytes(rng.below(9))
                pre = b"".join(async_frame(rng) for _ in range(rng.below(2)))
                out.append(Case("deverr", [call(kind, addr, rng.choice("nib"), exp)],
                                react=[chunked(rng, pre + get_resp(addr, trailing, flag=flag))],
                                cfg=rng.below(4), tags={"frames": "1"}))
    return out


# C04 reaction alphabet
def reaction(rng, sym, addr, value):
    if sym == "silence":
        return b""
    if sym == "noise":
        return noise(rng) if rng.chance(1, 2) else text_protocol_noise(rng)
    if sym == "async":
        return b"".join(async_frame(rng) for _ in range(rng.below(3) + 1))
    if sym == "badchk":
        return get_resp(addr, value, bad_chk=rng.below(255) + 1)
    if sym == "badhex":
        g = bytearray(get_resp(addr, value))
        g[rng.below(len(g) - 3) + 2] = ord("G")
        return bytes(g)
    if sym == "foreign":
        return get_resp((addr + 1 + rng.below(65535)) % 65536, rng.bytes(rng.choice([1, 2, 4])))
    if sym == "partial":
        g = get_resp(addr, value)
        return g[:rng.below(len(g) - 1) + 1]
    if sym == "several":
        return get_resp((addr + 1) % 65536, [1, 2]) + async_frame(rng) + get_resp((addr + 2) % 65536, [3])
    if sym == "short":   # checksum-valid Get response without a flag byte
        return frame(7, [addr & 0xFF, addr >> 8])
    if sym == "good":
        pre = b""
        if rng.chance(1, 3):
            pre = noise(rng, rng.below(10) + 1) + b"".join(async_frame(rng) for _ in range(rng.below(2)))
        return pre + get_resp(addr, value)
    raise ValueError(sym)


C04_ALPHABET = ["silence", "noise", "async", "badchk", "badhex", "foreign", "partial", "several", "short"]


def gen_c04(rng, exhaustive_len, n_random):
    out = []
    seqs = []
    for L in range(0, exhaustive_len + 1):
        seqs += list(itertools.product(C04_ALPHABET, repeat=L))
    for _ in range(n_random):
        seqs.append(tuple(rng.choice(C04_ALPHABET) for _ in range(rng.below(9) + 1)))
    for seq in seqs:
        kind = rng.choice(KINDS)
        addr = rand_addr(rng)
        value = rng.bytes(rng.choice([1, 2, 4, 8]))
        good_at = len(seq) + 1          # the good frame follows the prefix
        react = []
        for sym in seq:
            d = reaction(rng, sym, addr, value)
            r = chunked(rng, d, 3)
            if sym == "partial" or rng.chance(1, 4):
                r = r + ["e"]            # read timeout while waiting
            react.append(r)
        react.append(chunked(rng, reaction(rng, "good", addr, value), 3))
        out.append(Case("c04-seq", [call(kind, addr, rng.choice("nib"))], react=react, cfg=rng.below(4),
                        tags={"seq": "+".join(seq) if seq else "none", "good_at": str(good_at)}))
    return out


def gen_bursts(rng, n):
    """one reaction carrying several frames: rejected / foreign / async frames followed by the good frame in the same burst"""
    out = []
    for _ in range(n):
        kind = rng.choice(KINDS)
        addr = rand_addr(rng)
        value = rng.bytes(rng.choice([1, 2, 4]))
        parts = []
        for _ in range(rng.below(3) + 1):
            sym = rng.choice(["badchk", "badhex", "foreign", "async", "short", "noise"])
            parts.append(reaction(rng, sym, addr, value))
            if sym == "noise":
                parts[-1] = parts[-1].replace(b"\n", b" ")
        burst = b"".join(parts) + get_resp(addr, value)
        # optionally a ping answer / other-type frame first
        if rng.chance(1, 4):
            burst = ping_resp() + burst
        k = rng.below(3)
        react = [[] for _ in range(k)] + [chunked(rng, burst, 4)]
        out.append(Case("burst", [call(kind, addr, rng.choice("nib"))], react=react, cfg=rng.below(4)))
    return out


def gen_stale(rng, n):
    """stale bytes (incl. an outdated valid response for the same register) waiting in the port and/or left in
    the reader's buffer by the previous call; idle and busy call histories on one instance"""
    out = []
    for _ in range(n):
        addr = rand_addr(rng)
        old = rng.bytes(2)
        new = rng.bytes(2)
        calls, react, stale = [], [], []
        if rng.chance(1, 2):
            stale = chunked(rng, rng.choice([get_resp(addr, old), noise(rng), async_frame(rng), get_resp(addr, old)[:7]]))
        ncalls = rng.below(4) + 1
        for i in range(ncalls):
            kind = rng.choice(KINDS)
            idle = "n" if i == 0 and rng.chance(1, 2) else rng.choice("ib")
            # reaction: the good answer, possibly followed by extra bytes that stay behind as stale data
            extra = b""
            if rng.chance(1, 2):
                extra = rng.choice([get_resp(addr, old), async_frame(rng), noise(rng), get_resp(addr, old)[:9]])
            val = new if kind != "int" else rng.bytes(2)
            react.append(chunked(rng, get_resp(addr, val) + extra, 3))
            calls.append(call(kind, addr, idle))
        out.append(Case("stale-history", calls, react=react, stale=stale, cfg=rng.below(4)))
    return out


def gen_first_call_stale(rng, n):
    """fresh instance, natural timing (no hook): stale bytes already wait in the port; the first command must
    flush them (idle >= 100 ms since the zero time)"""
    out = []
    for _ in range(n):
        kind = rng.choice(KINDS)
        addr = rand_addr(rng)
        old, new = rng.bytes(2), rng.bytes(2)
        stale = chunked(rng, get_resp(addr, old) + (async_frame(rng) if rng.chance(1, 2) else b""))
        out.append(Case("first-call-stale", [call(kind, addr, "n", expect_for(kind, new))],
                        react=[chunked(rng, get_resp(addr, new))], stale=stale, cfg=rng.below(4)))
    return out


def gen_c02_exhaustive(rng, widths, per_case=32):
    """C02: every 1- and 2-byte value for uint and int, packed as call sequences on one instance"""
    out = []
    for w in widths:
        vals = list(range(256 ** w))
        for kind in ("uint", "int"):
            for i in range(0, len(vals), per_case):
                calls, react = [], []
                for v in vals[i:i + per_case]:
                    addr = rand_addr(rng)
                    value = le(v, w)
                    calls.append(call(kind, addr, "b" if calls else "n", expect_for(kind, value)))
                    react.append([ev_data(get_resp(addr, value))])
                out.append(Case("c02-exh%d" % w, calls, react=react, cfg=0))
    return out


def gen_c02_random(rng, n):
    out = []
    B4 = [0, 1, 0x7FFFFFFF, 0x80000000, 0x80000001, 0xFFFFFFFF, 0xFFFF, 0x10000]
    B8 = [0, 1, 2 ** 63 - 1, 2 ** 63, 2 ** 63 + 1, 2 ** 64 - 1, 2 ** 32, 2 ** 53 + 1]
    for _ in range(n):
        calls, react = [], []
        for j in range(rng.below(20) + 1):
            kind = rng.choice(KINDS + ["devid"])
            addr = rand_addr(rng)
            if kind == "devid":
                did = rng.below(65536)
                calls.append(call("devid", 0, "b" if calls else "n", "n%d" % did))
                react.append(chunked(rng, done_resp(le(did, 2))))
                continue
            if kind in ("uint", "int"):
                w = rng.choice([1, 2, 4, 8] if kind == "uint" or rng.chance(3, 4) else [0, 3, 5, 6, 7, 9, 12])
                if w == 4 and rng.chance(1, 2):
                    value = le(rng.choice(B4), 4)
                elif w == 8 and rng.chance(1, 2):
                    value = le(rng.choice(B8), 8)
                else:
                    value = rng.bytes(w)
            elif kind == "str":
                L = rng.below(65)
                value = rng.bytes(L)
                if rng.chance(1, 2):
                    value = [rng.choice([0x20, 0x41, 0x00, 0xC3, 0xA9, 0xFF, 0x7A]) for _ in range(L)]
                value = value + [0] * rng.below(6)
            else:
                value = rng.bytes(rng.below(20))
            calls.append(call(kind, addr, "b" if calls else "n", expect_for(kind, value)))
            react.append(chunked(rng, get_resp(addr, value, lower=rng.chance(1, 8)), 3))
        out.append(Case("c02-seq", calls, react=react, cfg=rng.below(4)))
    return out


def gen_widths(rng):
    """every payload width 0..70 through every accessor (16, 32, 64 bytes are 'powers of two' but not integer widths)"""
    out = []
    for w in range(0, 71):
        for kind in KINDS:
            addr = rand_addr(rng)
            value = rng.bytes(w)
            out.append(Case("width", [call(kind, addr, "n", expect_for(kind, value))], react=[chunked(rng, get_resp(addr, value), 3)], cfg=rng.below(4)))
    return out


def gen_devid_all(rng, step=1):
    out = []
    ids = list(range(0, 65536, step))
    for i in range(0, len(ids), 64):
        calls, react = [], []
        for did in ids[i:i + 64]:
            calls.append(call("devid", 0, "b" if calls else "n", "n%d" % did))
            react.append([ev_data(done_resp(le(did, 2)))])
        out.append(Case("c02-devid", calls, react=react))
    return out


CALL_KINDS_ALL = ["ping", "devid", "raw", "uint", "int", "str"]


def good_script(rng, kind, addr):
    if kind == "ping":
        return ping_resp()
    if kind == "devid":
        return done_resp(le(0xA053, 2))
    return get_resp(addr, rng.bytes(2))


def gen_faults(rng, n_random):
    """C06: a fault at every I/O operation index of every call kind; short frames; all response types;
    empty payloads; random streams; no-progress ports"""
    out = []
    for kind in CALL_KINDS_ALL:
        addr = rand_addr(rng)
        # write fault at write k (k = 0..8), with and without answers to the other attempts
        for k in range(9):
            for answered in (0, 1):
                react = [[ev_data(good_script(rng, kind, addr))] if answered else [] for _ in range(9)]
                out.append(Case("fault-write", [call(kind, addr, "n")], react=react, wf="0" * k + "1"))
        out.append(Case("fault-write-all", [call(kind, addr, "n")], wf="1" * 9))
        # flush fault on the idle flush
        out.append(Case("fault-flush", [call(kind, addr, "i")], react=[[ev_data(good_script(rng, kind, addr))]], ff="1"))
        # read fault / timeout / empty read at every position inside the answer
        g = good_script(rng, kind, addr)
        for pos in range(len(g) + 1):
            for ev in ("e", "x", "z"):
                r = [ev_data(g[:pos]), ev, ev_data(g[pos:])]
                out.append(Case("fault-read-" + ev, [call(kind, addr, "n")], react=[[t for t in r if t]] * 8))
        # every prefix of a valid answer, then silence (EOF mode and no-progress mode)
        for pos in range(len(g) + 1):
            for np in (0, 1):
                out.append(Case("short-frame", [call(kind, addr, "n")], react=[[ev_data(g[:pos])]] * 8, np=np))
        # every response type nibble with empty and short payloads, checksum valid
        for resp in range(16):
            for payload in ([], [0], [0, 0], [addr & 0xFF, addr >> 8], [addr & 0xFF, addr >> 8, 0]):
                out.append(Case("resp-types", [call(kind, addr, "n")], react=[[ev_data(frame(resp, payload))]] * 8))
    for _ in range(n_random):
        kind = rng.choice(CALL_KINDS_ALL + ["cmd3", "cmd6", "cmd8", "cmd10"])
        addr = rand_addr(rng)
        react = []
        for _ in range(rng.below(9)):
            r = []
            for _ in range(rng.below(4)):
                t = rng.below(10)
                if t < 5:
                    alphabet = [ord(c) for c in ":\nA7015F0ED"] + list(range(256))
                    r.append(ev_data(bytes(rng.choice(alphabet) for _ in range(rng.below(30) + 1))))
                elif t < 7:
                    r.append(ev_data(good_script(rng, rng.choice(CALL_KINDS_ALL), addr)))
                else:
                    r.append(rng.choice(["e", "x", "z"]))
            react.append(r)
        wf = "".join(rng.choice("0001") for _ in range(rng.below(10))) or "-"
        ff = "".join(rng.choice("01") for _ in range(rng.below(3))) or "-"
        ncalls = rng.below(3) + 1
        calls = [call(kind if i == 0 else rng.choice(CALL_KINDS_ALL), addr, rng.choice("nib") if i else "n") for i in range(ncalls)]
        out.append(Case("fault-random", calls, react=react, wf=wf, ff=ff, np=rng.below(2), cfg=rng.below(4)))
    return out


def gen_late_flagged(rng, n):
    """C01/C04: while register Y is read, a checksum-valid answer for ANOTHER register X arrives with a non-zero flag
    (a late refusal); the next call reads X on the busy line and gets no answer at all (or a fresh good one): nothing
    received for X with flag 0 except that fresh frame may become X's value"""
    out = []
    for i in range(n):
        kind = rng.choice(KINDS)
        y = rand_addr(rng)
        x = (y + 1 + rng.below(200)) % 65536
        flag = rng.choice([1, 2, 4, 8, 0x10, 0xFF])
        vy, vx = rng.bytes(2), rng.bytes(2)
        late = get_resp(x, rng.bytes(rng.below(3)), flag=flag)
        r1 = chunked(rng, (late + get_resp(y, vy)) if i % 2 == 0 else late, 3)
        react = [r1, []] if i % 2 == 0 else [r1, chunked(rng, get_resp(y, vy))]
        if i % 3 == 0:      # the second call is answered properly
            react2 = [chunked(rng, get_resp(x, vx))]
            calls = [call(kind, y, "n", expect_for(kind, vy)), call(kind, x, "b", expect_for(kind, vx))]
        else:               # ... or not at all
            react2 = [[] for _ in range(8)]
            calls = [call(kind, y, "n", expect_for(kind, vy)), call(kind, x, "b", "ERR")]
        out.append(Case("late-flagged", calls, react=react + react2, cfg=rng.below(4)))
    return out


def gen_async_burst(rng, n):
    """C03/C04: many asynchronous frames between a command and its answer (a device in async mode streams register
    updates): they are skipped, the call completes in that attempt with exactly one frame written"""
    out = []
    for i in range(n):
        kind = rng.choice(KINDS + ["ping", "devid"])
        addr = rand_addr(rng) if kind in KINDS else 0
        value = rng.bytes(2)
        k = [1, 3, 7, 8, 9, 12, 16, 17, 31, 40][i % 10]
        burst = b"".join(async_frame(rng) for _ in range(k))
        if kind == "ping":
            ans, exp = ping_resp(), "ok"
        elif kind == "devid":
            ans, exp = done_resp(le(0xA053, 2)), "n%d" % 0xA053
        else:
            ans, exp = get_resp(addr, value), expect_for(kind, value)
        out.append(Case("async-burst", [call(kind, addr, "n", exp)], react=[chunked(rng, burst + ans, 4)], cfg=rng.below(4),
                        tags={"frames": "1"}))
    return out


def gen_cut_zero_check(rng, n):
    """C02/C01: an answer whose check byte is 0x00 and whose value ends in zero bytes, cut by a read timeout at
    every position (the rest arrives afterwards): every prefix that ends inside the trailing zeros is itself
    checksum-consistent, so a driver that accepts an unterminated line returns a narrower value.  Expectation
    `?v`: an error or exactly the value."""
    out = []
    for i in range(n):
        kind = ["int", "uint", "raw", "str"][i % 4]
        w = rng.choice([2, 4, 8])
        lo, hi = rng.below(256), rng.below(256)
        addr = lo | (hi << 8)
        nz = 1 + rng.below(w - 1)                      # non-zero leading value bytes
        val = [1 + rng.below(255) for _ in range(nz)] + [0] * (w - nz)
        # choose the first value byte so that the check byte becomes 0
        rest = (7 + lo + hi + 0 + sum(val[1:])) % 256
        val[0] = (0x55 - rest) % 256
        if val[0] == 0 and nz == 1:
            continue
        g = get_resp(addr, val)
        if g[-3:-1] != b"00":
            continue
        exp = expect_for(kind, val)
        for pos in range(1, len(g)):
            for ev in ("e", "x"):
                r = [ev_data(g[:pos]), ev, ev_data(g[pos:])]
                out.append(Case("cut-zero-check", [call(kind, addr, "n", "?" + exp)], react=[r] * 8, cfg=rng.below(4)))
    return out


def gen_devid_foreign(rng, n):
    """C01: the device-id query fails (silence, a Done frame with a wrong check byte, a cut one, a stale ping answer,
    noise) and what arrives afterwards are complete, valid frames of OTHER commands that happen to carry an id -- the
    answer to a Get of the product-id register 0x0100, a Set acknowledgement, a ping answer: no Done frame, no id"""
    out = []
    for i in range(n):
        pid = rng.choice([0xA056, 0xA053, 0x0203, 0xA381, rng.below(65536)])
        fault = [[],
                 [ev_data(frame(1, le(pid, 2), bad_chk=1 + rng.below(254)))],
                 [ev_data(done_resp(le(pid, 2))[:3 + rng.below(4)])],
                 [ev_data(ping_resp())],
                 [ev_data(bytes(rng.choice(NOISE_ALPHABET) for _ in range(20)))]][i % 5]
        other = [get_resp(0x0100, [0x00] + le(pid, 2) + [0xFF]),
                 frame(8, [0x00, 0x01, 0x00, 0x00] + le(pid, 2) + [0xFF]),
                 get_resp(0x0100, le(pid, 2)),
                 ping_resp()][(i // 5) % 4]
        react = [fault] + [chunked(rng, other, 3) for _ in range(9)]
        calls = [call("devid", 0, rng.choice(["n", "i"]), "ERR")]
        if i % 2 == 0:   # ... and a typed read of that register afterwards still gets its value
            calls.append(call("uint", 0x0100, "b", None))
        out.append(Case("devid-foreign", calls, react=react, cfg=rng.below(4)))
    return out


def gen_big_noise(rng, n):
    """noise longer than the 4096-byte reader buffer before the good frame"""
    out = []
    for _ in range(n):
        kind = rng.choice(KINDS)
        addr = rand_addr(rng)
        value = rng.bytes(2)
        size = rng.choice([4095, 4096, 4097, 5000, 8192, 9000])
        data = noise(rng, size) + get_resp(addr, value)
        out.append(Case("big-noise", [call(kind, addr, "n", expect_for(kind, value))], react=[chunked(rng, data, 4)], cfg=rng.below(4)))
        # a long line without terminator inside a frame
        data2 = b":7" + bytes(rng.choice(b"0123456789ABCDEF") for _ in range(size)) + b"\n" + get_resp(addr, value)
        out.append(Case("big-line", [call(kind, addr, "n")], react=[chunked(rng, data2, 4), chunked(rng, get_resp(addr, value))], cfg=rng.below(4)))
    return out


def gen_buffer_boundary(rng, quick=False):
    """a line after ':' that is exactly / nearly a multiple of the 4096-byte reader buffer long and ends in what would be a valid body
    (the abstract line machine's a_until is quadratic in the line length, so the quick tier takes fewer of these)"""
    out = []
    for kind in ([rng.choice(KINDS), "devid"] if quick else KINDS + ["devid"]):
        addr = rand_addr(rng)
        value = rng.bytes(2)
        good = get_resp(addr, value) if kind != "devid" else done_resp(le(0xA056, 2))
        body = good[1:]                      # without ':'
        for k in ((1, 2) if quick else (1, 2, 3)):
            for delta in (-1, 0, 1):
                fill = bytes(rng.choice(b"0123456789ABCDEFxyz \t") for _ in range(k * 4096 + delta))
                data = b":" + fill + body      # no valid frame: the line is fill ++ body
                out.append(Case("buffer-boundary", [call(kind, addr if kind != "devid" else 0, "n")],
                                react=[chunked(rng, data, rng.choice([1, 3, 6]))] + [[]] * 7, cfg=rng.below(4)))
                # the same fill as noise BEFORE ':' is harmless: the good frame must be accepted
                data2 = fill.replace(b":", b";") + good
                exp = expect_for(kind, value) if kind != "devid" else "n%d" % 0xA056
                out.append(Case("buffer-boundary-noise", [call(kind, addr if kind != "devid" else 0, "n", exp)],
                                react=[chunked(rng, data2, rng.choice([1, 3, 6]))], cfg=rng.below(4)))
    return out


def generate(tier, seed):
    rng = Rng(seed)
    Case.n = 0
    q = tier == "quick"
    bases = [("uint", 0xEDF0, [0x96, 0x00]), ("str", 0x010A, list(b"HQ2\x00")), ("devid", 0, [0x53, 0xA0])]
    if not q:
        bases += [("int", 0x0040, [0xFF, 0xFF, 0xFF, 0xFF]), ("raw", 0xFFFF, []), ("uint", 0x3A0A, [0x0A])]
    cases = []
    cases += gen_valid(rng, 1500 if q else 6000)
    cases += gen_mutations(rng, bases, attempts=(1, 2, 8), per_base=None)
    cases += gen_wrong(rng, 3000 if q else 12000)
    cases += gen_flags_all(rng)
    cases += gen_headless(rng, 240 if q else 1200)
    cases += gen_c05(rng, 30 if q else 120)
    cases += gen_c04(rng, 3 if q else 4, 1500 if q else 8000)
    cases += gen_bursts(rng, 800 if q else 4000)
    cases += gen_widths(rng)
    cases += gen_stale(rng, 1500 if q else 6000)
    cases += gen_first_call_stale(rng, 200 if q else 800)
    cases += gen_c02_exhaustive(rng, [1] if q else [1, 2])
    cases += gen_c02_random(rng, 1000 if q else 6000)
    cases += gen_devid_all(rng, 16 if q else 1)
    cases += gen_faults(rng, 2000 if q else 12000)
    cases += gen_cut_zero_check(rng, 8 if q else 40)
    cases += gen_async_burst(rng, 60 if q else 300)
    cases += gen_late_flagged(rng, 120 if q else 600)
    cases += gen_devid_foreign(rng, 40 if q else 200)
    cases += gen_big_noise(rng, 3 if q else 12)
    cases += gen_buffer_boundary(rng, q)
    return cases
