"""Shared steps of the T-obs properties (C12-C15, C11, C09): regenerate tables, rebuild, prove."""
from lib import common, gen


def prepare(res, prop_file, theorems):
    common.build_harness()
    gen.regenerate_all()
    rc, out = common.coq_make()
    ok = common.standard_proof_cov(res, prop_file, theorems)
    if ok:
        res.cov["trusted_base"].append("T-obs dumper harness/cmd/gvgen: enumerates the complete domain of the real code and writes coq/Gen/Obs.v on every run")
    return ok
