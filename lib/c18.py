"""C18: logging is transparent and the I/O log replays."""
import os, re, tempfile
from lib import script, common
from lib.common import Broken

THEOREMS = ["C18_transparent", "C18_transparent_histories", "C18_no_logger_no_lines", "C18_one_line", "C18_replay", "C18_replay_commands"]
STRIPL = re.compile(r" (L|RP|ALTERED)=\S+")


def run(res, args):
    res.assumptions = ["strconv.Quote/Unquote of the logged strings is trusted library code",
                       "debug-log text is not modelled; only the fact that the debug logger changes nothing is"]
    r = script.standard(res, args, "C18", "C18", THEOREMS,
                        "For C18 every case is additionally run under all four logger configurations (debug x I/O) and the "
                        "implementation's observations are required to be identical (results, frames, write/read/flush counts, delivered "
                        "bytes); lines are parsed back with strconv.Unquote; each typed call completed in one exchange is replayed through "
                        "a lookup port. The file logger is exercised on real files.",
                        partial=["debug-log text is not modelled"])
    if r is None:
        return
    # transparency on the implementation: same case under cfg 0..3
    base = [re.sub(r" cfg=\d", " cfg=0", l) for l in r["lines"]]
    obs = {}
    for cfg in range(4):
        lines = [re.sub(r" cfg=\d", " cfg=%d" % cfg, l) for l in base]
        impl, model, jout = script.run_lines(lines, "cfg%d" % cfg, with_model=False)
        obs[cfg] = impl
        for l in jout.splitlines():
            if l.startswith("JUDGE-FAIL C18 "):
                f = l.split(" ", 3)
                res.add_violation(f[3], key="C18:cfg%d:%s" % (cfg, f[3][:80]), input=lines[[x.split(" ", 1)[0] for x in lines].index(f[2])])
    ndiff = 0
    for i in range(len(base)):
        o0 = STRIPL.sub("", obs[0][i])
        for cfg in (1, 2, 3):
            if STRIPL.sub("", obs[cfg][i]) != o0:
                ndiff += 1
                if ndiff <= 5:
                    res.add_violation("enabling a logger changes the behaviour", key="C18:transparent:cfg%d" % cfg,
                                      input=re.sub(r" cfg=\d", " cfg=%d" % cfg, base[i]), expected=obs[0][i], observed=obs[cfg][i])
        l2 = re.search(r" L=(\S+)", obs[2][i]); l3 = re.search(r" L=(\S+)", obs[3][i])
        if (l2 and l2.group(1)) != (l3 and l3.group(1)):
            ndiff += 1
            if ndiff <= 5:
                res.add_violation("I/O log lines depend on the debug logger", key="C18:lines", input=base[i], expected=obs[2][i], observed=obs[3][i])
    res.cov["config_sweep_cases"] = 4 * len(base)
    res.cov["config_sweep_differences"] = ndiff
    # file logger
    rc, out = common.sh("%s filelog %s" % (common.GVRUN, os.path.join(common.BUILD, "tmp")), timeout=300)
    if rc != 0:
        raise Broken("gvrun filelog failed", out[-2000:])
    n = 0
    for l in out.splitlines():
        if l.startswith("FILELOG-FAIL"):
            res.add_violation("file logger: " + l, key="C18:filelog:" + l.split()[1], observed=l)
        if l.startswith("FILELOG-OK"):
            n = int(l.split()[1])
    res.cov["file_logger_scenarios"] = n
