"""C16: a register list behaves as four ordered sequences under any operation history."""
import itertools, json, os, re
from lib import common, gen
from lib.cases import Rng
from lib.common import Broken

THEOREMS = ["C16_history", "C16_filter", "C16_filter_by_name", "C16_len", "C16_get_registers"]
PREDS = ["even", "odd", "kind:1", "kind:2", "kind:3", "kind:4", "sortbelow:250", "sortbelow:305", "static", "writable", "true", "false"]


def generate(tier, seed):
    rng = Rng(seed ^ 0x16)
    t = json.load(open(os.path.join(common.BUILD, "tables.json")))
    # alphabet sizes: bmv + solar + inverter families (lists 1..5 are filtered; take the dumped family sizes from Obs.v)
    obs = open(os.path.join(common.GEN, "Obs.v")).read()
    sizes = [0, 0, 0, 0]
    names = set()
    for fam in ("bmv", "solar", "inverter"):
        m = re.search(r"Definition obs_family_%s : reglist :=\n(.*?)\]\.\n\n" % fam, obs, re.S)
        body = m.group(1)
        for k in range(4):
            sizes[k] += len(re.findall(r"mkReg %d " % (k + 1), body))
        names.update(re.findall(r'mkReg \d "[^"]*" "([^"]*)"', body))
    names = sorted(names)
    kinds = ["aN", "aT", "aE", "aF"]
    lines = []

    def rand_append(maxn=4):
        k = rng.below(4)
        n = rng.below(maxn) + 1
        return "%s:%s" % (kinds[k], ",".join(str(rng.below(sizes[k])) for _ in range(n)))

    def compensated():
        """observe, then remove and add the same number of registers of one kind, then observe again"""
        k = rng.below(4)
        idx = [rng.below(sizes[k]) for _ in range(rng.below(5) + 2)]
        ops = ["%s:%s" % (kinds[k], ",".join(map(str, idx))), "g"]
        ops.append("fp:sortbelow:%d" % rng.choice([150, 205, 250, 305, 350, 1000]))
        ops.append("g")
        ops.append("%s:%s" % (kinds[k], ",".join(str(rng.below(sizes[k])) for _ in range(rng.below(4) + 1))))
        ops.append("g")
        return ops

    def rand_filter():
        c = rng.below(4)
        if c == 0:
            return "fp:" + rng.choice(PREDS)
        if c == 1:
            return "fp:%s:%s" % (rng.choice(["namein", "namenotin"]), ",".join(rng.choice(names) for _ in range(rng.below(6) + 1)))
        return "fn:" + ",".join(rng.choice(names) for _ in range(rng.below(5)))

    # exhaustive short histories over a small alphabet of operations
    small = ["aN:0,1", "aN:1,40", "aT:0,4", "aE:0,9", "aF:0,1", "aN:0", "fp:even", "fp:kind:1", "fp:sortbelow:202", "fn:ProductId", "fn:SerialNumber,OffReason", "fp:false", "g"]
    maxlen = 3 if tier == "quick" else 4
    for L in range(0, maxlen + 1):
        for seq in itertools.product(small, repeat=L):
            lines.append(";".join(seq))
    # random long histories
    for _ in range(1500 if tier == "quick" else 12000):
        n = rng.below(200 if rng.chance(1, 10) else 30) + 1
        ops = []
        for _ in range(n):
            ops.append(rand_append(6) if rng.chance(2, 3) else rand_filter())
        lines.append(";".join(ops))
    # histories with observations in the middle (a stale cached view would show)
    for _ in range(400 if tier == "quick" else 4000):
        ops = []
        for _ in range(rng.below(4) + 1):
            ops += compensated() if rng.chance(1, 2) else [rand_append(5), "g", rand_filter(), "g"]
        lines.append(";".join(ops))
    for a in range(0, 6):
        # exactly compensated: drop one register by name, append one of the same kind, observe before and after
        lines.append("aN:0,1,2,3,4;g;fn:ProductId;aN:%d;g;fn:ProductRevision;aN:%d;g" % (10 + a, 20 + a))
    # whole families appended, then filtered (duplicates of names and of sort keys across kinds)
    for _ in range(100 if tier == "quick" else 600):
        ops = []
        for k in range(4):
            idx = list(range(sizes[k]))
            for i in range(len(idx) - 1, 0, -1):
                j = rng.below(i + 1)
                idx[i], idx[j] = idx[j], idx[i]
            ops.append("%s:%s" % (kinds[k], ",".join(map(str, idx[: rng.below(sizes[k]) + 1]))))
        for _ in range(rng.below(4)):
            ops.append(rand_filter())
        ops.append(rand_append(8))
        lines.append(";".join(ops))
    return ["r%d ops=%s" % (i + 1, l) for i, l in enumerate(lines)]


def run(res, args):
    res.assumptions = ["registers are drawn from the exported family lists (BMV + solar + inverter: duplicate names and duplicate sort keys across kinds occur); the unexported constructors are not used",
                       "predicates come from fixed families (name sets, address parity, kind, sort threshold, static, writable)"]
    common.build_harness()
    gen.regenerate_all()
    common.coq_make()
    common.standard_proof_cov(res, "C16", THEOREMS)
    from lib import reggen
    reggen.reg_obligations(res, "C16")
    common.build_ocaml()
    lines = generate(res.tier, res.seed)
    cf = os.path.join(common.BUILD, "c16cases.txt")
    ob = os.path.join(common.BUILD, "c16impl.obs")
    open(cf, "w").write("\n".join(lines) + "\n")
    rc, out = common.sh("timeout 900 %s reglist %s > %s" % (common.GVRUN, cf, ob))
    if rc != 0:
        raise Broken("gvrun reglist failed", out[-2000:])
    rc, out = common.sh("timeout 1800 %s reglist %s %s" % (common.GVMODEL, cf, ob))
    m = re.search(r"SUMMARY cases=(\d+) nontrivial=(\d+) mismatches=(\d+) judge_failures=(\d+)", out)
    if rc != 0 or not m:
        raise Broken("gvmodel reglist failed", out[-2000:])
    cases, nontriv, mism, bad = map(int, m.groups())
    hist = {}
    for l in lines:
        n = len(l.split("ops=")[1].split(";")) if l.split("ops=")[1] else 0
        b = "0" if n == 0 else "1-4" if n <= 4 else "5-30" if n <= 30 else "31+"
        hist[b] = hist.get(b, 0) + 1
    res.cov.update(evaluations=cases, distinct_nontrivial=min(nontriv, len(set(l.split(" ", 1)[1] for l in lines))),
                   rule="operation histories on one RegisterList: exhaustive sequences up to length %d over 13 operations (incl. an observation of the combined view), random histories up to "
                        "length 200, whole shuffled families followed by filters; after every operation Len, at the end the four sequences and "
                        "GetRegisters are compared with the model; the combined view is also judged directly (ascending, stable, same elements); "
                        "non-trivial = non-empty final list" % (3 if res.tier == "quick" else 4),
                   samples=lines[:: max(1, len(lines) // 5)][:5], history_lengths=hist, disagreements_checked=mism, judge_failures=bad)
    # two lists of the same product from two lookups are two lists (appends to the one never show in the other)
    rc, tout = common.sh("timeout 300 %s reglisttwin" % common.GVRUN)
    tm = re.search(r"TWIN-SUMMARY checks=(\d+) failures=(\d+)", tout)
    if rc != 0 or not tm:
        raise Broken("gvrun reglisttwin failed", tout[-2000:])
    res.cov["twin_list_checks"] = int(tm.group(1))
    for l in tout.splitlines():
        if l.startswith("TWIN-FAIL"):
            res.add_violation(l[10:], key="C16:twin:" + l[10:90], input=l[10:],
                              replay="a, _ := GetRegisterListByProduct(p); b, _ := GetRegisterListByProduct(p); append a block to a, then another to b; compare a with base ++ its block")
            if len(res.violations) > 5:
                break
    obs_by = {l.split(" ", 1)[0]: l for l in open(ob).read().splitlines()}
    for l in out.splitlines():
        if l.startswith("JUDGE-FAIL"):
            cid = l.split()[2]
            res.add_violation(l.split(" ", 3)[3], key="C16:view", input=[x for x in lines if x.startswith(cid + " ")][0], observed=obs_by.get(cid, ""))
    if mism:
        first = re.search(r"MISMATCH (r\d+ ops=\S*)\n  impl =(.*)\n  model=(.*)", out)
        res.add_violation("register list differs from four plain ordered sequences after this operation history",
                          key="C16:history", input=first.group(1) if first else "", observed=first.group(2) if first else "",
                          expected=first.group(3) if first else "")
