"""./check <Cxx> --replay <file>: re-run the inputs recorded in a replay file on the implementation (current /repo)
and on the model, and print both observations and the judges' verdicts."""
import json, os, re
from lib import common


def run(pid, path):
    rp = json.load(open(path))
    print("replay of %s: %d recorded violation(s)" % (path, len(rp.get("violations", []))))
    for b in rp.get("no_longer_checks", []):
        print("NO-LONGER-CHECKS:", b["what"])
        print(b.get("detail", "")[:2000])
    with common.Lock():
        common.build_harness()
        common.build_ocaml()
    rc = 0
    for v in rp.get("violations", []):
        inp = v.get("input")
        print("---", v.get("what"))
        if isinstance(inp, str) and " calls=" in inp:
            from lib import script
            impl, model, jout = script.run_lines([inp], "replay")
            print("case :", inp); print("impl :", impl[0]); print("model:", model[0]); print(jout)
            rc |= int("JUDGE-FAIL" in jout or script.STRIP.sub("", impl[0]) != model[0])
        elif isinstance(inp, str) and " ops=" in inp and inp.startswith("a"):
            from lib import apirun
            impl, jout = apirun.run_lines([inp], "replay")
            print("case :", inp); print("impl :", impl[0]); print(jout)
            rc |= int("JUDGE-FAIL" in jout or "MISMATCH" in jout)
        elif isinstance(inp, str) and inp.startswith("r") and " ops=" in inp:
            cf, ob = os.path.join(common.BUILD, "replay-c16.txt"), os.path.join(common.BUILD, "replay-c16.obs")
            open(cf, "w").write(inp + "\n")
            common.sh("%s reglist %s > %s" % (common.GVRUN, cf, ob))
            rc2, out = common.sh("%s reglist %s %s" % (common.GVMODEL, cf, ob))
            print("case :", inp); print("impl :", open(ob).read().strip()); print(out)
            rc |= int("MISMATCH" in out or "JUDGE-FAIL" in out)
        elif isinstance(inp, dict) and "decoder" in inp:
            cf, ob = os.path.join(common.BUILD, "replay-ble.txt"), os.path.join(common.BUILD, "replay-ble.obs")
            open(cf, "w").write("%s %s %s\n" % (inp["decoder"], inp["input_hex"], inp.get("cap_mode", 0)))
            common.sh("%s ble %s > %s" % (common.GVRUN, cf, ob))
            rc2, out = common.sh("%s ble < %s" % (common.GVMODEL, ob))
            print("impl :", open(ob).read().strip()); print(out)
            rc |= int("JUDGE-FAIL" in out or "MISMATCH" in out)
        else:
            print("input:", json.dumps(inp)); print("expected:", v.get("expected")); print("observed:", v.get("observed"))
            print("(re-run ./check %s to re-evaluate this family on the current tree)" % pid)
    return rc
