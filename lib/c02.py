"""C02: register values round-trip exactly through the wire encoding."""
from lib import script

THEOREMS = ["C02_driver_roundtrip", "C02_sequence", "C02_sequence_raw", "C02_uint", "C02_int", "C02_int_bad_width", "C02_string", "C02_raw", "C02_any_response_accepted", "C02_hex_roundtrip"]


def run(res, args):
    res.assumptions = [
        "the simulated device encodes values with the generator's own little-endian / two's-complement encoder; expectations are computed by the generator",
        "slice aliasing ('values already returned are not altered by later calls') cannot be violated by a pure model: covered only by the harness, which keeps every returned []byte and re-compares it after all later calls",
    ]
    script.standard(res, args, "C02", "C02", THEOREMS,
                    "Classes for C02: exhaustive 1-byte (quick) and 2-byte (thorough) values for uint and int as call sequences on one "
                    "instance, boundary and random 4/8-byte values, unsupported widths for the signed accessor, byte strings up to 64 bytes "
                    "with interior/trailing NULs and invalid UTF-8, device ids (every 16th in quick, all 65536 in thorough), sequences of up to 20 reads.",
                    partial=["slice aliasing of returned values is exercised (ALTERED flag), not proved",
                             "the proved history statement (C02_sequence) is for devices that answer every command with exactly the conforming frame (plus colon-free noise in front); histories with retries in between are exercised by correspondence + expectations"])
