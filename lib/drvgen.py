"""T-gen for the serial driver: /repo/vedirect is translated into coq/Gen/DrvImpl.v on every run
(`gvgen drv`) and the refinement theorems of coq/Vedirect/DrvRefine.v, DrvProps.v are re-checked
against the new text.  Each property carries the obligations for the files its anchors name."""
import os, re
from lib import common
from lib.common import Broken

# the vedirect files named by the anchors of each property (/verif/properties.jsonl)
ANCHOR_FILES = {
    "C01": ["vecommand.go", "checksum.go", "definitions.go", "vedirect.go"],
    "C02": ["binaryParser.go", "vedirect.go", "vecommand.go"],
    "C03": ["vecommand.go", "checksum.go", "io.go"],
    "C04": ["vecommand.go", "io.go"],
    "C05": ["error.go", "vecommand.go"],
    "C06": ["vecommand.go", "vedirect.go", "io.go"],
    "C18": ["logging.go", "io.go", "vedirect.go"],
}

SRC_THEOREMS = {
    "C01": ["C01_src_VeCommand", "C01_src_VeCommandGet", "C01_src_computeChecksum", "C01_src_ResponseForCommand",
            "C01_src_get_sound", "C01_src_uint_sound", "C01_src_device_id_sound"],
    "C02": ["C02_src_littleEndianBytesToUint", "C02_src_littleEndianBytesToInt", "C02_src_GetUint", "C02_src_GetInt",
            "C02_src_GetString", "C02_src_GetDeviceId"],
    "C03": ["C03_src_sendCommand", "C03_src_write", "C03_src_computeChecksum", "C03_src_frame_written"],
    "C04": ["C04_src_VeCommandGet", "C04_src_sendReceive", "C04_src_receiveResponse", "C04_src_flushReceiver", "C04_src_recvUntil"],
    "C05": ["C05_src_responseError", "C05_src_uint_error_zero", "C05_src_int_error_zero", "C05_src_string_error_zero",
            "C05_src_device_error_class"],
    "C06": ["C06_src_call_total", "C06_src_call_refines"],
    "C18": ["C18_src_call_refines", "C18_src_line_end", "C18_src_write", "C18_src_recvUntil"],
}

OUT = os.path.join(common.GEN, "DrvImpl.v")
REF = os.path.join(common.COQ, "Vedirect", "DrvImpl.reference")   # the translation of the pinned tree (committed)

BROKEN = None   # set when /repo/vedirect can no longer be translated (the stale Gen/DrvImpl.v is kept)


def translate():
    global BROKEN
    BROKEN = None
    rc, o = common.sh([common.GVGEN, "drv", common.REPO, OUT], timeout=300)
    if rc != 0:
        BROKEN = Broken("the GoLite-D translator stopped: /repo/vedirect can no longer be translated (tie T-gen)", o[-3000:])
        if not os.path.exists(OUT) and os.path.exists(REF):
            common.write_if_changed(OUT, open(REF).read())


def functions(text):
    """{name: (file, generated text)}"""
    out = {}
    for m in re.finditer(r"\(\* (\S+\.go): (\w+) \*\)\n(Definition .*?\n)\n", text, re.S):
        out[m.group(2)] = (m.group(1), m.group(3))
    return out


def current_text(out):
    """the translation of this run: <out>.partial when the translator stopped in some function (it then holds the
    functions that could still be translated), <out> otherwise"""
    p = out + ".partial"
    return open(p if os.path.exists(p) else out).read()


def failed_functions(detail):
    """[(function, file)] named by the translator's error messages (one message per failing function)"""
    return sorted(set((m.group(2), m.group(1)) for m in re.finditer(r"/(\w+\.go):\d+ \(function (\w+)\)", detail or "")))


def changed_vs(out, ref):
    """[(function, file)] whose translation differs from that of the pinned tree, or that could not be translated"""
    try:
        cur, reft = functions(current_text(out)), functions(open(ref).read())
    except FileNotFoundError:
        return []
    ch = [(n, f) for n, (f, t) in cur.items() if n not in reft or reft[n][1] != t]
    ch += [(n, reft[n][0]) for n in reft if n not in cur]
    return sorted(set(ch))


def changed():
    return changed_vs(OUT, REF)


def src_obligations(res, pid):
    """The property's T-gen obligations (Props/<pid>src.v).  A refinement that no longer checks is
    this property's business iff a changed function lives in one of its anchor files."""
    ths = SRC_THEOREMS[pid]
    anchors = ANCHOR_FILES[pid]
    res.cov["source_tie"] = ("package vedirect translated by gvgen drv into Gen/DrvImpl.v on this run; refinement to the hand-written "
                             "model re-proved (Vedirect/DrvRefine.v, DrvProps.v); this property carries the obligations of %s"
                             % ", ".join("vedirect/" + a for a in anchors))
    if BROKEN is not None:
        # every function the translator stopped in, and every other function whose translation changed
        ch = sorted(set(failed_functions(BROKEN.detail)) | set(changed()))
        res.cov["obligations"] = res.cov.get("obligations", 0) + len(ths)
        res.cov["changed_source_functions"] = ["%s (%s)" % c for c in ch]
        mine = [c for c in ch if c[1] in anchors]
        if mine or not ch:
            res.broken.append(Broken(BROKEN.what + "; changed or untranslatable in this property's anchor files: %s"
                                     % (", ".join("%s in vedirect/%s" % c for c in mine) or "?"), BROKEN.detail))
        else:
            res.partial.append("source tie not re-established on this run: changed or untranslatable %s, outside this property's anchor "
                               "files (reported by the properties anchored there)" % ", ".join("%s in vedirect/%s" % c for c in ch))
        return False
    try:
        ob, di, rep, cmd, dt = common.prove(pid + "src", ths)
    except Broken as b:
        ch = changed()
        res.cov["obligations"] = res.cov.get("obligations", 0) + len(ths)
        res.cov["changed_source_functions"] = ["%s (%s)" % c for c in ch]
        mine = [c for c in ch if c[1] in anchors]
        if mine or not ch:
            res.broken.append(Broken("the translated source no longer refines the model (tie T-gen): changed %s; %s"
                                     % (", ".join("%s in vedirect/%s" % c for c in (mine or ch)) or "?", b.what), b.detail))
        else:
            res.partial.append("source tie not re-established on this run: changed %s, outside this property's anchor files "
                               "(reported by the properties anchored there)" % ", ".join("%s in vedirect/%s" % c for c in ch))
        return False
    res.cov["obligations"] = res.cov.get("obligations", 0) + ob
    res.cov["discharged"] = res.cov.get("discharged", 0) + di
    res.cov["theorems"] = list(res.cov.get("theorems", [])) + ths
    res.cov["checker_cmd"] = res.cov.get("checker_cmd", "") + " && " + cmd
    ch = changed()
    if ch:
        res.cov["changed_source_functions"] = ["%s (%s)" % c for c in ch]
    return True


# driver functions the register API's behaviour rests on: what NewRegisterApi calls (C11) and what a register read calls
# (C09, C10); the refinement theorems of the API (Api/ApiRefine.v) compose with the driver's
API_DEPENDS = {
    "C11": ["Ping", "GetDeviceId", "VeCommand", "sendReceive", "sendCommand", "receiveResponse", "recvUntil", "write", "flushReceiver",
            "computeChecksum", "ResponseForCommand", "resetIoLogBuffers", "ioLoggerLineEnd", "littleEndianBytesToUint"],
}


def api_dependency(res, pid):
    """A property about the register API also rests on the translated driver functions it calls: when one of them can no
    longer be translated, or its translation no longer refines the model, the API theorems were re-checked against a stale
    translation only -- the tie is broken for this property too."""
    deps = API_DEPENDS.get(pid)
    if not deps:
        return True
    ch = []
    if BROKEN is not None:
        ch = sorted(set(failed_functions(BROKEN.detail)) | set(changed()))
    else:
        # translated; do the driver's refinement theorems still check against the new text?
        if not os.path.exists(os.path.join(common.COQ, "Vedirect", "DrvRefine.vo")) or not os.path.exists(os.path.join(common.COQ, "Vedirect", "DrvProps.vo")):
            ch = changed() or [("?", "?")]
    mine = [c for c in ch if c[0] in deps or c[0] == "?"]
    res.cov["driver_functions_this_property_rests_on"] = deps
    if mine:
        res.broken.append(Broken("the driver functions this property rests on are no longer tied to the model (tie T-gen): changed or "
                                 "untranslatable %s" % ", ".join("%s in vedirect/%s" % c for c in mine),
                                 BROKEN.detail if BROKEN is not None else "Vedirect/DrvRefine.v or DrvProps.v no longer compiles against Gen/DrvImpl.v"))
        return False
    return True
