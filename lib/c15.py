"""C15: field lists expose exactly the documented bits and render deterministically."""
import os, re
from lib import common, tables
from lib.common import Broken

THEOREMS = ["C15_fields", "C15_render", "C15_tables"]


def run(res, args):
    res.assumptions = ["renderings are obtained from FieldListValue.CommaString/String through the register API (the value type cannot be constructed otherwise), 65 times each",
                       "a field-list type no product's register list uses (SolarOffReasons on the current tree) can only be exercised through its factory"]
    ok = tables.prepare(res, "C15", THEOREMS)
    from lib import apigen
    apigen.api_obligations(res, "C15")
    from lib import enumgen
    enumgen.enum_obligations(res, "C15")
    try:
        common.build_ocaml()
    except Broken as b:
        res.broken.append(b)
        return
    obs = os.path.join(common.BUILD, "c15.obs")
    rc, out = common.sh("%s fieldlist %s %d > %s" % (common.GVRUN, res.tier, res.seed, obs), timeout=900)
    if rc != 0:
        raise Broken("gvrun fieldlist failed", out[-2000:])
    rc, out = common.sh("%s c15 < %s" % (common.GVMODEL, obs), timeout=900)
    m = re.search(r"SUMMARY cases=(\d+) api=(\d+) distinct=(\d+) mismatches=(\d+) judge_failures=(\d+)", out)
    if rc != 0 or not m:
        raise Broken("gvmodel c15 failed", out[-2000:])
    cases, api, distinct, mism, bad = map(int, m.groups())
    lines = open(obs).read().splitlines()
    res.cov.update(evaluations=cases, distinct_nontrivial=distinct, api_renderings=api,
                   rule="3 field-list types x all combinations of documented bits x {other bits zero, all one, alternating, bits >= 32, random} plus all "
                        "65536 values of the 16-bit type (thorough: of every type) through the factory; a sample through the register API with 2/4/8-byte "
                        "responses, each rendering produced 65 times; fields compared with the model fl_fields, renderings judged by render_ok",
                   samples=lines[:: max(1, len(lines) // 5)][:5], disagreements_checked=mism, judge_failures=bad,
                   unreachable_via_api=[l.split()[0] for l in lines if " unreachable " in l])
    for l in lines:
        f = l.split()
        if len(f) > 2 and f[1] == "altered":
            res.add_violation("the field set decoded for one value changed when another value of the same type was decoded",
                              key="C15:altered:%s" % f[0], input={"factory": f[0], "raw": f[2]}, observed=l)
    for l in out.splitlines():
        if l.startswith("JUDGE-FAIL"):
            f = l.split()
            res.add_violation("field-list rendering: " + f[1], key="C15:%s:%s" % (f[1], f[2]), input={"factory": f[2], "raw": f[4]}, observed=l)
        if l.startswith("MISMATCH "):
            f = l.split()
            res.add_violation("decoded field set differs from the documented bits of the raw value", key="C15:fields:%s:%s" % (f[1], f[2]),
                              input={"factory": f[1], "via": f[2], "raw": f[3]}, observed=l)
    if mism and not res.violations:
        res.broken.append(Broken("correspondence field-list model vs implementation: %d disagreements (rendering order)" % mism, out[:1500]))
