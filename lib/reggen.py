"""T-gen for the register list: veregister/registerList.go and filter.go are translated into
coq/Gen/RegImpl.v on every run (`gvgen reg`) and the refinement theorems of coq/Tables/RegRefine.v are
re-checked against the new text."""
import os, re
from lib import common, drvgen
from lib.common import Broken

OWNERS = {
    "Len": ["C16"], "AppendNumberRegisterStruct": ["C16"], "AppendTextRegisterStruct": ["C16"],
    "AppendEnumRegisterStruct": ["C16"], "AppendFieldListRegisterStruct": ["C16"],
    "FilterRegister": ["C16", "C12"], "filterRegisters": ["C16", "C12"], "FilterByName": ["C16", "C12"],
    "GetRegisters": ["C16"],
}

REG_THEOREMS = {
    "C16": ["C16_reg_Len", "C16_reg_AppendNumber", "C16_reg_AppendText", "C16_reg_AppendEnum", "C16_reg_AppendFieldList",
            "C16_reg_filterRegisters", "C16_reg_FilterRegister", "C16_reg_FilterByName", "C16_reg_GetRegisters",
            "C16_reg_history", "C16_reg_history_view"],
    "C12": ["C12_reg_filterRegisters", "C12_reg_FilterRegister", "C12_reg_FilterByName"],
}

OUT = os.path.join(common.GEN, "RegImpl.v")
REF = os.path.join(common.COQ, "Tables", "RegImpl.reference")

BROKEN = None


def translate():
    global BROKEN
    BROKEN = None
    rc, o = common.sh([common.GVGEN, "reg", common.REPO, OUT], timeout=300)
    if rc != 0:
        BROKEN = Broken("the GoLite-D translator stopped: /repo/veregister/registerList.go, filter.go can no longer be translated (tie T-gen)", o[-3000:])
        if not os.path.exists(OUT) and os.path.exists(REF):
            common.write_if_changed(OUT, open(REF).read())


def changed():
    return sorted(set(n for (n, f) in drvgen.changed_vs(OUT, REF)))


def reg_obligations(res, pid):
    ths = REG_THEOREMS[pid]
    mine_fns = sorted(f for f, ps in OWNERS.items() if pid in ps)
    res.cov["reglist_source_tie"] = ("veregister/registerList.go and filter.go translated by gvgen reg into Gen/RegImpl.v on this run; "
                                     "refinement to Tables/RegList.v re-proved (Tables/RegRefine.v); this property carries the obligations of %s"
                                     % ", ".join(mine_fns))
    if BROKEN is not None:
        ch = sorted(set(n for (n, _) in drvgen.failed_functions(BROKEN.detail)) | set(changed()))
        res.cov["obligations"] = res.cov.get("obligations", 0) + len(ths)
        res.cov["changed_source_functions"] = ch
        f = ", ".join(ch)
        if not ch or any(c in mine_fns for c in ch):
            res.broken.append(BROKEN)
        else:
            res.partial.append("register-list source tie not re-established on this run: the translator stopped in %s, which another "
                               "property owns" % f)
        return False
    try:
        ob, di, rep, cmd, dt = common.prove(pid + "reg", ths)
    except Broken as b:
        ch = changed()
        res.cov["obligations"] = res.cov.get("obligations", 0) + len(ths)
        res.cov["changed_source_functions"] = ch
        mine = [c for c in ch if c in mine_fns]
        if mine or not ch:
            res.broken.append(Broken("the translated register-list operations no longer refine the model (tie T-gen): changed %s; %s"
                                     % (", ".join(mine) or "?", b.what), b.detail))
        else:
            res.partial.append("register-list source tie not re-established on this run: changed %s (reported by C16)" % ", ".join(ch))
        return False
    res.cov["obligations"] = res.cov.get("obligations", 0) + ob
    res.cov["discharged"] = res.cov.get("discharged", 0) + di
    res.cov["theorems"] = list(res.cov.get("theorems", [])) + ths
    res.cov["checker_cmd"] = res.cov.get("checker_cmd", "") + " && " + cmd
    ch = changed()
    if ch:
        res.cov["changed_source_functions"] = list(res.cov.get("changed_source_functions", [])) + ch
    return True
