"""C11: connecting identifies the product correctly for every device id."""
from lib import apirun

THEOREMS = ["C11_iff", "C11_supported", "C11_order"]


def run(res, args):
    res.assumptions = ["'supported' is the class specification of C12 (coq/Tables/RegFactory.v), not the code's own type switch",
                       "the register list of the returned object is compared (reflect.DeepEqual) with GetRegisterListByProduct(id); that function is checked against its specification by C12"]
    apirun.standard(res, args, "C11", "C11", THEOREMS,
                    "Classes for C11: all 65536 device ids (exhaustive, every run) answering ping and id query; silent at ping, silent at the id "
                    "query, malformed answers, write faults, async frames before the answers, text-protocol output of 100..5000 bytes before them.")
    if res.broken and not res.violations:
        # the object's register list is the code's own list for the id (compared in the run above); when the theorems about the
        # tables no longer hold, name the device ids whose list is not the list of their product class
        from lib import c12
        before = len(res.violations)
        c12.search(res)
        for v in res.violations[before:]:
            if isinstance(v.get("input"), dict) and "product_id" in v["input"]:
                v["what"] = "connecting to device id %s yields an object whose register list is not the list defined for that product class" % v["input"]["product_id"]
                v["key"] = "C11:list:%s" % v["input"]["product_id"]
                v["replay"] = "vedirectapi.NewRegisterApi against a device answering the id %s" % v["input"]["product_id"]
