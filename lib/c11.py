"""C11: connecting identifies the product correctly for every device id."""
from lib import apirun

THEOREMS = ["C11_iff", "C11_supported", "C11_order"]


def run(res, args):
    res.assumptions = ["'supported' is the class specification of C12 (coq/Tables/RegFactory.v), not the code's own type switch",
                       "the register list of the returned object is compared (reflect.DeepEqual) with GetRegisterListByProduct(id); that function is checked against its specification by C12"]
    apirun.standard(res, args, "C11", "C11", THEOREMS,
                    "Classes for C11: all 65536 device ids (exhaustive, every run) answering ping and id query; silent at ping, silent at the id "
                    "query, malformed answers, write faults, async frames before the answers.")
