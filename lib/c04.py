"""C04: resynchronisation and bounded retry."""
from lib import script

THEOREMS = ["C04_refines", "C04_success", "C04_gives_up", "C04_noise_fails", "C04_idle_flush", "C04_never_more_than_8", "C04_frames_written", "C04_value_at_once"]


def run(res, args):
    res.assumptions = [
        "the abstract line machine (coq/Vedirect/Resync.v) is the precise reading of 'within its first eight attempts the device delivers a valid matching response' (DESIGN.md section 6); it is evaluated on every fault-free script and compared with the implementation's result and frame count",
        "idle (>100 ms) is forced through the add-only hook VerifSetLastSent; the first call of a fresh instance uses natural timing",
    ]
    script.standard(res, args, "C04", "C04", THEOREMS,
                    "Classes for C04: all reaction sequences over {silence, noise, async, bad checksum, bad hex, foreign address, partial, "
                    "several frames, short response} up to length 2 (quick) / 4 (thorough) followed by the good frame, random sequences up to "
                    "length 9, stale bytes in the port and in the reader buffer with idle/busy call histories, stale data before the first call.",
                    partial=["the refinement theorem covers scripts without empty reads (0,nil) and without no-progress ports; those are exercised by the judge and bounded by C06"])
