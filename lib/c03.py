"""C03: every transmitted command is a well-formed HEX frame."""
import os, re
from lib import common, script
from lib.common import Broken

THEOREMS = ["C03_wellformed", "C03_wellformed_any_payload", "C03_get_payload", "C03_no_payload"]


def run(res, args):
    res.assumptions = [
        "the device side is a silent scripted port; frames are captured at IOPort.Write",
        "Go's fmt %X/%02X are modelled (fmt_X8, fmt_02X8, fmt_X_bytes), not verified; the exhaustive comparison below checks the model against them on the whole domain",
    ]
    common.build_harness()
    from lib import gen, drvgen
    gen.regenerate_all()
    rc, out = common.coq_make()
    ok = common.standard_proof_cov(res, "C03", THEOREMS)
    drvgen.src_obligations(res, "C03")
    try:
        common.build_ocaml()
    except Broken as b:
        res.broken.append(b)
        return
    obs = os.path.join(common.BUILD, "c03.obs")
    rc, out = common.sh("%s tx > %s" % (common.GVRUN, obs), timeout=600)
    if rc != 0:
        raise Broken("gvrun tx failed", out[-2000:])
    rc, out = common.sh("%s c03 < %s" % (common.GVMODEL, obs), timeout=900)
    if rc != 0:
        raise Broken("gvmodel c03 failed", out[-2000:])
    m = re.search(r"SUMMARY cases=(\d+) frames=(\d+) distinct_frames=(\d+) mismatches=(\d+) judge_failures=(\d+)", out)
    if not m:
        raise Broken("gvmodel c03 gave no summary", out[-2000:])
    cases, frames, distinct, mism, bad = map(int, m.groups())
    samples = [l for l in open(obs).readlines()[::90001]][:8]
    res.cov.update(evaluations=cases, distinct_nontrivial=distinct, exhaustive=True,
                   rule="all 7 commands x all 65536 addresses through VeCommand, plus Ping, GetDeviceId and "
                        "VeCommandGet/GetUint/GetInt/GetString for all 65536 addresses against a silent device; "
                        "distinct = distinct frames written; every frame compared with the extracted tx_frame and "
                        "judged by the independent grammar C03_frame_ok; write-call count must equal frame count",
                   samples=[s.strip() for s in samples], disagreements_checked=mism, judge_failures=bad,
                   frames=frames)
    for l in out.splitlines():
        if l.startswith("JUDGE-FAIL"):
            f = l.split()
            res.add_violation("transmitted frame violates the frame grammar / checksum / payload rule",
                              key="C03:%s:%s:%s" % (f[1], f[2], f[3]),
                              input={"entry": f[1], "cmd": int(f[2]), "addr": int(f[3])}, observed=l)
    # frames written under write/read/flush faults and over retries: the scripted-port corpus
    try:
        r = script.run_corpus(res.tier, res.seed)
        app, nf = r["summ"].get("C03", (0, 0))
        res.cov["fault_history_frames_judged"] = app
        res.cov["fault_history_judge_failures"] = nf
        for f in r["fails"].get("C03", [])[:5]:
            line = r["byid"].get(f["case_id"], "")
            res.add_violation(f["what"], key="C03:script:" + re.sub(r"^\S+ ", "", line)[:160], input=line,
                              observed=r["implby"].get(f["case_id"], ""))
    except script.HangFound as h:
        res.broken.append(Broken("the implementation hangs on a generated case; see C06", h.line))
    # frames written through the register API (connect, reads, streams) for products of every class: after the
    # device id is known the framing must not change
    try:
        from lib import apirun
        a = apirun.run(res.tier, res.seed, "C10")
        napi = nbad = 0
        for cl, ol in zip(a["lines"], a["impl"]):
            m2 = re.search(r" W=(\S+)", ol)
            if not m2 or m2.group(1) == "-":
                continue
            for fh in m2.group(1).split(","):
                napi += 1
                fr = bytes.fromhex(fh)
                okf = re.fullmatch(rb":[0-9A-F]([0-9A-F]{2})+\n", fr) is not None
                if okf:
                    body = fr[1:-1].decode()
                    okf = (int(body[0], 16) + sum(int(body[i:i + 2], 16) for i in range(1, len(body), 2))) % 256 == 0x55
                if not okf:
                    nbad += 1
                    if nbad <= 3:
                        res.add_violation("a frame written through the register API is not well-formed: %r" % fr, key="C03:api:" + fh[:40],
                                          input=cl, observed=ol[:600])
        res.cov["register_api_frames_judged"] = napi
        res.cov["register_api_judge_failures"] = nbad
    except Broken as b:
        res.broken.append(b)
    if mism and not bad:
        first = [l for l in out.splitlines() if l.startswith("MISMATCH")][:5]
        res.broken.append(Broken("correspondence tx_frame (model) vs frames written by the driver: %d disagreements" % mism,
                                 "\n".join(first)))
