"""C19: BLE advertisement handling decrypts and dispatches correctly and never crashes."""
import os, re
from lib import common, gen
from lib.cases import Rng
from lib.common import Broken

THEOREMS = ["C19_pad", "C19_short_ignored", "C19_bad_key", "C19_dispatch", "C19_ctr_prefix", "C19_total", "C19_mac_lookup", "C19_mac_address", "C19_aes_fips197", "C19_aes_ctr"]


def generate(tier, seed):
    rng = Rng(seed ^ 0xC19)
    lines = []
    n = [0]

    def h(key, raw, dbg=None):
        n[0] += 1
        if dbg is None:
            dbg = rng.below(2)
        lines.append("h c%d key=%s raw=%s dbg=%d" % (n[0], bytes(key).hex() or "-", bytes(raw).hex() or "-", dbg))

    valid_solar = [3, 0] + [0x37, 0x05, 0x10, 0x00, 0x20, 0x00, 0x30, 0x00, 0x00, 0x01]
    keys = [rng.bytes(16), rng.bytes(24), rng.bytes(32), [0] * 16, [0xFF] * 32]
    # all payload lengths 0..64 x contents x record types x keys
    for L in range(0, 65):
        for content in ("zero", "ones", "random", "random"):
            raw = [0] * L if content == "zero" else [0xFF] * L if content == "ones" else rng.bytes(L)
            for rtype in (1, rng.below(256), 0, 2, 0xFF):
                r = list(raw)
                if L > 4:
                    r[4] = rtype
                h(rng.choice(keys), r)
    # every record type
    for rtype in range(256):
        r = rng.bytes(8 + 16)
        r[4] = rtype
        h(keys[0], r)
    # key lengths 0..40 (valid 16/24/32 and invalid)
    for kl in range(0, 41):
        for L in (0, 8, 9, 20, 24, 25):
            r = rng.bytes(L)
            if L > 4:
                r[4] = 1
            h(rng.bytes(kl), r)
    # keys whose bytes happen to be text (hex digits, as key strings are displayed; printable ASCII): a key is the
    # bytes the configuration hands over, of 16, 24 or 32 bytes -- 48 or 64 bytes are no key at all
    for kl in (16, 24, 32, 48, 64):
        for alphabet in (b"0123456789abcdef", b"0123456789ABCDEF", b"abcdefghijklmnopqrstuvwxyz"):
            key = [alphabet[rng.below(len(alphabet))] for _ in range(kl)]
            for L in (9, 20, 24, 40):
                r = rng.bytes(L)
                r[4] = 1 if L % 2 == 0 else 2
                h(key, r)
    # empty / nil key with and without debug logging, every payload length around the header
    for L in (0, 8, 9, 10, 24, 40):
        for dbg in (0, 1):
            h([], rng.bytes(L), dbg)
    # nonces: boundaries (counter carry cannot reach the nonce bytes, which are the high bytes of the big-endian counter)
    for nonce in [0, 1, 0xFF, 0x100, 0xFFFE, 0xFFFF, 0x7FFF, 0x8000] + [rng.below(65536) for _ in range(20 if tier == "quick" else 200)]:
        r = rng.bytes(8 + rng.below(50) + 1)
        r[4], r[5], r[6] = 1, nonce & 0xFF, nonce >> 8
        h(rng.choice(keys), r)
    # encryptions of valid solar records: the decoder sees a valid record (needs the real cipher: done by the harness oracle? no:
    # plaintext structure is irrelevant to the model comparison; random ciphertext gives random plaintext, valid enums occur rarely)
    for _ in range(3000 if tier == "quick" else 40000):
        r = rng.bytes(8 + rng.below(40) + 1)
        r[4] = 1
        h(rng.choice(keys[:3]), r)
    # device lookup
    def m(addr, macs, wf=None):
        n[0] += 1
        lines.append("m c%d addr=%s macs=%s%s" % (n[0], addr.encode("latin1").hex() or "-", ",".join(bytes(x).hex() or "-" for x in macs),
                                                  " wf=%s" % wf if wf else ""))
    for _ in range(300 if tier == "quick" else 3000):
        L = rng.choice([6, 6, 6, 6, 4, 5, 7, 8, 9, 1, 20])     # the property does not restrict the MAC's length
        macs = [rng.bytes(L) for _ in range(rng.below(5) + 1)]
        if rng.chance(1, 4):
            macs.append(list(macs[0]))                     # duplicate: the first one wins
        pick = rng.below(len(macs) + 1)
        target = macs[pick] if pick < len(macs) else rng.bytes(L)
        s = ":".join(("%02X" if rng.chance(1, 2) else "%02x") % b for b in target)
        exp = "none"
        for i, mm in enumerate(macs):
            if mm == target:
                exp = "dev%d" % i
                break
        m(s, macs, wf=exp)
    for s in ["", ":", "D4:9D:D2:92:62", "D4:9D:D2:92:62:0", "D4:9D:D2:92:62:02:11", "G4:9D:D2:92:62:02", "D49DD2926202", "d4:9d:d2:92:62:02",
              "D4-9D-D2-92-62-02", " D4:9D:D2:92:62:02", "D4:9D:D2:92:62:0Z", "::::::", "D4:9D::D2:92:62:02", "é", "D4:9D:D2:92:62:02\n"]:
        m(s, [[0xD4, 0x9D, 0xD2, 0x92, 0x62, 0x02], [], [0xD4, 0x9D, 0xD2, 0x92, 0x62]])
    return lines


def run(res, args):
    res.assumptions = ["AES is the Coq model Ble/Aes.v (FIPS-197 Cipher for 128/192/256-bit keys, checked against the standard's example vectors); the harness additionally prints crypto/aes single-block encryptions of the counter blocks nonce_lo nonce_hi 0^14 (+i, big-endian), which are compared with the model block by block",
                       "the handler's effects are read from its log output (plaintext, padded bytes, decoded record) through the add-only hook ble/verif_hooks.go",
                       "for malformed address strings the model mirrors hex.DecodeString's partial result; the judge only requires 'no panic'"]
    common.build_harness()
    gen.regenerate_all()
    if gen.BLE_BROKEN is not None:
        res.broken.append(gen.BLE_BROKEN)
    common.coq_make()
    common.standard_proof_cov(res, "C19", THEOREMS)
    from lib import blehgen
    blehgen.src_obligations(res)
    common.build_ocaml()
    lines = generate(res.tier, res.seed)
    cf = os.path.join(common.BUILD, "c19cases.txt")
    ob = os.path.join(common.BUILD, "c19impl.obs")
    open(cf, "w").write("\n".join(lines) + "\n")
    rc, out = common.sh("timeout 900 %s blehandler %s > %s" % (common.GVRUN, cf, ob))
    if rc != 0:
        raise Broken("gvrun blehandler failed", out[-2000:])
    rc, out = common.sh("timeout 1800 %s blehandler %s %s" % (common.GVMODEL, cf, ob))
    m = re.search(r"SUMMARY cases=(\d+) distinct=(\d+) mismatches=(\d+) judge_failures=(\d+)", out)
    if rc != 0 or not m:
        raise Broken("gvmodel blehandler failed", out[-2000:])
    cases, distinct, mism, bad = map(int, m.groups())
    res.cov.update(evaluations=cases, distinct_nontrivial=distinct,
                   rule="payload lengths 0..64 x {zero, ones, random} x record types, all 256 record types, key lengths 0..40, boundary and random "
                        "nonces, random ciphertexts with type 0x01, device lookups with well-formed (both cases) and malformed address strings; "
                        "outcome, plaintext and decoded record compared with the model; the judge checks CTR decryption against the AES oracle, the "
                        "padding shape, the dispatch and the lookup expectation",
                   samples=lines[:: max(1, len(lines) // 5)][:5], disagreements_checked=mism, judge_failures=bad)
    res.partial.append("cipher.NewCTR is modelled (ctr_stream), crypto/aes is compared with the FIPS-197 model on the blocks used")
    obs = open(ob).read().splitlines()
    for l in out.splitlines():
        if l.startswith("JUDGE-FAIL"):
            res.add_violation(l.split("::", 1)[1].strip(), key="C19:" + l.split("::", 1)[1].strip()[:80], input=l.split("::")[0][15:], observed=l)
    if mism and not res.violations:
        res.broken.append(Broken("correspondence handler model vs implementation: %d disagreements" % mism, "\n".join([l for l in out.splitlines() if l.startswith("MISMATCH")][:4])))
