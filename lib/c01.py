"""C01: receive integrity."""
from lib import script

THEOREMS = ["C01_get_sound", "C01_uint_sound", "C01_int_sound", "C01_string_sound", "C01_device_id_sound", "C01_line_sound", "C01_get_value_sound", "C01_foreign_address", "C01_nonzero_flag",
            "C01_single_substitution", "C01_valid_responseb_spec"]


def run(res, args):
    res.assumptions = [
        "scripted port (harness/sport) and its Coq mirror Port.v; bufio.Reader, fmt, strconv, encoding/hex modelled, not verified",
        "judge window = bytes buffered before the call (from the model's state for the same script) ++ bytes handed out by the port during the call",
    ]
    script.standard(res, args, "C01", "C01", THEOREMS,
                    "Classes for C01: every single-character substitution/deletion/insertion and every truncation of valid "
                    "exchanges, multi-character corruption, splices, every response nibble, foreign addresses, every flag byte, "
                    "noise and async prefixes, answers at attempt 1..8, both hex cases.",
                    partial=[])
