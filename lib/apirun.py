"""Register-API pipeline shared by C09, C10, C11."""
import collections, json, os, re
from lib import common, apicases, gen
from lib.common import Broken

_cache = {}


def run_lines(lines, tag):
    cf = os.path.join(common.BUILD, "apicases-%s.txt" % tag)
    io_ = os.path.join(common.BUILD, "apiimpl-%s.obs" % tag)
    open(cf, "w").write("\n".join(lines) + "\n")
    rc, out = common.sh("ulimit -v 8000000; timeout 1800 %s api %s > %s" % (common.GVRUN, cf, io_))
    if rc == 3:
        hung = open(io_).read().splitlines()[-1].split(" ", 1)[0]
        raise common.Hang("a register-API call does not return within 20 s (hang); in the model every call of this history returns",
                          [l for l in lines if l.startswith(hung + " ")][0])
    if rc != 0:
        raise Broken("gvrun api failed (rc=%d)" % rc, out[-2000:])
    rc, jout = common.sh("timeout 3000 %s api %s %s" % (common.GVMODEL, cf, io_))
    if rc != 0:
        raise Broken("gvmodel api failed (rc=%d)" % rc, jout[-2000:])
    return open(io_).read().splitlines(), jout


def run(tier, seed, which):
    key = (tier, seed, which)
    if key in _cache:
        return _cache[key]
    cs = apicases.generate(tier, seed, which)
    lines = [c.line() for c in cs]
    impl, jout = run_lines(lines, which.replace(",", "") + tier)
    summ, fails, mism = {}, collections.defaultdict(list), []
    for m in re.finditer(r"JUDGE-SUMMARY (\w+) applicable=(\d+) failures=(\d+)", jout):
        summ[m.group(1)] = (int(m.group(2)), int(m.group(3)))
    for l in jout.splitlines():
        if l.startswith("JUDGE-FAIL"):
            f = l.split(" ", 3)
            fails[f[1]].append({"case_id": f[2], "what": f[3]})
        if l.startswith("MISMATCH"):
            mism.append(l)
    byid = {l.split(" ", 1)[0]: l for l in lines}
    implby = {l.split(" ", 1)[0]: l for l in impl}
    cls = collections.Counter(re.search(r"cls=(\S+)", l).group(1) for l in lines)
    ops = collections.Counter()
    for l in lines:
        for o in re.search(r"ops=(\S+)", l).group(1).split(";"):
            ops[o.split("/")[0]] += 1
    r = dict(lines=lines, impl=impl, summ=summ, fails=fails, mism=mism, byid=byid, implby=implby, cls=dict(cls), ops=dict(ops))
    _cache[key] = r
    return r


def standard(res, args, pid, prop_file, theorems, note, partial=()):
    common.build_harness()
    gen.regenerate_all()
    common.coq_make()
    common.standard_proof_cov(res, prop_file, theorems)
    from lib import apigen
    if pid in apigen.API_THEOREMS:
        apigen.api_obligations(res, pid)
    from lib import drvgen
    drvgen.api_dependency(res, pid)
    common.build_ocaml()
    r = run(res.tier, res.seed, pid)
    app, nf = r["summ"].get(pid, (0, 0))
    nm = r["summ"].get("MISMATCH", (0, 0))[1]
    lines = r["lines"]
    res.cov.update(evaluations=len(lines), judge_applications=app, distinct_nontrivial=len(set(l.split(" ", 1)[1] for l in lines)),
                   rule="register-API cases against the scripted port: every case is run on the real vedirectapi code and on the extracted Coq "
                        "model Api.v (results op by op, float64 results against the model's exact rational within 1e-9, frames written); the "
                        "judge for %s is evaluated on the implementation's observation. %s" % (pid, note),
                   samples=lines[:: max(1, len(lines) // 6)][:6], classes=r["cls"], operations=r["ops"],
                   disagreements_checked=nm, judge_failures=nf)
    res.partial += list(partial)
    for f in r["fails"].get(pid, [])[:10]:
        line = r["byid"].get(f["case_id"], "")
        res.add_violation(f["what"], key="%s:%s" % (pid, re.sub(r"\d+", "N", f["what"])[:120]), input=line, observed=r["implby"].get(f["case_id"], ""))
    for f in r["fails"].get("C06", [])[:3]:
        if pid in ("C10", "C11"):
            res.add_violation(f["what"], key="%s:panic" % pid, input=r["byid"].get(f["case_id"], ""), observed=r["implby"].get(f["case_id"], ""))
    if nm and not r["fails"].get(pid):
        res.broken.append(Broken("correspondence Api model vs implementation: %d disagreements" % nm, "\n".join(r["mism"][:5])))
    return r
