"""C10: register streaming: ordered, exactly-once, abort on error, stop on cancellation."""
from lib import apirun

THEOREMS = ["C10_stream", "C10_plan", "C10_no_handler_no_io", "C10_io_only_for_read_registers", "C10_maps", "C10_maps_of_product_lists"]


def run(res, args):
    res.assumptions = ["a concurrent cancel() is only ever observed at the check before each register: every schedule reduces to 'visible after k delivered registers' (cancel_after); the harness cancels before the run, inside the k-th callback and inside the k-th Write",
                       "all registers are read 'busy' (no idle flush) through the hook VerifSetLastSent"]
    apirun.standard(res, args, "C10", "C10", THEOREMS,
                    "Classes for C10: every product class's list, all 16 subsets of nil handlers, a device failure (error flag, undefined enum "
                    "code / bad width, silence) at every register position, cancellation before the run / inside every k-th callback / inside "
                    "the k-th Write, random sub-lists in random order, the map-returning variant.")
