"""C20: the CLI reports what the device holds, end to end.
The freshly built vecli binary talks to a device simulator behind a pseudo-terminal; its
output is parsed and compared with the extracted Coq model (Api.v / Cli.v) run on the same
device script."""
import itertools, json, os, pty, re, select, subprocess, termios, threading, time, tty
from lib import common, gen, apicases
from lib.cases import Rng, get_resp, done_resp, ping_resp, le, ev_data
from lib.common import Broken

THEOREMS = ["C20_output", "C20_silent_during_connect", "C20_silent_after_connect", "C20_fixed6_value", "C20_fixed6_rounding"]
VECLI = os.path.join(common.BUILD, "vecli")


def build_vecli():
    rc, out = common.sh(["go", "build", "-o", VECLI, "./vecli"], cwd=common.REPO, env=common.GOENV, timeout=600)
    if rc != 0:
        raise Broken("vecli no longer builds", out[-3000:])


class Device(threading.Thread):
    """answers VE.Direct HEX frames on the pty master: `answers` maps the frame text to the reply bytes; falls silent
    after `silent_after` answers (None = never)"""

    def __init__(self, master, answers, silent_after=None, partial=False):
        super().__init__(daemon=True)
        self.master, self.answers, self.silent_after, self.partial = master, answers, silent_after, partial
        self.received, self.sent, self.count, self.stop = [], [], 0, False

    def run(self):
        buf = b""
        while not self.stop:
            r, _, _ = select.select([self.master], [], [], 0.05)
            if not r:
                continue
            try:
                data = os.read(self.master, 4096)
            except OSError:
                return
            if not data:
                return
            buf += data
            while b"\n" in buf:
                line, buf = buf.split(b"\n", 1)
                frame = line + b"\n"
                self.received.append(frame)
                if self.silent_after is not None and self.count >= self.silent_after:
                    if self.partial and self.count == self.silent_after:
                        ans = self.answers.get(frame, b"")
                        half = ans[: max(1, len(ans) // 2)]
                        os.write(self.master, half)          # goes silent in the middle of a frame
                        self.sent.append(half)
                        self.count += 1
                    continue
                ans = self.answers.get(frame)
                if ans is not None:
                    os.write(self.master, ans)
                    self.sent.append(ans)
                    self.count += 1


def run_cli(answers, extra_args=(), silent_after=None, partial=False, timeout=30):
    master, slave = pty.openpty()
    tty.setraw(slave)
    name = os.ttyname(slave)
    dev = Device(master, answers, silent_after, partial)
    dev.start()
    t0 = time.time()
    try:
        p = subprocess.run([VECLI, "vedirect", "-d", name] + list(extra_args), stdout=subprocess.PIPE, stderr=subprocess.PIPE,
                           timeout=timeout)
        out, err, rc, hung = p.stdout.decode("utf8", "replace"), p.stderr.decode("utf8", "replace"), p.returncode, False
        outb = p.stdout
    except subprocess.TimeoutExpired as e:
        out, err, rc, hung = (e.stdout or b"").decode("utf8", "replace"), "", -1, True
        outb = e.stdout or b""
    dt = time.time() - t0
    dev.stop = True
    dev.join(1)
    os.close(master)
    os.close(slave)
    return dict(out=out, outb=outb, err=err, rc=rc, hung=hung, wall=dt, received=dev.received, sent=dev.sent)


def tx(cmd, addr=None):
    data = [] if addr is None else [addr & 0xFF, addr >> 8, 0]
    c = (0x55 - cmd - sum(data)) & 0xFF
    return (":%X" % cmd + "".join("%02X" % b for b in data) + "%02X" % c + "\n").encode()


def scenario(rng, t, dev, long_text=False):
    """register contents of a simulated device: (answers dict, api-case line for the model, registers)"""
    regs = apicases.regs_of(t, dev)
    answers = {tx(1): ping_resp(), tx(4): done_resp(le(dev, 2))}
    react = [[ev_data(ping_resp())], [ev_data(done_resp(le(dev, 2)))]]
    # stream order: numbers, texts, enums, field lists
    for kind in (1, 2, 3, 4):
        for r in [x for x in regs if x["kind"] == kind]:
            v = apicases.good_value(rng, r, t)
            if kind == 1 and not r["signed"] and rng.chance(1, 3):
                # the device decides how many bytes it sends: un24 and other odd widths with the high bytes in use
                w = rng.choice([3, 5, 6, 7, 8])
                v = rng.bytes(w - 1) + [1 + rng.below(255)]
            if kind == 2 and rng.chance(1, 2):
                v = list(b" Victron %d  " % rng.below(100)) + [0, 0]
            elif kind == 2 and rng.chance(1, 2):
                # control characters, a byte that is not UTF-8, a two-byte character: printed as the device holds them,
                # whatever the logging flags are
                v = list(rng.choice([b"Cabin\tbank %d", b"a\x01b\x7f %d", b"M\xe9ller %d", b"caf\xc3\xa9\t%d", b"x\x00y %d"]) % rng.below(100)) + [0] * rng.below(3)
            if kind == 2 and long_text:
                # a long text (a user-set description): more than 256 bytes arrive during this one command
                n = rng.choice([123, 130, 150, 200])
                v = [0x41 + (i * 7 + n) % 26 for i in range(n)] + [0] * rng.below(3)
                long_text = False
            a = get_resp(r["addr"], v)
            answers[tx(7, r["addr"])] = a
            react.append([ev_data(a)])
    case = apicases.ACase("cli", ["connect", "stream/15/all/-/m"], react, {"dev": dev})
    return answers, case, regs


LINE = re.compile(r"^([A-Za-z0-9_]+)=(.*)$")


def parse_cli_values(out):
    lines = out.splitlines()
    return lines


def compare_with_model(res, dev, regs, cli_lines, model_tokens, what, flnames={}, raw=None):
    """cli_lines: value lines printed by the CLI; model_tokens: dict name -> model value token"""
    by_sort = {r["name"]: r["sort"] for r in regs}
    kinds = {r["name"]: r["kind"] for r in regs}
    names, prev = [], None
    ok = True
    for li, l in enumerate(cli_lines):
        m = LINE.match(l)
        if not m or m.group(1) not in by_sort:
            res.add_violation("%s: unexpected output line %r" % (what, l), key="C20:line", input={"device_id": dev}, observed=l)
            return False
        name, val = m.group(1), m.group(2)
        names.append(name)
        if prev is not None and by_sort[name] < prev:
            res.add_violation("%s: lines are not ordered by non-decreasing sort key at %s" % (what, name), key="C20:order", input={"device_id": dev})
            ok = False
        prev = by_sort[name]
        tok = model_tokens.get(name)
        if tok is None:
            res.add_violation("%s: register %s printed but not in the model's result" % (what, name), key="C20:extra", input={"device_id": dev})
            ok = False
            continue
        k = kinds[name]
        good = True
        if k == 1:
            num, den = tok[1:].split("#")[0].split("/")
            q = int(num) / int(den)
            mm = re.match(r"^(-?\d+\.\d{6}|NaN|[+-]Inf)", val)
            if "%" in tok:
                # exact: the model's binary64 value rounded half-even to six decimals (Api/Fixed.v)
                good = bool(mm) and mm.group(1) == tok.split("%", 1)[1]
            else:
                good = bool(mm) and mm.group(1) not in ("NaN", "+Inf", "-Inf") and abs(float(mm.group(1)) - q) <= 5e-7 + 1e-9 * max(1, abs(q))
        elif k == 2:
            if raw is not None and li < len(raw) and b"=" in raw[li]:
                good = raw[li].split(b"=", 1)[1] == bytes.fromhex(tok[1:])      # byte for byte
            else:
                good = val.encode("utf8", "replace") == bytes.fromhex(tok[1:]) or val == bytes.fromhex(tok[1:]).decode("utf8", "replace")
        elif k == 3:
            idx, nm = tok[1:].split(":")
            good = val == "%s:%s" % (idx, bytes.fromhex(nm).decode())
        else:
            # the set fields' names, each once, separated by ", " (order is C15's subject; names may contain ", ")
            fac = [r for r in regs if r["name"] == name][0]["factory"]
            nm = flnames.get(fac, {})
            setnames = sorted(nm.get(x.split(":")[0], "?") for x in tok[1:].split(",") if ":" in x and x.split(":")[1] == "1")
            good = False
            if len(setnames) <= 6:
                good = any(val == ", ".join(p) for p in itertools.permutations(setnames))
            else:
                good = len(val) == len(", ".join(setnames)) and all(n in val for n in setnames)
        if not good:
            res.add_violation("%s: register %s printed as %r, the device holds %s" % (what, name, val, tok), key="C20:value:%s" % name,
                              input={"device_id": dev, "register": name}, observed=l, expected=tok)
            ok = False
    if sorted(names) != sorted(model_tokens):
        missing = sorted(set(model_tokens) - set(names))
        res.add_violation("%s: %d value lines for %d registers of the product's list (missing %s)" % (what, len(names), len(model_tokens), missing[:5]),
                          key="C20:count", input={"device_id": dev})
        ok = False
    return ok


def run(res, args):
    res.assumptions = ["the serial line discipline, the 200 ms read timeout of tarm/serial, the kernel's pty and process exit are runtime behaviour: exercised, not proved",
                       "printed numbers (%f, six decimals) are compared as strings with the model's binary64 value rounded half-even to six decimals (Api/Float.v, Api/Fixed.v); the unit text after the number is not compared",
                       "the order of lines with equal sort keys is unspecified (map iteration before a stable sort)"]
    common.build_harness()
    gen.regenerate_all()
    common.coq_make()
    common.standard_proof_cov(res, "C20", THEOREMS)
    from lib import apigen
    apigen.api_obligations(res, "C20")
    common.build_ocaml()
    build_vecli()
    t = apicases.tables()
    rng = Rng(res.seed ^ 0xC20)
    devs = [d for d in apicases.REP_IDS if str(d) in t["of"]]
    if res.tier == "quick":
        devs = devs[::2] + [devs[-1]]
    os.makedirs(os.path.join(common.BUILD, "tmp"), exist_ok=True)
    evals, samples = 0, []
    for dev in devs:
        for rep in range(1 if res.tier == "quick" else 3):
            flags = [[], ["-v"], ["--io-log", os.path.join(common.BUILD, "tmp", "c20-io.log")]][(rep + devs.index(dev)) % 3]
            answers, case, regs = scenario(rng, t, dev, long_text="--io-log" in flags)
            cf = os.path.join(common.BUILD, "c20case.txt")
            open(cf, "w").write(case.line() + "\n")
            rc, mout = common.sh("%s apimodel %s" % (common.GVMODEL, cf))
            m = re.search(r" R=(\S+);M(\w+)\|(\S*)\|1", mout)
            if rc != 0 or not m or m.group(2) != "ok":
                raise Broken("the model does not complete the CLI scenario for device %#x" % dev, mout[-1500:])
            model_tokens = dict(x.split("=", 1) for x in m.group(3).split("~")) if m.group(3) else {}
            if "--io-log" in flags and os.path.exists(flags[1]):
                os.remove(flags[1])
            r = run_cli(answers, flags)
            evals += 1
            rawl = [x for x in r["outb"].split(b"\n") if x != b""]
            lines = [x.decode("utf8", "replace") for x in rawl]
            what = "device %#06x flags %s" % (dev, " ".join(flags) or "-")
            samples.append({"device_id": dev, "flags": flags, "first_lines": lines[:3], "wall_s": round(r["wall"], 2)})
            if r["hung"]:
                res.add_violation("%s: vecli did not terminate within 30 s" % what, key="C20:hang", input={"device_id": dev})
                continue
            if not lines or not re.match(r"^fetched %d registers, " % len(model_tokens), lines[0]):
                res.add_violation("%s: first line %r does not report %d fetched registers" % (what, lines[:1], len(model_tokens)),
                                  key="C20:first-line", input={"device_id": dev}, observed=r["out"][:500])
                continue
            compare_with_model(res, dev, regs, lines[1:], model_tokens, what, t.get("flnames", {}), raw=rawl[1:])
            # frames the device saw: ping, device id, then one Get per register in the model's order
            if "--io-log" in flags:
                rc2, rout = common.sh("%s ioreplay %s" % (common.GVRUN, flags[1]))
                rl = rout.splitlines()
                if not rl or not rl[0].startswith("REPLAY-OK"):
                    res.add_violation("%s: the written I/O log does not replay: %s" % (what, rl[:1]), key="C20:replay", input={"device_id": dev}, observed=rout[:500])
                elif sorted(rl[1:]) != sorted(lines[1:]):
                    res.add_violation("%s: replaying the I/O log yields different values" % what, key="C20:replay-values", input={"device_id": dev},
                                      expected=lines[1:6], observed=rl[1:6])
                evals += 1
    # a device that falls silent: during connect, after k answers (between frames and in the middle of a frame)
    # devices whose lists end with field-list registers (read last) and one without
    cands = [d for d in (0xA053, 0xA231, 0x203, 0xA381, 0xA056, 0xA2B1) if str(d) in t["of"]]
    silent_devs = cands[:2] if res.tier == "quick" else cands
    for dev2 in silent_devs:
        answers, case, regs = scenario(rng, t, dev2)
        nregs = len(regs)
        if res.tier == "quick":
            ks = [0, 1, 2, 3, nregs // 2 + 2, nregs, nregs + 1]
        else:
            ks = [0, 1] + list(range(2, nregs + 2))
        for k in ks:
            for partial in (False, True):
                if partial and (k == 0 or (res.tier == "quick" and k not in (3, nregs + 1))):
                    continue
                sflags = [[], ["--io-log", os.path.join(common.BUILD, "tmp", "c20-io-silent.log")], ["-v"],
                          ["-v", "--io-log", os.path.join(common.BUILD, "tmp", "c20-io-silent.log")]][(k + (1 if partial else 0) + silent_devs.index(dev2)) % 4]
                r = run_cli(answers, sflags, silent_after=k, partial=partial, timeout=30)
                evals += 1
                what = "device %#06x silent after %d answers%s flags %s" % (dev2, k, " (mid-frame)" if partial else "", " ".join(sflags[:1]) or "-")
                lines = r["out"].splitlines()
                if r["hung"]:
                    res.add_violation("%s: vecli hangs (no exit within 30 s)" % what, key="C20:hang", input={"device_id": dev2, "silent_after": k, "partial": partial})
                    continue
                nget = sum(1 for f in r["received"] if f.startswith(b":7"))
                if k < 2:
                    if len(lines) != 1 or not lines[0].startswith("error creating api: "):
                        res.add_violation("%s: expected only the 'error creating api' line, got %r" % (what, lines[:3]), key="C20:silent-connect",
                                          input={"device_id": dev2, "silent_after": k}, observed=r["out"][:400])
                else:
                    if len(lines) != 2 or not lines[0].startswith("error fetching registers: ") or not lines[1].startswith("fetched 0 registers, "):
                        res.add_violation("%s: expected 'error fetching registers' then 'fetched 0 registers', got %r" % (what, lines[:3]),
                                          key="C20:silent-fetch", input={"device_id": dev2, "silent_after": k, "partial": partial}, observed=r["out"][:400])
                    answered = k - 2 + (1 if partial else 0)
                    if nget > answered + 8:
                        res.add_violation("%s: %d Get frames written, at most 8 for the unanswered register" % (what, nget), key="C20:silent-frames",
                                          input={"device_id": dev2, "silent_after": k})
    res.cov.update(evaluations=evals, distinct_nontrivial=evals,
                   rule="the freshly built vecli binary against a pty device simulator: representative products of every class x random register "
                        "contents x flags {-, -v, --io-log}; value lines parsed and compared with the model run on the same script, line order by "
                        "sort key, register count; I/O log replayed through a lookup port; a device silent at ping, at the id query and after k "
                        "answers, between frames and in the middle of a frame",
                   samples=samples[:6])
    res.partial += ["the serial line discipline, the read timeout and process exit are runtime behaviour exercised, not proved",
                    "printf formatting (%f, %s, %d) is checked by parsing the real output, not modelled"]
    rc, st = common.sh("git -C %s status --porcelain" % common.REPO)
    if st.strip() and "go.mod" in st:
        common.sh("git -C %s checkout -- go.mod go.sum" % common.REPO)
