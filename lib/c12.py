"""C12: each product gets exactly the register list of its product class."""
import re
from lib import common, tables

THEOREMS = ["C12_by_class", "C12_classes_inhabited"]


def run(res, args):
    res.assumptions = ["the dumper calls GetRegisterListByProduct for all 65536 ids ascending, then descending, then an interleaved sequence, and records every attribute of every register (a history-dependent result makes obs_reglist_stable false)",
                       "class exclusions are written in coq/Tables/RegFactory.v from the property text"]
    ok = tables.prepare(res, "C12", THEOREMS)
    from lib import reggen
    reggen.reg_obligations(res, "C12")
    obs = open(common.GEN + "/Obs.v").read()
    m = re.search(r"Definition obs_reglist_of .*?\n\]\.", obs, re.S)
    n = len(re.findall(r"^\s*\(\d+, \(\d+, \d+\)\)", m.group(0), re.M)) if m else 0
    res.cov.update(evaluations=2 * 65536 + 10, distinct_nontrivial=max(n, 2), exhaustive=True,
                   rule="complete observation of GetRegisterListByProduct on all 65536 ids (three passes) and of the exported family lists, "
                        "regenerated from /repo; distinct non-trivial = ids with a non-empty list; theorem closed by computation over the complete table",
                   samples=re.findall(r"^\s*\(\d+, \(\d+, \d+\)\)", m.group(0), re.M)[:6] if m else [])
    if not ok:
        search(res)


def search(res):
    script = """From GV Require Import Tables.RegFactory.
Definition ids := map fst obs_products ++ map fst obs_reglist_of.
Eval vm_compute in ("BAD"%string, filter (fun i => negb (c12_ok i)) ids, "STABLE"%string, obs_reglist_stable,
   "DEFAULT"%string, c12_ok_at obs_product_default obs_reglist_default).
"""
    open(common.BUILD + "/c12search.v", "w").write(script)
    rc, out = common.sh("cd %s && timeout 300 coqc -Q . GV %s/c12search.v" % (common.COQ, common.BUILD))
    flat = " ".join(out.split())
    m = re.search(r'"BAD"%string, \[(.*?)\], "STABLE"%string, (\w+), "DEFAULT"%string, (\w+)', flat)
    if not m:
        return
    seen = set()
    for i in [x.strip() for x in m.group(1).split(";") if x.strip()]:
        if i in seen:
            continue
        seen.add(i)
        if len(seen) <= 10:
            res.add_violation("product id %s: register list differs from the list of its product class (or is not well formed)" % i,
                              key="C12:id:%s" % i, input={"product_id": int(i)},
                              replay="veregister.GetRegisterListByProduct(veproduct.Product(%s))" % i)
    if m.group(2) != "true":
        note = re.search(r"\(\* obs_reglist_unstable_note: (.*?) \*\)", open(common.GEN + "/Obs.v").read())
        note = note.group(1) if note and note.group(1) else "second/third pass over the ids differs from the first"
        res.add_violation("GetRegisterListByProduct depends on the history of earlier calls: " + note,
                          key="C12:history", input=note)
    if m.group(3) != "true":
        res.add_violation("unknown product ids do not get ErrUnsupportedType and an empty list", key="C12:default")
