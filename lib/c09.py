"""C09: register values are scaled and decoded exactly as the register defines."""
from lib import apirun

THEOREMS = ["C09_readers", "C09_number", "C09_enum", "C09_fieldlist", "C09_wrapped", "C09_all_registers", "C09_number_f64", "C09_number_f64_small"]


def run(res, args):
    res.assumptions = ["the float64 result of the number reader is modelled in Flocq binary64 (Api/Float.v) and compared bit for bit with the implementation's result (printed with 17 significant digits and parsed back by OCaml's float_of_string); amd64 Go does not fuse the division and the addition",
                       "strings.TrimSpace is modelled on UTF-8 bytes (all Unicode White_Space code points Go's unicode.IsSpace accepts)"]
    apirun.standard(res, args, "C09", "C09", THEOREMS,
                    "Classes for C09: every register of every distinct product list x raw values (boundary and random 1/2/4/8-byte numbers, "
                    "unsupported widths, texts with NUL padding and ASCII/Unicode spaces and invalid UTF-8, every enum key and undefined codes "
                    "incl. 256+key and >= 2^63, field-list bit patterns incl. bits >= 32) and device/transport errors per register.",
                    partial=[])
