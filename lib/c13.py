"""C13: the product table is internally coherent for all ids."""
import re
from lib import common, tables

THEOREMS = ["C13_coherent", "C13_types", "C13_table_wellformed"]


def run(res, args):
    res.assumptions = ["the dumper visits all 65536 ids (twice: ascending and descending) and all 256 type values and emits every non-default observation",
                       "id ranges per category and the Phoenix id digit scheme are written in coq/Tables/Product.v from the VE.Direct product id numbering"]
    ok = tables.prepare(res, "C13", THEOREMS)
    obs = open(common.GEN + "/Obs.v").read()
    n = len(re.findall(r"mkProdObs", obs)) - 1
    named_types = len(re.findall(r'mkTypeObs "[^"]+"', obs))
    res.cov.update(evaluations=65536 + 256, distinct_nontrivial=n + named_types, exhaustive=True,
                   rule="complete observation of Exists/Model/Type/String/MaxPanelVoltage/MaxPanelCurrent/GetStringMap on all 65536 ids and of "
                        "String/IsBMV/IsSolar/IsInverter on all 256 types, regenerated from /repo; distinct non-trivial = known products + named types; "
                        "the theorems are closed by computation over the complete table",
                   samples=re.findall(r"\(\d+, mkProdObs [^\n]*", obs)[:5])
    if not ok:
        search(res)


def search(res):
    """the theorem no longer checks: find the ids on which the property fails (evaluated in Coq on the regenerated table)"""
    script = """From GV Require Import Tables.Product.
Definition bad := map fst (filter (fun kv => negb (c13_ok (fst kv) (snd kv))) obs_products).
Definition badt := map fst (filter (fun kv => negb (c13_type_ok (fst kv) (snd kv))) obs_types).
Eval vm_compute in ("BAD"%string, bad, "BADT"%string, badt, "STABLE"%string, obs_product_stable, "DEFAULT"%string, c13_ok 0 obs_product_default,
  "MAPSIZE"%string, (obs_stringmap_size =? Z.of_nat (List.length (filter (fun kv => p_exists (snd kv)) obs_products)))).
"""
    open(common.BUILD + "/c13search.v", "w").write(script)
    rc, out = common.sh("cd %s && timeout 300 coqc -Q . GV %s/c13search.v" % (common.COQ, common.BUILD))
    flat = " ".join(out.split())
    m = re.search(r'"BAD"%string, \[(.*?)\], "BADT"%string, \[(.*?)\], "STABLE"%string, (\w+), "DEFAULT"%string, (\w+), "MAPSIZE"%string, (\w+)', flat)
    if not m:
        return
    for i in [x.strip() for x in m.group(1).split(";") if x.strip()][:10]:
        res.add_violation("product id %s: the accessors disagree with each other / with the id range / with the model designation" % i,
                          key="C13:id:%s" % i, input={"product_id": int(i)},
                          replay="go run: veproduct.Product(%s).{Exists,Model,Type,String,MaxPanelVoltage,MaxPanelCurrent}() and GetStringMap()" % i)
    for t in [x.strip() for x in m.group(2).split(";") if x.strip()][:10]:
        res.add_violation("type value %s: name / category predicates incoherent" % t, key="C13:type:%s" % t, input={"type": int(t)})
    if m.group(3) != "true":
        res.add_violation("product accessors return different results on a second enumeration", key="C13:unstable")
    if m.group(5) != "true":
        res.add_violation("the string map does not have exactly one entry per known product", key="C13:mapsize")
