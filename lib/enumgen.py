"""T-gen for veconst: every NewEnum / NewFieldList is translated into coq/Gen/EnumImpl.v on every run
(`gvgen enum`) and the theorems of coq/Tables/EnumRefine.v are re-checked against the new text."""
import os, re
from lib import common, drvgen
from lib.common import Broken

ENUM_THEOREMS = {
    "C14": ["C14_src_all_new_enum", "C14_src_all_new_enum_complete", "C14_src_new_enum_iff"],
    "C15": ["C15_src_all_new_fieldlist", "C15_src_all_new_fieldlist_complete"],
}
PREFIX = {"C14": "NewEnum_", "C15": "NewFieldList_"}

OUT = os.path.join(common.GEN, "EnumImpl.v")
REF = os.path.join(common.COQ, "Tables", "EnumImpl.reference")

BROKEN = None


def translate():
    global BROKEN
    BROKEN = None
    rc, o = common.sh([common.GVGEN, "enum", common.REPO, OUT], timeout=300)
    if rc != 0:
        BROKEN = Broken("the GoLite-D translator stopped: a NewEnum/NewFieldList of /repo/veconst can no longer be translated (tie T-gen)", o[-3000:])
        if not os.path.exists(OUT) and os.path.exists(REF):
            common.write_if_changed(OUT, open(REF).read())


def changed():
    return sorted(set(n for (n, f) in drvgen.changed_vs(OUT, REF)))


def enum_obligations(res, pid):
    ths = ENUM_THEOREMS[pid]
    res.cov["veconst_source_tie"] = ("every %s* of package veconst translated by gvgen enum into Gen/EnumImpl.v on this run and proved equal "
                                     "to the model for every integer (Tables/EnumRefine.v)" % PREFIX[pid].rstrip("_"))
    if BROKEN is not None:
        fs = sorted(set(n for (n, _) in drvgen.failed_functions(BROKEN.detail)))
        f = ", ".join(fs)
        res.cov["obligations"] = res.cov.get("obligations", 0) + len(ths)
        if not fs or any(x + "_" == PREFIX[pid] for x in fs):
            res.broken.append(BROKEN)
        else:
            res.partial.append("veconst source tie not re-established on this run: the translator stopped in a %s" % f)
        return False
    try:
        ob, di, rep, cmd, dt = common.prove(pid + "enum", ths)
    except Broken as b:
        ch = changed()
        res.cov["obligations"] = res.cov.get("obligations", 0) + len(ths)
        res.cov["changed_source_functions"] = ch
        mine = [c for c in ch if c.startswith(PREFIX[pid])]
        if mine or not ch:
            res.broken.append(Broken("a translated constructor of veconst no longer refines the model (tie T-gen): changed %s; %s"
                                     % (", ".join(mine) or "?", b.what), b.detail))
        else:
            res.partial.append("veconst source tie not re-established on this run: changed %s" % ", ".join(ch))
        return False
    res.cov["obligations"] = res.cov.get("obligations", 0) + ob
    res.cov["discharged"] = res.cov.get("discharged", 0) + di
    res.cov["theorems"] = list(res.cov.get("theorems", [])) + ths
    res.cov["checker_cmd"] = res.cov.get("checker_cmd", "") + " && " + cmd
    ch = changed()
    if ch:
        res.cov["changed_source_functions"] = list(res.cov.get("changed_source_functions", [])) + ch
    return True
