"""Generation of register-API cases (C09, C10, C11).  Same line format as lib/cases.py, with
`ops=` instead of `calls=`:
   connect | read/<regname>/<idle>[/<rawhex>] | stream/<hmask>/<all|rev|none|names>/<-|b|c<k>|w<k>>/<s|m>
and tags dev=<device id> mode=<answers|silent-ping|silent-id|malformed-ping|malformed-id|fault>."""
import json, os
from lib import common
from lib.cases import Rng, frame, get_resp, done_resp, ping_resp, ev_data, events, le, chunked, async_frame, noise


def tables():
    return json.load(open(os.path.join(common.BUILD, "tables.json")))


class ACase:
    n = 0

    def __init__(self, cls, ops, react, tags=None, cfg=0, wf="-", ff="-", np=0, stale=None):
        ACase.n += 1
        self.id = "a%d" % ACase.n
        self.cls, self.ops, self.react, self.tags, self.cfg, self.wf, self.ff, self.np = cls, ops, react, tags or {}, cfg, wf, ff, np
        self.stale = stale or []

    def line(self):
        re_ = "|".join(events(r) for r in self.react) if self.react else "-"
        t = "".join(" %s=%s" % kv for kv in sorted(self.tags.items()))
        return "%s cls=%s cfg=%d np=%d stale=%s wf=%s ff=%s re=%s ops=%s%s" % (
            self.id, self.cls, self.cfg, self.np, events(self.stale) if self.stale else "-", self.wf, self.ff, re_, ";".join(self.ops), t)


def connect_react(dev):
    return [[ev_data(ping_resp())], [ev_data(done_resp(le(dev, 2)))]]


REP_IDS = [0x203, 0x204, 0xA381, 0xA389, 0xA38B, 0x0300, 0xA053, 0xA056, 0xA04C, 0xA060, 0xA075, 0xA231, 0xA2B1, 0xA2FC]


def gen_connect_all(rng, step):
    """C11: every device id (step 1 = all 65536)"""
    out = []
    for dev in range(0, 65536, step):
        out.append(ACase("connect-all", ["connect"], connect_react(dev), {"dev": dev, "mode": "answers"}))
    return out


def gen_connect_bad(rng, t):
    out = []
    known = t["known"]
    for dev in known[:: max(1, len(known) // 40)] + [0x1234, 0xFFFF, 0]:
        d = done_resp(le(dev, 2))
        out.append(ACase("connect-silent-ping", ["connect"], [[], [ev_data(d)]], {"dev": dev, "mode": "silent-ping"}))
        out.append(ACase("connect-silent-id", ["connect"], [[ev_data(ping_resp())], []], {"dev": dev, "mode": "silent-id"}))
        out.append(ACase("connect-malformed-ping", ["connect"], [[ev_data(noise(rng, 12))], [ev_data(d)]], {"dev": dev, "mode": "malformed-ping"}))
        bad = bytearray(d)
        bad[rng.below(len(bad) - 2) + 1] = ord("G")
        out.append(ACase("connect-malformed-id", ["connect"], [[ev_data(ping_resp())], [ev_data(bytes(bad))]], {"dev": dev, "mode": "malformed-id"}))
        out.append(ACase("connect-malformed-id", ["connect"], [[ev_data(ping_resp())], [ev_data(frame(1, [dev & 0xFF, dev >> 8], bad_chk=1))]], {"dev": dev, "mode": "malformed-id"}))
        out.append(ACase("connect-malformed-id", ["connect"], [[ev_data(ping_resp())], [ev_data(frame(7, [dev & 0xFF, dev >> 8]))]], {"dev": dev, "mode": "malformed-id"}))
        # complete, checksum-correct answers that lack only the terminating line feed, then silence: no frame has arrived
        out.append(ACase("connect-unterminated", ["connect"], [[ev_data(ping_resp())], [ev_data(d[:-1])]], {"dev": dev, "mode": "malformed-id"}))
        out.append(ACase("connect-unterminated", ["connect"], [[ev_data(ping_resp()[:-1])], [ev_data(d)]], {"dev": dev, "mode": "malformed-ping"}))
        out.append(ACase("connect-fault", ["connect"], connect_react(dev), {"dev": dev, "mode": "fault"}, wf="1"))
        out.append(ACase("connect-fault", ["connect"], connect_react(dev), {"dev": dev, "mode": "fault"}, wf="01"))
        # input left unread on the port by an earlier session (a complete answer to some other command, a
        # device-id answer of a different product, half a frame): the first command flushes it
        other = known[(known.index(dev) + 7) % len(known)] if dev in known else 0xA056
        for st in ([ev_data(get_resp(0xEDF0, [0x96, 0x00]))], [ev_data(done_resp(le(other, 2)))],
                   [ev_data(ping_resp()), ev_data(done_resp(le(other, 2)))], [ev_data(b":7F0ED00")]):
            out.append(ACase("connect-stale", ["connect"], connect_react(dev), {"dev": dev, "mode": "answers"}, stale=st))
        # only asynchronous frames after the ping, never a ping answer: no object, however many there are
        for nasync in (1, 15, 16, 17, 20, 31, 40):
            out.append(ACase("connect-async-only", ["connect"], [[ev_data(b"".join(async_frame(rng) for _ in range(nasync)))], [ev_data(d)]],
                             {"dev": dev, "mode": "silent-ping"}))
        # device-id answers with a correct check byte but no / one payload byte
        for short in (frame(1, []), frame(1, [dev & 0xFF]), frame(1, [0x00])):
            out.append(ACase("connect-malformed-id", ["connect"], [[ev_data(ping_resp())], [ev_data(short)]], {"dev": dev, "mode": "malformed-id"}))
        # text-protocol output (no ':') of any length in front of the answers is skipped: a BMV mid-way through its
        # text blocks when the command arrives
        for nlen in (100, 255, 256, 257, 300, 1000, 4000, 4096, 5000):
            nz = bytes(c for c in noise(rng, nlen) if c != 0x3A).ljust(nlen, b"x")
            out.append(ACase("connect-noise", ["connect"], [[ev_data(nz + ping_resp())], [ev_data(d)]], {"dev": dev, "mode": "answers"}))
            out.append(ACase("connect-noise", ["connect"], [[ev_data(ping_resp())], [ev_data(nz + d)]], {"dev": dev, "mode": "answers"}))
        # a leading async frame before the answers is fine
        out.append(ACase("connect-async", ["connect"], [[ev_data(async_frame(rng) + ping_resp())], [ev_data(async_frame(rng) + d)]], {"dev": dev, "mode": "answers"}))
    return out


def regs_of(t, dev):
    return t["lists"][str(t["of"][str(dev)])]


def raw_values(rng, reg, t, thorough):
    """raw payloads (as byte lists) for one register"""
    vals = []
    k = reg["kind"]
    if k == 1:
        for w in (1, 2, 4):
            bounds = [0, 1, 2 ** (8 * w - 1) - 1, 2 ** (8 * w - 1), 2 ** (8 * w - 1) + 1, 2 ** (8 * w) - 1]
            for v in bounds:
                vals.append(le(v, w))
            for _ in range(6 if thorough else 2):
                vals.append(rng.bytes(w))
        vals.append(le(2 ** 63, 8)); vals.append(le(2 ** 64 - 1, 8)); vals.append(rng.bytes(8))
        vals.append(rng.bytes(3)); vals.append([])
    elif k == 2:
        texts = [b"HQ2003ABCDE", b"SmartSolar  ", b"  lead", b"\tx\r\n", b"a\x00b\x00\x00", b"", b"\x00\x00", b" \x00",
                 b"caf\xc3\xa9 ", b"\xc2\xa0nbsp\xc2\xa0", b"\xe2\x80\x83em\xe2\x80\xa8", b"\xe3\x80\x80cjk\xe3\x80\x80", b"\xc2\x85nel\xc2\x85",
                 b"\xe1\x9a\x80og", b"\xe2\x81\x9fmm\xe2\x81\x9f", b"\xe2\x80\xafnn\xe2\x80\xaf", b"\xff \xfe", b"\xa0x\xa0", b"x \x80\xa8", b"\xe2\x80",
                 b"x\xe2\x80\x8b", b"\xe2\x80\x8bzwsp", b" \x85", b"\xc2", b"tab\x0b\x0c"]
        for x in texts:
            vals.append(list(x) + [0] * rng.below(4))
        for _ in range(4 if thorough else 1):
            vals.append(rng.bytes(rng.below(20)))
        # long texts: 59/60/61 bytes (the frame then crosses 128 bytes), 100, 250
        for n in (59, 60, 61, 100, 250):
            vals.append([0x41 + (i * 7 + n) % 26 for i in range(n)] + [0] * rng.below(3))
    elif k == 3:
        keys = t["enums"].get(reg["factory"], [])
        for v in keys:
            vals.append(le(v, rng.choice([1, 2, 4])))
        for v in [255, 254, 256, 257, 0x100 + (keys[-1] if keys else 0), 0xFFFF, 0x10000, 2 ** 32 + 1, 2 ** 63, 2 ** 64 - 1, 128]:
            w = 1 if v < 256 else 2 if v < 65536 else 4 if v < 2 ** 32 else 8
            vals.append(le(v, w))
        if thorough:
            for v in range(256):
                vals.append([v])
    else:
        keys = t["fieldlists"].get(reg["factory"], [])
        for _ in range(12 if thorough else 5):
            v = 0
            for b in keys:
                if rng.chance(1, 2):
                    v |= 1 << b
            if rng.chance(1, 2):
                v |= rng.next() & ~sum(1 << b for b in keys) & 0xFFFFFFFF
            vals.append(le(v, rng.choice([2, 4, 8]) if v < 65536 else 4 if v < 2 ** 32 else 8))
        vals.append(le(2 ** 64 - 1, 8)); vals.append(le(0, 1)); vals.append(le(2 ** 40 + 1, 8))
        # short answers whose top bit is set (no sign extension into the documented bits), every width
        for w in (1, 2, 4):
            vals.append(le(1 << (8 * w - 1), w)); vals.append(le((1 << (8 * w - 1)) | 0x21, w)); vals.append(le((1 << (8 * w)) - 1, w))
        for w in (3, 5, 6, 7):
            vals.append(le(rng.next() & ((1 << (8 * w)) - 1) | (1 << (8 * w - 1)), w))
    return vals


def gen_c09(rng, t, thorough):
    """every register of every distinct list x raw values, packed as read sequences after one connect"""
    out = []
    seen_lists = {}
    for dev_s, idx in sorted(t["of"].items(), key=lambda kv: int(kv[0])):
        seen_lists.setdefault(idx, int(dev_s))
    for idx, dev in sorted(seen_lists.items()):
        for reg in t["lists"][str(idx)]:
            vals = raw_values(rng, reg, t, thorough)
            for i in range(0, len(vals), 16):
                ops, react = ["connect"], connect_react(dev)
                for v in vals[i:i + 16]:
                    ops.append("read/%s/b/%s" % (reg["name"], bytes(v).hex()))
                    react.append(chunked(rng, get_resp(reg["addr"], v), 3))
                out.append(ACase("c09-values", ops, react, {"dev": dev}, cfg=rng.below(4)))
            # a refusal (or an unknown flags byte) of ANOTHER register arrives first -- the late answer to an earlier
            # request: it is not this register's error; the read goes on and returns the value that follows
            ops, react = ["connect"], connect_react(dev)
            for flag in (1, 2, 4, 0x08, 0xFF):
                v = vals[rng.below(len(vals))] if reg["kind"] != 1 or True else vals[0]
                if reg["kind"] == 1 and len(v) not in (1, 2, 4, 8):
                    v = le(rng.below(65536), 2)
                other = (reg["addr"] + 1 + rng.below(3)) % 65536
                ops.append("read/%s/b/%s" % (reg["name"], bytes(v).hex()))
                if rng.chance(1, 2):    # both in one burst (the stale frame is still buffered)
                    react.append([ev_data(get_resp(other, rng.bytes(rng.below(3)), flag=flag) + get_resp(reg["addr"], v))])
                    react.append([])
                else:
                    react.append([ev_data(get_resp(other, rng.bytes(rng.below(3)), flag=flag))])
                    react.append([ev_data(get_resp(reg["addr"], v))])
            out.append(ACase("c09-foreign-error", ops, react, {"dev": dev}, cfg=rng.below(4)))
            # the answer arrives twice (the duplicate stays in the reader's buffer); after an idle pause the port's Flush
            # fails -- the driver still forgets what it had read ahead, the next read returns the NEW value
            if reg["kind"] == 1 and not reg["signed"]:
                v1, v2 = le(1188, 2), le(1352, 2)
                ops = ["connect", "read/%s/b/%s" % (reg["name"], bytes(v1).hex()), "read/%s/i/%s" % (reg["name"], bytes(v2).hex())]
                react = connect_react(dev) + [[ev_data(get_resp(reg["addr"], v1) + get_resp(reg["addr"], v1))], [ev_data(get_resp(reg["addr"], v2))]]
                # flush calls: one at connect (idle), one before the idle read: the second one fails
                out.append(ACase("c09-flush-fault", ops, react, {"dev": dev}, cfg=rng.below(4), ff="01"))
            # transport and device errors: wrapped with the name, still matchable
            ops, react, tags = ["connect"], connect_react(dev), {"dev": dev}
            for flag, cls in ((1, "Eunknownid"), (2, "Enotsupported"), (4, "Eparameter")):
                tags["x%d" % len(ops)] = cls + ":1"
                ops.append("read/%s/b" % reg["name"])
                react.append([ev_data(get_resp(reg["addr"], rng.bytes(rng.below(3)), flag=flag))])
            for flag, cls in ((1, "Eunknownid"), (2, "Enotsupported"), (4, "Eparameter")):
                # the error frame arrives on the second/third attempt, after a discarded response
                tags["x%d" % len(ops)] = cls + ":1"
                ops.append("read/%s/b" % reg["name"])
                for _ in range(rng.below(2) + 1):
                    react.append([ev_data(rng.choice([get_resp((reg["addr"] + 1) % 65536, [1]), get_resp(reg["addr"], [1], bad_chk=1), b"noise\r\n"]))])
                react.append([ev_data(get_resp(reg["addr"], rng.bytes(rng.below(3)), flag=flag))])
            tags["x%d" % len(ops)] = "Eother:1"
            ops.append("read/%s/i" % reg["name"])
            react += [[] for _ in range(8)]            # silence: gives up after eight tries
            out.append(ACase("c09-errors", ops, react, tags, cfg=rng.below(4)))
            # a value that cannot be decoded (not a member of the enumeration) arrives on the k-th try, silence before and
            # after it: the read ends with the decoding error after k frames -- one register access, at most eight frames
            if reg["kind"] == 3:
                for k in (1, 2, 5, 8):
                    keys = set(t["enums"].get(reg["factory"], [0]))
                    non = [x for x in range(256) if x not in keys]
                    if not non:
                        continue
                    v = le(rng.choice(non), 1)
                    ops, react = ["connect"], connect_react(dev)
                    ops.append("read/%s/b/%s" % (reg["name"], bytes(v).hex()))
                    react += [[] for _ in range(k - 1)] + [[ev_data(get_resp(reg["addr"], v))]] + [[] for _ in range(9)]
                    out.append(ACase("c09-undecodable-late", ops, react, {"dev": dev}, cfg=rng.below(4)))
        # the list/stream API, several runs on one RegisterApi with the device's values changing in between
        # (static registers too) and single reads interleaved: every value is the one sent in that run
        regs = t["lists"][str(idx)]
        order = [r for kind in (1, 2, 3, 4) for r in regs if r["kind"] == kind]
        for variant in ("s", "m"):
            ops, react = ["connect"], connect_react(dev)
            for run in range(3):
                ops.append("stream/15/all/-/%s" % variant)
                for r in order:
                    react.append([ev_data(get_resp(r["addr"], good_value(rng, r, t)))])
                r = rng.choice(order)
                ops.append("read/%s/b/%s" % (r["name"], bytes(good_value(rng, r, t)).hex()))
                react.append([ev_data(get_resp(r["addr"], bytes.fromhex(ops[-1].split("/")[-1])))])
            out.append(ACase("c09-reruns", ops, react, {"dev": dev}, cfg=rng.below(4)))
    return out


def gen_c05(rng, t, thorough):
    """C05 at the register API: every register of every distinct list x flags 1/2/4 x 0..3 trailing payload bytes,
    first call idle or busy; the error must come back wrapped with the register name (":1"), matchable, after one frame"""
    out = []
    seen_lists = {}
    for dev_s, idx in sorted(t["of"].items(), key=lambda kv: int(kv[0])):
        seen_lists.setdefault(idx, int(dev_s))
    for idx, dev in sorted(seen_lists.items()):
        for reg in t["lists"][str(idx)]:
            ops, react, tags = ["connect"], connect_react(dev), {"dev": dev, "prop": "C05"}
            for trailing in ((0, 1, 2, 3) if thorough else (0, 1 + rng.below(3))):
                for flag, cls in ((1, "Eunknownid"), (2, "Enotsupported"), (4, "Eparameter")):
                    tags["x%d" % len(ops)] = cls + ":1"
                    ops.append("read/%s/%s" % (reg["name"], rng.choice("ib")))
                    resp = get_resp(reg["addr"], rng.bytes(trailing), flag=flag)
                    if rng.chance(1, 4):
                        resp = async_frame(rng) + resp   # an async frame first
                    react.append(chunked(rng, resp, 3))
            tags["frames"] = 2 + len(ops) - 1
            out.append(ACase("c05-api", ops, react, tags, cfg=rng.below(4)))
    return out


def good_value(rng, reg, t):
    k = reg["kind"]
    if k == 1:
        return rng.bytes(rng.choice([1, 2, 4]))
    if k == 2:
        if rng.chance(1, 4):   # a long text (user-settable description, long model name)
            n = rng.choice([60, 64, 72, 100, 130])
            return [0x41 + (i * 5 + n) % 26 for i in range(n)] + [0] * rng.below(3)
        return list(b"TXT%d" % rng.below(1000)) + [0] * rng.below(3)
    if k == 3:
        keys = t["enums"].get(reg["factory"], [0])
        return le(rng.choice(keys), 1)
    return rng.bytes(rng.choice([2, 4]))


def bad_value(rng, reg, t):
    """an answer that makes the reader fail: device error flag, or undefined enum code"""
    return None


def gen_c10(rng, t, thorough):
    out = []
    devs = [d for d in REP_IDS if str(d) in t["of"]]
    for dev in devs:
        regs = regs_of(t, dev)
        n = len(regs)

        def plan(hmask, sub):
            byname = {r["name"]: r for r in regs}
            rs = regs if sub == "all" else [byname[nm] for nm in sub]
            order = []
            for kind, bit in ((1, 1), (2, 2), (3, 4), (4, 8)):
                if hmask & bit:
                    order += [r for r in rs if r["kind"] == kind]
            return order

        def mk(cls, hmask, sub, cancel, variant, fail_at=None, fail_kind="flag", tags=None, late_at=None):
            spec = "all" if sub == "all" else ",".join(sub) if sub else "none"
            order = plan(15 if variant == "m" else hmask, sub)
            react = connect_react(dev)
            for i, r in enumerate(order):
                if fail_at is not None and i == fail_at:
                    if fail_kind == "flag":
                        react.append([ev_data(get_resp(r["addr"], [], flag=rng.choice([1, 2, 4])))])
                    elif fail_kind == "flag-odd":     # a refusal with a flags byte outside 1/2/4: still a failure
                        react.append([ev_data(get_resp(r["addr"], rng.bytes(rng.below(3)), flag=rng.choice([0x08, 0x10, 0x20, 0x40, 0x80, 0x03, 0xFF])))])
                    elif fail_kind == "silent":
                        react += [[] for _ in range(8)]
                    else:                       # undefined enum code / unsupported signed width
                        if r["kind"] == 3:
                            react.append([ev_data(get_resp(r["addr"], [0xEE]))])
                        elif r["kind"] == 1 and r["signed"]:
                            react.append([ev_data(get_resp(r["addr"], [1, 2, 3]))])
                        else:
                            react.append([ev_data(get_resp(r["addr"], [], flag=1))])
                    break
                if late_at is not None and i == late_at:
                    # a late refusal of ANOTHER register arrives in front of this register's answer: it is not this
                    # register's error, the read goes on (one more command frame) and the run completes
                    other = (r["addr"] + 1 + rng.below(5)) % 65536
                    react.append([ev_data(get_resp(other, rng.bytes(rng.below(3)), flag=rng.choice([1, 2, 4, 0x10])))])
                react.append([ev_data(get_resp(r["addr"], good_value(rng, r, t)))])
            # independent expectation: how many registers are delivered and how the run ends
            ncancel = None if cancel == "-" or cancel[0] == "d" else 0 if cancel == "b" else int(cancel[1:])
            exp_n = len(order)
            exp_end = "ok"
            if fail_at is not None and fail_at < exp_n and (ncancel is None or fail_at < ncancel):
                exp_n, exp_end = fail_at, "ERR"
            elif ncancel is not None and ncancel < exp_n:
                exp_n, exp_end = ncancel, "Ectxdone"
            tg = {"dev": dev, "expect_n": exp_n, "expect_end": exp_end}
            tg.update(tags or {})
            out.append(ACase(cls, ["connect", "stream/%d/%s/%s/%s" % (hmask, spec, cancel, variant)], react, tg, cfg=rng.below(4)))

        # all handlers, no failure; every subset of nil handlers
        for hmask in range(16):
            mk("c10-handlers", hmask, "all", "-", "s")
        mk("c10-map", 15, "all", "-", "m")
        # a context that carries a deadline which is not reached: nothing is cancelled
        mk("c10-deadline", 15, "all", "d190", "s")
        mk("c10-deadline", rng.below(16), "all", "d150", "s")
        mk("c10-deadline", 15, "all", "d199", "m")
        # a late refusal of another register in front of the k-th answer: the run completes
        for i in range(0, n, 1 if thorough else 5):
            mk("c10-late-refusal", 15, "all", "-", rng.choice("sm"), late_at=i)
        # device failure at every register position
        positions = range(n) if thorough or n <= 50 else range(n)
        for i in positions:
            mk("c10-fail", 15, "all", "-", "s", fail_at=i, fail_kind=rng.choice(["flag", "flag", "flag-odd", "decode", "silent"]))
            if thorough or i % 3 == 0:
                mk("c10-fail-map", 15, "all", "-", "m", fail_at=i, fail_kind="flag")
        # cancellation before the run, inside the k-th callback, inside the k-th Write
        mk("c10-cancel", 15, "all", "b", "s")
        mk("c10-cancel", 15, "all", "b", "m")
        mk("c10-cancel", 0, "all", "b", "s")
        for k in range(1, n + 1):
            mk("c10-cancel", 15, "all", "c%d" % k, "s")
            if thorough or k % 2 == 0:
                mk("c10-cancel-write", 15, "all", "w%d" % k, "s")
                mk("c10-cancel-write", 15, "all", "w%d" % k, "m")
            if thorough or k % 4 == 1:
                hm = rng.below(15) + 1
                if k <= len(plan(hm, "all")):
                    mk("c10-cancel-subset", hm, "all", "c%d" % k, "s")
        # arbitrary sub-lists (order of the given names within each kind)
        for _ in range(30 if thorough else 8):
            names = [r["name"] for r in regs if rng.chance(1, 3)]
            rng_order = names[:]
            for i in range(len(rng_order) - 1, 0, -1):
                j = rng.below(i + 1)
                rng_order[i], rng_order[j] = rng_order[j], rng_order[i]
            hm = rng.below(16)
            mk("c10-sublist", hm, rng_order, "-", "s")
            if rng_order:
                pl = plan(hm, rng_order)
                if pl:
                    mk("c10-sublist-cancel", hm, rng_order, "c%d" % (rng.below(len(pl)) + 1), "s")
                    mk("c10-sublist-fail", hm, rng_order, "-", "s", fail_at=rng.below(len(pl)))
        # histories on one API object: a complete run, then a second run with a failure at position k
        full = plan(15, "all")
        ks2 = range(len(full)) if thorough else sorted(set([0, 1, len(full) - 1] + [i for i, r in enumerate(full) if r["kind"] != 1][:8]))
        for k in ks2:
            for variant in ("s", "m"):
                react = connect_react(dev)
                for r in full:
                    react.append([ev_data(get_resp(r["addr"], good_value(rng, r, t)))])
                for i, r in enumerate(full):
                    if i == k:
                        react.append([ev_data(get_resp(r["addr"], [], flag=rng.choice([1, 2, 4])))])
                        break
                    react.append([ev_data(get_resp(r["addr"], good_value(rng, r, t)))])
                out.append(ACase("c10-second-run", ["connect", "stream/15/all/-/%s" % variant, "stream/15/all/-/%s" % variant], react,
                                 {"dev": dev, "expect_n1": len(full), "expect_end1": "ok", "expect_n2": k, "expect_end2": "ERR"}, cfg=rng.below(4)))
        # ... a run that ends with the context done (cancelled before the run, or inside callback k), then a run with a live
        # context on the same object: the second run reads and reports everything
        for k in ([0, 1, 3, len(full) - 1] if thorough else [0, 2]):
            for variant in ("s", "m"):
                if k > 0 and variant == "m":
                    continue        # the map variant is cancelled only before the run
                react = connect_react(dev)
                for r in full[:k]:
                    react.append([ev_data(get_resp(r["addr"], good_value(rng, r, t)))])
                for r in full:
                    react.append([ev_data(get_resp(r["addr"], good_value(rng, r, t)))])
                first = "stream/15/all/%s/%s" % ("b" if k == 0 else "c%d" % k, variant)
                out.append(ACase("c10-after-cancel", ["connect", first, "stream/15/all/-/%s" % variant, "stream/15/all/-/s"],
                                 react + [[ev_data(get_resp(r["addr"], good_value(rng, r, t)))] for r in full],
                                 {"dev": dev, "expect_n1": k, "expect_end1": "Ectxdone", "expect_n2": len(full), "expect_end2": "ok"}, cfg=rng.below(4)))
        mk("c10-empty", 15, [], "-", "s")
        mk("c10-empty", 15, [], "b", "s")
    return out


def generate(tier, seed, which):
    rng = Rng(seed ^ 0xA91)
    ACase.n = 0
    t = tables()
    thorough = tier != "quick"
    out = []
    if "C11" in which:
        out += gen_connect_all(rng, 1)
        out += gen_connect_bad(rng, t)
    if "C05" in which:
        out += gen_c05(rng, t, thorough)
    if "C09" in which:
        out += gen_c09(rng, t, thorough)
    if "C10" in which:
        out += gen_c10(rng, t, thorough)
    return out
