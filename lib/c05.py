"""C05: device-reported errors are surfaced, typed and not retried."""
from lib import script

THEOREMS = ["C05_flag_error", "C05_not_retried", "C05_one_write"]


def run(res, args):
    res.assumptions = ["error classes are obtained with errors.Is on the Go side; message texts are never compared",
                       "the register-API wrapping (Read*Register) is checked by C09"]
    script.standard(res, args, "C05", "C05", THEOREMS,
                    "Classes for C05: flags 0x01/0x02/0x04 x accessors {raw,uint,int,string} x boundary+random addresses x 0..8 trailing "
                    "payload bytes, with async frames before the error frame, idle and busy; plus every flag byte 0x00..0xFF.")
