"""C05: device-reported errors are surfaced, typed and not retried."""
from lib import script, apirun

THEOREMS = ["C05_flag_error", "C05_not_retried", "C05_one_write", "C05_api_wrapped"]


def run(res, args):
    res.assumptions = ["error classes are obtained with errors.Is on the Go side; message texts are never compared",
                       "the wrapped error's name part is observed as 'the message contains the register name'"]
    r = script.standard(res, args, "C05", "C05", THEOREMS,
                        "Classes for C05: flags 0x01/0x02/0x04 x accessors {raw,uint,int,string} x boundary+random addresses x 0..8 trailing "
                        "payload bytes, with async frames before the error frame, idle and busy; plus every flag byte 0x00..0xFF.  Register "
                        "API: every register of every distinct product list x the three flags x trailing payloads through Read*Register "
                        "(error class, wrapped with the register name, total number of command frames).")
    if r is None:
        return
    # the register-API part of the property
    a = apirun.run(res.tier, res.seed, "C05")
    app, nf = a["summ"].get("C05", (0, 0))
    nm = a["summ"].get("MISMATCH", (0, 0))[1]
    res.cov["evaluations"] += len(a["lines"])
    res.cov["api_cases"] = len(a["lines"])
    res.cov["api_error_reads_judged"] = app
    res.cov["api_judge_failures"] = nf
    res.cov["api_disagreements"] = nm
    res.cov["api_samples"] = a["lines"][:: max(1, len(a["lines"]) // 3)][:3]
    import re
    for f in a["fails"].get("C05", [])[:10]:
        line = a["byid"].get(f["case_id"], "")
        res.add_violation("register API: " + f["what"], key="C05:api:%s" % re.sub(r"\d+", "N", f["what"])[:120], input=line,
                          observed=a["implby"].get(f["case_id"], ""))
    if nm and not a["fails"].get("C05"):
        from lib.common import Broken
        res.broken.append(Broken("correspondence Api model vs implementation (C05 cases): %d disagreements" % nm, "\n".join(a["mism"][:5])))
