"""T-gen for the register API: the four readers and the streaming loop of
/repo/vedirectapi/registerApi.go are translated into coq/Gen/ApiImpl.v on every run (`gvgen api`) and the
refinement theorems of coq/Api/ApiRefine.v, ApiRefineTables.v, ApiProps.v are re-checked against the new
text.  Each translated function is owned by the properties that speak about it."""
import os, re
from lib import common, drvgen
from lib.common import Broken

OWNERS = {
    "ReadNumberRegister": ["C05", "C09"],
    "ReadTextRegister": ["C05", "C09"],
    "ReadEnumRegister": ["C05", "C09"],
    "ReadFieldListRegister": ["C05", "C09", "C15"],
    "StreamRegisterList": ["C10"],
    "ReadRegisterList": ["C10"],
    "NewRegisterApi": ["C11"],
    "CommaString": ["C15"],
    "GetList": ["C20"],
}

API_THEOREMS = {
    "C05": ["C05_api_number_error_wrapped", "C05_api_text_error_wrapped", "C05_api_enum_error_wrapped", "C05_api_fieldlist_error_wrapped"],
    "C09": ["C09_api_ReadNumberRegister", "C09_api_ReadTextRegister", "C09_api_ReadEnumRegister", "C09_api_ReadFieldListRegister",
            "C09_api_fieldlist_bits"],
    "C10": ["C10_api_StreamRegisterList", "C10_api_stream_product_lists", "C10_api_ReadRegisterList", "C10_api_ReadRegisterList_collects", "C10_api_read_product_lists"],
    "C11": ["C11_api_NewRegisterApi"],
    "C20": ["C20_api_GetList"],
    "C15": ["C15_api_ReadFieldListRegister", "C15_api_fieldlist_bits", "C15_api_CommaString", "C15_api_CommaString_deterministic",
            "C15_api_every_map_order"],
}

OUT = os.path.join(common.GEN, "ApiImpl.v")
REF = os.path.join(common.COQ, "Api", "ApiImpl.reference")   # the translation of the pinned tree (committed)

BROKEN = None


def translate():
    global BROKEN
    BROKEN = None
    rc, o = common.sh([common.GVGEN, "api", common.REPO, OUT], timeout=300)
    if rc != 0:
        BROKEN = Broken("the GoLite-D translator stopped: /repo/vedirectapi/registerApi.go can no longer be translated (tie T-gen)", o[-3000:])
        if not os.path.exists(OUT) and os.path.exists(REF):
            common.write_if_changed(OUT, open(REF).read())


def changed():
    return sorted(set(n for (n, f) in drvgen.changed_vs(OUT, REF)))


def api_obligations(res, pid):
    ths = API_THEOREMS[pid]
    mine_fns = sorted(f for f, ps in OWNERS.items() if pid in ps)
    res.cov["api_source_tie"] = ("vedirectapi/registerApi.go translated by gvgen api into Gen/ApiImpl.v on this run; refinement to the "
                                 "hand-written model Api.v re-proved (Api/ApiRefine.v, ApiRefineTables.v, ApiProps.v); this property "
                                 "carries the obligations of %s" % ", ".join(mine_fns))
    if BROKEN is not None:
        ch = sorted(set(n for (n, _) in drvgen.failed_functions(BROKEN.detail)) | set(changed()))
        res.cov["obligations"] = res.cov.get("obligations", 0) + len(ths)
        res.cov["changed_source_functions"] = ch
        f = ", ".join(ch)
        if not ch or any(c in mine_fns for c in ch):
            res.broken.append(BROKEN)
        else:
            res.partial.append("register-API source tie not re-established on this run: the translator stopped in %s, which other "
                               "properties own" % f)
        return False
    try:
        ob, di, rep, cmd, dt = common.prove(pid + "api", ths)
    except Broken as b:
        ch = changed()
        dch = drvgen.changed()
        res.cov["obligations"] = res.cov.get("obligations", 0) + len(ths)
        res.cov["changed_source_functions"] = ch + ["%s (%s)" % c for c in dch]
        mine = [c for c in ch if c in mine_fns]
        if mine or (not ch and not dch and drvgen.BROKEN is None):
            res.broken.append(Broken("the translated register API no longer refines the model (tie T-gen): changed %s; %s"
                                     % (", ".join(mine) or "?", b.what), b.detail))
        else:
            res.partial.append("register-API source tie not re-established on this run: changed %s (reported by the properties that own "
                               "them)" % ", ".join(ch + ["vedirect/%s:%s" % (c[1], c[0]) for c in dch] or ["the driver translation"]))
        return False
    res.cov["obligations"] = res.cov.get("obligations", 0) + ob
    res.cov["discharged"] = res.cov.get("discharged", 0) + di
    res.cov["theorems"] = list(res.cov.get("theorems", [])) + ths
    res.cov["checker_cmd"] = res.cov.get("checker_cmd", "") + " && " + cmd
    ch = changed()
    if ch:
        res.cov["changed_source_functions"] = list(res.cov.get("changed_source_functions", [])) + ch
    return True
