"""C08: BLE record decoders are total and length-safe."""
from lib import ble

THEOREMS = ["C08_all_decoders", "C08_suffix_independent_spec"]


def run(res, args):
    res.assumptions = ["index, slice and fixed-width reads are judged against len in the model (a read into spare capacity is a fault of the model although Go would not panic); the harness runs every input with cap == len (Go panics exactly where the model faults) and with poisoned spare capacity"]
    ble.standard(res, args, "C08", THEOREMS, "")
