"""C17: lookup data handed out by the library cannot be corrupted by callers."""
import re
from lib import common
from lib.common import Broken

THEOREMS = ["C17_lookups_fresh", "C17_lookups_covered", "C17_fresh_sound", "C17_lookups_return_fresh_objects", "C17_private_partial"]


def run(res, args):
    res.assumptions = ["veproduct and veconst: every function returning a map or slice is transcribed by `gvgen alias` into the alias IR on every run (tie T-gen); the analysis and its soundness are Coq (Tables/Alias.v, AliasFacts.v); the transcription (which expressions allocate, which statements store into package-level variables, flattened control flow) is trusted and listed in the trusted base",
                       "veregister (GetRegisterListByProduct and the Append* family, slices of structs built through pointer receivers) is outside the alias IR: covered by the harness run only",
                       "lookup functions covered: GetStringMap, IntToStringMap of all 20 enum and 3 field-list factories, Fields()/Decode() of the three field-list types (raw values incl. 0), GetRegisterListByProduct for products of every class (each against every other), the Append* family lists"]
    common.build_harness()
    from lib import gen
    gen.regenerate_all()
    if gen.ALIAS_BROKEN is not None:
        res.broken.append(gen.ALIAS_BROKEN)
    common.coq_make()
    common.standard_proof_cov(res, "C17", THEOREMS)
    rc, out = common.sh("timeout 600 %s copies" % common.GVRUN)
    m = re.search(r"COPY-SUMMARY checks=(\d+) failures=(\d+)", out)
    if rc != 0 or not m:
        raise Broken("gvrun copies failed", out[-2000:])
    n, nf = int(m.group(1)), int(m.group(2))
    res.cov.update(evaluations=n, distinct_nontrivial=n,
                   rule="for every lookup function L and every caller mutation M of a mutation history (maps: overwrite, delete, insert, rekey; "
                        "register lists: overwrite in place, filter by name, filter by predicate, truncate-and-append, reverse in place, append "
                        "families, filter-all-then-append, shrink-and-append): base := render(L()); x := L(); x2 := L(); M(x); the other copy x2 and "
                        "every later L() (for register lists: of every product, not only the mutated one) must render as base",
                   samples=["veproduct.GetStringMap x overwrite", "SolarOffReasonsFactoryType.Fields(raw=0) x delete",
                            "GetRegisterListByProduct(0xa056) x truncate-and-append -> GetRegisterListByProduct(0xa053)"],
                   judge_failures=nf)
    res.partial.append("register lists (veregister) are covered by the harness run only")
    for l in out.splitlines():
        if l.startswith("COPY-FAIL"):
            res.add_violation(l[10:], key="C17:" + re.sub(r"\d+ bytes.*", "", l[10:])[:150], input=l[10:])
