"""T-gen: translate /repo/bleparser into coq/Gen/BleImpl.v on every run."""
import os
from lib import common
from lib.common import Broken


def translate():
    out = os.path.join(common.GEN, "BleImpl.v")
    rc, o = common.sh([common.GVGEN, "ble", common.REPO, out], timeout=300)
    if rc != 0:
        raise Broken("the GoLite translator stopped: /repo/bleparser can no longer be translated (tie T-gen)", o[-3000:])
