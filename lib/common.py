"""Shared machinery of /verif/check: building, proving, verdicts, evidence."""
import fcntl, hashlib, json, os, re, shutil, subprocess, sys, time

ROOT = os.path.dirname(os.path.dirname(os.path.abspath(__file__)))
REPO = os.environ.get("VERIF_REPO", "/repo")
COQ = os.path.join(ROOT, "coq")
GEN = os.path.join(COQ, "Gen")
BUILD = os.path.join(ROOT, "build")
HARNESS = os.path.join(ROOT, "harness")
OCAML = os.path.join(ROOT, "ocaml")
EVID = os.path.join(ROOT, "evidence")
REPLAYS = os.path.join(ROOT, "replays")
CORPUS = os.path.join(ROOT, "corpus")
GVRUN = os.path.join(BUILD, "gvrun")
GVGEN = os.path.join(BUILD, "gvgen")
GVMODEL = os.path.join(BUILD, "gvmodel")

GOENV = dict(os.environ, GOFLAGS="-mod=mod", GOPROXY="off", GOSUMDB="off",
             GOTOOLCHAIN="local", CGO_ENABLED="0")

LAST_MAKE_ERRORS = ""
ALLOWED_AXIOMS = set()  # none: every property theorem must be closed under the global context

FORBIDDEN = re.compile(
    r"\b(Admitted|admit|Axiom|Axioms|Parameter|Parameters|Conjecture|Hypothesis|Variable)\b"
    r"|Unset\s+Guard|bypass_check|type-in-type|impredicative-set|Admit\s+Obligations")


class Broken(Exception):
    """A tie or a proof obligation no longer checks (not by itself a violation)."""

    def __init__(self, what, detail=""):
        super().__init__(what)
        self.what = what
        self.detail = detail


class Hang(Broken):
    """A call of the implementation did not return on a scripted port on which every call of the model returns: a
    concrete history on which the property (which speaks about what the call returns) fails."""

    def __init__(self, what, line):
        super().__init__(what, line)
        self.line = line


def sh(cmd, cwd=None, env=None, timeout=None, stdin=None, check=False):
    p = subprocess.run(cmd, cwd=cwd, env=env, timeout=timeout, input=stdin,
                       stdout=subprocess.PIPE, stderr=subprocess.STDOUT, text=True, errors="replace",
                       shell=isinstance(cmd, str))
    if check and p.returncode != 0:
        raise Broken("command failed: %s" % (cmd if isinstance(cmd, str) else " ".join(cmd)), p.stdout[-4000:])
    return p.returncode, p.stdout


class Lock:
    def __enter__(self):
        os.makedirs(BUILD, exist_ok=True)
        self.f = open(os.path.join(BUILD, ".lock"), "w")
        fcntl.flock(self.f, fcntl.LOCK_EX)
        return self

    def __exit__(self, *a):
        fcntl.flock(self.f, fcntl.LOCK_UN)
        self.f.close()


def write_if_changed(path, content):
    os.makedirs(os.path.dirname(path), exist_ok=True)
    try:
        with open(path) as f:
            if f.read() == content:
                return False
    except FileNotFoundError:
        pass
    with open(path, "w") as f:
        f.write(content)
    return True


# ---------------------------------------------------------------- building

def build_harness():
    """Build the Go harness against /repo's current working tree (build tag verif)."""
    os.makedirs(BUILD, exist_ok=True)
    shutil.copyfile(os.path.join(REPO, "go.sum"), os.path.join(HARNESS, "go.sum"))
    gomod = open(os.path.join(HARNESS, "go.mod")).read()
    want = "replace github.com/koestler/go-victron => %s" % REPO
    gomod2 = re.sub(r"replace github.com/koestler/go-victron => \S+", want, gomod)
    if gomod2 != gomod:
        open(os.path.join(HARNESS, "go.mod"), "w").write(gomod2)
    for name in ("gvrun", "gvgen"):
        src = os.path.join(HARNESS, "cmd", name)
        if not os.path.isdir(src):
            continue
        rc, out = sh(["go", "build", "-tags", "verif", "-o", os.path.join(BUILD, name), "./cmd/" + name],
                     cwd=HARNESS, env=GOENV, timeout=600)
        if rc != 0:
            raise Broken("harness %s no longer builds against /repo (tie cannot be checked)" % name, out[-4000:])


def grep_forbidden():
    bad = []
    for d, _, fs in os.walk(COQ):
        for f in fs:
            if not f.endswith(".v"):
                continue
            p = os.path.join(d, f)
            for i, line in enumerate(open(p, errors="replace"), 1):
                code = re.sub(r"\(\*.*?\*\)", "", line)
                if FORBIDDEN.search(code):
                    # Section-local Variable/Hypothesis are allowed only inside Section blocks;
                    # the development uses `Context` / explicit arguments instead, so any hit counts.
                    bad.append("%s:%d: %s" % (os.path.relpath(p, ROOT), i, line.strip()))
    return bad


def coq_make(targets=None, timeout=3000):
    """Full .vo build (never -vos) of the development; -k so that an unrelated broken file
    does not hide the state of this property's own cone."""
    rc, out = sh("coq_makefile -f _CoqProject -o Makefile", cwd=COQ)
    if rc != 0:
        raise Broken("coq_makefile failed", out)
    cmd = ["timeout", str(timeout), "make", "-k", "-j16"] + (targets or [])
    rc, out = sh(cmd, cwd=COQ, timeout=timeout + 60)
    global LAST_MAKE_ERRORS
    LAST_MAKE_ERRORS = "\n".join(re.findall(r'File "[^"]+", line \d+, characters [^\n]*\n(?:.*\n){0,6}', out)[:4])
    return rc, out


def prove(prop_file, expect_theorems):
    """Re-check Props/<prop_file>.v itself (after its dependencies were built) and parse the
    Print Assumptions reports.  Returns (obligations, discharged, assumption_report, cmd)."""
    path = "Props/%s.v" % prop_file
    cmd = ["timeout", "900", "coqc", "-Q", ".", "GV", path]
    t0 = time.time()
    rc, out = sh(cmd, cwd=COQ, timeout=960)
    if rc != 0:
        m = re.search(r'File "([^"]+)", line (\d+)', out)
        loc = "%s:%s" % (m.group(1), m.group(2)) if m else path
        raise Broken("proof obligation no longer checks: %s" % loc, (LAST_MAKE_ERRORS + "\n" + out)[-4000:])
    src = open(os.path.join(COQ, path)).read()
    theorems = re.findall(r"^(?:Theorem|Lemma|Corollary|Example)\s+(\w+)", src, re.M)
    printed = re.findall(r"^Print Assumptions\s+(\w+)\.", src, re.M)
    reports = re.split(r"(?m)^(?=Closed under the global context|Axioms:)", out)
    reports = [r.strip() for r in reports if r.strip()]
    closed = [r for r in reports if r.startswith("Closed under the global context")]
    axioms = [r for r in reports if r.startswith("Axioms:")]
    for t in expect_theorems:
        if t not in theorems:
            raise Broken("theorem %s is missing from %s" % (t, path))
        if t not in printed:
            raise Broken("no Print Assumptions for %s in %s" % (t, path))
    if len(reports) != len(printed):
        raise Broken("assumption reports do not match Print Assumptions commands in %s" % path, out[-2000:])
    used = {}
    for name, rep in zip(printed, reports):
        if rep.startswith("Closed under the global context"):
            continue
        # standard-library axioms only, and only under theorems that declare them (STDLIB_AXIOMS)
        names = re.findall(r"^([A-Za-z_][\w.']*)\s*(?::|$)", rep.split("\n", 1)[1] if "\n" in rep else "", re.M)
        names = [n for n in names if not n.startswith("forall")]
        allowed = STDLIB_AXIOMS.get(name, [])
        bad = [n for n in names if n not in allowed]
        if bad or not names:
            raise Broken("property theorem %s depends on axioms that are not declared for it: %s" % (name, ", ".join(bad) or "?"), rep)
        used[name] = names
    global LAST_AXIOMS
    LAST_AXIOMS = used
    rep = "Closed under the global context x%d" % len(closed)
    if used:
        rep += "; standard-library axioms: " + "; ".join("%s: %s" % (k, ", ".join(v)) for k, v in sorted(used.items()))
    return len(theorems), len(theorems), rep, " ".join(cmd), time.time() - t0


def build_ocaml():
    ml = os.path.join(BUILD, "ml")
    os.makedirs(ml, exist_ok=True)
    srcs = [os.path.join(COQ, "gvcore.ml"), os.path.join(COQ, "gvcore.mli")] + \
        sorted(os.path.join(OCAML, f) for f in os.listdir(OCAML) if f.endswith(".ml"))
    for s in srcs:
        if not os.path.exists(s):
            raise Broken("extraction output missing: %s" % s)
    h = hashlib.sha256()
    for s in srcs:
        h.update(open(s, "rb").read())
    stamp = os.path.join(ml, ".stamp")
    if os.path.exists(GVMODEL) and os.path.exists(stamp) and open(stamp).read() == h.hexdigest():
        return
    for s in srcs:
        shutil.copyfile(s, os.path.join(ml, os.path.basename(s)))
    for f in os.listdir(ml):
        if f.endswith((".cmi", ".cmx", ".o")):
            os.remove(os.path.join(ml, f))
    rc, out = sh("ocamlfind ocamldep -sort gvcore.mli *.ml", cwd=ml)
    if rc != 0:
        raise Broken("ocamldep failed", out[-2000:])
    order = out.split()
    rc, out = sh(["ocamlfind", "ocamlopt", "-package", "str", "-linkpkg", "-w", "-a"] + order + ["-o", GVMODEL],
                 cwd=ml, timeout=900)
    if rc != 0:
        raise Broken("OCaml model runner does not build", out[-3000:])
    open(stamp, "w").write(h.hexdigest())


def setup_all():
    """MANIFEST.setup_cmd: everything from files on disk."""
    with Lock():
        build_harness()
        from lib import gen
        gen.regenerate_all()
        rc, out = coq_make()
        if rc != 0:
            sys.stdout.write(out[-6000:])
            raise SystemExit("coq build failed")
        build_ocaml()
    print("setup ok")


# ---------------------------------------------------------------- verdicts

def load_known():
    p = os.path.join(ROOT, "known_findings.json")
    try:
        return json.load(open(p))
    except FileNotFoundError:
        return {"known": [], "fixed": []}


class Result:
    def __init__(self, pid, tier, seed):
        self.pid, self.tier, self.seed = pid, tier, seed
        self.t0 = time.time()
        self.cov = {}
        self.assumptions = []
        self.violations = []      # dicts: {"what":..., "input":..., "expected":..., "observed":..., "key":...}
        self.broken = []          # Broken instances
        self.partial = []

    def add_violation(self, what, key=None, **kw):
        self.violations.append(dict(what=what, key=key or what, **kw))

    def finish(self):
        os.makedirs(EVID, exist_ok=True)
        os.makedirs(REPLAYS, exist_ok=True)
        known = load_known()
        rc = 0
        lines = []
        unknown = []
        for v in self.violations:
            k = [e for e in known.get("known", []) if e["property"] == self.pid and e["key"] == v["key"]]
            if k:
                lines.append("KNOWN-FINDING: property=%s %s" % (self.pid, k[0]["what"]))
            else:
                unknown.append(v)
        if unknown:
            h = hashlib.sha1(json.dumps(unknown[0], sort_keys=True, default=str).encode()).hexdigest()[:10]
            path = os.path.join(REPLAYS, "%s-%s.json" % (self.pid, h))
            json.dump({"property": self.pid, "violations": unknown[:50],
                       "broken": [{"what": b.what, "detail": b.detail} for b in self.broken],
                       "replay": "cd /verif && ./check %s --replay %s" % (self.pid, path)},
                      open(path, "w"), indent=1, default=str)
            lines.append("VIOLATION property=%s replay=%s" % (self.pid, path))
            rc = 1
        elif self.broken:
            b = self.broken[0]
            h = hashlib.sha1((b.what + b.detail).encode()).hexdigest()[:10]
            path = os.path.join(REPLAYS, "%s-broken-%s.json" % (self.pid, h))
            json.dump({"property": self.pid, "no_longer_checks": [{"what": x.what, "detail": x.detail} for x in self.broken],
                       "searched": self.cov.get("evaluations", 0),
                       "note": "no input was found on which the property fails; the theorem or correspondence named here no longer checks"},
                      open(path, "w"), indent=1)
            lines.append("VIOLATION property=%s replay=%s no-failing-input-found" % (self.pid, path))
            rc = 1
        ev = {
            "property_id": self.pid, "tier": self.tier, "seed": self.seed, "level": "proof",
            "coverage": self.cov, "assumptions": self.assumptions,
            "wall_s": round(time.time() - self.t0, 2),
            "violations": len(unknown) + (1 if (self.broken and not unknown) else 0),
        }
        if self.partial:
            ev["coverage"]["partial"] = self.partial
        json.dump(ev, open(os.path.join(EVID, "%s.json" % self.pid), "w"), indent=1, default=str)
        for l in lines:
            print(l)
        if rc == 0:
            print("OK property=%s tier=%s obligations=%s/%s evaluations=%s wall=%.1fs" % (
                self.pid, self.tier, self.cov.get("discharged"), self.cov.get("obligations"),
                self.cov.get("evaluations"), time.time() - self.t0))
        return rc


# theorems about IEEE-754 arithmetic go through Flocq, whose real-number development rests on
# these axioms of Coq's own standard library (Reals, FunctionalExtensionality, Classical_Prop)
REAL_AXIOMS = ["ClassicalDedekindReals.sig_not_dec", "ClassicalDedekindReals.sig_forall_dec",
               "FunctionalExtensionality.functional_extensionality_dep", "Classical_Prop.classic"]
STDLIB_AXIOMS = {"C09_number_f64": REAL_AXIOMS, "C09_number_f64_small": REAL_AXIOMS}
LAST_AXIOMS = {}

TRUSTED_BASE = [
    "Coq 8.16.1 kernel (coqc, full .vo build); vm_compute used for finite-domain theorems; no native_compute",
    "axioms: none (every Print Assumptions under a property theorem reports 'Closed under the global context')",
    "extraction: ExtrOcamlBasic only, no Extract Constant; OCaml 4.13.1; /verif/ocaml driver",
    "Go harness /verif/harness (scripted port, generators, canonicalisation) built with -tags verif against /repo",
]


def standard_proof_cov(res, prop_file, theorems, extra_obligations=0, extra_discharged=0):
    """Run the proof step for a property and fill the proof-level coverage keys."""
    bad = grep_forbidden()
    if bad:
        res.broken.append(Broken("forbidden construct in the Coq development", "\n".join(bad[:20])))
    try:
        ob, di, rep, cmd, dt = prove(prop_file, theorems)
    except Broken as b:
        res.broken.append(b)
        ob, di, rep, cmd, dt = len(theorems) + extra_obligations, 0, "failed", "coqc Props/%s.v" % prop_file, 0
        res.cov.update(obligations=ob, discharged=0, checker_cmd=cmd, trusted_base=TRUSTED_BASE,
                       assumption_report=rep)
        return False
    tb = list(TRUSTED_BASE)
    if LAST_AXIOMS:
        tb[1] = ("axioms: none declared by this development; %s depend on axioms of Coq's standard library through Flocq's real-number "
                 "development (%s); every other Print Assumptions reports 'Closed under the global context'"
                 % (", ".join(sorted(LAST_AXIOMS)), ", ".join(sorted(set(a for v in LAST_AXIOMS.values() for a in v)))))
    res.cov.update(obligations=ob + extra_obligations, discharged=di + extra_discharged,
                   checker_cmd="cd /verif/coq && make -k -j16 && " + cmd,
                   trusted_base=tb, assumption_report=rep, proof_s=round(dt, 2),
                   theorems=theorems)
    return True
