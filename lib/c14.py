"""C14: enumerations: construction, index and name agree for every integer."""
import re
from lib import common, tables

THEOREMS = ["C14_new_enum", "C14_observed"]


def run(res, args):
    res.assumptions = ["NewEnum is observed on [-70000,70000] and +-300 around 2^16, 2^24, +-2^31, +-2^32, 2^40, 2^62, 2^63-1, -2^63 (the int domain itself cannot be enumerated); the typed constructors on all 256 bytes",
                       "the list of factories is checked against a go/parser scan of /repo/veconst on every run"]
    ok = tables.prepare(res, "C14", THEOREMS)
    from lib import enumgen
    enumgen.enum_obligations(res, "C14")
    obs = open(common.GEN + "/ObsEnum.v").read()
    n = len(re.findall(r"mkEnumObs", obs))
    dom = re.findall(r"(?:true|false) (\d+);?\n", obs)
    per = int(dom[0]) if dom else 0
    res.cov.update(evaluations=n * (per + 256), distinct_nontrivial=n * 256, exhaustive=False,
                   rule="20 factories x (all 256 bytes through New, %d integers through NewEnum); every success is recorded with index and name and compared "
                        "with the IntToStringMap-driven model in Coq (enum_obs_ok); every failure must match ErrInvalidEnumIdx" % per,
                   samples=re.findall(r"mkEnumObs \"[^\"]*\"\n\s+\[[^\n]*", obs)[:3])
    if not ok:
        search(res)


def search(res):
    script = """From GV Require Import Tables.Enum.
Eval vm_compute in ("BAD"%string, map e_name (filter (fun e => negb (enum_obs_ok e)) obs_enums), "N"%string, List.length obs_enums).
Eval vm_compute in map (fun e => (e_name e, e_map e, e_new_ok e, e_newenum_ok e, e_new_errs_ok e, e_newenum_errs_ok e)) (filter (fun e => negb (enum_obs_ok e)) obs_enums).
"""
    open(common.BUILD + "/c14search.v", "w").write(script)
    rc, out = common.sh("cd %s && timeout 300 coqc -Q . GV %s/c14search.v" % (common.COQ, common.BUILD))
    flat = " ".join(out.split())
    m = re.search(r'"BAD"%string, \[(.*?)\], "N"', flat)
    if not m:
        return
    notes = dict(re.findall(r"\(\* obs_enum_history_note (\w+): (.*?) \*\)", open(common.GEN + "/ObsEnum.v").read()))
    for name in re.findall(r'"(\w+)"%string', m.group(1))[:10]:
        if name in notes:
            res.add_violation("enumeration %s: %s" % (name, notes[name]), key="C14:history:%s" % name,
                              input={"factory": name, "history": notes[name]}, observed=flat[-1500:])
            continue
        res.add_violation("enumeration %s: New/NewEnum disagree with IntToStringMap (success iff key, index = v, non-empty mapped name)" % name,
                          key="C14:%s" % name, input={"factory": name}, observed=flat[-1500:])
