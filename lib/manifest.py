"""Generates MANIFEST.json from the per-property registry (run: python3 -m lib.manifest)."""
import json, os, sys
sys.path.insert(0, os.path.dirname(os.path.dirname(os.path.abspath(__file__))))

ALL = ["C%02d" % i for i in range(1, 21)]

# property -> (technique, level text, level note, design ref)
CLAIMED = {
    "C03": ("Coq theorem over the frame model (all nibbles, all addresses, all payloads) + exhaustive model/code correspondence on all 7x65536 frames",
            "Theorems C03_wellformed, C03_wellformed_any_payload, C03_get_payload, C03_no_payload are proved in Coq for every command nibble and every address/payload (induction, no enumeration). The model tx_frame is tied to the code by comparing, on every run, all 720 898 frames the real driver writes through every public entry point with the extracted model (the domain is finite, the tie is exact) and judging each observed frame with the independent grammar.",
            "Trusted: Coq kernel, extraction (ExtrOcamlBasic), OCaml driver, Go harness. Go's fmt verbs are modelled, not verified; write-fault histories are exercised by the scripted-port checks (C06).",
            "DESIGN.md 4/C03"),
}

PENDING_REASON = "check not built yet in this session (work in progress; see DESIGN.md section 10)"


def main():
    root = os.path.dirname(os.path.dirname(os.path.abspath(__file__)))
    checks = []
    for pid in ALL:
        if pid not in CLAIMED:
            continue
        tech, text, note, ref = CLAIMED[pid]
        checks.append({
            "property_id": pid,
            "quick_cmd": "./check %s --tier quick" % pid,
            "thorough_cmd": "./check %s --tier thorough" % pid,
            "evidence_file": "/verif/evidence/%s.json" % pid,
            "replay_cmd_template": "./check %s --replay {path}" % pid,
            "engine": "coq-proof+correspondence",
            "level_claimed": {"category": "proof", "text": text, "design_ref": ref},
            "level_note": note,
            "technique": tech,
        })
    m = {
        "version": 1,
        "setup_cmd": "./check setup",
        "hooks": {
            "guard": "verif",
            "enable": "go build -tags verif (harness module /verif/harness with replace => /repo)",
            "baseline_off_cmd": "cd /repo && go test -mod=mod -vet=off -count=1 ./...",
            "source_commits": [],
            "add_only": True,
        },
        "engines": [
            {"name": "coq-proof+correspondence", "path": "/verif/check",
             "serves_properties": [c["property_id"] for c in checks],
             "kind_free_text": "Coq 8.16 theorems over Gallina models (coq/), models tied to /repo on every run by regenerated observation tables, a Go->Gallina translator and differential correspondence against the extracted model"},
        ],
        "checks": checks,
        "not_applicable": [{"property_id": p, "reason": PENDING_REASON} for p in ALL if p not in CLAIMED],
        "notes": "All checks: ./check <id> [--tier quick|thorough]. See DESIGN.md.",
    }
    json.dump(m, open(os.path.join(root, "MANIFEST.json"), "w"), indent=1)
    print("MANIFEST.json written: %d checks" % len(checks))


if __name__ == "__main__":
    main()
