"""Generates MANIFEST.json from the per-property registry (run: python3 -m lib.manifest)."""
import json, os, sys
sys.path.insert(0, os.path.dirname(os.path.dirname(os.path.abspath(__file__))))

ALL = ["C%02d" % i for i in range(1, 21)]

# property -> (technique, level text, level note, design ref)
SCRIPT_NOTE = ("Trusted: Coq kernel, extraction (ExtrOcamlBasic), OCaml driver, Go harness with the scripted port (mirrored event for event by coq/Vedirect/Port.v). "
               "bufio.Reader, fmt, strconv, encoding/hex, time are modelled, not verified; the hand-written driver model is tied to the code by the "
               "correspondence run of every check (all observables of every generated case compared), which is sampled, not exhaustive. ")

CLAIMED = {
    "C01": ("Coq theorems on the frame/line layer (soundness of response parsing and of the per-try decision) + model/code correspondence on generated scripts + extracted judge C01_call_ok on the implementation's observations",
            "C01_get_sound is the property itself: for every logger configuration, driver state (stale buffer), address, idle flag and device script with any faults and retries, a returned value implies that (bytes buffered before the call ++ bytes handed out by the port during it) contain ':' body '\\n' with body a valid type-7 response for the address, flag 0, carrying exactly that value; C01_uint/int/string/device_id_sound extend it to the typed accessors. Also proved: whatever line the driver accepts is a valid response of the expected type with correct check byte (C01_line_sound), a value is extracted only from a valid type-7 frame with the requested address and flag 0 and equals the rest of its payload (C01_get_value_sound), foreign addresses and non-zero flags never yield a value, the check byte detects every single-byte change. The executable driver model (port, bufio, retry loop) is compared with the real driver on every generated script, and the extracted predicate C01_call_ok (a returned value implies a valid matching frame inside the received bytes) is evaluated on every implementation observation.",
            SCRIPT_NOTE,
            "DESIGN.md 4/C01"),
    "C02": ("Coq theorems (little-endian, two's-complement, NUL stripping, hex, response completeness) + correspondence + expectation judge on generated device values",
            "C02_sequence: for ANY history of typed reads (raw/unsigned/signed/string, idle or busy line, any addresses) against a device that answers every command with colon-free noise plus the conforming frame in any chunking, the k-th call returns the decoding of the k-th payload after exactly one command frame and leaves the driver drained (stated on run_calls, the function the harness executes). C02_driver_roundtrip (through the C04 refinement): an idle driver whose first attempt is answered by optional noise plus the frame a conforming device sends for (addr, v), cut into data events in any way, returns exactly v after one frame. Proved for all values: le_uint/le_int invert the wire encoding for widths 1,2,4,8 over the full range (bit 63 included), other widths are an error, strip_nul removes exactly the trailing NULs, every valid response (any hex case) is accepted with exactly its payload. Driver-level round trip is checked on exhaustive 1-byte (quick) / 2-byte (thorough) values, boundary and random 4/8-byte values, strings up to 64 bytes, device ids and call sequences.",
            SCRIPT_NOTE + "Partial: aliasing of returned slices is exercised by the harness only.",
            "DESIGN.md 4/C02"),
    "C03": ("Coq theorem over the frame model (all nibbles, all addresses, all payloads) + exhaustive model/code correspondence on all 7x65536 frames",
            "Theorems C03_wellformed, C03_wellformed_any_payload, C03_get_payload, C03_no_payload are proved in Coq for every command nibble and every address/payload (induction, no enumeration). The model tx_frame is tied to the code by comparing, on every run, all 720 898 frames the real driver writes through every public entry point with the extracted model (the domain is finite, the tie is exact) and judging each observed frame with the independent grammar; frames written under write/read/flush faults and retries are judged on the scripted-port corpus.",
            "Trusted: Coq kernel, extraction (ExtrOcamlBasic), OCaml driver, Go harness. Go's fmt verbs are modelled, not verified.",
            "DESIGN.md 4/C03"),
    "C04": ("Coq refinement theorem: the concrete driver (events, bufio, fuel, eight tries) equals the abstract line machine on every fault-free script; corollaries in the property's words proved on the abstract machine; correspondence + abstract machine as judge",
            "C04_refines: for every logger configuration, address, idle flag and every state with a clean script (data cut into events in any way, read timeouts/errors anywhere, any stale bytes; no write faults, no empty reads) the concrete model returns exactly the abstract line machine's result, writes exactly as many frames and leaves exactly its left-over. On the abstract machine: C04_success (k-1 failing attempts — noise without ':', async frames, partial frame, silence, one invalid/foreign/short line — then a valid matching response at attempt k <= 8: value after exactly k frames), C04_gives_up (exactly eight frames), C04_noise_fails, C04_idle_flush (idle: result independent of stale bytes). For arbitrary scripts incl. faults: C04_never_more_than_8, C04_frames_written, C04_value_at_once. The implementation is compared with concrete model and abstract machine on all reaction sequences up to length 3/4 and random ones up to 9, stale/idle histories, first-call stale data.",
            SCRIPT_NOTE + "The refinement excludes empty reads and no-progress ports (covered by C06's bounds and the judge).",
            "DESIGN.md 4/C04"),
    "C05": ("Coq theorems (flag -> typed error, loop ends at once, one Write per exchange, register-API wrapping) + correspondence + expectation judges at the driver and at the register API",
            "Proved: a Get response for the requested address with flag 1, 2 or 4 (any trailing payload) is classified as ErrUnknownId / ErrorNotSupported / ErrorParameterError, the retry loop returns it in the state reached after that single exchange, and an exchange performs exactly one Write. Checked on the implementation for all accessors, boundary and random addresses, 0..8 trailing bytes, async prefixes and every flag byte.",
            SCRIPT_NOTE + "Register API: C05_api_wrapped is proved for every register; every register of every distinct product list is read with flags 1/2/4 and trailing payloads through Read*Register and judged (class, wrapped with the name, total frames). ", "DESIGN.md 4/C05"),
    "C06": ("Coq theorems (no call panics for any state/script/fault schedule; at most eight writes; one write per exchange) + correspondence with a fault injected at every I/O index + read budget/watchdog",
            "C06_total: for every logger configuration, driver state, device script and fault schedule every driver call returns a value or an error: it neither panics nor runs out of the supplied fuel (the modelled bufio loop, async-skipping loop and retry loop terminate; measure-based proof); no driver call panics; response parsing is total; at most eight Write calls per register access. The implementation is run with a write fault at every write index, read error/timeout/empty read at every byte position, every prefix of every valid answer, every response nibble with short payloads, random streams; reads after end of data are bounded (1 per attempt, 100 in no-progress mode) and a read budget plus a watchdog turn a hang into a reported violation.",
            SCRIPT_NOTE + "C06_reads_at_end: every driver call adds at most 8 Read calls answered from the exhausted port (8*100 for a port answering (0, nil) forever), for every state, script and fault schedule; the same bound is judged on the implementation. Blocking of a real port is runtime behaviour: the theorems bound the I/O calls of the model, the harness bounds those of the code.",
            "DESIGN.md 4/C06"),
    "C18": ("Coq theorems: simulation between any two logger configurations for every call and history; one line per typed call; replay of the logged pair through a lookup port (via the C04 refinement) + implementation run under all four configurations + I/O log replay + file logger on real files",
            "Proved: for any two logger configurations and states agreeing on reader and port, every call (and every history) returns the same result and leaves the same reader/port state; without an I/O logger no line is emitted. Every generated case is run on the real driver under all four configurations and the observations must be identical; the I/O lines (unquoted) must equal the model's (tx = frames written, rx = bytes consumed), and each typed call completed in one exchange is replayed through a lookup port. The file logger is run on real files (pre-existing content, lines longer than the 4096-byte buffer).",
            SCRIPT_NOTE + "C18_one_line, C18_replay (typed Get completed in one exchange: the line is (command frame, bytes consumed) and a fresh driver on the lookup port returns the same result) and C18_replay_commands (Ping/GetDeviceId, failing exchanges included) are proved for every state and script. Partial: debug-log text is not modelled; the file logger is os/bufio behaviour, exercised on real files only.", "DESIGN.md 4/C18"),
}


TOBS_NOTE = ("Trusted: Coq kernel (vm_compute for the finite-domain theorems), the T-obs dumper harness/cmd/gvgen, which executes the real code on the WHOLE "
             "finite domain on every run and writes coq/Gen/Obs.v (default + every differing entry; the theorems are then closed over the complete table). ")

CLAIMED.update({
    "C12": ("Coq theorem closed by computation over the complete regenerated observation of GetRegisterListByProduct (all 65536 ids, three passes) and the family lists",
            "C12_by_class: for all 65536 ids the observed (error, list) equals the list the product's class prescribes (class and exclusions written from the property text, independent of the code's type switch), lists are well formed (unique names and addresses, non-zero factors, known decoders), unsupported and unknown ids get ErrUnsupportedType and an empty list. The table is regenerated from /repo on every run; a history-dependent result (second/third pass differs) is part of the theorem.",
            TOBS_NOTE, "DESIGN.md 4/C12"),
    "C13": ("Coq theorem closed by computation over the complete regenerated observation of every product accessor (65536 ids, 256 types)",
            "C13_coherent / C13_types / C13_table_wellformed: existence, model, type, display string and string map agree for all 65536 ids; exactly one category consistent with the id range; panel ratings equal the numbers parsed (by a Coq parser) from the model designation; Phoenix model strings agree with the id digits; all 256 type values have a name iff they are one of the ten types and the predicates are disjoint.",
            TOBS_NOTE, "DESIGN.md 4/C13"),
    "C14": ("Coq theorem for every integer over the model NewEnum + complete observation of the typed constructors (256 bytes) and sampled observation of NewEnum (141 001 + 6 000 ints) for all 20 factories",
            "C14_new_enum: for every factory and EVERY integer v, construction succeeds iff v is a key of the index-to-name map, with index v and the mapped non-empty name. C14_observed ties the model to the code: New on all 256 bytes and NewEnum on [-70000,70000] and around every power-of-two boundary behave exactly as the model says, failures match ErrInvalidEnumIdx; the factory list is checked against a scan of /repo/veconst.",
            TOBS_NOTE + "NewEnum's int domain is sampled, not enumerated.", "DESIGN.md 4/C14"),
    "C15": ("Coq theorems (field set = documented bits for every raw value; rendering judged over all bit vectors, lifted to every raw value) + correspondence through factory and register API",
            "C15_fields and C15_render are proved for every raw value (the rendering part by complete enumeration of the bit vectors of the documented fields, lifted by a lemma). The implementation's Fields() is compared with the model on all combinations of documented bits x settings of the other bits (incl. bits >= 32) and all 65536 values of the 16-bit type; renderings obtained through the register API are produced 65 times each and judged by render_ok.",
            TOBS_NOTE + "Map iteration order is runtime behaviour: determinism is exercised (65 repetitions), the model is a function.", "DESIGN.md 4/C15"),
})

API_NOTE = ("Trusted: Coq kernel, T-obs dumper, extraction, OCaml driver, Go harness (scripted port). The hand-written model Api.v is tied to vedirectapi by running "
            "every generated case on both and comparing results op by op. ")

CLAIMED.update({
    "C09": ("Coq theorems (readers = decode_register of the obtained payload for every register/state/script; exact rational scaling; enum and field-list lemmas over the regenerated tables) + correspondence on every register of every product list",
            "C09_readers is proved for every register, driver state, script and fault schedule; C09_number states the exact value raw/factor+offset; C09_enum (every integer), C09_fieldlist (no documented bit lost to the constructor width), C09_wrapped (errors stay matchable), C09_all_registers (all 65536 ids: non-zero factors, decoders present). The implementation is run on every register of every distinct product list with boundary/random raw values, unsupported widths, NUL/Unicode-space texts, undefined enum codes and device/transport errors.",
            API_NOTE + "The float64 result of the number reader is modelled in Flocq binary64 (Api/Float.v), proved finite and correctly rounded (C09_number_f64, C09_number_f64_small; these two theorems depend on the standard-library axioms of Coq's Reals, functional extensionality and excluded middle, named in the evidence) and compared bit for bit with the implementation.", "DESIGN.md 4/C09"),
    "C10": ("Coq theorem by induction over the register sequence (prefix, exactly once, abort state, cancellation points) + correspondence + independent expectation judge",
            "C10_stream is proved for every register sequence, cancellation point, accumulator, driver state, device script and fault schedule: delivered values are a prefix of the plan in order, each once; nothing is read at or after a check point where the context is done; normal end iff everything was delivered; on failure the state is the one the failing read left. C10_plan/C10_no_handler_no_io/C10_io_only_for_read_registers give grouping and I/O only for set handlers. Implementation: all product classes, all 16 handler subsets, failure at every position, cancellation before / in every k-th callback / in the k-th Write, random sub-lists, map variant.",
            API_NOTE + "C10_maps: the map-returning variants are modelled in Coq (Api/Maps.v, Go maps as association lists) and proved to hold exactly the delivered values keyed by name; the runner executes that model. A concurrent cancel() is modelled by the number of registers delivered before it becomes visible; goroutine scheduling itself is not modelled.", "DESIGN.md 4/C10"),
    "C11": ("Coq theorems (connect iff both exchanges succeed and the id has a list; supported class via C12 for all ids; frame order) + exhaustive correspondence over all 65536 device ids",
            "C11_iff, C11_supported, C11_order are proved over the model; the model and the real NewRegisterApi are compared on all 65536 device ids on every run (the domain is finite: exact), plus silent/malformed/faulty devices; the judge uses the class specification of C12, not the code's type switch.",
            API_NOTE, "DESIGN.md 4/C11"),
})

CLAIMED.update({
    "C16": ("Coq theorems by induction over the operation history and over the insertion sort (permutation, sortedness, stability) + correspondence on exhaustive short and random long histories",
            "C16_history (any operation sequence: each of the four sequences equals the plain-list fold), C16_filter, C16_filter_by_name, C16_len, C16_get_registers (permutation of all elements, ascending by sort key, stable per key) are proved for all histories and lists. The real RegisterList is compared with the model after every operation (Len) and at the end (four sequences, GetRegisters) on all sequences up to length 3/4 over 12 operations and random histories up to length 200; the combined view is also judged directly.",
            "Trusted: Coq kernel, extraction, OCaml driver, Go harness. sort.SliceStable is modelled by a stable insertion sort (result specified by the theorem, not by the algorithm). Registers come from the exported families; predicates from fixed families.",
            "DESIGN.md 4/C16"),
    "C17": ("Coq alias analysis with soundness theorem over an IR transcribed from the Go source on every run (veproduct, veconst) + object-identity model + harness run of every lookup function x mutation history x later calls",
            "C17_lookups_fresh: every function of veproduct and veconst that returns a map or slice (30: GetStringMap, 23 IntToStringMap, Decode, Fields), transcribed into the alias IR by gvgen alias from the current source, is accepted by the Coq check fun_ok; C17_fresh_sound: an accepted function, on every run of its flattened body (statements in any order, any number of times), stores nothing in a package-level variable, returns only objects allocated by that call and writes to nothing older, so what a caller receives is reachable from nowhere else; C17_lookups_covered: the IR contains the lookup functions the property names (checked against the T-obs factory tables). The harness run (product string map, 23 IntToStringMaps, Fields()/Decode() incl. raw value 0, per-product register lists of every class checked against every other product after each of eight list mutations, family lists; the result of the very first call of the process is mutated too) supplies failing histories and covers veregister, which is outside the IR.",
            "Trusted: Coq kernel, the alias transcriber harness/cmd/gvgen/alias.go (which expressions allocate, which statements store references; unknown statements are rejected), Go harness. C17_lookups_return_fresh_objects closes the theorem over calls (any depth). Partial: register lists (veregister) by the harness only.",
            "DESIGN.md 0.2/C17, 4/C17"),
})

TGEN_NOTE = ("Trusted: Coq kernel, the GoLite->Gallina translator harness/cmd/gvgen (run on /repo/bleparser on every check; integer typing from go/types; stops on any "
             "construct outside the subset) with its target vocabulary coq/Ble/GoSem.v, the T-obs enum tables, extraction, OCaml driver, Go harness. The translator is "
             "validated on every run by executing the translated decoders against the real ones on the whole generated input set. ")

CLAIMED.update({
    "C07": ("Coq refinement theorems: each of the 13 decoders, translated from the Go source on every run, equals the layout specification for EVERY input (generic lia-based script) + translator validation + spec judge on the implementation",
            "C07_all_decoders: for all byte lists, each translated decoder returns exactly spec_decode of its layout table (bit slice, signedness, scale/offset, NA codes, aux-mode selection, enum validation); C07_bits_is_le_slice and C07_bits_outside give the meaning of a bit slice and non-interference. The 13 refinement proofs are re-run whenever bleparser changes. The real decoders are run on every raw value of every field (exhaustive up to 12/16 bits) in three contexts, all enum bytes, all lengths, and compared with both the translation and the specification.",
            TGEN_NOTE + "The theorems read the float operations over exact rationals (decimal literals denote reals; tolerance 1e-9 against the implementation); the same generated text is also read in IEEE-754 binary64 (Ble/GoSemF.v, Flocq) and compared bit for bit with the implementation on a seventh of the cases.", "DESIGN.md 4/C07"),
    "C08": ("Coq theorems derived from the 13 refinements (no fault for any input; ErrInputTooShort iff shorter than the documented length; suffix independence via spec_decode_app) + correspondence with cap == len and poisoned spare capacity",
            "C08_all_decoders: for every input of any length no decoder faults (index/slice/fixed-width reads judged against len), the error is ErrInputTooShort exactly when the input is shorter than ceil(max(start+width)/8), and for longer inputs the result is the specification's result on the record alone (C08_suffix_independent_spec). The implementation is run on all lengths 0..64 x contents with cap == len (Go panics exactly where the model faults) and with poisoned spare capacity, and on complete records with suffixes.",
            TGEN_NOTE, "DESIGN.md 4/C08"),
})

CLAIMED.update({
    "C19": ("Coq theorems (padding for all lengths/block sizes; CTR over an arbitrary block function incl. prefix independence; handler case analysis; MAC lookup) + FIPS-197 AES modelled in Coq + correspondence through the add-only hook (crypto/aes cross-checked against the model)",
            "Proved: C19_pad (1..blocksize bytes each equal to the pad length, total a multiple), C19_short_ignored, C19_bad_key, C19_dispatch (plaintext = CTR decryption of bytes 8.. with the 16-bit LE nonce as initial counter block; type 0x01 decoded by the solar-charger decoder, other types not), C19_ctr_prefix, C19_total (the decoding is C07's and never faults), C19_mac_lookup, C19_mac_address. The real handler is run (one BleStruct instance for the whole history) on payload lengths 0..64, all record types, key lengths 0..40, nonces, and device lookups with well-formed and malformed addresses; the judge recomputes the CTR decryption from single-block AES encryptions.",
            TGEN_NOTE + "AES is modelled in Coq (Ble/Aes.v: FIPS-197 Cipher, 128/192/256-bit keys; C19_aes_fips197: Appendix B and C.1-C.3 vectors; C19_aes_ctr: the handler under the device key) and executed by the runner; crypto/aes outputs for the counter blocks are cross-checked against it. cipher.NewCTR is modelled; the handler's effects are read from its log output.", "DESIGN.md 4/C19"),
    "C20": ("Coq theorems over the CLI model (count line, one line per delivered register sorted by key, error lines for silent devices) + the freshly built vecli binary against a pty device simulator + I/O log replay",
            "C20_output, C20_silent_during_connect, C20_silent_after_connect are proved over Cli.v (composition of connect, streaming and the stable sort). The real binary is run against a simulated device behind a pseudo-terminal for products of every class with random register contents and flags -, -v, --io-log; every printed value is parsed and compared with the model run on the same script; silence at ping / id query / after k answers (between frames and mid-frame) must give the documented error lines and termination; the written I/O log must replay to the same values.",
            API_NOTE + "The serial line discipline, the 200 ms timeout, printf formatting and process exit are runtime behaviour exercised, not proved.", "DESIGN.md 4/C20"),
})

PENDING_REASON = "check not built yet in this session (work in progress; see DESIGN.md section 10)"


def main():
    root = os.path.dirname(os.path.dirname(os.path.abspath(__file__)))
    checks = []
    for pid in ALL:
        if pid not in CLAIMED:
            continue
        tech, text, note, ref = CLAIMED[pid]
        checks.append({
            "property_id": pid,
            "quick_cmd": "./check %s --tier quick" % pid,
            "thorough_cmd": "./check %s --tier thorough" % pid,
            "evidence_file": "/verif/evidence/%s.json" % pid,
            "replay_cmd_template": "./check %s --replay {path}" % pid,
            "engine": "coq-proof+correspondence",
            "level_claimed": {"category": "proof", "text": text, "design_ref": ref},
            "level_note": note,
            "technique": tech,
        })
    m = {
        "version": 1,
        "setup_cmd": "./check setup",
        "hooks": {
            "guard": "verif",
            "enable": "go build -tags verif (harness module /verif/harness with replace => /repo)",
            "baseline_off_cmd": "cd /repo && go test -mod=mod -vet=off -count=1 ./...",
            "source_commits": ["5f0e031", "e421dde", "e7c17b9"],
            "add_only": True,
        },
        "engines": [
            {"name": "coq-proof+correspondence", "path": "/verif/check",
             "serves_properties": [c["property_id"] for c in checks],
             "kind_free_text": "Coq 8.16 theorems over Gallina models (coq/), models tied to /repo on every run by regenerated observation tables, a Go->Gallina translator and differential correspondence against the extracted model"},
        ],
        "checks": checks,
        "not_applicable": [{"property_id": p, "reason": PENDING_REASON} for p in ALL if p not in CLAIMED],
        "notes": "All checks: ./check <id> [--tier quick|thorough]. See DESIGN.md.",
    }
    json.dump(m, open(os.path.join(root, "MANIFEST.json"), "w"), indent=1)
    print("MANIFEST.json written: %d checks" % len(checks))


if __name__ == "__main__":
    main()
