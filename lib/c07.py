"""C07: BLE record decoders implement the published bit layout for every input."""
from lib import ble

THEOREMS = ["C07_all_decoders", "C07_bits_is_le_slice", "C07_bits_outside"]


def run(res, args):
    res.assumptions = ["the published layout is the table in the comment above each record struct, read with the rules of DESIGN.md section 6 (coq/Ble/Layout.v)",
                       "float64 rounding is not modelled: decimal literals are the real numbers they denote, results are compared within 1e-9*max(1,|q|)"]
    ble.standard(res, args, "C07", THEOREMS, "")
    res.partial.append("IEEE-754 rounding of the unit conversion is not modelled")
