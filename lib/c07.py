"""C07: BLE record decoders implement the published bit layout for every input."""
from lib import ble

THEOREMS = ["C07_all_decoders", "C07_bits_is_le_slice", "C07_bits_outside"]


def run(res, args):
    res.assumptions = ["the published layout is the table in the comment above each record struct, read with the rules of DESIGN.md section 6 (coq/Ble/Layout.v)",
                       "the refinement theorems read the translated decoders over exact rationals (decimal literals are the real numbers they denote; results compared within 1e-9*max(1,|q|)); the SAME generated text is also read in IEEE-754 binary64 (Ble/GoSemF.v, Flocq) and compared bit for bit with the implementation on a seventh of the cases"]
    ble.standard(res, args, "C07", THEOREMS, "")
    res.partial.append("IEEE-754 rounding of the unit conversion: modelled for execution (bit-exact comparison), the refinement theorems are over exact rationals")
