"""Regeneration of everything derived from /repo's working tree (ties T-obs and T-gen)."""
from lib import common


def regenerate_all():
    pass
