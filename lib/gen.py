"""Regeneration of everything derived from /repo's working tree (ties T-obs and T-gen)."""
import os
from lib import common
from lib.common import Broken


def dump_tables():
    out = os.path.join(common.GEN, "Obs.v")
    rc, o = common.sh([common.GVGEN, "dump", common.REPO, out], timeout=300)
    if rc != 0:
        raise Broken("gvgen dump failed: the observation tables cannot be regenerated from /repo", o[-3000:])


BLE_BROKEN = None   # set when /repo/bleparser can no longer be translated (the stale Gen/BleImpl.v is kept)


def regenerate_all():
    global BLE_BROKEN
    dump_tables()
    from lib import blegen
    BLE_BROKEN = None
    try:
        blegen.translate()
    except Broken as b:
        BLE_BROKEN = b
