"""Regeneration of everything derived from /repo's working tree (ties T-obs and T-gen)."""
import os
from lib import common
from lib.common import Broken


def dump_tables():
    out = os.path.join(common.GEN, "Obs.v")
    rc, o = common.sh([common.GVGEN, "dump", common.REPO, out], timeout=300)
    if rc != 0:
        raise Broken("gvgen dump failed: the observation tables cannot be regenerated from /repo", o[-3000:])


def translate_alias():
    """T-gen for C17: alias IR of every map/slice-returning function of veproduct and veconst"""
    out = os.path.join(common.GEN, "AliasGen.v")
    rc, o = common.sh([common.GVGEN, "alias", common.REPO, out], timeout=300)
    if rc != 0:
        raise Broken("gvgen alias failed: veproduct/veconst can no longer be translated into the alias IR (tie T-gen, C17)", o[-3000:])


ALIAS_BROKEN = None
BLE_BROKEN = None   # set when /repo/bleparser can no longer be translated (the stale Gen/BleImpl.v is kept)


def regenerate_all():
    global BLE_BROKEN, ALIAS_BROKEN
    dump_tables()
    ALIAS_BROKEN = None
    try:
        translate_alias()
    except Broken as b:
        ALIAS_BROKEN = b
    from lib import drvgen, apigen, reggen, enumgen, blehgen, dbggen
    drvgen.translate()
    dbggen.translate()
    dbggen.translate_flog()
    apigen.translate()
    reggen.translate()
    enumgen.translate()
    from lib import blegen
    BLE_BROKEN = None
    try:
        blegen.translate()
    except Broken as b:
        BLE_BROKEN = b
    blehgen.translate()   # after the decoders: the handler calls the translated solar-charger decoder
