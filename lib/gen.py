"""Regeneration of everything derived from /repo's working tree (ties T-obs and T-gen)."""
import os
from lib import common
from lib.common import Broken


def dump_tables():
    out = os.path.join(common.GEN, "Obs.v")
    rc, o = common.sh([common.GVGEN, "dump", common.REPO, out], timeout=300)
    if rc != 0:
        raise Broken("gvgen dump failed: the observation tables cannot be regenerated from /repo", o[-3000:])


def regenerate_all():
    dump_tables()
    try:
        from lib import blegen
        blegen.translate()
    except ImportError:
        pass
