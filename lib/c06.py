"""C06: no device behaviour or port failure can crash or hang the driver."""
from lib import script

THEOREMS = ["C06_total", "C06_no_panic", "C06_response_parser_total", "C06_at_most_8_writes", "C06_one_write_per_exchange", "C06_reads_at_end", "C06_api_reads_at_end"]


def run(res, args):
    res.assumptions = ["panics are caught with recover() in the harness",
                       "'hang' on a blocking Read of a real port is runtime behaviour: the check bounds the number of I/O calls, not their duration"]
    script.standard(res, args, "C06", "C06", THEOREMS,
                    "Classes for C06: a write fault at every write index, flush faults, a read error / timeout / empty read at every byte "
                    "position of every call kind's answer, every prefix of every valid answer followed by silence (EOF mode and no-progress "
                    "mode), every response nibble with empty and short payloads, random byte streams with random fault schedules, "
                    "noise and lines longer than the 4096-byte reader buffer.",
                    partial=["streaming and cancellation of the register API are C10's subject"])
    # "every driver and register-API call returns normally": connecting with EVERY device id, the malformed / silent /
    # noisy connect scenarios, and the register reads of C09 must not panic either
    import re
    from lib import apirun
    from lib.common import Broken
    napi = npanic = nover = 0
    for fam in ("C11", "C09"):
        try:
            a = apirun.run(res.tier, res.seed, fam)
        except Broken as b:
            res.broken.append(b)
            continue
        for cl, ol in zip(a["lines"], a["impl"]):
            m = re.search(r" R=(\S+)", ol)
            if not m:
                continue
            napi += 1
            toks = m.group(1).split(";")
            if "P" in toks or "H" in toks:
                npanic += 1
                if npanic <= 5:
                    res.add_violation("a register-API call panics (or never returns)", key="C06:api:" + re.sub(r"^\S+ ", "", cl)[:120],
                                      input=cl, observed=ol[:400])
            # "writes at most eight frames per register access": the frames written during each single register read of
            # the API (one access) and during connect (ping + device id: one frame each)
            wo = re.search(r" wo=(\S+)", ol)
            om = re.search(r"ops=(\S+)", cl)
            if wo and om:
                for op, n in zip(om.group(1).split(";"), wo.group(1).split(",")):
                    limit = 8 if op.startswith("read/") else 2 if op == "connect" else None
                    if limit is not None and int(n) > limit:
                        nover += 1
                        if nover <= 5:
                            res.add_violation("the register-API operation %s writes %s frames (at most %d per register access)" % (op, n, limit),
                                              key="C06:api-frames:" + re.sub(r"^\S+ ", "", cl)[:120], input=cl, observed=ol[:400])
    res.cov["register_api_cases_without_panic"] = napi - npanic
    res.cov["register_api_accesses_over_8_frames"] = nover
