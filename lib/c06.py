"""C06: no device behaviour or port failure can crash or hang the driver."""
from lib import script

THEOREMS = ["C06_total", "C06_no_panic", "C06_response_parser_total", "C06_at_most_8_writes", "C06_one_write_per_exchange", "C06_reads_at_end", "C06_api_reads_at_end"]


def run(res, args):
    res.assumptions = ["panics are caught with recover() in the harness",
                       "'hang' on a blocking Read of a real port is runtime behaviour: the check bounds the number of I/O calls, not their duration"]
    script.standard(res, args, "C06", "C06", THEOREMS,
                    "Classes for C06: a write fault at every write index, flush faults, a read error / timeout / empty read at every byte "
                    "position of every call kind's answer, every prefix of every valid answer followed by silence (EOF mode and no-progress "
                    "mode), every response nibble with empty and short payloads, random byte streams with random fault schedules, "
                    "noise and lines longer than the 4096-byte reader buffer.",
                    partial=["register-API calls (connect, read-all) are covered by C10/C11"])
