"""T-gen for the BLE front end: handleNewManufacturerData, PKCS7Padding, bluezAddrBytes and getDeviceConfig of
/repo/ble/ble.go are translated into coq/Gen/BleHandlerImpl.v on every run (`gvgen blehandler`) and the theorems of
coq/Ble/BleHandlerRefine.v are re-checked against the new text (all owned by C19)."""
import os, re
from lib import common, drvgen
from lib.common import Broken

SRC_THEOREMS = ["C19_src_PKCS7Padding", "C19_src_handle", "C19_src_handle_no_panic", "C19_src_bluezAddrBytes", "C19_src_getDeviceConfig"]

OUT = os.path.join(common.GEN, "BleHandlerImpl.v")
REF = os.path.join(common.COQ, "Ble", "BleHandlerImpl.reference")

BROKEN = None


def translate():
    global BROKEN
    BROKEN = None
    rc, o = common.sh([common.GVGEN, "blehandler", common.REPO, OUT], timeout=300)
    if rc != 0:
        BROKEN = Broken("the GoLite-D translator stopped: /repo/ble/ble.go can no longer be translated (tie T-gen)", o[-3000:])
        if not os.path.exists(OUT) and os.path.exists(REF):
            common.write_if_changed(OUT, open(REF).read())


def changed():
    return sorted(set(n for (n, f) in drvgen.changed_vs(OUT, REF)))


def src_obligations(res):
    ths = SRC_THEOREMS
    res.cov["ble_source_tie"] = ("handleNewManufacturerData, PKCS7Padding, bluezAddrBytes, getDeviceConfig of ble/ble.go translated by gvgen "
                                 "blehandler into Gen/BleHandlerImpl.v on this run; refinement to Ble/Handler.v re-proved (Ble/BleHandlerRefine.v)")
    if BROKEN is not None:
        res.cov["obligations"] = res.cov.get("obligations", 0) + len(ths)
        res.broken.append(BROKEN)
        return False
    try:
        ob, di, rep, cmd, dt = common.prove("C19src", ths)
    except Broken as b:
        ch = changed()
        res.cov["obligations"] = res.cov.get("obligations", 0) + len(ths)
        res.cov["changed_source_functions"] = ch
        res.broken.append(Broken("the translated advertisement handler no longer refines the model (tie T-gen): changed %s; %s"
                                 % (", ".join(ch) or "?", b.what), b.detail))
        return False
    res.cov["obligations"] = res.cov.get("obligations", 0) + ob
    res.cov["discharged"] = res.cov.get("discharged", 0) + di
    res.cov["theorems"] = list(res.cov.get("theorems", [])) + ths
    res.cov["checker_cmd"] = res.cov.get("checker_cmd", "") + " && " + cmd
    ch = changed()
    if ch:
        res.cov["changed_source_functions"] = list(res.cov.get("changed_source_functions", [])) + ch
    return True
