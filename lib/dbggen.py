"""T-gen for vd.debugPrintf (its calls are dropped from the driver translation): translated into
coq/Gen/DbgImpl.v on every run (`gvgen dbg`); coq/Vedirect/DbgFacts.v proves that it keeps the indentation
counter within bounds and never panics.  Owned by C18 (anchor vedirect/logging.go)."""
import os
from lib import common, drvgen
from lib.common import Broken

THEOREMS = ["C18_dbg_debugPrintf", "C18_dbg_never_panics"]
OUT = os.path.join(common.GEN, "DbgImpl.v")
REF = os.path.join(common.COQ, "Vedirect", "DbgImpl.reference")
BROKEN = None


def translate():
    global BROKEN
    BROKEN = None
    rc, o = common.sh([common.GVGEN, "dbg", common.REPO, OUT], timeout=300)
    if rc != 0:
        BROKEN = Broken("the GoLite-D translator stopped: vd.debugPrintf can no longer be translated (tie T-gen)", o[-3000:])
        if not os.path.exists(OUT) and os.path.exists(REF):
            common.write_if_changed(OUT, open(REF).read())


def obligations(res):
    res.cov["debug_source_tie"] = ("vd.debugPrintf translated by gvgen dbg into Gen/DbgImpl.v on this run; indentation bounds and "
                                   "absence of panics re-proved (Vedirect/DbgFacts.v)")
    if BROKEN is not None:
        res.cov["obligations"] = res.cov.get("obligations", 0) + len(THEOREMS)
        res.broken.append(BROKEN)
        return False
    try:
        ob, di, rep, cmd, dt = common.prove("C18dbg", THEOREMS)
    except Broken as b:
        res.cov["obligations"] = res.cov.get("obligations", 0) + len(THEOREMS)
        res.broken.append(Broken("the translated debugPrintf no longer keeps its indentation counter in bounds / may panic (tie T-gen): %s" % b.what, b.detail))
        return False
    res.cov["obligations"] = res.cov.get("obligations", 0) + ob
    res.cov["discharged"] = res.cov.get("discharged", 0) + di
    res.cov["theorems"] = list(res.cov.get("theorems", [])) + THEOREMS
    res.cov["checker_cmd"] = res.cov.get("checker_cmd", "") + " && " + cmd
    return True


# ---- the file logger (vedirectapi/fileLogger.go), also owned by C18 ----
FLOG_THEOREMS = ["C18_flog_appends", "C18_flog_open_error"]
FLOG_OUT = os.path.join(common.GEN, "FlogImpl.v")
FLOG_REF = os.path.join(common.COQ, "Api", "FlogImpl.reference")
FLOG_BROKEN = None


def translate_flog():
    global FLOG_BROKEN
    FLOG_BROKEN = None
    rc, o = common.sh([common.GVGEN, "flog", common.REPO, FLOG_OUT], timeout=300)
    if rc != 0:
        FLOG_BROKEN = Broken("the GoLite-D translator stopped: vedirectapi/fileLogger.go can no longer be translated (tie T-gen)", o[-3000:])
        if not os.path.exists(FLOG_OUT) and os.path.exists(FLOG_REF):
            common.write_if_changed(FLOG_OUT, open(FLOG_REF).read())


def flog_obligations(res):
    res.cov["filelogger_source_tie"] = ("vedirectapi/fileLogger.go translated by gvgen flog into Gen/FlogImpl.v on this run; 'once closed, "
                                        "every line appended in order after the previous content' re-proved (Api/FlogFacts.v)")
    if FLOG_BROKEN is not None:
        res.cov["obligations"] = res.cov.get("obligations", 0) + len(FLOG_THEOREMS)
        res.broken.append(FLOG_BROKEN)
        return False
    try:
        ob, di, rep, cmd, dt = common.prove("C18flog", FLOG_THEOREMS)
    except Broken as b:
        res.cov["obligations"] = res.cov.get("obligations", 0) + len(FLOG_THEOREMS)
        res.broken.append(Broken("the translated file logger no longer appends exactly the lines after the previous content (tie T-gen): %s" % b.what, b.detail))
        return False
    res.cov["obligations"] = res.cov.get("obligations", 0) + ob
    res.cov["discharged"] = res.cov.get("discharged", 0) + di
    res.cov["theorems"] = list(res.cov.get("theorems", [])) + FLOG_THEOREMS
    res.cov["checker_cmd"] = res.cov.get("checker_cmd", "") + " && " + cmd
    return True
