"""T-gen for vd.debugPrintf (its calls are dropped from the driver translation): translated into
coq/Gen/DbgImpl.v on every run (`gvgen dbg`); coq/Vedirect/DbgFacts.v proves that it keeps the indentation
counter within bounds and never panics.  Owned by C18 (anchor vedirect/logging.go)."""
import os
from lib import common, drvgen
from lib.common import Broken

THEOREMS = ["C18_dbg_debugPrintf", "C18_dbg_never_panics"]
OUT = os.path.join(common.GEN, "DbgImpl.v")
REF = os.path.join(common.COQ, "Vedirect", "DbgImpl.reference")
BROKEN = None


def translate():
    global BROKEN
    BROKEN = None
    rc, o = common.sh([common.GVGEN, "dbg", common.REPO, OUT], timeout=300)
    if rc != 0:
        BROKEN = Broken("the GoLite-D translator stopped: vd.debugPrintf can no longer be translated (tie T-gen)", o[-3000:])
        if not os.path.exists(OUT) and os.path.exists(REF):
            common.write_if_changed(OUT, open(REF).read())


def obligations(res):
    res.cov["debug_source_tie"] = ("vd.debugPrintf translated by gvgen dbg into Gen/DbgImpl.v on this run; indentation bounds and "
                                   "absence of panics re-proved (Vedirect/DbgFacts.v)")
    if BROKEN is not None:
        res.cov["obligations"] = res.cov.get("obligations", 0) + len(THEOREMS)
        res.broken.append(BROKEN)
        return False
    try:
        ob, di, rep, cmd, dt = common.prove("C18dbg", THEOREMS)
    except Broken as b:
        res.cov["obligations"] = res.cov.get("obligations", 0) + len(THEOREMS)
        res.broken.append(Broken("the translated debugPrintf no longer keeps its indentation counter in bounds / may panic (tie T-gen): %s" % b.what, b.detail))
        return False
    res.cov["obligations"] = res.cov.get("obligations", 0) + ob
    res.cov["discharged"] = res.cov.get("discharged", 0) + di
    res.cov["theorems"] = list(res.cov.get("theorems", [])) + THEOREMS
    res.cov["checker_cmd"] = res.cov.get("checker_cmd", "") + " && " + cmd
    return True
