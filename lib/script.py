"""Scripted-port pipeline shared by C01, C02, C04, C05, C06, C18 (and the fault part of C03):
generate cases -> run the implementation (gvrun script) -> run the extracted model (gvmodel
script) -> diff -> evaluate the extracted judges on the implementation's observations."""
import collections, glob, json, os, re
from lib import common, cases
from lib.common import Broken

_cache = {}


class HangFound(Exception):
    def __init__(self, case_id, lines):
        self.case_id = case_id
        self.line = [l for l in lines if l.split(" ", 1)[0] == case_id][0]

STRIP = re.compile(r" (RP|ALTERED)=\S+")


def corpus_lines(pid):
    out = []
    for f in sorted(glob.glob(os.path.join(common.CORPUS, "script", "*.txt"))):
        out += [l.rstrip("\n") for l in open(f) if l.strip() and not l.startswith("#")]
    return out


def run_lines(lines, tag, with_model=True):
    """returns (impl_obs_lines, model_obs_lines, judge_output)"""
    cf = os.path.join(common.BUILD, "cases-%s.txt" % tag)
    io_ = os.path.join(common.BUILD, "impl-%s.obs" % tag)
    mo = os.path.join(common.BUILD, "model-%s.obs" % tag)
    open(cf, "w").write("\n".join(lines) + "\n")
    rc, out = common.sh("ulimit -v 8000000; timeout 1200 %s script %s > %s" % (common.GVRUN, cf, io_))
    if rc == 3:
        # the per-case watchdog fired: the hanging case is the last observation line
        hung = open(io_).read().splitlines()[-1]
        raise HangFound(hung.split(" ", 1)[0], lines)
    if rc != 0:
        raise Broken("gvrun script failed (rc=%d)" % rc, out[-2000:])
    if with_model:
        rc, out = common.sh("timeout 1800 %s script %s > %s" % (common.GVMODEL, cf, mo))
        if rc != 0:
            raise Broken("gvmodel script failed (rc=%d)" % rc, out[-2000:])
    else:
        open(mo, "w").write("")
    rc, jout = common.sh("timeout 1800 %s judge %s %s" % (common.GVMODEL, cf, io_))
    if rc != 0:
        raise Broken("gvmodel judge failed (rc=%d)" % rc, jout[-2000:])
    impl = open(io_).read().splitlines()
    model = open(mo).read().splitlines()
    return impl, model, jout


def run_corpus(tier, seed):
    key = (tier, seed)
    if key in _cache:
        return _cache[key]
    cs = cases.generate(tier, seed)
    lines = corpus_lines("script") + [c.line() for c in cs]
    # renumber corpus ids so they cannot collide
    impl, model, jout = run_lines(lines, tier)
    if len(impl) != len(lines) or len(model) != len(lines):
        raise Broken("observation count differs from case count (impl %d, model %d, cases %d)" % (len(impl), len(model), len(lines)))
    mism = []
    for cl, a, b in zip(lines, impl, model):
        if STRIP.sub("", a) != b:
            mism.append({"case": cl, "impl": a, "model": b})
    summ = {}
    for m in re.finditer(r"JUDGE-SUMMARY (\w+) applicable=(\d+) failures=(\d+)", jout):
        summ[m.group(1)] = (int(m.group(2)), int(m.group(3)))
    fails = collections.defaultdict(list)
    for l in jout.splitlines():
        if l.startswith("JUDGE-FAIL"):
            f = l.split(" ", 3)
            fails[f[1]].append({"case_id": f[2], "what": f[3]})
    byid = {l.split(" ", 1)[0]: l for l in lines}
    implby = {l.split(" ", 1)[0]: l for l in impl}
    cls = collections.Counter(re.search(r"cls=(\S+)", l).group(1) for l in lines)
    distinct = len(set(l.split(" ", 1)[1] for l in lines))
    nontrivial = len(set(l.split(" ", 1)[1] for l in lines if re.search(r"re=[^- ]", l)))
    sizes = collections.Counter()
    ops = collections.Counter()
    for l in lines:
        m = re.search(r"calls=(\S+)", l)
        ks = m.group(1).split(";")
        sizes[min(len(ks), 33)] += 1
        for k in ks:
            ops[k.split("/")[0]] += 1
    errkinds = collections.Counter()
    for a in impl:
        m = re.search(r" R=(\S+)", a)
        for r in m.group(1).split(";"):
            errkinds[r if r[:1] in "EP" or r == "ok" else "value"] += 1
    r = dict(lines=lines, impl=impl, model=model, mism=mism, summ=summ, fails=fails, byid=byid, implby=implby,
             cls=dict(cls), distinct=distinct, nontrivial=nontrivial, sizes=dict(sizes), ops=dict(ops),
             results=dict(errkinds))
    _cache[key] = r
    return r


def shrink(case_line, still_fails):
    """greedy shrinking of one case line: drop calls, drop reactions, drop events; `still_fails(line)` re-runs both sides"""
    def parts(l):
        toks = l.split(" ")
        d = {}
        for t in toks[1:]:
            k, v = t.split("=", 1)
            d[k] = v
        return toks[0], d

    def build(i, d):
        order = ["cls", "cfg", "np", "stale", "wf", "ff", "re", "calls"]
        rest = [k for k in d if k not in order]
        return i + "".join(" %s=%s" % (k, d[k]) for k in order + rest if k in d)

    cid, d = parts(case_line)
    changed = True
    budget = 200
    while changed and budget > 0:
        changed = False
        calls = d["calls"].split(";")
        for i in range(len(calls) - 1, -1, -1):
            if len(calls) > 1:
                d2 = dict(d, calls=";".join(calls[:i] + calls[i + 1:]))
                budget -= 1
                if still_fails(build(cid, d2)):
                    d, calls, changed = d2, d2["calls"].split(";"), True
        reacts = d["re"].split("|") if d["re"] != "-" else []
        for i in range(len(reacts) - 1, -1, -1):
            evs = reacts[i].split(",") if reacts[i] != "-" else []
            for j in range(len(evs) - 1, -1, -1):
                evs2 = evs[:j] + evs[j + 1:]
                r2 = reacts[:i] + [",".join(evs2) if evs2 else "-"] + reacts[i + 1:]
                d2 = dict(d, re="|".join(r2))
                budget -= 1
                if budget > 0 and still_fails(build(cid, d2)):
                    d, reacts, evs, changed = d2, r2, evs2, True
        if budget <= 0:
            break
    return build(cid, d)


def judge_fails_on(prop):
    def f(line):
        impl, model, jout = run_lines([line], "shrink")
        return any(l.startswith("JUDGE-FAIL %s " % prop) for l in jout.splitlines())
    return f


def standard(res, args, pid, prop_file, theorems, classes_note, partial=()):
    """the whole check for one scripted-port property"""
    tier, seed = res.tier, res.seed
    common.build_harness()
    from lib import gen
    gen.regenerate_all()
    common.coq_make()
    common.standard_proof_cov(res, prop_file, theorems)
    from lib import drvgen
    if pid in drvgen.SRC_THEOREMS:
        drvgen.src_obligations(res, pid)
    if pid == "C18":
        from lib import dbggen
        dbggen.obligations(res)
        dbggen.flog_obligations(res)
    from lib import apigen
    if pid in apigen.API_THEOREMS:
        apigen.api_obligations(res, pid)
    common.build_ocaml()
    if args.replay:
        rp = json.load(open(args.replay))
        lines = [v["input"] for v in rp.get("violations", []) if isinstance(v.get("input"), str)]
        impl, model, jout = run_lines(lines, "replay")
        print("\n".join(impl)); print(jout)
    try:
        r = run_corpus(tier, seed)
    except HangFound as h:
        res.cov.update(evaluations=1, distinct_nontrivial=1, samples=[h.line], rule="watchdog")
        if pid == "C06":
            res.add_violation("the call does not return within 20 s (hang)", key="C06:hang:" + h.line[:120], input=h.line)
        else:
            res.broken.append(Broken("the implementation hangs on a generated case; see C06", h.line))
        return None
    app, nf = r["summ"].get(pid, (0, 0))
    samples = [l for l in r["lines"][:: max(1, len(r["lines"]) // 6)]][:6]
    res.cov.update(evaluations=len(r["lines"]), judge_applications=app, distinct_nontrivial=r["nontrivial"],
                   rule="scripted-port cases generated from seed (classes below) plus the minimised corpus; distinct = "
                        "distinct case lines, non-trivial = the device script delivers at least one event; every case is run "
                        "on the real driver and on the extracted Coq model (all observables compared: results, frames, "
                        "write/read/flush counts, reads at end of data, delivered bytes, I/O log lines) and the extracted "
                        "judge %s_holds_on is evaluated on the implementation's observation. %s" % (pid, classes_note),
                   samples=samples, classes=r["cls"], history_lengths=r["sizes"], operations=r["ops"],
                   result_kinds=r["results"], disagreements_checked=len(r["mism"]), judge_failures=nf)
    res.partial += list(partial)
    for f in r["fails"].get(pid, [])[:10]:
        line = r["byid"].get(f["case_id"], "")
        small = line
        try:
            small = shrink(line, judge_fails_on(pid))
        except Exception:
            pass
        cls = re.search(r"cls=(\S+)", line)
        res.add_violation(f["what"], key="%s:%s:%s" % (pid, cls.group(1) if cls else "?", re.sub(r"^\S+ ", "", small)[:200]),
                          input=small, original=line, observed=r["implby"].get(f["case_id"], ""))
    if r["mism"] and not r["fails"].get(pid):
        m = r["mism"][0]
        res.broken.append(Broken("correspondence driver model vs implementation: %d of %d cases disagree" % (len(r["mism"]), len(r["lines"])),
                                 json.dumps(r["mism"][:3], indent=1)))
    return r
