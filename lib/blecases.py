"""Input generation for the BLE decoders (C07, C08), driven by the layout tables in coq/Ble/Layout.v."""
import os, re
from lib import common
from lib.cases import Rng

DECODER_OF = {"AcCharger": "DecodeAcChargerRecord", "BatteryMonitor": "DecodeBatteryMonitorRecord", "DcDcConverter": "DecodeDcDcConverterRecord",
              "DcEnergyMeter": "DecodeDcEnergyMeterRecord", "GxDevice": "DecodeGxDeviceRecord", "Inverter": "DecodeInverterRecord",
              "InverterRs": "DecodeInverterRsRecord", "LynxSmartBms": "DecodeLynxSmartBms", "MultiRs": "DecodeMultiRsRecord",
              "SmartBatteryProtect": "DecodeSmartBatteryProtectRecord", "SmartLithium": "DecodeSmartLithiumRecord",
              "SolarCharger": "DecodeSolarChargeRecord", "VeBus": "DecodeVeBusRecord"}


def layouts():
    """[(layout name, [(field, start, width, is_enum)])] parsed from Layout.v (for input generation only)"""
    src = open(os.path.join(common.COQ, "Ble", "Layout.v")).read()
    out = []
    for m in re.finditer(r"Definition layout_(\w+) : list field := \[(.*?)\]\.", src, re.S):
        fields = []
        for fm in re.finditer(r'\b(flw|fl|fi|fe|cell) "(\w+)" (\d+)(?: (\d+))?', m.group(2)):
            kind, name, start, width = fm.group(1), fm.group(2), int(fm.group(3)), fm.group(4)
            width = 7 if kind == "cell" else int(width)
            fields.append((name, start, width, kind == "fe"))
        out.append((m.group(1), fields))
    return out


def set_bits(buf, start, width, value):
    for i in range(width):
        bit = (value >> i) & 1
        pos = start + i
        if bit:
            buf[pos // 8] |= 1 << (pos % 8)
        else:
            buf[pos // 8] &= ~(1 << (pos % 8)) & 0xFF


def valid_enum_values(fields, tables_enums):
    return {}


def generate(tier, seed, enum_keys):
    """enum_keys: factory-independent list of plausible valid enum bytes (0 is valid for every factory used)"""
    rng = Rng(seed ^ 0xB1E)
    lines = []
    for lname, fields in layouts():
        dec = DECODER_OF[lname]
        reclen = (max(s + w for _, s, w, _ in fields) + 7) // 8
        enum_fields = [(s, w) for _, s, w, e in fields if e]

        def baseline(fill):
            buf = [fill] * reclen
            for s, w in enum_fields:           # keep enum bytes valid so the other fields are decoded
                set_bits(buf, s, w, 0)
            return buf

        contexts = [baseline(0x00), baseline(0xFF), [rng.below(256) for _ in range(reclen)]]
        for s, w in enum_fields:
            set_bits(contexts[2], s, w, 0)
        # C07: every raw value of every field in three contexts of the remaining bits
        for name, start, width, is_enum in fields:
            maxbits = 12 if tier == "quick" else 16
            if width <= maxbits:
                values = range(1 << width)
            else:
                top = (1 << width) - 1
                values = sorted(set([0, 1, 2, top, top - 1, top >> 1, (top >> 1) + 1, (top >> 1) - 1, 1 << (width - 1)] +
                                    [rng.next() & top for _ in range(1500 if tier == "quick" else 100000)] +
                                    [(1 << k) for k in range(width)] + [top ^ (1 << k) for k in range(width)]))
            for ci, ctx in enumerate(contexts):
                if ci > 0 and width > 12:
                    lv = list(values)
                    vals = lv[:: max(1, len(lv) // (200 if tier == "quick" else 4000))]
                else:
                    vals = values
                for v in vals:
                    buf = list(ctx)
                    set_bits(buf, start, width, v)
                    lines.append("%s %s 0" % (dec, bytes(buf).hex()))
        # every small selector field (aux mode, 1/2-bit flags) x every boundary / not-available candidate code of every
        # wider field, in the zero and the all-ones context: mode-dependent fields decode per mode, and each mode has
        # its own not-available code (0x7FFF signed, 0xFFFF unsigned)
        selectors = [(st, w) for _, st, w, e in fields if w <= 2 and not e]
        for sst, sw in selectors:
            for name, start, width, is_enum in fields:
                if width < 7 or is_enum or (start, width) == (sst, sw):
                    continue
                top = (1 << width) - 1
                specials = sorted(set([0, 1, top, top - 1, top >> 1, (top >> 1) + 1, (top >> 1) - 1]))
                for mode in range(1 << sw):
                    for ctx in contexts[:2]:
                        for v in specials:
                            buf = list(ctx)
                            set_bits(buf, start, width, v)
                            set_bits(buf, sst, sw, mode)
                            lines.append("%s %s 0" % (dec, bytes(buf).hex()))
        # C08: all lengths 0..64, cap == len and spare poisoned capacity, three contents
        for L in range(0, 65):
            for content in ("zero", "ones", "random"):
                if content == "zero":
                    buf = [0] * L
                elif content == "ones":
                    buf = [0xFF] * L
                    for s, w in enum_fields:
                        if (s + w + 7) // 8 <= L:
                            set_bits(buf, s, w, 0)
                else:
                    buf = rng.bytes(L)
                    for s, w in enum_fields:
                        if (s + w + 7) // 8 <= L and rng.chance(3, 4):
                            set_bits(buf, s, w, 0)
                h = bytes(buf).hex() or "-"
                for cap in (0, 1, 2):
                    lines.append("%s %s %d" % (dec, h, cap))
        # suffix independence: a complete record with every kind of suffix
        for _ in range(20 if tier == "quick" else 200):
            rec = rng.bytes(reclen)
            for s, w in enum_fields:
                set_bits(rec, s, w, 0)
            for suffix in ([], [0], [0xFF], [5] * 5, rng.bytes(rng.below(20) + 1), [16 - reclen % 16] * (16 - reclen % 16)):
                lines.append("%s %s %d" % (dec, bytes(rec + suffix).hex(), rng.below(3)))
        # ... and records whose fields hold their extreme / not-available codes, with suffixes
        for name, start, width, is_enum in fields:
            if is_enum:
                continue
            top = (1 << width) - 1
            for v in (top, top >> 1):
                for ctx in contexts[:2]:
                    rec = list(ctx)
                    set_bits(rec, start, width, v)
                    for suffix in ([], [0x01], [0xFF], [0x05] * 5, rng.bytes(5)):
                        lines.append("%s %s %d" % (dec, bytes(rec + suffix).hex(), rng.below(3)))
        # all 256 values of every enumerated byte
        for s, w in enum_fields:
            for v in range(256):
                buf = list(contexts[2])
                set_bits(buf, s, w, v)
                lines.append("%s %s 0" % (dec, bytes(buf).hex()))
    return lines
