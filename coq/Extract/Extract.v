(* Extraction of the executable models and judges.  ExtrOcamlBasic only: bool, option,
   list, prod, unit, sumbool map to OCaml's; Z, N, positive, nat, byte stay the extracted
   inductive types.  No Extract Constant. *)
From Coq Require Import Extraction ExtrOcamlBasic.
From GV Require Import Tables.ObsTypes Tables.Lookup Gen.Obs Tables.Enum.
From GV Require Import Tables.Product Tables.RegFactory Tables.RegList Api.Api Api.Maps Api.Float Api.Fixed.
From GV Require Import Ble.GoSem Ble.Layout Gen.BleImpl Ble.Handler Ble.Aes Ble.GoSemF Gen.BleImplF.
From GV Require Import Base.Bytes Base.Hex Base.LE Vedirect.Frame Vedirect.Port Vedirect.Driver Vedirect.Judge Vedirect.Resync.
Extraction Language OCaml.
Set Extraction KeepSingleton.
Extraction "gvcore.ml"
  bz zb
  tx_frame tx_wellformed C03_frame_ok parse_tx valid_responseb
  vd_new run_calls le_encode le_encode_signed checksum hex_upper
  C01_call_ok C05_call_ok C06_call_ok call_is_typed call_is_get
  a_get_call a_get a_result_matches items_of_events
  obs_fieldlists fl_fields fl_render render_ok f_map f_name
  number_value_bits number_value_fixed6 connect read_register read_register_list rv_map stream_register_list stream_plan number_value trim_space obs_product obs_reglist class_of
  enum_map_of fl_of new_enum int_of_uint64 le_uint le_int strip_nul
  rl_run rl_step rl_empty rl_len rl_get_registers obs_family_bmv obs_family_solar obs_family_inverter
  spec_decode layout_len
  layout_AcCharger layout_BatteryMonitor layout_DcDcConverter layout_DcEnergyMeter layout_GxDevice layout_Inverter
  layout_InverterRs layout_LynxSmartBms layout_MultiRs layout_SmartBatteryProtect layout_SmartLithium layout_SolarCharger layout_VeBus
  DecodeAcChargerRecord fields_AcChargerRecord DecodeBatteryMonitorRecord fields_BatteryMonitorRecord
  DecodeDcDcConverterRecord fields_DcDcConverterRecord DecodeDcEnergyMeterRecord fields_DcEnergyMeterRecord
  DecodeGxDeviceRecord fields_GxDeviceRecord DecodeInverterRecord fields_InverterRecord
  DecodeInverterRsRecord fields_InverterRsRecord DecodeLynxSmartBms fields_LynxSmartBms
  DecodeMultiRsRecord fields_MultiRsRecord DecodeSmartBatteryProtectRecord fields_SmartBatteryProtectRecord
  DecodeSmartLithiumRecord fields_SmartLithiumRecord DecodeSolarChargeRecord fields_SolarChargerRecord
  DecodeVeBusRecord fields_VeBusRecord
  BleImplF.F.DecodeAcChargerRecord BleImplF.F.fields_AcChargerRecord
  BleImplF.F.DecodeBatteryMonitorRecord BleImplF.F.fields_BatteryMonitorRecord
  BleImplF.F.DecodeDcDcConverterRecord BleImplF.F.fields_DcDcConverterRecord
  BleImplF.F.DecodeDcEnergyMeterRecord BleImplF.F.fields_DcEnergyMeterRecord
  BleImplF.F.DecodeGxDeviceRecord BleImplF.F.fields_GxDeviceRecord
  BleImplF.F.DecodeInverterRecord BleImplF.F.fields_InverterRecord
  BleImplF.F.DecodeInverterRsRecord BleImplF.F.fields_InverterRsRecord
  BleImplF.F.DecodeLynxSmartBms BleImplF.F.fields_LynxSmartBms
  BleImplF.F.DecodeMultiRsRecord BleImplF.F.fields_MultiRsRecord
  BleImplF.F.DecodeSmartBatteryProtectRecord BleImplF.F.fields_SmartBatteryProtectRecord
  BleImplF.F.DecodeSmartLithiumRecord BleImplF.F.fields_SmartLithiumRecord
  BleImplF.F.DecodeSolarChargeRecord BleImplF.F.fields_SolarChargerRecord
  BleImplF.F.DecodeVeBusRecord BleImplF.F.fields_VeBusRecord
  FV.is_nan_bits
  handle pkcs7 ctr_decrypt get_device_config bluez_addr_bytes render_mac aes_encrypt.
