(* Facts about hex text and little-endian values. *)
From GV Require Import Base.Bytes Base.Hex Base.LE.
From Coq Require Import ZifyBool.
Ltac Zify.zify_post_hook ::= Z.div_mod_to_equations.

Lemma hexdigit_val n : 0 <= n < 16 -> hexval (hexdigit n) = Some n.
Proof.
  intros H. assert (E : In n (map Z.of_nat (seq 0 16))).
  { replace n with (Z.of_nat (Z.to_nat n)) by lia. apply in_map, in_seq. lia. }
  cbn in E. repeat (destruct E as [<-|E]; [vm_compute; reflexivity|]). destruct E.
Qed.

Lemma hexdigit_upper n : 0 <= n < 16 -> is_upper_hex (hexdigit n) = true.
Proof.
  intros H. assert (E : In n (map Z.of_nat (seq 0 16))).
  { replace n with (Z.of_nat (Z.to_nat n)) by lia. apply in_map, in_seq. lia. }
  cbn in E. repeat (destruct E as [<-|E]; [vm_compute; reflexivity|]). destruct E.
Qed.

Lemma is_upper_hex_hexval c : is_upper_hex c = true -> exists v, hexval c = Some v /\ 0 <= v < 16.
Proof.
  intros Hc.
  assert (A : forallb (fun c => implb (is_upper_hex c)
     (match hexval c with Some v => (0 <=? v) && (v <? 16) | None => false end)) all_bytes = true)
    by (vm_compute; reflexivity).
  pose proof (forall_bytes _ A c) as B. cbv beta in B. rewrite Hc in B. cbn in B.
  destruct (hexval c) as [v|]; [|discriminate]. exists v. split; [reflexivity|lia].
Qed.

Lemma hexval_range c v : hexval c = Some v -> 0 <= v < 16.
Proof.
  assert (A : forallb (fun c => match hexval c with Some v => (0 <=? v) && (v <? 16) | None => true end)
                all_bytes = true) by (vm_compute; reflexivity).
  pose proof (forall_bytes _ A c) as B. cbv beta in B. intros E. rewrite E in B. lia.
Qed.

Lemma hex_of_byte_decode b :
  hexval (hexdigit (bz b / 16)) = Some (bz b / 16) /\
  hexval (hexdigit (bz b mod 16)) = Some (bz b mod 16).
Proof. pose proof (bz_range b). split; apply hexdigit_val; lia. Qed.

Lemma zb_hi_lo b : zb (16 * (bz b / 16) + bz b mod 16) = b.
Proof. replace (16 * (bz b / 16) + bz b mod 16) with (bz b) by lia. apply zb_bz. Qed.

Theorem hex_decode_upper bs : hex_decode (hex_upper bs) = Some bs.
Proof.
  induction bs as [|b bs IH]; [reflexivity|].
  cbn [hex_upper flat_map hex_of_byte app] in *.
  cbn [hex_decode]. destruct (hex_of_byte_decode b) as [-> ->].
  fold (hex_upper bs). change (flat_map hex_of_byte bs) with (hex_upper bs).
  rewrite IH. now rewrite zb_hi_lo.
Qed.

Lemma hex_upper_all_upper bs : forallb is_upper_hex (hex_upper bs) = true.
Proof.
  induction bs as [|b bs IH]; [reflexivity|].
  cbn [hex_upper flat_map hex_of_byte app forallb].
  pose proof (bz_range b).
  rewrite !hexdigit_upper by lia. exact IH.
Qed.

Lemma hex_upper_length bs : length (hex_upper bs) = (2 * length bs)%nat.
Proof.
  induction bs as [|b bs IH]; [reflexivity|].
  cbn [hex_upper flat_map hex_of_byte app length]. change (flat_map hex_of_byte bs) with (hex_upper bs). lia.
Qed.

Lemma hex_upper_app a b : hex_upper (a ++ b) = hex_upper a ++ hex_upper b.
Proof. unfold hex_upper. apply flat_map_app. Qed.

(* hex_decode is the executable version of hex_decodes *)
Lemma hex_decode_sound : forall s bs, hex_decode s = Some bs -> hex_decodes s bs.
Proof.
  fix IH 1. intros [|a [|b r]] bs H; cbn [hex_decode] in H.
  - injection H as <-. constructor.
  - discriminate.
  - destruct (hexval a) as [x|] eqn:Ea; [|discriminate].
    destruct (hexval b) as [y|] eqn:Eb; [|discriminate].
    destruct (hex_decode r) as [bs'|] eqn:Er; [|discriminate].
    injection H as <-. constructor; auto.
Qed.

Lemma hex_decode_complete s bs : hex_decodes s bs -> hex_decode s = Some bs.
Proof.
  induction 1 as [|a b x y r bs Ha Hb _ IH]; [reflexivity|].
  cbn [hex_decode]. now rewrite Ha, Hb, IH.
Qed.

Lemma hex_decodes_length s bs : hex_decodes s bs -> length s = (2 * length bs)%nat.
Proof. induction 1; cbn [length]; lia. Qed.

(* ---- little endian ---- *)

Lemma le_val_range bs : 0 <= le_val bs < 256 ^ Z.of_nat (length bs).
Proof.
  induction bs as [|b bs IH]; cbn [le_val length]; [lia|].
  pose proof (bz_range b). rewrite Nat2Z.inj_succ, Z.pow_succ_r by lia. lia.
Qed.

Lemma le_val_encode w n : 0 <= n < 256 ^ Z.of_nat w -> le_val (le_encode w n) = n.
Proof.
  revert n. induction w as [|w IH]; intros n H; cbn [le_encode le_val].
  - cbn in H. lia.
  - rewrite Nat2Z.inj_succ, Z.pow_succ_r in H by lia.
    rewrite bz_zb, IH by lia. lia.
Qed.

Lemma le_encode_length w n : length (le_encode w n) = w.
Proof. revert n. induction w as [|w IH]; intros n; cbn [le_encode length]; [reflexivity|]. now rewrite IH. Qed.

Lemma le_encode_val bs : le_encode (length bs) (le_val bs) = bs.
Proof.
  induction bs as [|b bs IH]; cbn [le_encode le_val length]; [reflexivity|].
  pose proof (bz_range b). pose proof (le_val_range bs).
  f_equal.
  - apply bz_inj. rewrite bz_zb. lia.
  - replace ((bz b + 256 * le_val bs) / 256) with (le_val bs) by lia. exact IH.
Qed.

Theorem le_uint_encode w n : (w <= 8)%nat -> 0 <= n < 256 ^ Z.of_nat w -> le_uint (le_encode w n) = n.
Proof.
  intros Hw H. unfold le_uint. rewrite firstn_all2 by (rewrite le_encode_length; lia).
  now apply le_val_encode.
Qed.

Lemma wrapS_mod w z : 0 < w -> - 2 ^ (w - 1) <= z < 2 ^ (w - 1) -> wrapS w (z mod 2 ^ w) = z.
Proof.
  intros Hw H. unfold wrapS.
  assert (E : 2 ^ w = 2 * 2 ^ (w - 1)) by (rewrite <- Z.pow_succ_r by lia; f_equal; lia).
  pose proof (Z.pow_pos_nonneg 2 (w - 1) ltac:(lia) ltac:(lia)) as P.
  rewrite E in *. generalize dependent (2 ^ (w - 1)). intros p Hz E P.
  rewrite Zplus_mod_idemp_l. rewrite Z.mod_small by lia. lia.
Qed.

Theorem le_int_encode w z :
  In w [1; 2; 4; 8]%nat ->
  - 2 ^ (8 * Z.of_nat w - 1) <= z < 2 ^ (8 * Z.of_nat w - 1) ->
  le_int (le_encode_signed w z) = Some z.
Proof.
  intros Hw H. unfold le_int, le_encode_signed. rewrite le_encode_length.
  assert (P : 256 ^ Z.of_nat w = 2 ^ (8 * Z.of_nat w)).
  { change 256 with (2 ^ 8). rewrite <- Z.pow_mul_r by lia. reflexivity. }
  assert (V : le_val (le_encode w (z mod 2 ^ (8 * Z.of_nat w))) = z mod 2 ^ (8 * Z.of_nat w)).
  { apply le_val_encode. rewrite P. apply Z.mod_pos_bound. apply Z.pow_pos_nonneg; lia. }
  rewrite V.
  cbn [In] in Hw.
  destruct Hw as [<-|[<-|[<-|[<-|[]]]]]; cbn [Z.of_nat Pos.of_succ_nat Pos.succ Z.mul Pos.mul] in *;
    (rewrite wrapS_mod; [reflexivity | lia | exact H]).
Qed.

Theorem le_int_bad_width bs : ~ In (length bs) [1; 2; 4; 8]%nat -> le_int bs = None.
Proof.
  intros H. unfold le_int. cbn [In] in H.
  destruct (length bs) as [|[|[|[|[|[|[|[|[|n]]]]]]]]]; try reflexivity; exfalso; apply H; auto 10.
Qed.

(* ---- NUL stripping ---- *)

Lemma drop_while_nul_app_nul k s :
  drop_while_nul (repeat x00 k ++ s) = drop_while_nul s.
Proof. induction k as [|k IH]; [reflexivity|]. cbn [repeat app drop_while_nul]. now rewrite beqb_refl. Qed.

Lemma rev_repeat {A} (x : A) k : rev (repeat x k) = repeat x k.
Proof.
  induction k as [|k IH]; [reflexivity|]. cbn [repeat rev]. rewrite IH.
  clear IH. induction k as [|k IH]; [reflexivity|]. cbn [repeat app]. now rewrite IH.
Qed.

(* trailing NULs are removed, everything else is preserved *)
Theorem strip_nul_padded s k :
  (s = [] \/ exists i l, s = i ++ [l] /\ l <> x00) ->
  strip_nul (s ++ repeat x00 k) = s.
Proof.
  intros H. unfold strip_nul. rewrite rev_app_distr, rev_repeat, drop_while_nul_app_nul.
  destruct H as [->|(i & l & -> & Hl)]; [reflexivity|].
  rewrite rev_app_distr. cbn [rev app drop_while_nul].
  apply beqb_neq in Hl. rewrite Hl. cbn [rev]. now rewrite rev_involutive.
Qed.
