(* Hexadecimal text: the encoder used as specification, and models of the Go library
   functions the driver calls (fmt %X / %02X, encoding/hex.Decode, strconv.ParseUint on
   one character).  No proofs here. *)
From GV Require Export Base.Bytes.

(* ---- specification side ---- *)

(* uppercase hex digit of a value 0..15 *)
Definition hexdigit (n : Z) : byte :=
  if n <? 10 then zb (48 + n) else zb (55 + n).

(* value of a hex digit of either case *)
Definition hexval (c : byte) : option Z :=
  let v := bz c in
  if (48 <=? v) && (v <=? 57) then Some (v - 48)
  else if (65 <=? v) && (v <=? 70) then Some (v - 55)
  else if (97 <=? v) && (v <=? 102) then Some (v - 87)
  else None.

Definition is_upper_hex (c : byte) : bool :=
  let v := bz c in ((48 <=? v) && (v <=? 57)) || ((65 <=? v) && (v <=? 70)).

Definition hex_of_byte (b : byte) : list byte :=
  [hexdigit (bz b / 16); hexdigit (bz b mod 16)].

(* two uppercase digits per byte *)
Definition hex_upper (bs : list byte) : list byte := flat_map hex_of_byte bs.

(* s is a hex rendering (either case) of bs *)
Inductive hex_decodes : list byte -> list byte -> Prop :=
| hd_nil : hex_decodes [] []
| hd_cons a b x y r bs :
    hexval a = Some x -> hexval b = Some y -> hex_decodes r bs ->
    hex_decodes (a :: b :: r) (zb (16 * x + y) :: bs).

(* ---- model side ---- *)

(* Go: encoding/hex.Decode on an even- or odd-length source; None = any error *)
Fixpoint hex_decode (s : list byte) : option (list byte) :=
  match s with
  | [] => Some []
  | [_] => None
  | a :: b :: r =>
      match hexval a, hexval b with
      | Some x, Some y =>
          match hex_decode r with
          | Some bs => Some (zb (16 * x + y) :: bs)
          | None => None
          end
      | _, _ => None
      end
  end.

(* Go: fmt "%X" of an unsigned 8-bit value: no padding *)
Definition fmt_X8 (v : Z) : list byte :=
  if v <? 16 then [hexdigit v] else [hexdigit (v / 16); hexdigit (v mod 16)].

(* Go: fmt "%02X" of an unsigned 8-bit value *)
Definition fmt_02X8 (v : Z) : list byte := [hexdigit (v / 16); hexdigit (v mod 16)].

(* Go: fmt "%X" of a []byte: two digits per byte, nothing for the empty slice *)
Definition fmt_X_bytes (bs : list byte) : list byte := hex_upper bs.

(* Go: strconv.ParseUint(string(rune(c)), 16, 8) as the driver uses it: the driver tests
   the wrong error variable, so an unparsable character silently yields 0.  A byte >= 0x80
   becomes a two-byte UTF-8 string, which never parses. *)
Definition parse_nibble_lenient (c : byte) : Z :=
  match hexval c with
  | Some v => v
  | None => 0
  end.
