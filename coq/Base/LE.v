(* Little-endian integers, two's complement wrap, NUL stripping: models of
   vedirect/binaryParser.go and of the library calls in vedirect.go, plus the encoders
   used as specification.  No proofs here. *)
From GV Require Export Base.Bytes.

Definition wrapU (w : Z) (x : Z) : Z := x mod 2 ^ w.
Definition wrapS (w : Z) (x : Z) : Z := (x + 2 ^ (w - 1)) mod 2 ^ w - 2 ^ (w - 1).

(* value of a little-endian byte string of any length *)
Fixpoint le_val (bs : list byte) : Z :=
  match bs with
  | [] => 0
  | b :: r => bz b + 256 * le_val r
  end.

(* ---- model side ---- *)

(* Go: littleEndianBytesToUint: the first eight bytes, the rest is ignored *)
Definition le_uint (bs : list byte) : Z := le_val (firstn 8 bs).

(* Go: littleEndianBytesToInt: widths 1, 2, 4, 8 only *)
Definition le_int (bs : list byte) : option Z :=
  match length bs with
  | 1%nat => Some (wrapS 8 (le_val bs))
  | 2%nat => Some (wrapS 16 (le_val bs))
  | 4%nat => Some (wrapS 32 (le_val bs))
  | 8%nat => Some (wrapS 64 (le_val bs))
  | _ => None
  end.

Fixpoint drop_while_nul (s : list byte) : list byte :=
  match s with
  | [] => []
  | b :: r => if beqb b x00 then drop_while_nul r else s
  end.

(* Go: string(bytes.TrimRightFunc(v, func(r rune) bool { return r == 0 })) *)
Definition strip_nul (s : list byte) : list byte := rev (drop_while_nul (rev s)).

(* ---- specification side: what a conforming device sends ---- *)

(* w little-endian bytes of n *)
Fixpoint le_encode (w : nat) (n : Z) : list byte :=
  match w with
  | O => []
  | S w' => zb n :: le_encode w' (n / 256)
  end.

(* two's complement encoding of z on w bytes *)
Definition le_encode_signed (w : nat) (z : Z) : list byte :=
  le_encode w (z mod 2 ^ (8 * Z.of_nat w)).
