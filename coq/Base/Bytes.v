(* Bytes as Init.Byte.byte, their integer value, and byte <-> Z conversions. *)
From Coq Require Export List ZArith Lia Bool.
From Coq Require Export Init.Byte Strings.Byte.
Export ListNotations.
Open Scope Z_scope.

Definition bz (b : byte) : Z := Z.of_N (Byte.to_N b).

(* total conversion: the value is reduced mod 256 first (Go's byte(x)) *)
Definition zb (z : Z) : byte :=
  match Byte.of_N (Z.to_N (z mod 256)) with
  | Some b => b
  | None => x00
  end.

Lemma bz_range b : 0 <= bz b < 256.
Proof. unfold bz. pose proof (Byte.to_N_bounded b). lia. Qed.

Lemma bz_zb z : bz (zb z) = z mod 256.
Proof.
  unfold zb, bz.
  assert (H : 0 <= z mod 256 < 256) by (apply Z.mod_pos_bound; lia).
  destruct (Byte.of_N (Z.to_N (z mod 256))) eqn:E.
  - apply Byte.to_of_N in E. rewrite E. lia.
  - apply Byte.of_N_None_iff in E. lia.
Qed.

Lemma zb_bz b : zb (bz b) = b.
Proof.
  unfold zb. pose proof (bz_range b) as H.
  rewrite Z.mod_small by lia. unfold bz. rewrite N2Z.id.
  now rewrite Byte.of_to_N.
Qed.

Lemma bz_inj a b : bz a = bz b -> a = b.
Proof. intros H. rewrite <- (zb_bz a), <- (zb_bz b). now rewrite H. Qed.

Definition beqb (a b : byte) : bool := Byte.eqb a b.

Lemma beqb_eq a b : beqb a b = true <-> a = b.
Proof.
  unfold beqb. split.
  - apply Byte.byte_dec_bl.
  - apply Byte.byte_dec_lb.
Qed.

Lemma beqb_refl a : beqb a a = true.
Proof. now apply beqb_eq. Qed.

Lemma beqb_neq a b : beqb a b = false <-> a <> b.
Proof.
  split.
  - intros H E. apply beqb_eq in E. congruence.
  - intros H. destruct (beqb a b) eqn:E; [apply beqb_eq in E; contradiction | reflexivity].
Qed.

(* all 256 bytes, for finite sweeps *)
Definition all_bytes : list byte := map zb (map Z.of_nat (seq 0 256)).

Lemma all_bytes_complete b : In b all_bytes.
Proof.
  unfold all_bytes. rewrite <- (zb_bz b). apply in_map.
  pose proof (bz_range b) as H.
  replace (bz b) with (Z.of_nat (Z.to_nat (bz b))) by lia.
  apply in_map. apply in_seq. lia.
Qed.

Lemma forall_bytes (P : byte -> bool) :
  forallb P all_bytes = true -> forall b, P b = true.
Proof. intros H b. rewrite forallb_forall in H. apply H, all_bytes_complete. Qed.

(* ASCII constants used by the protocol *)
Definition c_colon : byte := x3a.   (* ':' *)
Definition c_nl    : byte := x0a.   (* '\n' *)
Definition c_A     : byte := x41.   (* 'A' *)
