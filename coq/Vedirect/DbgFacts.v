(* vd.debugPrintf, translated on every run (Gen/DbgImpl.v): for every format string it keeps the
   indentation counter within 0..64, never panics (strings.Repeat never sees a negative count), writes
   exactly one line when a debug logger is set and does nothing at all when none is.  This is what
   justifies dropping its calls from the driver translation (Vedirect/DrvSem.v). *)
From GV Require Import Vedirect.DrvSem Vedirect.DbgSem Gen.DbgImpl.
Import ListNotations.
Local Open Scope Z_scope.

Theorem go_debugPrintf_inv c fmt s : 0 <= dbg_indent s <= 64 ->
  exists s', go_debugPrintf c fmt s = (DVal tt, s') /\ 0 <= dbg_indent s' <= 64 /\
             dbg_lines s' = (if cfg_debug c then S (dbg_lines s) else dbg_lines s).
Proof.
  intros Hi. unfold go_debugPrintf. destruct (cfg_debug c); cbn [negb].
  2:{ exists s. repeat split; try lia. }
  destruct s as [i n]. cbn [dbg_indent dbg_lines] in *. cbv zeta.
  unfold bind at 1. unfold get_indent at 1. cbn [dbg_indent].
  destruct (andb (i >? 0) (g_contains fmt _)) eqn:E1.
  - apply andb_prop in E1 as [E1 _]. unfold bind at 1. unfold get_indent at 1. unfold bind at 1. unfold set_indent at 1.
    cbn [dbg_indent dbg_lines]. unfold bind at 1. unfold get_indent at 1. cbn [dbg_indent].
    unfold bind at 1. unfold g_repeat_text. replace (i - 1 <? 0) with false by (symmetry; apply Z.ltb_ge; lia).
    unfold ret at 1. unfold bind at 1. unfold p_debug_println at 1. cbn [dbg_indent dbg_lines].
    unfold bind at 1. unfold get_indent at 1. cbn [dbg_indent].
    destruct (andb (i - 1 <? 64) (g_contains fmt _)).
    + unfold bind, get_indent, set_indent, ret. cbn [dbg_indent dbg_lines]. eexists. split; [reflexivity|].
      cbn [dbg_indent dbg_lines]. split; [lia|reflexivity].
    + unfold ret. eexists. split; [reflexivity|]. cbn [dbg_indent dbg_lines]. split; [lia|reflexivity].
  - unfold bind at 1. unfold get_indent at 1. cbn [dbg_indent].
    unfold bind at 1. unfold g_repeat_text. replace (i <? 0) with false by (symmetry; apply Z.ltb_ge; lia).
    unfold ret at 1. unfold bind at 1. unfold p_debug_println at 1. cbn [dbg_indent dbg_lines].
    unfold bind at 1. unfold get_indent at 1. cbn [dbg_indent].
    destruct (andb (i <? 64) (g_contains fmt _)) eqn:E2.
    + apply andb_prop in E2 as [E2 _]. unfold bind, get_indent, set_indent, ret. cbn [dbg_indent dbg_lines].
      eexists. split; [reflexivity|]. cbn [dbg_indent dbg_lines]. split; [lia|reflexivity].
    + unfold ret. eexists. split; [reflexivity|]. cbn [dbg_indent dbg_lines]. split; [lia|reflexivity].
Qed.

(* any sequence of debug lines, from the initial counter 0: never a panic *)
Fixpoint debug_lines (c : cfg) (fmts : list (list byte)) : D unit :=
  match fmts with
  | [] => ret tt
  | f :: r => bind (go_debugPrintf c f) (fun _ => debug_lines c r)
  end.

Theorem debug_lines_never_panic c fmts : exists s', debug_lines c fmts (mkDbg 0 0) = (DVal tt, s') /\ 0 <= dbg_indent s' <= 64.
Proof.
  assert (G : forall s, 0 <= dbg_indent s <= 64 -> exists s', debug_lines c fmts s = (DVal tt, s') /\ 0 <= dbg_indent s' <= 64).
  { induction fmts as [|f r IH]; intros s Hs; cbn [debug_lines].
    - exists s. split; [reflexivity|exact Hs].
    - destruct (go_debugPrintf_inv c f s Hs) as (s1 & E & H1 & _). unfold bind. rewrite E. apply IH. exact H1. }
  apply G. cbn. lia.
Qed.
