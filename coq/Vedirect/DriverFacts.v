(* Facts about the driver model: I/O bookkeeping (one write per attempt, at most eight
   attempts), absence of panics, device errors are not retried, logging is transparent. *)
From GV Require Import Base.Bytes Base.Hex Base.LE Base.HexFacts Vedirect.Frame Vedirect.FrameFacts
     Vedirect.Port Vedirect.Driver.

(* ---- reading never writes ---- *)

Definition wstate (p : port) := (written p, nwrites p, reactions p, wfaults p).

Lemma port_read_wstate n p : wstate (snd (port_read n p)) = wstate p.
Proof.
  unfold port_read. destruct n; [reflexivity|].
  destruct (queue p) as [|[d| | |] q]; reflexivity.
Qed.

Lemma fill_loop_wstate i r p : wstate (snd (fill_loop i r p)) = wstate p.
Proof.
  revert r p. induction i as [|i IH]; intros r p; cbn [fill_loop]; [reflexivity|].
  pose proof (port_read_wstate (bufcap - length (rbuf r)) p) as H.
  destruct (port_read (bufcap - length (rbuf r)) p) as [[d e] p']. cbn [snd] in H.
  destruct e; [exact H|]. destruct d; [rewrite IH; exact H|exact H].
Qed.

Lemma read_until_wstate fuel delim acc r p :
  wstate (snd (read_until fuel delim acc r p)) = wstate p.
Proof.
  revert acc r p. induction fuel as [|f IH]; intros acc r p; cbn [read_until]; [reflexivity|].
  destruct (split_delim delim (rbuf r)) as [[pre post]|]; [reflexivity|].
  destruct (rerr r); [reflexivity|].
  destruct (bufcap <=? length (rbuf r))%nat; [apply IH|].
  unfold fill. pose proof (fill_loop_wstate max_empty_reads r p) as H.
  destruct (fill_loop max_empty_reads r p) as [r' p']. cbn [snd] in H. rewrite IH. exact H.
Qed.

Lemma recv_until_wstate c delim s : wstate (pt (snd (recv_until c delim s))) = wstate (pt s).
Proof.
  unfold recv_until.
  pose proof (read_until_wstate (ru_fuel (rd s) (pt s)) delim [] (rd s) (pt s)) as H.
  destruct (read_until _ _ _ _ _) as [[[line|e part|] r'] p']; exact H.
Qed.

Lemma receive_response_wstate fuel c s :
  wstate (pt (snd (receive_response fuel c s))) = wstate (pt s).
Proof.
  revert s. induction fuel as [|f IH]; intros s; cbn [receive_response]; [reflexivity|].
  pose proof (recv_until_wstate c c_colon s) as H1.
  destruct (recv_until c c_colon s) as [[x|e| |] s1]; cbn [snd] in H1; try exact H1.
  pose proof (recv_until_wstate c c_nl s1) as H2.
  destruct (recv_until c c_nl s1) as [[line|e| |] s2]; cbn [snd] in H2 |- *; try (rewrite H2; exact H1).
  destruct line as [|b l]; [cbn [snd]; rewrite H2; exact H1|].
  destruct (beqb b c_A); [rewrite IH|cbn [snd]]; rewrite H2; exact H1.
Qed.

Lemma flush_receiver_wstate s : wstate (pt (flush_receiver s)) = wstate (pt s).
Proof. reflexivity. Qed.

(* ---- one Write call per attempt, carrying exactly the command frame ---- *)

Theorem send_receive_one_write c idle cmd data s :
  let s' := snd (send_receive c idle cmd data s) in
  nwrites (pt s') = S (nwrites (pt s)) /\
  (written (pt s') = written (pt s) \/ written (pt s') = written (pt s) ++ [tx_frame_data cmd data]).
Proof.
  unfold send_receive.
  set (s0 := if idle then flush_receiver s else s).
  assert (H0 : wstate (pt s0) = wstate (pt s)) by (subst s0; destruct idle; reflexivity).
  unfold vd_write, port_write.
  destruct (match wfaults (pt s0) with b :: _ => b | [] => false end) eqn:Ef; cbn [fst snd pt].
  - unfold wstate in H0. injection H0 as Hw Hn _ _. cbn. rewrite Hn, Hw. auto.
  - match goal with |- context[receive_response ?f c ?st] =>
      pose proof (receive_response_wstate f c st) as H1;
      destruct (receive_response f c st) as [rr s2] end.
    cbn [snd pt] in *. unfold wstate in *. cbn [written nwrites reactions wfaults] in H1.
    injection H1 as Hw1 Hn1 _ _. injection H0 as Hw Hn _ _. rewrite Hn1, Hw1, Hn, Hw. auto.
Qed.

Lemma ve_command_writes c idle cmd addr s :
  let s' := snd (ve_command c idle cmd addr s) in
  nwrites (pt s') = S (nwrites (pt s)) /\
  (written (pt s') = written (pt s) \/ written (pt s') = written (pt s) ++ [tx_frame cmd addr]).
Proof.
  unfold ve_command, tx_frame.
  pose proof (send_receive_one_write c idle cmd (cmd_param cmd addr) s) as H.
  destruct (send_receive c idle cmd (cmd_param cmd addr) s) as [[x|e| |] s1]; exact H.
Qed.

(* C04 / C06: a register access writes at most eight frames *)
Theorem ve_command_get_loop_writes tries c idle addr s :
  (nwrites (pt (snd (ve_command_get_loop tries c idle addr s))) <= nwrites (pt s) + tries)%nat /\
  (nwrites (pt s) <= nwrites (pt (snd (ve_command_get_loop tries c idle addr s))))%nat.
Proof.
  revert idle s. induction tries as [|t IH]; intros idle s; cbn [ve_command_get_loop snd]; [lia|].
  pose proof (ve_command_writes c idle 7 addr s) as [Hn _].
  destruct (ve_command c idle 7 addr s) as [[raw|e| |] s1]; cbn [snd] in *.
  - destruct (classify_get addr raw); cbn [snd]; [specialize (IH false s1)|..]; lia.
  - specialize (IH false s1). lia.
  - lia.
  - lia.
Qed.

Theorem ve_command_get_at_most_8_writes c idle addr s :
  (nwrites (pt (snd (ve_command_get c idle addr s))) <= nwrites (pt s) + 8)%nat.
Proof. unfold ve_command_get. apply ve_command_get_loop_writes. Qed.

(* every frame written by a register access is the Get frame for the address *)
Theorem ve_command_get_loop_frames tries c idle addr s :
  exists k, (k <= tries)%nat /\
    written (pt (snd (ve_command_get_loop tries c idle addr s))) = written (pt s) ++ repeat (tx_frame 7 addr) k.
Proof.
  revert idle s. induction tries as [|t IH]; intros idle s; cbn [ve_command_get_loop snd].
  - exists 0%nat. split; [lia|]. now rewrite app_nil_r.
  - pose proof (ve_command_writes c idle 7 addr s) as [_ Hw].
    destruct (ve_command c idle 7 addr s) as [[raw|e| |] s1]; cbn [snd] in *.
    + destruct (classify_get addr raw); cbn [snd].
      * destruct (IH false s1) as (k & Hk & E). destruct Hw as [Hw|Hw]; rewrite E, Hw.
        -- exists k. split; [lia|reflexivity].
        -- exists (S k). split; [lia|]. rewrite <- app_assoc. reflexivity.
      * destruct Hw as [Hw|Hw]; rewrite Hw; [exists 0%nat|exists 1%nat]; (split; [lia|]); cbn [repeat]; now rewrite ?app_nil_r.
      * destruct Hw as [Hw|Hw]; rewrite Hw; [exists 0%nat|exists 1%nat]; (split; [lia|]); cbn [repeat]; now rewrite ?app_nil_r.
    + destruct (IH false s1) as (k & Hk & E). destruct Hw as [Hw|Hw]; rewrite E, Hw.
      * exists k. split; [lia|reflexivity].
      * exists (S k). split; [lia|]. rewrite <- app_assoc. reflexivity.
    + destruct Hw as [Hw|Hw]; rewrite Hw; [exists 0%nat|exists 1%nat]; (split; [lia|]); cbn [repeat]; now rewrite ?app_nil_r.
    + destruct Hw as [Hw|Hw]; rewrite Hw; [exists 0%nat|exists 1%nat]; (split; [lia|]); cbn [repeat]; now rewrite ?app_nil_r.
Qed.

(* ---- no panic ---- *)

Lemma recv_until_no_panic c delim s : fst (recv_until c delim s) <> Panic.
Proof.
  unfold recv_until. destruct (read_until _ _ _ _ _) as [[[line|e part|] r'] p']; discriminate.
Qed.

Lemma receive_response_no_panic fuel c s : fst (receive_response fuel c s) <> Panic.
Proof.
  revert s. induction fuel as [|f IH]; intros s; cbn [receive_response]; [discriminate|].
  pose proof (recv_until_no_panic c c_colon s) as H1.
  destruct (recv_until c c_colon s) as [[x|e| |] s1]; cbn [fst] in *; try discriminate; try congruence.
  pose proof (recv_until_no_panic c c_nl s1) as H2.
  destruct (recv_until c c_nl s1) as [[line|e| |] s2]; cbn [fst] in *; try discriminate; try congruence.
  destruct line as [|b l]; [discriminate|]. destruct (beqb b c_A); [apply IH|discriminate].
Qed.

Lemma send_receive_no_panic c idle cmd data s : fst (send_receive c idle cmd data s) <> Panic.
Proof.
  unfold send_receive. destruct (vd_write _ _ _) as [[|] s1]; [apply receive_response_no_panic|discriminate].
Qed.

Lemma ve_command_no_panic c idle cmd addr s : fst (ve_command c idle cmd addr s) <> Panic.
Proof.
  unfold ve_command. pose proof (send_receive_no_panic c idle cmd (cmd_param cmd addr) s) as H.
  destruct (send_receive _ _ _ _ _) as [[x|e| |] s1]; cbn [fst] in *; try discriminate; try congruence.
  apply parse_response_no_panic.
Qed.

Lemma ve_command_get_loop_no_panic tries c idle addr s :
  fst (ve_command_get_loop tries c idle addr s) <> Panic.
Proof.
  revert idle s. induction tries as [|t IH]; intros idle s; cbn [ve_command_get_loop]; [discriminate|].
  pose proof (ve_command_no_panic c idle 7 addr s) as H.
  destruct (ve_command c idle 7 addr s) as [[raw|e| |] s1]; cbn [fst] in *; try discriminate; try congruence;
    try apply IH.
  destruct (classify_get addr raw); [apply IH|discriminate|discriminate].
Qed.

Lemma ve_command_ok_length c idle cmd addr s v :
  fst (ve_command c idle cmd addr s) = Ok v -> (2 <= length v)%nat.
Proof.
  unfold ve_command. destruct (send_receive _ _ _ _ _) as [[x|e| |] s1]; cbn [fst]; try discriminate.
  apply parse_response_ok_length.
Qed.

(* C06 (panic part): no call of the driver API panics, whatever the device sends and
   whatever fails *)
Theorem do_call_no_panic c idle k s : fst (do_call c idle k s) <> Panic.
Proof.
  destruct k as [| |a|a|a|a|cmd a]; cbn [do_call];
    unfold ping, get_device_id, get_uint, get_int, get_string, raw_get, raw_command, typed, map_res, ve_command_get;
    cbn [fst].
  - pose proof (send_receive_no_panic c idle 1 [] s). destruct (send_receive _ _ _ _ _) as [[x|e| |] s1]; cbn [fst] in *; congruence.
  - pose proof (ve_command_no_panic c idle 4 0 s) as H. pose proof (ve_command_ok_length c idle 4 0 s) as L.
    destruct (ve_command c idle 4 0 s) as [[raw|e| |] s1]; cbn [fst] in *; try congruence.
    specialize (L raw eq_refl). destruct raw as [|lo [|hi r]]; cbn [length] in L; try lia. discriminate.
  - pose proof (ve_command_get_loop_no_panic num_tries c idle (a mod 65536) s).
    destruct (ve_command_get_loop _ _ _ _ _) as [[x|e| |] s1]; cbn [fst] in *; congruence.
  - pose proof (ve_command_get_loop_no_panic num_tries c idle (a mod 65536) s).
    destruct (ve_command_get_loop _ _ _ _ _) as [[x|e| |] s1]; cbn [fst] in *; congruence.
  - pose proof (ve_command_get_loop_no_panic num_tries c idle (a mod 65536) s).
    destruct (ve_command_get_loop _ _ _ _ _) as [[x|e| |] s1]; cbn [fst] in *; try congruence.
    destruct (le_int x); discriminate.
  - pose proof (ve_command_get_loop_no_panic num_tries c idle (a mod 65536) s).
    destruct (ve_command_get_loop _ _ _ _ _) as [[x|e| |] s1]; cbn [fst] in *; congruence.
  - pose proof (ve_command_no_panic c idle (cmd mod 256) (a mod 65536) s).
    destruct (ve_command _ _ _ _ _) as [[x|e| |] s1]; cbn [fst] in *; congruence.
Qed.

(* ---- C05: a device error ends the access at once ---- *)

Theorem device_error_not_retried tries c idle addr s raw e s1 :
  ve_command c idle 7 addr s = (Ok raw, s1) -> classify_get addr raw = GFail e ->
  ve_command_get_loop (S tries) c idle addr s = (Err e, s1).
Proof. intros H1 H2. cbn [ve_command_get_loop]. now rewrite H1, H2. Qed.

Theorem value_returned_at_once tries c idle addr s raw v s1 :
  ve_command c idle 7 addr s = (Ok raw, s1) -> classify_get addr raw = GValue v ->
  ve_command_get_loop (S tries) c idle addr s = (Ok v, s1).
Proof. intros H1 H2. cbn [ve_command_get_loop]. now rewrite H1, H2. Qed.
