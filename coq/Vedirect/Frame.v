(* VE.Direct HEX frames: specification (independent grammar / validity predicates) and
   model of the frame-level code of vedirect/{checksum,definitions,vecommand,error}.go.
   No proofs here. *)
From GV Require Export Base.Bytes Base.Hex Base.LE.

(* ---- outcomes and error classes shared by all models ---- *)

Inductive err :=
| EUnknownId | ENotSupported | EParameter      (* vedirect.ErrUnknownId, ErrorNotSupported, ErrorParameterError *)
| EInvalidEnumIdx                               (* veconst.ErrInvalidEnumIdx *)
| ECtxDone                                      (* vedirectapi.ErrCtxDone *)
| EUnsupportedType                              (* veregister.ErrUnsupportedType *)
| EInputTooShort                                (* bleparser.ErrInputTooShort *)
| EOther                                        (* any other error value *)
| EWrap (name : list byte) (e : err).           (* fmt.Errorf("... '%s' ...: %w", name, e) *)

Fixpoint err_root (e : err) : err :=
  match e with EWrap _ e' => err_root e' | _ => e end.

Inductive res (A : Type) :=
| Ok (a : A) | Err (e : err) | Panic | OutOfFuel.
Arguments Ok {A} a. Arguments Err {A} e. Arguments Panic {A}. Arguments OutOfFuel {A}.

(* ---- specification side ---- *)

Fixpoint sum_bytes (bs : list byte) : Z :=
  match bs with [] => 0 | b :: r => bz b + sum_bytes r end.

(* command nibble, payload and check byte sum to 0x55 modulo 256 *)
Definition sums_to_55 (cmd : Z) (bytes_with_check : list byte) : bool :=
  (cmd + sum_bytes bytes_with_check) mod 256 =? 85.

Definition checksum (cmd : Z) (data : list byte) : byte := zb (85 - cmd - sum_bytes data).

Fixpoint split_last {A} (l : list A) : option (list A * A) :=
  match l with
  | [] => None
  | [x] => Some ([], x)
  | x :: r => match split_last r with
              | Some (i, z) => Some (x :: i, z)
              | None => None
              end
  end.

(* Independent grammar of a transmitted frame:
   ':' , one uppercase hex nibble, an even number of uppercase hex digits, '\n'.
   Returns the command nibble and the decoded bytes (payload ++ [check]). *)
Definition parse_tx (f : list byte) : option (Z * list byte) :=
  match f with
  | c :: n :: rest =>
      if beqb c c_colon && is_upper_hex n then
        match split_last rest with
        | Some (hex, last) =>
            if beqb last c_nl && forallb is_upper_hex hex && Nat.even (length hex) then
              match hexval n, hex_decode hex with
              | Some cmd, Some bytes => Some (cmd, bytes)
              | _, _ => None
              end
            else None
        | None => None
        end
      else None
  | _ => None
  end.

Definition tx_wellformed (f : list byte) : bool :=
  match parse_tx f with
  | Some (cmd, bytes) => sums_to_55 cmd bytes
  | None => false
  end.

(* what C03 requires of the frame written for command [cmd] and address [addr] *)
Definition tx_expected_payload (cmd addr : Z) : option (list byte) :=
  if cmd =? 7 then Some [zb addr; zb (addr / 256); x00]            (* Get: lo hi 00 *)
  else if (cmd =? 1) || (cmd =? 4) then Some []                     (* Ping, DeviceId: none *)
  else None.                                                        (* not constrained by C03 *)

Definition C03_frame_ok (cmd addr : Z) (f : list byte) : bool :=
  match parse_tx f with
  | Some (n, bytes) =>
      (n =? cmd) && sums_to_55 n bytes &&
      match tx_expected_payload cmd addr, split_last bytes with
      | Some p, Some (payload, _) => if list_eq_dec Byte.byte_eq_dec payload p then true else false
      | Some _, None => false
      | None, _ => true
      end
  | None => false
  end.

(* a received line body (between ':' and '\n') is a valid response of type [kind]
   carrying [payload] *)
Definition valid_response (kind : Z) (body payload : list byte) : Prop :=
  exists d s, body = d :: s /\ hexval d = Some kind /\
              hex_decodes s (payload ++ [checksum kind payload]).

(* valid Get response for address addr with flag 0 and value v *)
Definition valid_get_response (addr : Z) (v body : list byte) : Prop :=
  valid_response 7 body (zb addr :: zb (addr / 256) :: x00 :: v).

(* executable version, used by the judges *)
Definition valid_responseb (kind : Z) (body payload : list byte) : bool :=
  match body with
  | d :: s =>
      match hexval d, hex_decode s with
      | Some k, Some bin =>
          (k =? kind) &&
          if list_eq_dec Byte.byte_eq_dec bin (payload ++ [checksum kind payload]) then true else false
      | _, _ => false
      end
  | [] => false
  end.

(* ---- model side ---- *)

(* Go: computeChecksum: a byte accumulator, wrapping at every step *)
Definition compute_checksum (cmd : Z) (data : list byte) : byte :=
  fold_left (fun acc v => zb (bz acc - bz v)) data (zb (bz x55 - cmd)).

(* Go: ResponseForCommand *)
Definition response_for_command (cmd : Z) : Z :=
  if cmd =? 1 then 5
  else if cmd =? 3 then 1
  else if cmd =? 4 then 1
  else if cmd =? 6 then 1
  else if cmd =? 7 then 7
  else if cmd =? 8 then 8
  else if cmd =? 10 then 10
  else 3.

(* Go: VeCommand's parameter construction *)
Definition cmd_param (cmd addr : Z) : list byte :=
  if (cmd =? 7) || (cmd =? 8) then [zb addr; zb (addr / 256); x00] else [].

(* Go: sendCommand: fmt.Sprintf(":%X%X%02X\n", cmd, data, checksum) *)
Definition tx_frame_data (cmd : Z) (data : list byte) : list byte :=
  c_colon :: fmt_X8 cmd ++ fmt_X_bytes data ++ fmt_02X8 (bz (compute_checksum cmd data)) ++ [c_nl].

Definition tx_frame (cmd addr : Z) : list byte := tx_frame_data cmd (cmd_param cmd addr).

(* Go: the part of VeCommand after sendReceive: validate and decode one response line *)
Definition parse_response (cmd : Z) (rd : list byte) : res (list byte) :=
  if (length rd <? 7)%nat then Err EOther else
  match rd with
  | [] => Panic                                   (* responseData[0]; excluded by the guard *)
  | c :: hexdata =>
      let resp := parse_nibble_lenient c in
      if negb (response_for_command cmd =? resp) then Err EOther else
      if Nat.odd (length hexdata) then Err EOther else
      match hex_decode hexdata with
      | None => Err EOther
      | Some bin =>
          match split_last bin with
          | None => Panic                         (* binData[len-1] on an empty slice *)
          | Some (values, chk) =>
              if beqb (compute_checksum resp values) chk then Ok values else Err EOther
          end
      end
  end.

(* Go: responseError *)
Definition response_error (flag : Z) : option err :=
  if flag =? 0 then None
  else if flag =? 1 then Some EUnknownId
  else if flag =? 2 then Some ENotSupported
  else if flag =? 4 then Some EParameter
  else Some EOther.

(* Go: the per-try part of VeCommandGet after VeCommand succeeded.
   GRetry = `continue`, GFail e = return the device error, GValue v = return the value *)
Inductive get_step := GRetry | GFail (e : err) | GValue (v : list byte).

Definition classify_get (addr : Z) (raw : list byte) : get_step :=
  match raw with
  | lo :: hi :: flag :: v =>
      if negb (addr =? bz lo + 256 * bz hi) then GRetry
      else match response_error (bz flag) with
           | Some e => GFail e
           | None => GValue v
           end
  | _ => GRetry                                    (* fewer than three payload bytes *)
  end.
