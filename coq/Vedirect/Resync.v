(* C04: the abstract line machine.  The reader's buffer, the chunking of the data, the
   bufio mechanics and the read/flush bookkeeping are erased: an attempt sees a stream of
   items (bytes and barriers); a barrier is a read timeout / read error / end of data.
   No proofs here (refinement: ResyncFacts.v). *)
From GV Require Export Base.Bytes Vedirect.Frame Vedirect.Port Vedirect.Driver.

Inductive item := IByte (b : byte) | IBar.

Fixpoint items_of_events (q : list revent) : list item :=
  match q with
  | [] => []
  | RData d :: q' => map IByte d ++ items_of_events q'
  | REof :: q' => IBar :: items_of_events q'
  | RErr :: q' => IBar :: items_of_events q'
  | REmpty :: q' => items_of_events q'
  end.

(* read up to and including [delim]; None = a barrier or the end was hit first (everything
   up to and including that barrier is consumed) *)
Fixpoint a_until (delim : byte) (acc : list byte) (l : list item) : option (list byte) * list item :=
  match l with
  | [] => (None, [])
  | IBar :: r => (None, r)
  | IByte b :: r => if beqb b delim then (Some acc, r) else a_until delim (acc ++ [b]) r
  end.

(* one receiveResponse: skip to ':', take a line, drop async lines *)
Fixpoint a_receive (fuel : nat) (l : list item) : option (list byte) * list item :=
  match fuel with
  | O => (None, l)
  | S f =>
      match a_until c_colon [] l with
      | (None, r) => (None, r)
      | (Some _, r) =>
          match a_until c_nl [] r with
          | (None, r') => (None, r')
          | (Some line, r') =>
              match line with
              | b :: _ => if beqb b c_A then a_receive f r' else (Some line, r')
              | [] => (Some line, r')
              end
          end
      end
  end.

Inductive a_result := AValue (v : list byte) | ADevErr (e : err) | AGaveUp.

(* the Get machine: [rest] = items left over; [reactions] = what the device sends after
   each written command; returns the result and the number of commands written *)
Fixpoint a_get (tries : nat) (addr : Z) (rest : list item) (reactions : list (list revent))
         (written : nat) : a_result * nat * list item * list (list revent) :=
  match tries with
  | O => (AGaveUp, written, rest, reactions)
  | S t =>
      let avail := rest ++ items_of_events (filter nonempty_event (hd [] reactions)) in
      let reactions' := tl reactions in
      match a_receive (S (length avail)) avail with
      | (None, rest') => a_get t addr rest' reactions' (S written)
      | (Some line, rest') =>
          match parse_response 7 line with
          | Ok raw =>
              match classify_get addr raw with
              | GValue v => (AValue v, S written, rest', reactions')
              | GFail e => (ADevErr e, S written, rest', reactions')
              | GRetry => a_get t addr rest' reactions' (S written)
              end
          | _ => a_get t addr rest' reactions' (S written)
          end
      end
  end.

(* what a raw Get must return on a fault-free script.  [stale] = bytes waiting in the
   port before the call; on an idle line they are flushed. *)
Definition a_get_call (idle : bool) (addr : Z) (leftover : list item) (reactions : list (list revent)) :=
  a_get num_tries (addr mod 65536) (if idle then [] else leftover) reactions 0.

Definition a_result_matches (a : a_result) (k : call) (r : res value) : bool :=
  match a, r with
  | AValue v, Ok x =>
      match k with
      | CGetRaw _ => match x with VBytes b => if list_eq_dec Byte.byte_eq_dec b v then true else false | _ => false end
      | CGetUint _ => match x with VNum n => n =? le_uint v | _ => false end
      | CGetString _ => match x with VBytes b => if list_eq_dec Byte.byte_eq_dec b (strip_nul v) then true else false | _ => false end
      | CGetInt _ => match x, le_int v with VNum n, Some z => n =? z | _, _ => false end
      | _ => false
      end
  | AValue v, Err _ => match k with CGetInt _ => match le_int v with None => true | Some _ => false end | _ => false end
  | ADevErr e, Err e' =>
      match err_root e, err_root e' with
      | EUnknownId, EUnknownId | ENotSupported, ENotSupported | EParameter, EParameter | EOther, EOther => true
      | _, _ => false
      end
  | AGaveUp, Err e' => match err_root e' with EOther => true | _ => false end
  | _, _ => false
  end.
