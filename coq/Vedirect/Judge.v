(* Executable statements of the driver properties on ONE observed behaviour
   (`Cxx_holds_on`).  They are evaluated on the implementation's observations by the
   correspondence check and proved of the model's behaviour for all inputs.
   Only specification-side definitions are used here (hexval, hex_decode, checksum,
   le_*, strip_nul) — not parse_response / classify_get.  No proofs here. *)
From GV Require Export Base.Bytes Base.Hex Base.LE Vedirect.Frame Vedirect.Port Vedirect.Driver.

(* the bytes between each ':' and the next '\n' *)
Fixpoint take_line (l : list byte) : option (list byte) :=
  match l with
  | [] => None
  | b :: r => if beqb b c_nl then Some []
              else match take_line r with Some x => Some (b :: x) | None => None end
  end.

Fixpoint frames_in (w : list byte) : list (list byte) :=
  match w with
  | [] => []
  | b :: r =>
      if beqb b c_colon
      then match take_line r with
           | Some body => body :: frames_in r
           | None => frames_in r
           end
      else frames_in r
  end.

(* Some payload if [body] is a valid response of type [kind] *)
Definition decode_valid (kind : Z) (body : list byte) : option (list byte) :=
  match body with
  | d :: s =>
      match hexval d, hex_decode s with
      | Some k, Some bin =>
          if k =? kind then
            match split_last bin with
            | Some (payload, chk) => if beqb chk (checksum kind payload) then Some payload else None
            | None => None
            end
          else None
      | _, _ => None
      end
  | [] => None
  end.

(* Some v if [body] is a valid Get response for [addr] with flag 0 carrying value v *)
Definition decode_valid_get (addr : Z) (body : list byte) : option (list byte) :=
  match decode_valid 7 body with
  | Some (lo :: hi :: flag :: v) =>
      if (bz lo + 256 * bz hi =? addr mod 65536) && (bz flag =? 0) then Some v else None
  | _ => None
  end.

Definition bytes_eqb (a b : list byte) : bool :=
  if list_eq_dec Byte.byte_eq_dec a b then true else false.

Definition value_eqb (a b : value) : bool :=
  match a, b with
  | VUnit, VUnit => true
  | VBytes x, VBytes y => bytes_eqb x y
  | VNum x, VNum y => x =? y
  | _, _ => false
  end.

(* C01 on one call: a value is returned only if the received bytes contain a valid frame
   that decodes to it.  [window] = bytes buffered before the call ++ bytes handed out by
   the port during the call. *)
Definition C01_call_ok (k : call) (window : list byte) (r : res value) : bool :=
  match r with
  | Ok v =>
      let frames := frames_in window in
      match k with
      | CGetRaw a =>
          existsb (fun body => match decode_valid_get a body with
                               | Some p => value_eqb v (VBytes p) | None => false end) frames
      | CGetUint a =>
          existsb (fun body => match decode_valid_get a body with
                               | Some p => value_eqb v (VNum (le_uint p)) | None => false end) frames
      | CGetInt a =>
          existsb (fun body => match decode_valid_get a body with
                               | Some p => match le_int p with
                                           | Some z => value_eqb v (VNum z) | None => false end
                               | None => false end) frames
      | CGetString a =>
          existsb (fun body => match decode_valid_get a body with
                               | Some p => value_eqb v (VBytes (strip_nul p)) | None => false end) frames
      | CDeviceId =>
          existsb (fun body => match decode_valid 1 body with
                               | Some (lo :: hi :: _) => value_eqb v (VNum (bz lo + 256 * bz hi))
                               | _ => false end) frames
      | CPing => true
      | CCommand _ _ => true
      end
  | Err _ => true
  | Panic => true          (* judged by C06 *)
  | OutOfFuel => true
  end.

(* C05 on one call whose first non-async line is a valid Get response for the address
   with flag 1, 2 or 4: the error class and exactly one frame written *)
Definition C05_expected (flag : Z) : option err :=
  if flag =? 1 then Some EUnknownId
  else if flag =? 2 then Some ENotSupported
  else if flag =? 4 then Some EParameter
  else None.

Definition err_class_eqb (a b : err) : bool :=
  match err_root a, err_root b with
  | EUnknownId, EUnknownId | ENotSupported, ENotSupported | EParameter, EParameter
  | EInvalidEnumIdx, EInvalidEnumIdx | ECtxDone, ECtxDone | EUnsupportedType, EUnsupportedType
  | EInputTooShort, EInputTooShort | EOther, EOther => true
  | _, _ => false
  end.

Definition C05_call_ok (flag : Z) (r : res value) (frames_written : nat) : bool :=
  match C05_expected flag, r with
  | Some e, Err e' => err_class_eqb e e' && (frames_written =? 1)%nat
  | Some _, _ => false
  | None, _ => true
  end.

(* C06 on one call: normal return, bounded writes, bounded reads at the end of data *)
Definition call_is_get (k : call) : bool :=
  match k with CGetRaw _ | CGetUint _ | CGetInt _ | CGetString _ => true | _ => false end.

Definition C06_call_ok (k : call) (noprogress : bool) (r : res value)
           (write_calls reads_at_end : nat) : bool :=
  match r with
  | Panic | OutOfFuel => false
  | _ =>
      let maxw := if call_is_get k then 8%nat else 1%nat in
      (write_calls <=? maxw)%nat &&
      (reads_at_end <=? maxw * (if noprogress then 100 else 1))%nat
  end.

(* C18: the I/O log line of a typed call = (frames written, bytes consumed by successful
   recvUntil calls); with the logger off no line *)
Definition call_is_typed (k : call) : bool :=
  match k with CPing | CDeviceId | CGetUint _ | CGetInt _ | CGetString _ => true | _ => false end.
