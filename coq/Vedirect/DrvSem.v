(* The Gallina vocabulary the driver translator (harness/cmd/gvgen drv, "GoLite-D") targets:
   a state-and-panic monad over the driver state of Vedirect/Driver.v, loop combinators and
   the modelled library calls of package vedirect.  No proofs here. *)
From GV Require Export Base.Bytes Base.Hex Base.LE Vedirect.Frame Vedirect.Port Vedirect.Driver.
Open Scope Z_scope.

(* Go's error values by class; nil = None *)
Definition gerr := option err.
Definition gerr_isnil (e : gerr) : bool := match e with None => true | Some _ => false end.

(* the state a *Vedirect method can touch: the driver state of Driver.v and the clock,
   abstracted to "more than 100 ms passed since lastSent" *)
Record dst := mkD { d_vd : vdstate; d_idle : bool }.

Inductive dout (A : Type) := DVal (a : A) | DPanic | DFuel.
Arguments DVal {A} a. Arguments DPanic {A}. Arguments DFuel {A}.

Definition D (A : Type) := dst -> dout A * dst.

Definition ret {A} (a : A) : D A := fun s => (DVal a, s).
Definition bind {A B} (m : D A) (f : A -> D B) : D B :=
  fun s => match m s with
           | (DVal a, s') => f a s'
           | (DPanic, s') => (DPanic, s')
           | (DFuel, s') => (DFuel, s')
           end.
Definition dpanic {A} : D A := fun s => (DPanic, s).

(* ---- loops ---- *)
Inductive lctl (V R : Type) := LCont (v : V) | LBrk (v : V) | LRet (r : R).
Arguments LCont {V R} v. Arguments LBrk {V R} v. Arguments LRet {V R} r.
Inductive lres (V R : Type) := LDone (v : V) | LReturned (r : R).
Arguments LDone {V R} v. Arguments LReturned {V R} r.

(* for i := i0; i < i0 + n; i++ { body }  (the body does not assign i) *)
Fixpoint for_count {V R} (n : nat) (i : Z) (body : Z -> V -> D (lctl V R)) (v : V) : D (lres V R) :=
  match n with
  | O => ret (LDone v)
  | S n' => bind (body i v) (fun c =>
              match c with
              | LCont v' => for_count n' (i + 1) body v'
              | LBrk v' => ret (LDone v')
              | LRet r => ret (LReturned r)
              end)
  end.

(* for i, b := range bytes { body } *)
Fixpoint range_bytes {V R} (l : list byte) (i : Z) (body : Z -> Z -> V -> D (lctl V R)) (v : V)
  : D (lres V R) :=
  match l with
  | [] => ret (LDone v)
  | b :: r => bind (body i (bz b) v) (fun c =>
                match c with
                | LCont v' => range_bytes r (i + 1) body v'
                | LBrk v' => ret (LDone v')
                | LRet r' => ret (LReturned r')
                end)
  end.

(* for { body }: fuel from the pending input at loop entry (Driver.rr_fuel); running out of it is
   the distinguished outcome DFuel, which the theorems exclude *)
Fixpoint loop_fuel {V R} (fuel : nat) (body : V -> D (lctl V R)) (v : V) : D (lres V R) :=
  match fuel with
  | O => fun s => (DFuel, s)
  | S f => bind (body v) (fun c =>
             match c with
             | LCont v' => loop_fuel f body v'
             | LBrk v' => ret (LDone v')
             | LRet r => ret (LReturned r)
             end)
  end.
Definition forever {V R} (body : V -> D (lctl V R)) (v : V) : D (lres V R) :=
  fun s => loop_fuel (rr_fuel (d_vd s)) body v s.

(* ---- slices ---- *)
Definition g_len (l : list byte) : Z := Z.of_nat (List.length l).
Definition is_neg (z : Z) : bool := match z with Zneg _ => true | _ => false end.

Definition g_index (l : list byte) (i : Z) : D Z :=
  if is_neg i then dpanic
  else match nth_error l (Z.to_nat i) with Some b => ret (bz b) | None => dpanic end.

Definition g_slice (l : list byte) (a b : Z) : D (list byte) :=
  if is_neg a || is_neg b then dpanic
  else if (Z.to_nat a <=? Z.to_nat b)%nat && (Z.to_nat b <=? List.length l)%nat
       then ret (firstn (Z.to_nat b - Z.to_nat a) (skipn (Z.to_nat a) l))
       else dpanic.

(* make([]byte, n) *)
Definition g_make (n : Z) : D (list byte) :=
  if is_neg n then dpanic else ret (repeat x00 (Z.to_nat n)).

(* binary.LittleEndian.Uint16 *)
Definition g_le16 (l : list byte) : D Z :=
  match l with lo :: hi :: _ => ret (bz lo + 256 * bz hi) | _ => dpanic end.

(* string(r) for an integer r: UTF-8 encoding of the code point (r < 0x800 is all a byte can be) *)
Definition g_string_of_rune (r : Z) : list byte :=
  if r <? 128 then [zb r]
  else if r <? 2048 then [zb (192 + r / 64); zb (128 + r mod 64)]
  else [xef; xbf; xbd].

(* bytes.TrimRightFunc(v, func(r rune) bool { return r == 0 }) *)
Definition g_trim_right_nul (l : list byte) : list byte := strip_nul l.

(* binary.Read(bytes.NewReader(..), binary.LittleEndian, &v) for a fixed-size integer v of [w]
   bytes: (new v, rest of the reader, error).  Too few bytes: v unchanged, reader drained. *)
Definition g_binary_read_le (w : nat) (signed : bool) (v : Z) (buf : list byte) : Z * list byte * gerr :=
  if (w <=? List.length buf)%nat then
    let raw := le_val (firstn w buf) in
    ((if signed then wrapS (8 * Z.of_nat w) raw else raw), skipn w buf, None)
  else (v, [], Some EOther).

(* strconv.ParseUint(s, 16, 8): value and error; a syntax error yields 0, a range error 255 *)
Fixpoint hex_digits_val (acc : Z) (s : list byte) : option Z :=
  match s with
  | [] => Some acc
  | c :: r => match hexval c with Some v => hex_digits_val (16 * acc + v) r | None => None end
  end.
Definition g_parse_uint_16_8 (s : list byte) : Z * gerr :=
  match s with
  | [] => (0, Some EOther)
  | _ => match hex_digits_val 0 s with
         | Some v => if v <? 256 then (v, None) else (255, Some EOther)
         | None => (0, Some EOther)
         end
  end.

(* encoding/hex.Decode(dst, src): (dst afterwards, n, error).  On an error the count is not
   modelled (the driver tests `e != nil || n != numbBytes`) and dst is left as it was. *)
Definition g_hex_decode (dst src : list byte) : D (list byte * Z * gerr) :=
  match hex_decode src with
  | Some bs => if (List.length bs <=? List.length dst)%nat
               then ret (bs ++ skipn (List.length bs) dst, g_len bs, None)
               else dpanic
  | None => ret (dst, 0, Some EOther)
  end.

(* ---- the receiver's fields and the port ---- *)
Definition upd_vd (f : vdstate -> vdstate) : D unit := fun s => (DVal tt, mkD (f (d_vd s)) (d_idle s)).

Definition get_io_tx : D (list byte) := fun s => (DVal (io_tx (d_vd s)), s).
Definition get_io_rx : D (list byte) := fun s => (DVal (io_rx (d_vd s)), s).
Definition set_io_tx (l : list byte) : D unit :=
  upd_vd (fun v => mkVd (rd v) (pt v) l (io_rx v) (io_lines v)).
Definition set_io_rx (l : list byte) : D unit :=
  upd_vd (fun v => mkVd (rd v) (pt v) (io_tx v) l (io_lines v)).

(* vd.cfg.IoLogger.Println(fmt.Sprintf("%q: %q, // %s", tx, rx, comment)): the two quoted strings
   are recorded, the comment is not modelled *)
Definition p_io_println (tx rx : list byte) : D unit :=
  upd_vd (fun v => mkVd (rd v) (pt v) (io_tx v) (io_rx v) (io_lines v ++ [(tx, rx)])).

(* vd.reader.ReadBytes(delim): data (with the delimiter, or the partial data) and error *)
Definition p_read_bytes (delim : Z) : D (list byte * gerr) :=
  fun s =>
    let v := d_vd s in
    match read_until (ru_fuel (rd v) (pt v)) (zb delim) [] (rd v) (pt v) with
    | (RUOk line, r', p') => (DVal (line, None), mkD (set_rd_pt v r' p') (d_idle s))
    | (RUErr _ part, r', p') => (DVal (part, Some EOther), mkD (set_rd_pt v r' p') (d_idle s))
    | (RUFuel, r', p') => (DFuel, mkD (set_rd_pt v r' p') (d_idle s))
    end.

(* vd.ioPort.Write(b): n and error *)
Definition p_port_write (b : list byte) : D (Z * gerr) :=
  fun s =>
    let v := d_vd s in
    let '(ok, p') := port_write b (pt v) in
    (DVal (if ok then (g_len b, None) else (0, Some EOther)), mkD (set_rd_pt v (rd v) p') (d_idle s)).

(* vd.ioPort.Flush() *)
Definition p_port_flush : D gerr :=
  fun s =>
    let v := d_vd s in
    let '(ok, p') := port_flush (pt v) in
    (DVal (if ok then None else Some EOther), mkD (set_rd_pt v (rd v) p') (d_idle s)).

(* vd.reader.Reset(vd.ioPort) *)
Definition p_reader_reset : D unit := upd_vd (fun v => set_rd_pt v rdr_reset (pt v)).

(* now.Sub(vd.lastSent) > 100*time.Millisecond, and vd.lastSent = now: after the assignment the
   following tests of the same call are microseconds later *)
Definition p_idle : D bool := fun s => (DVal (d_idle s), s).
Definition p_set_last_sent : D unit := fun s => (DVal tt, mkD (d_vd s) false).

(* result of a Go function returning (value, error) read as a model result *)
Definition to_res {A} (o : dout (A * gerr)) : res A :=
  match o with
  | DVal (a, None) => Ok a
  | DVal (_, Some e) => Err e
  | DPanic => Panic
  | DFuel => OutOfFuel
  end.

(* fmt.Errorf("...%w", e): the class of e (a nil e still makes a non-nil error) *)
Definition gerr_wrap (e : gerr) : gerr := match e with Some x => Some x | None => Some EOther end.
