(* Facts about the frame layer: transmitted frames are well formed (C03), response
   parsing is sound and complete w.r.t. the validity specification (C01, C02). *)
From GV Require Import Base.Bytes Base.Hex Base.LE Base.HexFacts Vedirect.Frame.
From Coq Require Import ZifyBool.
Ltac Zify.zify_post_hook ::= Z.div_mod_to_equations.

Lemma zb_eq_mod x y : x mod 256 = y mod 256 -> zb x = zb y.
Proof. intros H. unfold zb. now rewrite H. Qed.

Lemma sum_bytes_app a b : sum_bytes (a ++ b) = sum_bytes a + sum_bytes b.
Proof. induction a as [|x a IH]; cbn [app sum_bytes]; lia. Qed.

Lemma compute_checksum_fold data a :
  fold_left (fun acc v => zb (bz acc - bz v)) data (zb a) = zb (a - sum_bytes data).
Proof.
  revert a. induction data as [|v data IH]; intros a; cbn [fold_left sum_bytes].
  - f_equal. lia.
  - replace (zb (bz (zb a) - bz v)) with (zb (a - bz v)).
    + rewrite IH. f_equal. lia.
    + apply zb_eq_mod. rewrite bz_zb. lia.
Qed.

(* the Go accumulator loop computes the specification checksum *)
Lemma compute_checksum_spec cmd data : compute_checksum cmd data = checksum cmd data.
Proof. unfold compute_checksum, checksum. rewrite compute_checksum_fold. reflexivity. Qed.

Lemma checksum_sums cmd data : sums_to_55 cmd (data ++ [checksum cmd data]) = true.
Proof.
  unfold sums_to_55, checksum. rewrite sum_bytes_app. cbn [sum_bytes]. rewrite bz_zb. lia.
Qed.

Lemma sums_to_55_unique cmd data c :
  sums_to_55 cmd (data ++ [c]) = true -> c = checksum cmd data.
Proof.
  unfold sums_to_55, checksum. rewrite sum_bytes_app. cbn [sum_bytes]. intros H.
  apply bz_inj. rewrite bz_zb. pose proof (bz_range c). lia.
Qed.

Lemma split_last_app {A} (l : list A) x : split_last (l ++ [x]) = Some (l, x).
Proof.
  induction l as [|y l IH]; [reflexivity|].
  cbn [app split_last]. rewrite IH. destruct (l ++ [x]) eqn:E; [destruct l; discriminate|reflexivity].
Qed.

Lemma split_last_spec {A} (l i : list A) z : split_last l = Some (i, z) -> l = i ++ [z].
Proof.
  revert i. induction l as [|x l IH]; intros i H; [discriminate|].
  cbn [split_last] in H. destruct l as [|y l'].
  - injection H as <- <-. reflexivity.
  - destruct (split_last (y :: l')) as [[i' z']|] eqn:E; [|discriminate].
    injection H as <- <-. cbn [app]. f_equal. now apply IH.
Qed.

Lemma split_last_none {A} (l : list A) : split_last l = None -> l = [].
Proof.
  induction l as [|x l IH]; [reflexivity|]. cbn [split_last].
  destruct l as [|y l']; [discriminate|].
  destruct (split_last (y :: l')) as [[i z]|] eqn:E; [discriminate|].
  intros _. specialize (IH eq_refl). discriminate.
Qed.

Lemma fmt_02X8_hex v : 0 <= v < 256 -> fmt_02X8 v = hex_of_byte (zb v).
Proof. intros H. unfold fmt_02X8, hex_of_byte. rewrite bz_zb. now rewrite (Z.mod_small v 256) by lia. Qed.

Lemma list_eq_dec_refl (l : list byte) :
  (if list_eq_dec Byte.byte_eq_dec l l then true else false) = true.
Proof. destruct (list_eq_dec Byte.byte_eq_dec l l); congruence. Qed.

(* shape of a transmitted frame for a one-nibble command *)
Lemma tx_frame_data_shape cmd data : 0 <= cmd < 16 ->
  tx_frame_data cmd data =
  c_colon :: hexdigit cmd :: hex_upper (data ++ [checksum cmd data]) ++ [c_nl].
Proof.
  intros H. unfold tx_frame_data, fmt_X8, fmt_X_bytes.
  replace (cmd <? 16) with true by lia.
  rewrite compute_checksum_spec. rewrite fmt_02X8_hex by apply bz_range. rewrite zb_bz.
  rewrite hex_upper_app. cbn [hex_upper flat_map app]. rewrite app_nil_r.
  cbn [app]. rewrite <- app_assoc. reflexivity.
Qed.

Theorem parse_tx_frame cmd data : 0 <= cmd < 16 ->
  parse_tx (tx_frame_data cmd data) = Some (cmd, data ++ [checksum cmd data]).
Proof.
  intros H. rewrite tx_frame_data_shape by exact H. unfold parse_tx.
  rewrite beqb_refl, hexdigit_upper by exact H. cbn [andb].
  rewrite split_last_app. rewrite beqb_refl, hex_upper_all_upper. cbn [andb].
  rewrite hex_upper_length. replace (Nat.even (2 * _)) with true.
  2:{ symmetry. apply Nat.even_spec. exists (length (data ++ [checksum cmd data])). lia. }
  now rewrite hexdigit_val, hex_decode_upper by exact H.
Qed.

(* C03, for every command nibble and every payload *)
Theorem tx_frame_data_wellformed cmd data : 0 <= cmd < 16 ->
  tx_wellformed (tx_frame_data cmd data) = true.
Proof.
  intros H. unfold tx_wellformed. rewrite parse_tx_frame by exact H. apply checksum_sums.
Qed.

Theorem tx_frame_ok cmd addr : 0 <= cmd < 16 -> C03_frame_ok cmd addr (tx_frame cmd addr) = true.
Proof.
  intros H. unfold C03_frame_ok, tx_frame. rewrite parse_tx_frame by exact H.
  rewrite Z.eqb_refl, checksum_sums. cbn [andb]. rewrite split_last_app.
  unfold tx_expected_payload, cmd_param.
  destruct (cmd =? 7) eqn:E7.
  - cbn [orb]. apply list_eq_dec_refl.
  - destruct ((cmd =? 1) || (cmd =? 4)) eqn:E14; [|reflexivity].
    replace (cmd =? 8) with false by lia. cbn [orb]. apply list_eq_dec_refl.
Qed.

Theorem tx_get_payload addr :
  exists chk, parse_tx (tx_frame 7 addr) = Some (7, [zb addr; zb (addr / 256); x00; chk]).
Proof.
  eexists. unfold tx_frame. rewrite parse_tx_frame by lia. unfold cmd_param.
  cbn [Z.eqb orb app Pos.eqb]. reflexivity.
Qed.

Theorem tx_no_payload cmd addr : In cmd [1; 3; 4; 6; 10] ->
  exists chk, parse_tx (tx_frame cmd addr) = Some (cmd, [chk]).
Proof.
  intros H. eexists. unfold tx_frame. rewrite parse_tx_frame by (cbn [In] in H; lia).
  unfold cmd_param. replace ((cmd =? 7) || (cmd =? 8)) with false by (cbn [In] in H; lia).
  reflexivity.
Qed.

(* ---- received frames ---- *)

Lemma valid_responseb_spec kind body payload :
  valid_responseb kind body payload = true <-> valid_response kind body payload.
Proof.
  unfold valid_responseb, valid_response. split.
  - destruct body as [|d s]; [discriminate|].
    destruct (hexval d) as [k|] eqn:Ed; [|discriminate].
    destruct (hex_decode s) as [bin|] eqn:Es; [|discriminate].
    intros H. apply andb_prop in H as [Hk Hb].
    destruct (list_eq_dec Byte.byte_eq_dec bin _) as [->|]; [|discriminate].
    exists d, s. repeat split; [rewrite Ed; f_equal; lia | now apply hex_decode_sound].
  - intros (d & s & -> & Hd & Hs). rewrite Hd. apply hex_decode_complete in Hs. rewrite Hs.
    rewrite Z.eqb_refl. cbn [andb]. apply list_eq_dec_refl.
Qed.

(* Soundness: whatever parse_response accepts is a valid response of the expected type *)
Theorem parse_response_sound cmd rd values :
  parse_response cmd rd = Ok values ->
  valid_response (response_for_command cmd) rd values.
Proof.
  unfold parse_response. destruct (length rd <? 7)%nat; [discriminate|].
  destruct rd as [|c hexdata]; [discriminate|].
  destruct (response_for_command cmd =? parse_nibble_lenient c) eqn:Er; cbn [negb]; [|discriminate].
  destruct (Nat.odd (length hexdata)); [discriminate|].
  destruct (hex_decode hexdata) as [bin|] eqn:Eh; [|discriminate].
  destruct (split_last bin) as [[vals chk]|] eqn:Es; [|discriminate].
  destruct (beqb (compute_checksum (parse_nibble_lenient c) vals) chk) eqn:Ec; [|discriminate].
  intros H. injection H as <-.
  apply Z.eqb_eq in Er. apply beqb_eq in Ec. apply split_last_spec in Es. subst bin.
  rewrite compute_checksum_spec in Ec.
  exists c, hexdata. split; [reflexivity|].
  assert (Hk : hexval c = Some (response_for_command cmd)).
  { unfold parse_nibble_lenient in Er. destruct (hexval c) as [v|] eqn:Ev.
    - now rewrite Er.
    - exfalso. unfold response_for_command in Er.
      repeat match type of Er with context[if ?b then _ else _] => destruct b end; discriminate. }
  split; [exact Hk|]. apply hex_decode_sound. rewrite Eh, Er, <- Ec.
  unfold parse_nibble_lenient. now rewrite Hk.
Qed.

(* Completeness: every valid response with at least two payload bytes is accepted *)
Theorem parse_response_complete cmd body payload :
  valid_response (response_for_command cmd) body payload ->
  (2 <= length payload)%nat ->
  parse_response cmd body = Ok payload.
Proof.
  intros (d & s & -> & Hd & Hs) Hl. unfold parse_response.
  pose proof (hex_decodes_length _ _ Hs) as Ls. rewrite app_length in Ls. cbn [length] in Ls.
  replace (length (d :: s) <? 7)%nat with false by (cbn [length]; lia).
  unfold parse_nibble_lenient. rewrite Hd, Z.eqb_refl. cbn [negb].
  replace (Nat.odd (length s)) with false.
  2:{ symmetry. rewrite <- Nat.negb_even. rewrite Ls.
      replace (Nat.even _) with true; [reflexivity|]. symmetry. apply Nat.even_spec.
      exists (length payload + 1)%nat. lia. }
  apply hex_decode_complete in Hs. rewrite Hs, split_last_app, compute_checksum_spec, beqb_refl.
  reflexivity.
Qed.

(* parse_response never panics *)
Theorem parse_response_no_panic cmd rd : parse_response cmd rd <> Panic /\ parse_response cmd rd <> OutOfFuel.
Proof.
  unfold parse_response.
  destruct (length rd <? 7)%nat eqn:El; [split; discriminate|].
  destruct rd as [|c hexdata]; [cbn in El; discriminate|].
  destruct (negb _); [split; discriminate|].
  destruct (Nat.odd (length hexdata)) eqn:Eo; [split; discriminate|].
  destruct (hex_decode hexdata) as [bin|] eqn:Eh; [|split; discriminate].
  destruct (split_last bin) as [[vals chk]|] eqn:Es.
  - destruct (beqb _ _); split; discriminate.
  - exfalso. apply split_last_none in Es. subst bin.
    apply hex_decode_sound, hex_decodes_length in Eh. cbn [length] in *.
    assert (length hexdata = 0)%nat by lia. cbn [length] in El.
    destruct (Nat.ltb_spec (S (length hexdata)) 7); [discriminate|lia].
Qed.

(* the check byte detects every change of a single payload byte *)
Theorem checksum_single_byte cmd l1 x y l2 :
  checksum cmd (l1 ++ x :: l2) = checksum cmd (l1 ++ y :: l2) -> x = y.
Proof.
  unfold checksum. intros H. apply (f_equal bz) in H. rewrite !bz_zb in H.
  rewrite !sum_bytes_app in H. cbn [sum_bytes] in H.
  apply bz_inj. pose proof (bz_range x). pose proof (bz_range y). lia.
Qed.

(* ---- the per-try decision of VeCommandGet ---- *)

Lemma response_error_none flag : 0 <= flag < 256 -> response_error flag = None -> flag = 0.
Proof.
  unfold response_error. intros H.
  destruct (flag =? 0) eqn:E0; [lia|].
  destruct (flag =? 1); [discriminate|]. destruct (flag =? 2); [discriminate|].
  destruct (flag =? 4); discriminate.
Qed.

Lemma addr_bytes addr lo hi : 0 <= addr < 65536 -> addr = bz lo + 256 * bz hi ->
  lo = zb addr /\ hi = zb (addr / 256).
Proof.
  intros Ha E. pose proof (bz_range lo). pose proof (bz_range hi).
  split; apply bz_inj; rewrite bz_zb; lia.
Qed.

(* C01 at the line level: a value is only ever extracted from a valid Get response for the
   requested address with flag 0, and it is exactly the rest of the payload *)
Theorem get_value_sound addr body raw v :
  0 <= addr < 65536 ->
  parse_response 7 body = Ok raw -> classify_get addr raw = GValue v ->
  valid_get_response addr v body.
Proof.
  intros Ha Hp Hc. apply parse_response_sound in Hp. change (response_for_command 7) with 7 in Hp.
  unfold classify_get in Hc. destruct raw as [|lo [|hi [|flag v']]]; try discriminate.
  destruct (addr =? bz lo + 256 * bz hi) eqn:Ea; cbn [negb] in Hc; [|discriminate].
  destruct (response_error (bz flag)) eqn:Ef; [discriminate|]. injection Hc as <-.
  apply response_error_none in Ef; [|apply bz_range].
  apply Z.eqb_eq in Ea. destruct (addr_bytes addr lo hi Ha Ea) as [-> ->].
  assert (flag = x00) as -> by (apply bz_inj; rewrite Ef; reflexivity).
  exact Hp.
Qed.

Theorem get_value_complete addr body v :
  0 <= addr < 65536 ->
  valid_get_response addr v body ->
  exists raw, parse_response 7 body = Ok raw /\ classify_get addr raw = GValue v.
Proof.
  intros Ha Hv. eexists. split.
  - apply (parse_response_complete 7); [exact Hv|cbn [length]; lia].
  - unfold classify_get. rewrite !bz_zb.
    replace (addr =? addr mod 256 + 256 * ((addr / 256) mod 256)) with true by lia.
    cbn [negb]. reflexivity.
Qed.

(* C05 at the line level *)
Theorem get_device_error addr flag trailing :
  0 <= addr < 65536 -> In flag [1; 2; 4] ->
  classify_get addr (zb addr :: zb (addr / 256) :: zb flag :: trailing) =
  GFail (if flag =? 1 then EUnknownId else if flag =? 2 then ENotSupported else EParameter).
Proof.
  intros Ha Hf. unfold classify_get. rewrite !bz_zb.
  replace (addr =? addr mod 256 + 256 * ((addr / 256) mod 256)) with true by lia.
  cbn [negb In] in *. destruct Hf as [<-|[<-|[<-|[]]]]; reflexivity.
Qed.

(* a foreign address, a short payload or a non-zero flag never yield a value *)
Theorem get_no_value_foreign addr lo hi flag v :
  addr <> bz lo + 256 * bz hi -> classify_get addr (lo :: hi :: flag :: v) = GRetry.
Proof. intros H. unfold classify_get. replace (addr =? _) with false by lia. reflexivity. Qed.

Theorem get_no_value_flag addr lo hi flag v w :
  bz flag <> 0 -> classify_get addr (lo :: hi :: flag :: v) <> GValue w.
Proof.
  intros H. unfold classify_get. destruct (negb _); [discriminate|].
  unfold response_error. replace (bz flag =? 0) with false by lia.
  destruct (bz flag =? 1); [discriminate|]. destruct (bz flag =? 2); [discriminate|].
  destruct (bz flag =? 4); discriminate.
Qed.

Lemma parse_response_ok_length cmd rd v : parse_response cmd rd = Ok v -> (2 <= length v)%nat.
Proof.
  unfold parse_response. destruct (length rd <? 7)%nat eqn:El; [discriminate|].
  destruct rd as [|c hexdata]; [discriminate|].
  destruct (negb _); [discriminate|]. destruct (Nat.odd _); [discriminate|].
  destruct (hex_decode hexdata) as [bin|] eqn:Eh; [|discriminate].
  destruct (split_last bin) as [[vals chk]|] eqn:Es; [|discriminate].
  destruct (beqb _ _); [|discriminate]. intros H. injection H as <-.
  apply split_last_spec in Es. subst bin.
  apply hex_decode_sound, hex_decodes_length in Eh. rewrite app_length in Eh. cbn [length] in *.
  destruct (Nat.ltb_spec (S (length hexdata)) 7); [discriminate|]. lia.
Qed.
