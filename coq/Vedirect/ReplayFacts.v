(* C18 (replay): with an I/O logger, a typed register read that completes in a single
   exchange emits one line (tx, rx) such that a fresh driver on a lookup port answering tx
   with rx returns the same result.  rx is what the successful recvUntil calls consumed:
   noise, skipped async frames and the response line, nothing else. *)
From GV Require Import Base.Bytes Base.Hex Base.LE Vedirect.Frame Vedirect.FrameFacts
     Vedirect.Port Vedirect.PortFacts Vedirect.Driver Vedirect.DriverFacts Vedirect.DriverSpec
     Vedirect.Resync Vedirect.ResyncFacts Vedirect.SeqFacts.
Local Open Scope nat_scope.

Definition is_async (line : list byte) : bool :=
  match line with b :: _ => beqb b c_A | [] => false end.

(* the bytes one receiveResponse consumes when it returns [line] *)
Inductive consumed_line : list byte -> list byte -> Prop :=
| CL_here o line : ~ In c_colon o -> ~ In c_nl line -> is_async line = false ->
    consumed_line (o ++ c_colon :: line ++ [c_nl]) line
| CL_skip o l x line : ~ In c_colon o -> ~ In c_nl l -> is_async l = true -> consumed_line x line ->
    consumed_line ((o ++ c_colon :: l ++ [c_nl]) ++ x) line.

(* ---- what the I/O log buffers receive ---- *)

Lemma recv_until_io c delim s : cfg_iolog c = true ->
  let '(res, s') := recv_until c delim s in
  io_tx s' = io_tx s /\ io_lines s' = io_lines s /\
  match res with
  | Ok out => io_rx s' = io_rx s ++ out ++ [delim] /\ ~ In delim out
  | _ => io_rx s' = io_rx s
  end.
Proof.
  intros Hlog. unfold recv_until.
  pose proof (read_until_spec (ru_fuel (rd s) (pt s)) delim [] (rd s) (pt s) (fun H => H)) as Sp.
  destruct (read_until _ _ _ _ _) as [[res r'] p']. cbv beta iota zeta in Sp. destruct Sp as (d & _ & Hres).
  destruct res as [line|e part|]; cbn [io_tx io_rx io_lines set_rd_pt]; rewrite ?Hlog; auto.
  destruct Hres as (pre & -> & Hn & _). rewrite removelast_snoc. auto.
Qed.

Lemma receive_response_io fuel c : forall s, cfg_iolog c = true ->
  let '(res, s') := receive_response fuel c s in
  io_tx s' = io_tx s /\ io_lines s' = io_lines s /\
  match res with
  | Ok line => exists x, io_rx s' = io_rx s ++ x /\ consumed_line x line
  | _ => True
  end.
Proof.
  induction fuel as [|f IH]; intros s Hlog; cbn [receive_response]; [auto|].
  pose proof (recv_until_io c c_colon s Hlog) as R1.
  destruct (recv_until c c_colon s) as [[o| e1| |] s1]; destruct R1 as (T1 & L1 & X1); auto.
  destruct X1 as [X1 N1].
  pose proof (recv_until_io c c_nl s1 Hlog) as R2.
  destruct (recv_until c c_nl s1) as [[line| e2| |] s2]; destruct R2 as (T2 & L2 & X2);
    try (split; [congruence|split; [congruence|exact I]]).
  destruct X2 as [X2 N2].
  assert (Hhere : is_async line = false ->
                  io_tx s2 = io_tx s /\ io_lines s2 = io_lines s /\
                  exists x, io_rx s2 = io_rx s ++ x /\ consumed_line x line).
  { intros Ha. split; [congruence|]. split; [congruence|].
    exists (o ++ c_colon :: line ++ [c_nl]). split.
    - rewrite X2, X1. rewrite <- !app_assoc. reflexivity.
    - now apply CL_here. }
  destruct line as [|b l]; [now apply Hhere|].
  destruct (beqb b c_A) eqn:Eb; [|now apply Hhere].
  specialize (IH s2 Hlog). destruct (receive_response f c s2) as [res s3].
  destruct IH as (T3 & L3 & X3). split; [congruence|]. split; [congruence|].
  destruct res as [line3|e3| |]; auto.
  destruct X3 as (x & X3 & C3). exists ((o ++ c_colon :: (b :: l) ++ [c_nl]) ++ x). split.
  - rewrite X3, X2, X1. rewrite <- !app_assoc. cbn [app]. rewrite <- !app_assoc. reflexivity.
  - apply CL_skip; auto.
Qed.

Lemma send_receive_io c idle cmd data s : cfg_iolog c = true ->
  let '(res, s') := send_receive c idle cmd data s in
  io_lines s' = io_lines s /\
  match res with
  | Ok line => io_tx s' = io_tx s ++ tx_frame_data cmd data /\ exists x, io_rx s' = io_rx s ++ x /\ consumed_line x line
  | _ => True
  end.
Proof.
  intros Hlog. unfold send_receive.
  set (s0 := if idle then flush_receiver s else s).
  assert (H0 : io_tx s0 = io_tx s /\ io_rx s0 = io_rx s /\ io_lines s0 = io_lines s).
  { subst s0. destruct idle; [|auto]. unfold flush_receiver. destruct (port_flush (pt s)). cbn. auto. }
  destruct H0 as (T0 & R0 & L0).
  unfold vd_write. destruct (port_write (tx_frame_data cmd data) (pt s0)) as [ok p'].
  destruct ok; cbn [andb]; rewrite ?Hlog.
  - match goal with |- context[receive_response ?f c ?st] =>
      pose proof (receive_response_io f c st Hlog) as R; destruct (receive_response f c st) as [res s2] end.
    cbn [io_tx io_rx io_lines] in R. destruct R as (T & L & X). split; [congruence|].
    destruct res as [line|e| |]; auto. split; [congruence|].
    destruct X as (x & X & C). exists x. split; [congruence|exact C].
  - cbn [io_lines]. auto.
Qed.

(* ---- the abstract machine on exactly those bytes ---- *)

Lemma a_receive_consumed x line : consumed_line x line ->
  forall fuel X, List.length x < fuel -> a_receive fuel (map IByte x ++ X) = (Some line, X).
Proof.
  induction 1 as [o line Ho Hl Ha | o l x line Ho Hl Ha Hc IH]; intros fuel X Hf.
  - destruct fuel as [|f]; [lia|]. cbn [a_receive].
    rewrite (a_until_delim c_colon o (line ++ [c_nl]) [] X Ho). cbn [app].
    rewrite (a_until_delim c_nl line [] [] X Hl). cbn [app map].
    destruct line as [|b l]; [reflexivity|]. cbn [is_async] in Ha. now rewrite Ha.
  - destruct fuel as [|f]; [lia|]. cbn [a_receive].
    rewrite map_app, <- (app_assoc (map IByte _) (map IByte x) X).
    rewrite (a_until_delim c_colon o (l ++ [c_nl]) [] (map IByte x ++ X) Ho). cbn [app].
    rewrite (a_until_delim c_nl l [] [] (map IByte x ++ X) Hl). cbn [app map].
    destruct l as [|b l']; [discriminate Ha|]. cbn [is_async] in Ha. rewrite Ha.
    apply IH. rewrite !app_length in Hf. cbn [List.length] in Hf. rewrite app_length in Hf. cbn [List.length] in Hf. lia.
Qed.

Lemma consumed_line_nonempty x line : consumed_line x line -> x <> [].
Proof. destruct 1; destruct o; discriminate. Qed.

(* ---- the lookup port: a fresh driver whose port answers the first command with rx ---- *)

Definition lookup_state (rx : list byte) : vdstate :=
  vd_new (mkPort [] [match rx with [] => [] | _ => [RData rx] end] [] [] false [] 0 0 0 0 []).

Lemma lookup_oks rx : oks (lookup_state rx) /\ st_items (lookup_state rx) = [].
Proof.
  split; [|reflexivity]. split; [|reflexivity]. unfold okp, lookup_state, vd_new.
  cbn [pt queue noprog wfaults reactions clean forallb negb]. destruct rx; cbn [forallb clean clean_event andb]; auto.
Qed.

(* what the first attempt decides *)
Inductive decided := DValue (v : list byte) | DFail (e : err).

Definition decides (addr : Z) (line : list byte) (dec : decided) : Prop :=
  exists raw, parse_response 7 line = Ok raw /\
    match dec with DValue v => classify_get addr raw = GValue v | DFail e => classify_get addr raw = GFail e end.

Definition decided_res (dec : decided) : res (list byte) :=
  match dec with DValue v => Ok v | DFail e => Err e end.

Lemma a_get_first_decided t addr r more w line rest' dec :
  a_receive (S (List.length ([] ++ items_of_events (filter nonempty_event r))))
            ([] ++ items_of_events (filter nonempty_event r)) = (Some line, rest') ->
  decides addr line dec ->
  a_get (S t) addr [] (r :: more) w =
  (match dec with DValue v => AValue v | DFail e => ADevErr e end, S w, rest', more).
Proof. intros A (raw & P & C). cbn [a_get hd tl]. rewrite A, P. destruct dec; now rewrite C. Qed.

Lemma replay_get c2 addr rx line dec :
  consumed_line rx line -> decides (addr mod 65536) line dec ->
  fst (ve_command_get c2 true addr (lookup_state rx)) = decided_res dec.
Proof.
  intros Hc Hd.
  destruct (lookup_oks rx) as [O I].
  pose proof (ve_command_get_refines c2 true addr (lookup_state rx) O) as R.
  destruct (ve_command_get c2 true addr (lookup_state rx)) as [res s'].
  unfold a_get_call in R. change num_tries with (S 7) in R.
  pose proof (consumed_line_nonempty _ _ Hc) as Hne.
  assert (Er : reactions (pt (lookup_state rx)) = [[RData rx]]).
  { unfold lookup_state, vd_new. cbn [pt reactions]. destruct rx; [now elim Hne|reflexivity]. }
  rewrite Er in R.
  assert (A : a_receive (S (List.length ([] ++ items_of_events (filter nonempty_event [RData rx]))))
                        ([] ++ items_of_events (filter nonempty_event [RData rx])) = (Some line, [])).
  { destruct rx as [|b rx']; [now elim Hne|].
    cbn [filter nonempty_event items_of_events app].
    apply (a_receive_consumed _ _ Hc). rewrite app_nil_r, map_length. lia. }
  rewrite (a_get_first_decided 7 (addr mod 65536) [RData rx] [] 0 line [] dec A Hd) in R.
  destruct R as (_ & _ & _ & _ & M). cbn [fst].
  destruct dec; destruct res; cbn [result_matches decided_res] in *; try contradiction; now subst.
Qed.

(* ---- the original call ---- *)

Lemma loop_at_least_one t c idle addr s :
  S (nwrites (pt s)) <= nwrites (pt (snd (ve_command_get_loop (S t) c idle addr s))).
Proof.
  cbn [ve_command_get_loop].
  pose proof (ve_command_writes c idle 7 addr s) as [Hn _].
  destruct (ve_command c idle 7 addr s) as [[raw|e| |] s1]; cbn [snd] in *; try lia.
  - destruct (classify_get addr raw); cbn [snd]; try lia.
    pose proof (ve_command_get_loop_writes t c false addr s1) as [_ L]. lia.
  - pose proof (ve_command_get_loop_writes t c false addr s1) as [_ L]. lia.
Qed.

(* a Get that wrote exactly one command was decided by its first exchange; its log line is
   (the command frame, the bytes that exchange consumed) and those bytes decide the same *)
Lemma single_exchange_get c idle addr s :
  cfg_iolog c = true -> io_tx s = [] -> io_rx s = [] ->
  nwrites (pt (snd (ve_command_get c idle addr s))) = S (nwrites (pt s)) ->
  exists rx line dec,
    consumed_line rx line /\ decides (addr mod 65536) line dec /\
    fst (ve_command_get c idle addr s) = decided_res dec /\
    io_lines (io_line_end c (snd (ve_command_get c idle addr s))) =
      io_lines s ++ [(tx_frame 7 (addr mod 65536), rx)].
Proof.
  intros Hlog Ht Hr Hn. unfold ve_command_get in *. change num_tries with (S 7) in *.
  set (a := (addr mod 65536)%Z) in *.
  cbn [ve_command_get_loop] in *. unfold ve_command in *.
  pose proof (send_receive_io c idle 7 (cmd_param 7 a) s Hlog) as Io.
  pose proof (send_receive_one_write c idle 7 (cmd_param 7 a) s) as [W1 _].
  pose proof (send_receive_spec c idle 7 (cmd_param 7 a) s) as Sp.
  destruct (send_receive c idle 7 (cmd_param 7 a) s) as [res1 s1]. cbn [snd] in W1.
  destruct Io as [L1 Io].
  assert (Hmore : forall X, nwrites (pt (snd (ve_command_get_loop 7 c false a s1))) = S (nwrites (pt s)) -> X).
  { intros X H. pose proof (loop_at_least_one 6 c false a s1) as L. change (S 6) with 7 in L. lia. }
  destruct res1 as [line|e| |].
  - destruct Io as (Tx & x & Rx & Cl).
    destruct (parse_response_no_panic 7 line) as [NP NF].
    destruct (parse_response 7 line) as [raw|pe| |] eqn:P; try congruence.
    + destruct (classify_get a raw) as [|ge|v] eqn:C; cbn [snd fst] in *.
      * now apply Hmore.
      * exists x, line, (DFail ge). split; [exact Cl|]. split; [exists raw; auto|]. split; [reflexivity|].
        unfold io_line_end. rewrite Hlog. cbn [io_lines]. rewrite L1, Tx, Rx, Ht, Hr. reflexivity.
      * exists x, line, (DValue v). split; [exact Cl|]. split; [exists raw; auto|]. split; [reflexivity|].
        unfold io_line_end. rewrite Hlog. cbn [io_lines]. rewrite L1, Tx, Rx, Ht, Hr. reflexivity.
    + cbn [snd] in Hn. now apply Hmore.
  - cbn [snd] in Hn. now apply Hmore.
  - destruct Sp as (d & _ & _ & F). contradiction.
  - destruct Sp as (d & _ & _ & F). contradiction.
Qed.

Lemma fst_map_res {A B} (f : A -> res B) (x y : res A * vdstate) : fst x = fst y -> fst (map_res f x) = fst (map_res f y).
Proof. destruct x as [[a|e| |] sx], y as [[b|e'| |] sy]; cbn [fst map_res]; intros H; try discriminate H; try reflexivity; now inversion H. Qed.

Lemma snd_map_res {A B} (f : A -> res B) x : snd (map_res f x) = snd x.
Proof. destruct x as [[a|e| |] sx]; reflexivity. Qed.

(* C18 (replay) for the typed register reads *)
Theorem typed_get_replays c k addr idle s :
  cfg_iolog c = true -> io_tx s = [] -> io_rx s = [] -> k <> GRaw ->
  let '(r, s') := do_call c idle (call_of k addr) s in
  nwrites (pt s') = S (nwrites (pt s)) ->
  exists rx, io_lines s' = io_lines s ++ [(tx_frame 7 (addr mod 65536), rx)] /\
             forall c2, fst (do_call c2 true (call_of k addr) (lookup_state rx)) = r.
Proof.
  intros Hlog Ht Hr Hk.
  assert (G : forall (f : list byte -> res value),
    nwrites (pt (snd (typed c (map_res f (ve_command_get c idle addr s))))) = S (nwrites (pt s)) ->
    exists rx, io_lines (snd (typed c (map_res f (ve_command_get c idle addr s)))) = io_lines s ++ [(tx_frame 7 (addr mod 65536), rx)] /\
      forall c2, fst (typed c2 (map_res f (ve_command_get c2 true addr (lookup_state rx)))) =
                 fst (typed c (map_res f (ve_command_get c idle addr s)))).
  { intros f Hn. unfold typed in *. cbn [fst snd] in *. rewrite !snd_map_res in *.
    destruct (io_line_end_rd_pt c (snd (ve_command_get c idle addr s))) as [_ Ept]. rewrite Ept in Hn.
    destruct (single_exchange_get c idle addr s Hlog Ht Hr Hn) as (rx & line & dec & Cl & Dc & Er & El).
    exists rx. split; [exact El|]. intros c2. apply fst_map_res.
    rewrite (replay_get c2 addr rx line dec Cl Dc). now symmetry. }
  destruct k; [now elim Hk| | |]; cbn [call_of do_call]; unfold get_uint, get_int, get_string.
  - specialize (G (fun raw => Ok (VNum (le_uint raw)))).
    destruct (typed c (map_res _ (ve_command_get c idle addr s))) as [r s'] eqn:E. cbn [fst snd] in G. exact G.
  - specialize (G (fun raw => match le_int raw with Some z => Ok (VNum z) | None => Err EOther end)).
    destruct (typed c (map_res _ (ve_command_get c idle addr s))) as [r s'] eqn:E. cbn [fst snd] in G. exact G.
  - specialize (G (fun raw => Ok (VBytes (strip_nul raw)))).
    destruct (typed c (map_res _ (ve_command_get c idle addr s))) as [r s'] eqn:E. cbn [fst snd] in G. exact G.
Qed.

(* ---- Ping and GetDeviceId: a single try, so every such call is one exchange — also when
        it fails ---- *)

(* what a failing receiveResponse consumed *)
Inductive consumed_fail : list byte -> Prop :=
| CF_none : consumed_fail []
| CF_colon o : ~ In c_colon o -> consumed_fail (o ++ [c_colon])
| CF_skip o l x : ~ In c_colon o -> ~ In c_nl l -> is_async l = true -> consumed_fail x ->
    consumed_fail ((o ++ c_colon :: l ++ [c_nl]) ++ x).

Lemma recv_until_err c delim s e s' : recv_until c delim s = (Err e, s') -> e = EOther.
Proof.
  unfold recv_until. destruct (read_until _ _ _ _ _) as [[[line|e0 part|] r'] p']; intros H; inversion H; reflexivity.
Qed.

Lemma receive_response_io_err fuel c : forall s, cfg_iolog c = true ->
  let '(res, s') := receive_response fuel c s in
  match res with
  | Err e => e = EOther /\ exists x, io_rx s' = io_rx s ++ x /\ consumed_fail x
  | _ => True
  end.
Proof.
  induction fuel as [|f IH]; intros s Hlog; cbn [receive_response]; [auto|].
  pose proof (recv_until_io c c_colon s Hlog) as R1. pose proof (recv_until_err c c_colon s) as E1.
  destruct (recv_until c c_colon s) as [[o| e1| |] s1]; destruct R1 as (T1 & L1 & X1); auto.
  2:{ split; [now apply (E1 e1 s1)|]. exists []. rewrite app_nil_r. split; [exact X1|constructor]. }
  destruct X1 as [X1 N1].
  pose proof (recv_until_io c c_nl s1 Hlog) as R2. pose proof (recv_until_err c c_nl s1) as E2.
  destruct (recv_until c c_nl s1) as [[line| e2| |] s2]; destruct R2 as (T2 & L2 & X2); auto.
  2:{ split; [now apply (E2 e2 s2)|]. exists (o ++ [c_colon]). split; [congruence|now constructor]. }
  destruct X2 as [X2 N2].
  destruct line as [|b l]; [exact I|].
  destruct (beqb b c_A) eqn:Eb; [|exact I].
  specialize (IH s2 Hlog). destruct (receive_response f c s2) as [res s3].
  destruct res as [line3|e3| |]; auto.
  destruct IH as (-> & x & X3 & C3). split; [reflexivity|].
  exists ((o ++ c_colon :: (b :: l) ++ [c_nl]) ++ x). split.
  - rewrite X3, X2, X1. rewrite <- !app_assoc. cbn [app]. rewrite <- !app_assoc. reflexivity.
  - apply CF_skip; auto.
Qed.

Lemma a_receive_fail x : consumed_fail x ->
  forall fuel, List.length x < fuel -> a_receive fuel (map IByte x) = (None, []).
Proof.
  induction 1 as [| o Ho | o l x Ho Hl Ha Hc IH]; intros fuel Hf.
  - destruct fuel as [|f]; [lia|]. reflexivity.
  - destruct fuel as [|f]; [lia|]. cbn [a_receive].
    rewrite <- (app_nil_r (map IByte (o ++ [c_colon]))).
    rewrite (a_until_delim c_colon o [] [] [] Ho). reflexivity.
  - destruct fuel as [|f]; [lia|]. cbn [a_receive].
    rewrite map_app.
    rewrite (a_until_delim c_colon o (l ++ [c_nl]) [] (map IByte x) Ho). cbn [app].
    rewrite (a_until_delim c_nl l [] [] (map IByte x) Hl). cbn [app map].
    destruct l as [|b l']; [discriminate Ha|]. cbn [is_async] in Ha. rewrite Ha.
    apply IH. rewrite !app_length in Hf. cbn [List.length] in Hf. rewrite app_length in Hf. cbn [List.length] in Hf. lia.
Qed.

Lemma send_receive_err_other c idle cmd data s e s' : send_receive c idle cmd data s = (Err e, s') ->
  cfg_iolog c = true -> e = EOther.
Proof.
  unfold send_receive. intros H Hlog.
  destruct (vd_write c (tx_frame_data cmd data) (if idle then flush_receiver s else s)) as [[|] s1].
  - pose proof (receive_response_io_err (rr_fuel s1) c s1 Hlog) as R. rewrite H in R. apply R.
  - now inversion H.
Qed.

(* the replayed exchange: the same line, or the same failure *)
Lemma replay_send_receive c2 cmd data rx :
  (forall line, consumed_line rx line -> fst (send_receive c2 true cmd data (lookup_state rx)) = Ok line) /\
  (consumed_fail rx -> exists e, fst (send_receive c2 true cmd data (lookup_state rx)) = Err e).
Proof.
  destruct (lookup_oks rx) as [O _].
  pose proof (send_receive_refines c2 true cmd data (lookup_state rx) O) as R.
  destruct (send_receive c2 true cmd data (lookup_state rx)) as [res s']. cbv zeta in R.
  destruct R as (_ & _ & _ & A & NP & NF). cbn [fst].
  assert (Eav : [] ++ items_of_events (filter nonempty_event (hd [] (reactions (pt (lookup_state rx))))) = map IByte rx).
  { unfold lookup_state, vd_new. cbn [pt reactions hd app]. destruct rx; [reflexivity|].
    cbn [filter nonempty_event items_of_events]. now rewrite app_nil_r. }
  rewrite Eav in A. split.
  - intros line Hc. rewrite <- (app_nil_r (map IByte rx)) in A.
    rewrite (a_receive_consumed _ _ Hc) in A by (rewrite app_nil_r, map_length; lia).
    destruct res; inversion A; reflexivity.
  - intros Hc. rewrite (a_receive_fail _ Hc) in A by (rewrite map_length; lia).
    destruct res as [l|e| |]; try (now inversion A); try congruence. now exists e.
Qed.

Lemma receive_response_err_other fuel c : forall s e s', receive_response fuel c s = (Err e, s') -> e = EOther.
Proof.
  induction fuel as [|f IH]; intros s e s'; cbn [receive_response]; [discriminate|].
  pose proof (recv_until_err c c_colon s) as E1.
  destruct (recv_until c c_colon s) as [[o| e1| |] s1]; try discriminate.
  2:{ intros H. inversion H; subst. now apply (E1 e s'). }
  pose proof (recv_until_err c c_nl s1) as E2.
  destruct (recv_until c c_nl s1) as [[line| e2| |] s2]; try discriminate.
  2:{ intros H. inversion H; subst. now apply (E2 e s'). }
  destruct line as [|b l]; [discriminate|]. destruct (beqb b c_A); [apply IH|discriminate].
Qed.

Lemma send_receive_err c idle cmd data s e s' : send_receive c idle cmd data s = (Err e, s') -> e = EOther.
Proof.
  unfold send_receive.
  destruct (vd_write c (tx_frame_data cmd data) (if idle then flush_receiver s else s)) as [[|] s1].
  - apply receive_response_err_other.
  - intros H. now inversion H.
Qed.

(* the log buffers after one exchange from empty buffers *)
Lemma send_receive_logged c idle cmd data s : cfg_iolog c = true -> io_tx s = [] -> io_rx s = [] ->
  let '(res, s1) := send_receive c idle cmd data s in
  io_lines s1 = io_lines s /\ (io_tx s1 = [] \/ io_tx s1 = tx_frame_data cmd data) /\
  (io_tx s1 <> [] ->
   match res with
   | Ok line => consumed_line (io_rx s1) line
   | Err _ => consumed_fail (io_rx s1)
   | _ => True
   end).
Proof.
  intros Hlog Ht Hr. unfold send_receive.
  set (s0 := if idle then flush_receiver s else s).
  assert (H0 : io_tx s0 = [] /\ io_rx s0 = [] /\ io_lines s0 = io_lines s).
  { subst s0. destruct idle; [|auto]. unfold flush_receiver. destruct (port_flush (pt s)). cbn. auto. }
  destruct H0 as (T0 & R0 & L0).
  unfold vd_write. destruct (port_write (tx_frame_data cmd data) (pt s0)) as [ok p'].
  destruct ok; cbn [andb]; rewrite ?Hlog.
  - match goal with |- context[receive_response ?f c ?st] =>
      pose proof (receive_response_io f c st Hlog) as R; pose proof (receive_response_io_err f c st Hlog) as Re;
      destruct (receive_response f c st) as [res s2] end.
    cbn [io_tx io_rx io_lines] in R, Re. destruct R as (T & L & X). rewrite T0, R0 in *. cbn [app] in *.
    split; [congruence|]. split; [now right|]. intros _.
    destruct res as [line|e| |]; auto.
    + destruct X as (x & -> & C). exact C.
    + destruct Re as (_ & x & -> & C). exact C.
  - cbn [io_lines io_tx]. split; [exact L0|]. split; [now left|]. intros H. now elim H.
Qed.

Definition command_frame (k : call) : list byte :=
  match k with
  | CPing => tx_frame_data 1 []
  | CDeviceId => tx_frame_data 4 (cmd_param 4 0)
  | _ => []
  end.

(* C18 (replay) for Ping and GetDeviceId: whenever the command was written (tx is not
   empty) the line is (the command frame, what the exchange consumed) and replaying it gives
   the call's result — a value, a device-side parse error or the transport failure *)
Theorem command_replays c k idle s :
  k = CPing \/ k = CDeviceId -> cfg_iolog c = true -> io_tx s = [] -> io_rx s = [] ->
  let '(r, s') := do_call c idle k s in
  exists tx rx, io_lines s' = io_lines s ++ [(tx, rx)] /\
    (tx <> [] -> tx = command_frame k /\ forall c2, fst (do_call c2 true k (lookup_state rx)) = r).
Proof.
  intros Hk Hlog Ht Hr.
  assert (G : forall cmd data (g : res (list byte) * vdstate -> res value * vdstate),
    (forall x y, fst x = fst y -> fst (g x) = fst (g y)) -> (forall x, snd (g x) = snd x) ->
    let '(r, s') := typed c (g (send_receive c idle cmd data s)) in
    exists tx rx, io_lines s' = io_lines s ++ [(tx, rx)] /\
      (tx <> [] -> tx = tx_frame_data cmd data /\
                   forall c2, fst (typed c2 (g (send_receive c2 true cmd data (lookup_state rx)))) = r)).
  { intros cmd data g Hg Hs.
    pose proof (send_receive_logged c idle cmd data s Hlog Ht Hr) as Lg.
    pose proof (send_receive_spec c idle cmd data s) as Sp.
    pose proof (send_receive_err c idle cmd data s) as Ee.
    destruct (send_receive c idle cmd data s) as [res s1] eqn:E.
    destruct Lg as (L1 & Tx & Rx). unfold typed. cbn [fst snd]. rewrite Hs. cbn [snd].
    exists (io_tx s1), (io_rx s1). split; [unfold io_line_end; rewrite Hlog; cbn [io_lines]; now rewrite L1|].
    intros Hne. destruct Tx as [Tx|Tx]; [contradiction|]. split; [exact Tx|].
    intros c2. specialize (Rx Hne). apply Hg. cbn [fst].
    destruct (replay_send_receive c2 cmd data (io_rx s1)) as [Rok Rerr].
    destruct res as [line|e| |].
    - now apply Rok.
    - destruct (Rerr Rx) as (e' & E').
      destruct (send_receive c2 true cmd data (lookup_state (io_rx s1))) as [res2 s2] eqn:E2. cbn [fst] in E'. subst res2.
      rewrite (send_receive_err _ _ _ _ _ _ _ E2). rewrite (Ee e s1 eq_refl). reflexivity.
    - destruct Sp as (d & _ & _ & F). contradiction.
    - destruct Sp as (d & _ & _ & F). contradiction. }
  destruct Hk as [-> | ->]; cbn [do_call command_frame]; unfold ping, get_device_id, ve_command.
  - apply (G 1%Z [] (map_res (fun _ => Ok VUnit))).
    + intros x y. apply fst_map_res.
    + intros x. apply snd_map_res.
  - apply (G 4%Z (cmd_param 4 0)
       (fun x => map_res (fun raw => match raw with lo :: hi :: _ => Ok (VNum (bz lo + 256 * bz hi)) | _ => Panic end)
                   (match x with
                    | (Ok rdata, s1) => (parse_response 4 rdata, s1)
                    | (Err e, s1) => (Err e, s1)
                    | (Panic, s1) => (Panic, s1)
                    | (OutOfFuel, s1) => (OutOfFuel, s1)
                    end))).
    + intros x y Hxy. apply fst_map_res. destruct x as [[a|e| |] sx], y as [[b|e'| |] sy]; cbn [fst] in *; try discriminate Hxy; try reflexivity; now inversion Hxy.
    + intros x. rewrite snd_map_res. destruct x as [[a|e| |] sx]; reflexivity.
Qed.
