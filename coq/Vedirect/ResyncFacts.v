(* C04: the concrete driver (events, bufio, fuel) refines the abstract line machine on
   fault-free scripts. *)
From GV Require Import Base.Bytes Base.Hex Base.LE Vedirect.Frame Vedirect.FrameFacts
     Vedirect.Port Vedirect.PortFacts Vedirect.Driver Vedirect.DriverFacts Vedirect.DriverSpec Vedirect.Resync.
Local Open Scope nat_scope.

(* scripts in the scope of the refinement: read timeouts / errors and data only (empty reads
   and no-progress ports are C06's subject), no write faults *)
Definition clean_event (e : revent) : bool :=
  match e with REmpty => false | RData [] => false | _ => true end.
Definition clean (q : list revent) : bool := forallb clean_event q.

Definition items_of (r : rdr) (q : list revent) : list item :=
  map IByte (rbuf r) ++ (match rerr r with Some _ => [IBar] | None => [] end) ++ items_of_events q.

(* ---- a_until over a run of bytes ---- *)

Lemma a_until_nodelim delim l : forall acc rest, ~ In delim l ->
  a_until delim acc (map IByte l ++ rest) = a_until delim (acc ++ l) rest.
Proof.
  induction l as [|b l IH]; intros acc rest H; cbn [map app a_until]; [now rewrite app_nil_r|].
  destruct (beqb b delim) eqn:E; [apply beqb_eq in E; subst; exfalso; apply H; now left|].
  rewrite IH by (intros Hin; apply H; now right). now rewrite <- app_assoc.
Qed.

Lemma a_until_delim delim pre post acc rest : ~ In delim pre ->
  a_until delim acc (map IByte (pre ++ delim :: post) ++ rest) = (Some (acc ++ pre), map IByte post ++ rest).
Proof.
  intros H. rewrite map_app, <- app_assoc. rewrite a_until_nodelim by exact H.
  cbn [map app a_until]. now rewrite beqb_refl.
Qed.

Lemma items_of_events_app a b : items_of_events (a ++ b) = items_of_events a ++ items_of_events b.
Proof.
  induction a as [|e a IH]; [reflexivity|]. destruct e; cbn [app items_of_events]; rewrite IH; try reflexivity.
  now rewrite app_assoc.
Qed.

(* ---- one fill on a clean queue ---- *)

Lemma max_empty_reads_S : exists i, max_empty_reads = S i.
Proof. exists 99. reflexivity. Qed.

Lemma fill_loop_S i r p :
  fill_loop (S i) r p =
  match port_read (bufcap - List.length (rbuf r)) p with
  | (d, Some e, p') => (mkRdr (rbuf r ++ d) (Some e), p')
  | (d, None, p') => match d with [] => fill_loop i r p' | _ => (mkRdr (rbuf r ++ d) None, p') end
  end.
Proof. reflexivity. Qed.

Lemma fill_clean r p : rerr r = None -> clean (queue p) = true -> noprog p = false ->
  List.length (rbuf r) < bufcap ->
  let '(r', p') := fill r p in
  clean (queue p') = true /\ noprog p' = false /\ wstate p' = wstate p /\
  ((rerr r' = None /\ items_of r' (queue p') = items_of r (queue p) /\ exists d, d <> [] /\ rbuf r' = rbuf r ++ d) \/
   (exists e, rerr r' = Some e /\ rbuf r' = rbuf r /\
      ((queue p = [] /\ queue p' = []) \/ (exists ev, (ev = REof \/ ev = RErr) /\ queue p = ev :: queue p')))).
Proof.
  intros Hr Hc Hn Hl. unfold fill. destruct max_empty_reads_S as [i0 ->]. rewrite fill_loop_S.
  unfold port_read. destruct (bufcap - List.length (rbuf r)) as [|n] eqn:En; [lia|].
  destruct (queue p) as [|ev q] eqn:Eq.
  - rewrite Hn. cbn [rbuf rerr queue noprog]. rewrite app_nil_r.
    repeat split; auto. right. exists IOEof. repeat split; auto.
  - cbn [clean forallb] in Hc. apply andb_prop in Hc as [Hev Hc].
    destruct ev as [d| | |]; try discriminate.
    + destruct d as [|x d]; [discriminate|].
      set (out := firstn (S n) (x :: d)). set (rest := skipn (S n) (x :: d)).
      assert (Eo : out ++ rest = x :: d) by apply firstn_skipn.
      assert (Hout : out <> []) by (subst out; cbn; discriminate).
      destruct out as [|o os] eqn:Eout; [contradiction|].
      cbn [rbuf rerr queue noprog].
      split.
      { destruct rest; [exact Hc|]. cbn [clean forallb clean_event]. now rewrite Hc. }
      split; [exact Hn|]. split; [reflexivity|].
      left. split; [reflexivity|]. split; [|exists (o :: os); split; [discriminate|reflexivity]].
      unfold items_of. cbn [rbuf rerr]. rewrite Hr. cbn [app].
      rewrite map_app, <- app_assoc. f_equal.
      destruct rest as [|y ys] eqn:Er; cbn [items_of_events].
      * rewrite app_nil_r in Eo. now rewrite <- Eo.
      * rewrite <- Eo. rewrite map_app, <- app_assoc. reflexivity.
    + cbn [rbuf rerr queue noprog upd_queue]. rewrite app_nil_r.
      split; [exact Hc|]. split; [exact Hn|]. split; [reflexivity|].
      right. exists IOEof. repeat split; auto. right. exists REof. auto.
    + cbn [rbuf rerr queue noprog upd_queue]. rewrite app_nil_r.
      split; [exact Hc|]. split; [exact Hn|]. split; [reflexivity|].
      right. exists IOErr. repeat split; auto. right. exists RErr. auto.
Qed.

(* ---- ReadBytes refines a_until ---- *)

Lemma bar_items (e : option ioerr) (l : list item) :
  (match e with Some _ => [IBar] | None => [] end) ++ l = match e with Some _ => IBar :: l | None => l end.
Proof. destruct e; reflexivity. Qed.

Theorem read_until_refines fuel delim : forall acc r p,
  clean (queue p) = true -> noprog p = false ->
  let '(res, r', p') := read_until fuel delim acc r p in
  res <> RUFuel ->
  clean (queue p') = true /\ noprog p' = false /\ wstate p' = wstate p /\
  (rerr r = None -> rerr r' = None) /\
  match res with
  | RUOk line => exists x, line = x ++ [delim] /\
                           a_until delim acc (items_of r (queue p)) = (Some x, items_of r' (queue p'))
  | RUErr _ _ => a_until delim acc (items_of r (queue p)) = (None, items_of r' (queue p'))
  | RUFuel => True
  end.
Proof.
  induction fuel as [|f IH]; intros acc r p Hc Hn; cbn [read_until]; [congruence|].
  destruct (split_delim delim (rbuf r)) as [[pre post]|] eqn:Es.
  - intros _. apply split_delim_some in Es as [E Hnd].
    split; [exact Hc|]. split; [exact Hn|]. split; [reflexivity|]. split; [cbn; auto|].
    exists (acc ++ pre). split; [now rewrite app_assoc|].
    unfold items_of. cbn [rbuf rerr]. rewrite E. now rewrite a_until_delim.
  - apply split_delim_none in Es.
    destruct (rerr r) as [e|] eqn:Ee.
    + intros _. split; [exact Hc|]. split; [exact Hn|]. split; [reflexivity|]. split; [discriminate|].
      unfold items_of. cbn [rbuf rerr map app]. rewrite Ee. rewrite a_until_nodelim by exact Es.
      cbn [app a_until]. reflexivity.
    + destruct (bufcap <=? List.length (rbuf r)) eqn:Ef.
      * specialize (IH (acc ++ rbuf r) (mkRdr [] None) p Hc Hn).
        destruct (read_until f delim (acc ++ rbuf r) (mkRdr [] None) p) as [[res r'] p'].
        intros Hne. specialize (IH Hne). destruct IH as (C & N & W & R & H).
        split; [exact C|]. split; [exact N|]. split; [exact W|]. split; [intros _; now apply R|].
        assert (Ei : forall a, a_until delim a (items_of r (queue p)) = a_until delim (a ++ rbuf r) (items_of (mkRdr [] None) (queue p))).
        { intros a. unfold items_of. cbn [rbuf rerr map app]. rewrite Ee. cbn [app]. now apply a_until_nodelim. }
        destruct res as [line|e part|]; [| |exact I]; rewrite Ei; exact H.
      * apply Nat.leb_gt in Ef.
        pose proof (fill_clean r p Ee Hc Hn Ef) as F. destruct (fill r p) as [r1 p1].
        destruct F as (C1 & N1 & W1 & [(R1 & I1 & d & Hd & B1)|(e & R1 & B1 & Q1)]).
        -- specialize (IH acc r1 p1 C1 N1). destruct (read_until f delim acc r1 p1) as [[res r'] p'].
           intros Hne. specialize (IH Hne). destruct IH as (C & N & W & R & H).
           split; [exact C|]. split; [exact N|]. split; [now rewrite W|]. split; [intros _; now apply R|].
           rewrite <- I1. exact H.
        -- (* the fill hit a barrier: the next iteration returns the error *)
           destruct f as [|f']; cbn [read_until]; [congruence|].
           rewrite B1. destruct (split_delim delim (rbuf r)) as [[? ?]|] eqn:Es2;
             [apply split_delim_some in Es2 as [E2 _]; exfalso; apply Es; rewrite E2; apply in_or_app; right; now left|].
           rewrite R1. intros _.
           split; [exact C1|]. split; [exact N1|]. split; [exact W1|]. split; [reflexivity|].
           unfold items_of. cbn [rbuf rerr map app]. rewrite Ee. cbn [app].
           rewrite a_until_nodelim by exact Es.
           destruct Q1 as [[Q0 Q0']|(ev & Hev & Qe)].
           ++ rewrite Q0, Q0'. reflexivity.
           ++ rewrite Qe. destruct Hev as [-> | ->]; reflexivity.
Qed.

(* ---- recvUntil, receiveResponse ---- *)

Definition st_items (s : vdstate) : list item := items_of (rd s) (queue (pt s)).

Definition okp (p : port) : Prop :=
  clean (queue p) = true /\ noprog p = false /\ forallb negb (wfaults p) = true /\ forallb clean (reactions p) = true.

Definition oks (s : vdstate) : Prop := okp (pt s) /\ rerr (rd s) = None.

Lemma okp_wstate p p' : wstate p' = wstate p -> clean (queue p') = true -> noprog p' = false -> okp p -> okp p'.
Proof.
  intros W C N (_ & _ & F & R). unfold wstate in W. injection W as _ _ Wr Wf. unfold okp. rewrite Wr, Wf. auto.
Qed.

Theorem recv_until_refines c delim s : oks s ->
  let '(res, s') := recv_until c delim s in
  oks s' /\ wstate (pt s') = wstate (pt s) /\
  match res with
  | Ok out => a_until delim [] (st_items s) = (Some out, st_items s')
  | Err _ => a_until delim [] (st_items s) = (None, st_items s')
  | Panic => False
  | OutOfFuel => False
  end.
Proof.
  intros [Hp Hr]. pose proof Hp as (C & N & _ & _). unfold recv_until.
  pose proof (read_until_refines (ru_fuel (rd s) (pt s)) delim [] (rd s) (pt s) C N) as R.
  pose proof (read_until_fuel (ru_fuel (rd s) (pt s)) delim [] (rd s) (pt s) (ru_fuel_enough _ _)) as F.
  destruct (read_until _ _ _ _ _) as [[res r'] p']. cbn [fst] in F. specialize (R F).
  destruct R as (C' & N' & W & Rr & H).
  destruct res as [line|e part|]; [| |contradiction]; unfold st_items; cbn [rd pt set_rd_pt].
  - destruct H as (x & -> & A). rewrite removelast_last.
    split; [split; [eapply okp_wstate; eassumption|now apply Rr]|]. split; [exact W|exact A].
  - split; [split; [eapply okp_wstate; eassumption|now apply Rr]|]. split; [exact W|exact H].
Qed.

Lemma a_until_shorter delim : forall l acc x rest,
  a_until delim acc l = (x, rest) -> List.length rest <= List.length l /\ (x <> None -> List.length rest < List.length l).
Proof.
  induction l as [|i l IH]; intros acc x rest H; cbn [a_until] in H.
  - injection H as <- <-. split; [reflexivity|congruence].
  - destruct i as [b|].
    + destruct (beqb b delim).
      * injection H as <- <-. cbn [List.length]. split; [lia|intros _; lia].
      * apply IH in H as [H1 H2]. cbn [List.length]. split; [lia|intros Hx; specialize (H2 Hx); lia].
    + injection H as <- <-. cbn [List.length]. split; [lia|congruence].
Qed.

Theorem receive_response_refines fuel c : forall s fa, oks s -> avail s < fuel -> List.length (st_items s) < fa ->
  let '(res, s') := receive_response fuel c s in
  oks s' /\ wstate (pt s') = wstate (pt s) /\
  a_receive fa (st_items s) = (match res with Ok line => Some line | _ => None end, st_items s') /\
  res <> Panic /\ res <> OutOfFuel.
Proof.
  induction fuel as [|f IH]; intros s fa Hs Hf Hfa; [lia|].
  destruct fa as [|fa]; [lia|]. cbn [receive_response a_receive].
  pose proof (recv_until_refines c c_colon s Hs) as R1.
  pose proof (recv_until_spec c c_colon s) as S1.
  destruct (recv_until c c_colon s) as [[o1|e1| |] s1]; destruct R1 as (O1 & W1 & A1); try contradiction.
  2:{ rewrite A1. split; [exact O1|]. split; [exact W1|]. split; [reflexivity|]. split; discriminate. }
  destruct S1 as (d1 & _ & _ & _ & V1).
  rewrite A1.
  pose proof (recv_until_refines c c_nl s1 O1) as R2.
  pose proof (recv_until_spec c c_nl s1) as S2.
  destruct (recv_until c c_nl s1) as [[line|e2| |] s2]; destruct R2 as (O2 & W2 & A2); try contradiction.
  2:{ rewrite A2. split; [exact O2|]. split; [now rewrite W2|]. split; [reflexivity|]. split; discriminate. }
  destruct S2 as (d2 & _ & _ & _ & V2).
  rewrite A2.
  destruct line as [|b l].
  - split; [exact O2|]. split; [now rewrite W2|]. split; [reflexivity|]. split; discriminate.
  - destruct (beqb b c_A).
    + apply a_until_shorter in A1 as [_ L1]. apply a_until_shorter in A2 as [_ L2].
      specialize (L1 ltac:(discriminate)). specialize (L2 ltac:(discriminate)).
      assert (Hf2 : avail s2 < f) by (cbn [List.length] in V2; lia).
      assert (Hfa2 : List.length (st_items s2) < fa) by lia.
      specialize (IH s2 fa O2 Hf2 Hfa2). destruct (receive_response f c s2) as [res s3].
      destruct IH as (O3 & W3 & A3 & P3). split; [exact O3|]. split; [now rewrite W3, W2|]. split; [exact A3|exact P3].
    + split; [exact O2|]. split; [now rewrite W2|]. split; [reflexivity|]. split; discriminate.
Qed.

(* ---- sendReceive and the retry loop ---- *)

Lemma items_of_app r q x : items_of r (q ++ x) = items_of r q ++ items_of_events x.
Proof. unfold items_of. rewrite items_of_events_app. now rewrite !app_assoc. Qed.

Lemma clean_filter r : clean r = true -> filter nonempty_event r = r /\ clean (filter nonempty_event r) = true.
Proof.
  induction r as [|e r IH]; intros H; [split; reflexivity|].
  cbn [clean forallb] in H. apply andb_prop in H as [He H]. destruct (IH H) as [E C].
  destruct e as [[|x d]| | |]; try discriminate; cbn [filter nonempty_event]; rewrite E; split; try reflexivity;
    cbn [clean forallb clean_event]; exact H.
Qed.

Lemma clean_app a b : clean a = true -> clean b = true -> clean (a ++ b) = true.
Proof. unfold clean. intros. rewrite forallb_app. now apply andb_true_intro. Qed.

Theorem send_receive_refines c idle cmd data s : oks s ->
  let '(res, s') := send_receive c idle cmd data s in
  let av := (if idle then [] else st_items s) ++ items_of_events (filter nonempty_event (hd [] (reactions (pt s)))) in
  oks s' /\ reactions (pt s') = tl (reactions (pt s)) /\ nwrites (pt s') = S (nwrites (pt s)) /\
  a_receive (S (List.length av)) av = (match res with Ok line => Some line | _ => None end, st_items s') /\
  res <> Panic /\ res <> OutOfFuel.
Proof.
  intros [(C & N & F & R) Hr]. unfold send_receive.
  set (s0 := if idle then flush_receiver s else s).
  assert (H0 : oks s0 /\ st_items s0 = (if idle then [] else st_items s) /\ reactions (pt s0) = reactions (pt s) /\
               nwrites (pt s0) = nwrites (pt s) /\ wfaults (pt s0) = wfaults (pt s)).
  { subst s0. destruct idle; [|repeat split; auto].
    unfold flush_receiver, port_flush. cbn. repeat split; auto. }
  destruct H0 as ([(C0 & N0 & F0 & R0) Hr0] & I0 & Re0 & Nw0 & Wf0).
  unfold vd_write, port_write.
  assert (Hfail : match wfaults (pt s0) with b :: _ => b | [] => false end = false).
  { destruct (wfaults (pt s0)) as [|b w]; [reflexivity|]. cbn [forallb] in F0. apply andb_prop in F0 as [Hb _]. now destruct b. }
  rewrite Hfail. cbn [fst snd].
  set (react := match reactions (pt s0) with r :: _ => filter nonempty_event r | [] => [] end).
  assert (Er : react = filter nonempty_event (hd [] (reactions (pt s)))).
  { subst react. rewrite Re0. destruct (reactions (pt s)); reflexivity. }
  assert (Cr : clean react = true).
  { rewrite Er. destruct (reactions (pt s)) as [|r0 rs]; [reflexivity|]. cbn [hd]. cbn [forallb] in R.
    apply andb_prop in R as [Rc _]. now apply clean_filter. }
  match goal with |- context[receive_response _ c ?st] => set (s1 := st) end.
  assert (O1 : oks s1).
  { subst s1. split; [|exact Hr0]. unfold okp. cbn [pt queue noprog wfaults reactions].
    split; [now apply clean_app|]. split; [exact N0|].
    split; [destruct (wfaults (pt s0)); [reflexivity|cbn [forallb tl] in *; now apply andb_prop in F0 as [_ ?]]|].
    destruct (reactions (pt s0)); [reflexivity|cbn [forallb tl] in *; now apply andb_prop in R0 as [_ ?]]. }
  assert (I1 : st_items s1 = (if idle then [] else st_items s) ++ items_of_events (filter nonempty_event (hd [] (reactions (pt s))))).
  { subst s1. unfold st_items. cbn [rd pt queue]. rewrite items_of_app. fold (st_items s0). now rewrite I0, Er. }
  assert (Hf : avail s1 < rr_fuel s1) by (unfold avail, rr_fuel; lia).
  pose proof (receive_response_refines (rr_fuel s1) c s1 (S (List.length (st_items s1))) O1 Hf ltac:(lia)) as RR.
  destruct (receive_response (rr_fuel s1) c s1) as [res s2]. destruct RR as (O2 & W2 & A2 & P2).
  rewrite I1 in A2. cbv beta iota zeta.
  split; [exact O2|].
  unfold wstate in W2. injection W2 as _ Wn Wr _.
  split; [rewrite Wr; subst s1; cbn [pt reactions]; now rewrite Re0|].
  split; [rewrite Wn; subst s1; cbn [pt nwrites]; now rewrite Nw0|].
  split; [exact A2|exact P2].
Qed.

Definition result_matches (a : a_result) (r : res (list byte)) : Prop :=
  match a, r with
  | AValue v, Ok v' => v = v'
  | ADevErr e, Err e' => e = e'
  | AGaveUp, Err EOther => True
  | _, _ => False
  end.

(* C04: on a fault-free script the concrete driver computes exactly the abstract line
   machine's result, writes exactly as many frames, and leaves exactly its left-over *)
Theorem ve_command_get_loop_refines tries c : forall idle addr s w0, oks s ->
  let '(res, s') := ve_command_get_loop tries c idle addr s in
  let '(ares, w, rest, reacts) := a_get tries addr (if idle then [] else st_items s) (reactions (pt s)) w0 in
  oks s' /\ (tries <> 0 -> rest = st_items s') /\ reacts = reactions (pt s') /\
  nwrites (pt s') + w0 = nwrites (pt s) + w /\ result_matches ares res.
Proof.
  induction tries as [|t IH]; intros idle addr s w0 Hs; cbn [ve_command_get_loop a_get].
  - split; [exact Hs|]. split; [congruence|]. split; [reflexivity|]. split; [lia|exact I].
  - unfold ve_command.
    pose proof (send_receive_refines c idle 7 (cmd_param 7 addr) s Hs) as R.
    destruct (send_receive c idle 7 (cmd_param 7 addr) s) as [res1 s1]. cbv zeta in R.
    destruct R as (O1 & Re1 & Nw1 & A1 & NP & NF). rewrite A1.
    assert (Hrec : forall w1, w1 = S w0 ->
      let '(res, s') := ve_command_get_loop t c false addr s1 in
      let '(ares, w, rest, reacts) := a_get t addr (st_items s1) (tl (reactions (pt s))) w1 in
      oks s' /\ (S t <> 0 -> rest = st_items s') /\ reacts = reactions (pt s') /\
      nwrites (pt s') + w0 = nwrites (pt s) + w /\ result_matches ares res).
    { intros w1 ->. destruct t as [|t'].
      - cbn [ve_command_get_loop a_get]. split; [exact O1|]. split; [reflexivity|]. split; [now rewrite Re1|]. split; [lia|exact I].
      - specialize (IH false addr s1 (S w0) O1). rewrite Re1 in IH.
        destruct (ve_command_get_loop (S t') c false addr s1) as [res s2].
        destruct (a_get (S t') addr (st_items s1) (tl (reactions (pt s))) (S w0)) as [[[ares w] rest] reacts].
        destruct IH as (O2 & Rs & Rr & Nw & M). split; [exact O2|]. split; [intros _; apply Rs; discriminate|].
        split; [exact Rr|]. split; [lia|exact M]. }
    destruct res1 as [line|e| |]; try contradiction; try congruence; try (now apply Hrec).
    destruct (parse_response 7 line) as [raw|pe| |] eqn:Ep.
    + destruct (classify_get addr raw) as [|ge|v] eqn:Ec; try (now apply Hrec).
      * split; [exact O1|]. split; [reflexivity|]. split; [now rewrite Re1|]. split; [lia|reflexivity].
      * split; [exact O1|]. split; [reflexivity|]. split; [now rewrite Re1|]. split; [lia|reflexivity].
    + now apply Hrec.
    + exfalso. destruct (parse_response_no_panic 7 line) as [N1 N2]. congruence.
    + exfalso. destruct (parse_response_no_panic 7 line) as [N1 N2]. congruence.
Qed.

Theorem ve_command_get_refines c idle addr s : oks s ->
  let '(res, s') := ve_command_get c idle addr s in
  let '(ares, w, rest, reacts) := a_get_call idle addr (st_items s) (reactions (pt s)) in
  oks s' /\ rest = st_items s' /\ reacts = reactions (pt s') /\
  nwrites (pt s') = nwrites (pt s) + w /\ result_matches ares res.
Proof.
  intros Hs. unfold ve_command_get, a_get_call.
  pose proof (ve_command_get_loop_refines num_tries c idle (addr mod 65536)%Z s 0 Hs) as R.
  destruct (ve_command_get_loop num_tries c idle (addr mod 65536)%Z s) as [res s'].
  destruct (a_get num_tries (addr mod 65536)%Z (if idle then [] else st_items s) (reactions (pt s)) 0) as [[[ares w] rest] reacts].
  destruct R as (O & Rs & Rr & Nw & M). split; [exact O|]. split; [apply Rs; discriminate|]. split; [exact Rr|]. split; [lia|exact M].
Qed.

(* ---- the property's words, on the abstract machine ---- *)

(* an attempt that does not end the access: nothing usable arrives (noise without ':',
   async frames, a partial frame, silence), or one line that is invalid, foreign or too short *)
Definition attempt_fails (addr : Z) (l : list item) : Prop :=
  match a_receive (S (List.length l)) l with
  | (None, []) => True
  | (Some line, []) => forall raw, parse_response 7 line = Ok raw -> classify_get addr raw = GRetry
  | _ => False
  end.

(* an attempt that delivers the value *)
Definition attempt_succeeds (addr : Z) (v : list byte) (l : list item) : Prop :=
  exists line raw rest, a_receive (S (List.length l)) l = (Some line, rest) /\
                        parse_response 7 line = Ok raw /\ classify_get addr raw = GValue v.

Definition reaction_items (r : list revent) : list item := items_of_events (filter nonempty_event r).

(* C04 (success): if the first k-1 attempts fail in the sense above and the k-th delivers a
   valid matching response (k <= tries), the access returns its value after exactly k frames *)
Theorem a_get_success tries addr v good more : forall fails w0,
  List.length fails < tries ->
  Forall (fun r => attempt_fails addr (reaction_items r)) fails ->
  attempt_succeeds addr v (reaction_items good) ->
  exists rest, a_get tries addr [] (fails ++ good :: more) w0 = (AValue v, w0 + List.length fails + 1, rest, more).
Proof.
  intros fails. revert tries. induction fails as [|r fails IH]; intros tries w0 Hl Hf Hg.
  - destruct tries as [|t]; [cbn in Hl; lia|]. cbn [a_get app hd tl].
    destruct Hg as (line & raw & rest & A & P & C). unfold reaction_items in A. rewrite A, P, C.
    exists rest. f_equal. f_equal. f_equal. cbn [List.length]. lia.
  - destruct tries as [|t]; [cbn in Hl; lia|]. cbn [a_get app hd tl].
    inversion Hf as [|? ? Hr Hrest]; subst. unfold attempt_fails, reaction_items in Hr.
    destruct (a_receive (S (List.length (items_of_events (filter nonempty_event r)))) (items_of_events (filter nonempty_event r)))
      as [[line|] rest] eqn:A; destruct rest; try contradiction.
    + destruct (parse_response 7 line) as [raw|e| |] eqn:P.
      * rewrite (Hr raw eq_refl).
        destruct (IH t (S w0) ltac:(cbn [List.length] in Hl; lia) Hrest Hg) as (rest' & E). rewrite E.
        exists rest'. f_equal. f_equal. f_equal. cbn [List.length]. lia.
      * destruct (IH t (S w0) ltac:(cbn [List.length] in Hl; lia) Hrest Hg) as (rest' & E). rewrite E.
        exists rest'. f_equal. f_equal. f_equal. cbn [List.length]. lia.
      * destruct (IH t (S w0) ltac:(cbn [List.length] in Hl; lia) Hrest Hg) as (rest' & E). rewrite E.
        exists rest'. f_equal. f_equal. f_equal. cbn [List.length]. lia.
      * destruct (IH t (S w0) ltac:(cbn [List.length] in Hl; lia) Hrest Hg) as (rest' & E). rewrite E.
        exists rest'. f_equal. f_equal. f_equal. cbn [List.length]. lia.
    + destruct (IH t (S w0) ltac:(cbn [List.length] in Hl; lia) Hrest Hg) as (rest' & E). rewrite E.
      exists rest'. f_equal. f_equal. f_equal. cbn [List.length]. lia.
Qed.

(* C04 (failure): if every attempt fails, the access gives up after exactly `tries` frames *)
Theorem a_get_gives_up addr : forall tries fails more w0,
  List.length fails = tries ->
  Forall (fun r => attempt_fails addr (reaction_items r)) fails ->
  exists rest, a_get tries addr [] (fails ++ more) w0 = (AGaveUp, w0 + tries, rest, more).
Proof.
  induction tries as [|t IH]; intros fails more w0 Hl Hf.
  - destruct fails; [|discriminate]. cbn [a_get app]. exists []. f_equal. f_equal. f_equal. lia.
  - destruct fails as [|r fails]; [discriminate|]. cbn [a_get app hd tl].
    inversion Hf as [|? ? Hr Hrest]; subst. unfold attempt_fails, reaction_items in Hr.
    destruct (a_receive (S (List.length (items_of_events (filter nonempty_event r)))) (items_of_events (filter nonempty_event r)))
      as [[line|] rest] eqn:A; destruct rest; try contradiction;
      try (destruct (parse_response 7 line) as [raw|e| |] eqn:P; [rewrite (Hr raw eq_refl)| | |]);
      (destruct (IH fails more (S w0) ltac:(cbn [List.length] in Hl; lia) Hrest) as (rest' & E); rewrite E;
       exists rest'; f_equal; f_equal; f_equal; lia).
Qed.

(* noise without ':' is such a failing attempt, whatever its length *)
Lemma a_until_all_noise delim : forall l acc, ~ In delim l -> a_until delim acc (map IByte l) = (None, []).
Proof.
  induction l as [|b l IH]; intros acc H; [reflexivity|]. cbn [map a_until].
  destruct (beqb b delim) eqn:E; [apply beqb_eq in E; subst; exfalso; apply H; now left|].
  apply IH. intros Hin. apply H. now right.
Qed.

Theorem noise_fails addr d : ~ In c_colon d -> attempt_fails addr (reaction_items [RData d]).
Proof.
  intros H. unfold attempt_fails, reaction_items.
  assert (E : items_of_events (filter nonempty_event [RData d]) = map IByte d).
  { destruct d; cbn [filter nonempty_event items_of_events map app]; [reflexivity|]. now rewrite app_nil_r. }
  rewrite E. cbn [a_receive]. now rewrite a_until_all_noise.
Qed.

Theorem silence_fails addr : attempt_fails addr (reaction_items []).
Proof. exact I. Qed.

(* ---- C02 at the driver level: a conforming answer is returned exactly, whatever the
        chunking and whatever noise precedes it ---- *)

Lemma hex_decodes_no_nl s bs : Base.Hex.hex_decodes s bs -> ~ In c_nl s.
Proof.
  induction 1 as [|a b x y r bs Ha Hb _ IH]; [intros []|].
  intros [E|[E|Hin]]; [subst a; vm_compute in Ha; discriminate|subst b; vm_compute in Hb; discriminate|contradiction].
Qed.

Lemma hexval_7 d : Base.Hex.hexval d = Some 7%Z -> d <> c_nl /\ beqb d c_A = false.
Proof.
  intros H. split.
  - intros ->. vm_compute in H. discriminate.
  - destruct (beqb d c_A) eqn:E; [|reflexivity]. apply beqb_eq in E. subst d. vm_compute in H. discriminate.
Qed.

Theorem conforming_answer_succeeds addr v pre body rest :
  (0 <= addr < 65536)%Z -> ~ In c_colon pre -> valid_get_response addr v body ->
  attempt_succeeds addr v (map IByte (pre ++ c_colon :: body ++ [c_nl]) ++ rest).
Proof.
  intros Ha Hp Hv. pose proof Hv as (d & s & -> & Hd & Hs).
  destruct (hexval_7 d Hd) as [Dn Da]. pose proof (hex_decodes_no_nl _ _ Hs) as Sn.
  destruct (get_value_complete addr (d :: s) v Ha Hv) as (raw & P & C).
  exists (d :: s), raw, rest. split; [|split; assumption].
  assert (Hds : ~ In c_nl (d :: s)) by (intros [E|Hin]; [now apply Dn|contradiction]).
  cbn [a_receive].
  rewrite (a_until_delim c_colon pre ((d :: s) ++ [c_nl]) [] rest Hp). cbn [app].
  change (map IByte (d :: s ++ [c_nl]) ++ rest) with (map IByte ((d :: s) ++ c_nl :: []) ++ rest).
  rewrite (a_until_delim c_nl (d :: s) [] [] rest Hds). cbn [app map]. now rewrite Da.
Qed.

(* any way of cutting a byte string into data events yields the same items *)
Fixpoint concat_data (q : list revent) : list byte :=
  match q with
  | [] => []
  | RData d :: r => d ++ concat_data r
  | _ :: r => concat_data r
  end.

Lemma items_of_data q : forallb (fun e => match e with RData _ => true | _ => false end) q = true ->
  items_of_events q = map IByte (concat_data q).
Proof.
  induction q as [|e q IH]; intros H; [reflexivity|]. cbn [forallb] in H. apply andb_prop in H as [He H].
  destruct e; try discriminate. cbn [items_of_events concat_data]. now rewrite map_app, IH.
Qed.

(* C02, driver level: a fresh or idle driver, the device answering attempt 1 with optional
   noise (without ':') followed by the frame a conforming device sends for (addr, v), cut
   into data events in any way: the raw accessor returns exactly v after one frame *)
Theorem conforming_exchange_returns_value c addr v pre body react s more :
  oks s -> reactions (pt s) = react :: more ->
  (0 <= addr < 65536)%Z -> ~ In c_colon pre -> valid_get_response addr v body ->
  clean react = true ->
  forallb (fun e => match e with RData _ => true | _ => false end) react = true ->
  concat_data react = pre ++ c_colon :: body ++ [c_nl] ->
  exists s', ve_command_get c true addr s = (Ok v, s') /\ nwrites (pt s') = S (nwrites (pt s)).
Proof.
  intros Hs Hr Ha Hp Hv Hc Hd Hcat.
  pose proof (ve_command_get_refines c true addr s Hs) as R.
  destruct (ve_command_get c true addr s) as [res s'].
  rewrite Hr in R. unfold a_get_call in R.
  assert (Hsucc : attempt_succeeds (addr mod 65536)%Z v (reaction_items react)).
  { unfold reaction_items. destruct (clean_filter react Hc) as [-> _]. rewrite items_of_data by exact Hd.
    rewrite Hcat. rewrite <- (app_nil_r (map IByte _)). apply conforming_answer_succeeds; auto.
    - apply Z.mod_pos_bound. reflexivity.
    - now rewrite Z.mod_small by lia. }
  destruct (a_get_success num_tries (addr mod 65536)%Z v react more [] 0 ltac:(cbn; unfold num_tries; lia) (Forall_nil _) Hsucc) as (rest & E).
  cbn [app] in E. rewrite E in R. destruct R as (_ & _ & _ & Nw & M).
  destruct res as [v'|e| |]; cbn [result_matches] in M; try contradiction. subst v'.
  exists s'. split; [reflexivity|]. cbn [List.length] in Nw. lia.
Qed.

Lemma a_get_call_idle addr stale1 stale2 reactions :
  a_get_call true addr stale1 reactions = a_get_call true addr stale2 reactions.
Proof. unfold a_get_call. cbv beta iota. reflexivity. Qed.
