(* Model of the VE.Direct driver: vedirect/{io,vecommand,vedirect,logging}.go.
   No proofs here. *)
From GV Require Export Base.Bytes Base.Hex Base.LE Vedirect.Frame Vedirect.Port.

Record vdstate := mkVd {
  rd : rdr;                                   (* the bufio.Reader *)
  pt : port;                                  (* the IOPort *)
  io_tx : list byte;                          (* logIoTxBuff *)
  io_rx : list byte;                          (* logIoRxBuff *)
  io_lines : list (list byte * list byte)     (* I/O log lines emitted so far (tx, rx) *)
}.

(* logger configuration; the debug logger has no modelled effect at all *)
Record cfg := mkCfg { cfg_debug : bool; cfg_iolog : bool }.

Definition vd_new (p : port) : vdstate := mkVd rdr_reset p [] [] [].

Definition set_rd_pt (s : vdstate) (r : rdr) (p : port) : vdstate :=
  mkVd r p (io_tx s) (io_rx s) (io_lines s).

(* io.go: recvUntil — on success the data (with delimiter) goes to the rx log and the
   delimiter is stripped; on error the partial data is dropped *)
Definition recv_until (c : cfg) (delim : byte) (s : vdstate) : res (list byte) * vdstate :=
  match read_until (ru_fuel (rd s) (pt s)) delim [] (rd s) (pt s) with
  | (RUOk line, r', p') =>
      (Ok (removelast line),
       mkVd r' p' (io_tx s) (if cfg_iolog c then io_rx s ++ line else io_rx s) (io_lines s))
  | (RUErr _ _, r', p') => (Err EOther, set_rd_pt s r' p')
  | (RUFuel, r', p') => (OutOfFuel, set_rd_pt s r' p')
  end.

(* io.go: flushReceiver — a Flush error is only logged *)
Definition flush_receiver (s : vdstate) : vdstate :=
  let '(_, p') := port_flush (pt s) in set_rd_pt s rdr_reset p'.

(* io.go: write *)
Definition vd_write (c : cfg) (f : list byte) (s : vdstate) : bool * vdstate :=
  let '(ok, p') := port_write f (pt s) in
  (ok, mkVd (rd s) p' (if ok && cfg_iolog c then io_tx s ++ f else io_tx s) (io_rx s) (io_lines s)).

(* vecommand.go: receiveResponse — skip to ':', read to '\n', drop async lines *)
Fixpoint receive_response (fuel : nat) (c : cfg) (s : vdstate) : res (list byte) * vdstate :=
  match fuel with
  | O => (OutOfFuel, s)
  | S f =>
      match recv_until c c_colon s with
      | (Ok _, s1) =>
          match recv_until c c_nl s1 with
          | (Ok line, s2) =>
              match line with
              | b :: _ => if beqb b c_A then receive_response f c s2 else (Ok line, s2)
              | [] => (Ok line, s2)
              end
          | (Err e, s2) => (Err e, s2)
          | (Panic, s2) => (Panic, s2)
          | (OutOfFuel, s2) => (OutOfFuel, s2)
          end
      | (Err e, s1) => (Err e, s1)
      | (Panic, s1) => (Panic, s1)
      | (OutOfFuel, s1) => (OutOfFuel, s1)
      end
  end.

Definition rr_fuel (s : vdstate) : nat :=
  length (rbuf (rd s)) + pending_bytes (queue (pt s)) + 2.

(* vecommand.go: sendReceive.  [idle] = more than 100 ms passed since the last send *)
Definition send_receive (c : cfg) (idle : bool) (cmd : Z) (data : list byte) (s : vdstate)
  : res (list byte) * vdstate :=
  let s0 := if idle then flush_receiver s else s in
  match vd_write c (tx_frame_data cmd data) s0 with
  | (false, s1) => (Err EOther, s1)
  | (true, s1) => receive_response (rr_fuel s1) c s1
  end.

(* vecommand.go: VeCommand *)
Definition ve_command (c : cfg) (idle : bool) (cmd addr : Z) (s : vdstate)
  : res (list byte) * vdstate :=
  match send_receive c idle cmd (cmd_param cmd addr) s with
  | (Ok rdata, s1) => (parse_response cmd rdata, s1)
  | (Err e, s1) => (Err e, s1)
  | (Panic, s1) => (Panic, s1)
  | (OutOfFuel, s1) => (OutOfFuel, s1)
  end.

(* vecommand.go: VeCommandGet — eight tries; only the first can see an idle line, the
   following ones are microseconds later *)
Fixpoint ve_command_get_loop (tries : nat) (c : cfg) (idle : bool) (addr : Z) (s : vdstate)
  : res (list byte) * vdstate :=
  match tries with
  | O => (Err EOther, s)                               (* gave up after 8 tries *)
  | S t =>
      match ve_command c idle 7 addr s with
      | (Ok raw, s1) =>
          match classify_get addr raw with
          | GRetry => ve_command_get_loop t c false addr s1
          | GFail e => (Err e, s1)
          | GValue v => (Ok v, s1)
          end
      | (Err _, s1) => ve_command_get_loop t c false addr s1
      | (Panic, s1) => (Panic, s1)
      | (OutOfFuel, s1) => (OutOfFuel, s1)
      end
  end.

Definition num_tries : nat := 8.

Definition ve_command_get (c : cfg) (idle : bool) (addr : Z) (s : vdstate) :=
  ve_command_get_loop num_tries c idle (addr mod 65536) s.

(* logging.go: ioLoggerLineEnd *)
Definition io_line_end (c : cfg) (s : vdstate) : vdstate :=
  if cfg_iolog c
  then mkVd (rd s) (pt s) [] [] (io_lines s ++ [(io_tx s, io_rx s)])
  else s.

(* results of the typed calls *)
Inductive value :=
| VUnit | VBytes (b : list byte) | VNum (z : Z).

Definition typed (c : cfg) (r : res value * vdstate) : res value * vdstate :=
  (fst r, io_line_end c (snd r)).

Definition map_res {A B} (f : A -> res B) (r : res A * vdstate) : res B * vdstate :=
  match r with
  | (Ok a, s) => (f a, s)
  | (Err e, s) => (Err e, s)
  | (Panic, s) => (Panic, s)
  | (OutOfFuel, s) => (OutOfFuel, s)
  end.

(* vedirect.go *)
Definition ping (c : cfg) (idle : bool) (s : vdstate) : res value * vdstate :=
  typed c (map_res (fun _ => Ok VUnit) (send_receive c idle 1 [] s)).

Definition get_device_id (c : cfg) (idle : bool) (s : vdstate) : res value * vdstate :=
  typed c (map_res (fun raw =>
                      match raw with
                      | lo :: hi :: _ => Ok (VNum (bz lo + 256 * bz hi))
                      | _ => Panic                      (* binary.LittleEndian.Uint16 on < 2 bytes *)
                      end)
                   (ve_command c idle 4 0 s)).

Definition get_uint (c : cfg) (idle : bool) (addr : Z) (s : vdstate) : res value * vdstate :=
  typed c (map_res (fun raw => Ok (VNum (le_uint raw))) (ve_command_get c idle addr s)).

Definition get_int (c : cfg) (idle : bool) (addr : Z) (s : vdstate) : res value * vdstate :=
  typed c (map_res (fun raw => match le_int raw with Some z => Ok (VNum z) | None => Err EOther end)
                   (ve_command_get c idle addr s)).

Definition get_string (c : cfg) (idle : bool) (addr : Z) (s : vdstate) : res value * vdstate :=
  typed c (map_res (fun raw => Ok (VBytes (strip_nul raw))) (ve_command_get c idle addr s)).

(* the raw entry points (no I/O log line) *)
Definition raw_get (c : cfg) (idle : bool) (addr : Z) (s : vdstate) : res value * vdstate :=
  map_res (fun raw => Ok (VBytes raw)) (ve_command_get c idle addr s).

Definition raw_command (c : cfg) (idle : bool) (cmd addr : Z) (s : vdstate) : res value * vdstate :=
  map_res (fun raw => Ok (VBytes raw)) (ve_command c idle (cmd mod 256) (addr mod 65536) s).

(* one driver call *)
Inductive call :=
| CPing | CDeviceId
| CGetRaw (addr : Z) | CGetUint (addr : Z) | CGetInt (addr : Z) | CGetString (addr : Z)
| CCommand (cmd addr : Z).

Definition do_call (c : cfg) (idle : bool) (k : call) (s : vdstate) : res value * vdstate :=
  match k with
  | CPing => ping c idle s
  | CDeviceId => get_device_id c idle s
  | CGetRaw a => raw_get c idle a s
  | CGetUint a => get_uint c idle a s
  | CGetInt a => get_int c idle a s
  | CGetString a => get_string c idle a s
  | CCommand cmd a => raw_command c idle cmd a s
  end.

(* a history of calls on one driver instance; a Panic ends the history (the harness
   stops there too) *)
Fixpoint run_calls (c : cfg) (ks : list (bool * call)) (s : vdstate)
  : list (res value) * vdstate :=
  match ks with
  | [] => ([], s)
  | (idle, k) :: rest =>
      let '(r, s1) := do_call c idle k s in
      match r with
      | Panic | OutOfFuel => ([r], s1)
      | _ => let '(rs, s2) := run_calls c rest s1 in (r :: rs, s2)
      end
  end.
