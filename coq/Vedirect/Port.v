(* The scripted serial port (mirror of harness/sport/sport.go) and the model of
   bufio.Reader as far as the driver can observe it.  No proofs here. *)
From GV Require Export Base.Bytes Vedirect.Frame.

(* ---- scripted port ---- *)

Inductive revent := RData (d : list byte) | REof | RErr | REmpty.

Inductive ioerr := IOEof | IOErr | IONoProgress.

Record port := mkPort {
  queue : list revent;                 (* pending read events *)
  reactions : list (list revent);      (* head = device reaction to the next successful write *)
  wfaults : list bool;              (* head = does the next Write call fail *)
  ffaults : list bool;              (* head = does the next Flush call fail *)
  noprog : bool;                    (* exhausted queue answers (0,nil) instead of EOF *)
  written : list (list byte);       (* ghost: frames successfully written, oldest first *)
  nwrites : nat;                    (* ghost: Write calls *)
  nreads : nat;                     (* ghost: Read calls *)
  nflushes : nat;                   (* ghost: Flush calls *)
  reads_at_end : nat;               (* ghost: Read calls answered from the exhausted queue *)
  delivered : list byte             (* ghost: every byte handed out by Read *)
}.

Definition upd_queue (p : port) (q : list revent) : port :=
  mkPort q (reactions p) (wfaults p) (ffaults p) (noprog p) (written p)
         (nwrites p) (nreads p) (nflushes p) (reads_at_end p) (delivered p).

(* Read into a buffer with n free bytes *)
Definition port_read (n : nat) (p : port) : list byte * option ioerr * port :=
  let p1 := mkPort (queue p) (reactions p) (wfaults p) (ffaults p) (noprog p) (written p)
                   (nwrites p) (S (nreads p)) (nflushes p) (reads_at_end p) (delivered p) in
  match n with
  | O => ([], None, p1)
  | _ =>
    match queue p with
    | [] =>
        let p2 := mkPort [] (reactions p) (wfaults p) (ffaults p) (noprog p) (written p)
                         (nwrites p) (S (nreads p)) (nflushes p) (S (reads_at_end p)) (delivered p) in
        ([], (if noprog p then None else Some IOEof), p2)
    | RData d :: q =>
        let out := firstn n d in
        let rest := skipn n d in
        let q' := match rest with [] => q | _ => RData rest :: q end in
        (out, None,
         mkPort q' (reactions p) (wfaults p) (ffaults p) (noprog p) (written p)
                (nwrites p) (S (nreads p)) (nflushes p) (reads_at_end p) (delivered p ++ out))
    | REof :: q => ([], Some IOEof, upd_queue p1 q)
    | RErr :: q => ([], Some IOErr, upd_queue p1 q)
    | REmpty :: q => ([], None, upd_queue p1 q)
    end
  end.

Definition nonempty_event (e : revent) : bool :=
  match e with RData [] => false | _ => true end.

(* Write one frame; true = success *)
Definition port_write (f : list byte) (p : port) : bool * port :=
  let fail := match wfaults p with b :: _ => b | [] => false end in
  let wf' := tl (wfaults p) in
  if fail then
    (false, mkPort (queue p) (reactions p) wf' (ffaults p) (noprog p) (written p)
                   (S (nwrites p)) (nreads p) (nflushes p) (reads_at_end p) (delivered p))
  else
    let reaction := match reactions p with r :: _ => filter nonempty_event r | [] => [] end in
    (true, mkPort (queue p ++ reaction) (tl (reactions p)) wf' (ffaults p) (noprog p)
                  (written p ++ [f])
                  (S (nwrites p)) (nreads p) (nflushes p) (reads_at_end p) (delivered p)).

(* Flush: drops everything pending; true = success *)
Definition port_flush (p : port) : bool * port :=
  let fail := match ffaults p with b :: _ => b | [] => false end in
  (negb fail, mkPort [] (reactions p) (wfaults p) (tl (ffaults p)) (noprog p) (written p)
                     (nwrites p) (nreads p) (S (nflushes p)) (reads_at_end p) (delivered p)).

(* ---- bufio.Reader ---- *)

Definition bufcap : nat := 4096.          (* bufio default buffer size *)
Definition max_empty_reads : nat := 100.  (* bufio maxConsecutiveEmptyReads *)
Global Opaque bufcap max_empty_reads.

Record rdr := mkRdr {
  rbuf : list byte;          (* buffered, not yet consumed *)
  rerr : option ioerr        (* sticky pending error *)
}.

Definition rdr_reset : rdr := mkRdr [] None.

(* bufio.Reader.fill: up to 100 reads into the free space until data or an error arrives *)
Fixpoint fill_loop (i : nat) (r : rdr) (p : port) : rdr * port :=
  match i with
  | O => (mkRdr (rbuf r) (Some IONoProgress), p)
  | S i' =>
      match port_read (bufcap - length (rbuf r)) p with
      | (d, Some e, p') => (mkRdr (rbuf r ++ d) (Some e), p')
      | (d, None, p') =>
          match d with
          | [] => fill_loop i' r p'
          | _ => (mkRdr (rbuf r ++ d) None, p')
          end
      end
  end.

Definition fill (r : rdr) (p : port) : rdr * port := fill_loop max_empty_reads r p.

(* split at the first occurrence of the delimiter: (before, after) *)
Fixpoint split_delim (delim : byte) (l : list byte) : option (list byte * list byte) :=
  match l with
  | [] => None
  | b :: r =>
      if beqb b delim then Some ([], r)
      else match split_delim delim r with
           | Some (pre, post) => Some (b :: pre, post)
           | None => None
           end
  end.

Inductive ru_result :=
| RUOk (line : list byte)                 (* data up to and including the delimiter *)
| RUErr (e : ioerr) (partial : list byte) (* error; the partial data is returned with it *)
| RUFuel.

(* bufio.Reader.ReadBytes(delim) *)
Fixpoint read_until (fuel : nat) (delim : byte) (acc : list byte) (r : rdr) (p : port)
  : ru_result * rdr * port :=
  match fuel with
  | O => (RUFuel, r, p)
  | S f =>
      match split_delim delim (rbuf r) with
      | Some (pre, post) => (RUOk (acc ++ pre ++ [delim]), mkRdr post (rerr r), p)
      | None =>
          match rerr r with
          | Some e => (RUErr e (acc ++ rbuf r), mkRdr [] None, p)
          | None =>
              if (bufcap <=? length (rbuf r))%nat
              then read_until f delim (acc ++ rbuf r) (mkRdr [] None) p
              else let '(r', p') := fill r p in read_until f delim acc r' p'
          end
      end
  end.

(* enough fuel for any state: see PortFacts.read_until_fuel *)
Fixpoint pending_bytes (q : list revent) : nat :=
  match q with
  | [] => O
  | RData d :: q' => length d + pending_bytes q'
  | _ :: q' => pending_bytes q'
  end.

Definition ru_fuel (r : rdr) (p : port) : nat :=
  2 * (pending_bytes (queue p) + length (queue p)) + 6.
