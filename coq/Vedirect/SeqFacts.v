(* C02 (sequence): any history of register reads against a conforming device.  Every
   exchange returns exactly the value the device sent for it, after exactly one command frame,
   and leaves the driver in a state from which the next exchange does the same — whatever the
   interleaving of idle / busy calls, the chunking of the answers and the text-protocol noise
   in front of them. *)
From GV Require Import Base.Bytes Base.Hex Base.LE Vedirect.Frame Vedirect.FrameFacts
     Vedirect.Port Vedirect.PortFacts Vedirect.Driver Vedirect.DriverFacts Vedirect.DriverSpec
     Vedirect.Resync Vedirect.ResyncFacts.
Local Open Scope nat_scope.

(* one exchange as the device sees it *)
Record exch := mkExch { x_addr : Z; x_val : list byte; x_idle : bool; x_react : list revent }.

Definition conforming (x : exch) : Prop :=
  (0 <= x_addr x < 65536)%Z /\
  clean (x_react x) = true /\
  forallb (fun e => match e with RData _ => true | _ => false end) (x_react x) = true /\
  exists pre body, ~ In c_colon pre /\ valid_get_response (x_addr x) (x_val x) body /\
                   concat_data (x_react x) = pre ++ c_colon :: body ++ [c_nl].

Fixpoint run_gets (c : cfg) (xs : list exch) (s : vdstate) : list (res (list byte)) * vdstate :=
  match xs with
  | [] => ([], s)
  | x :: r =>
      let '(res, s1) := ve_command_get c (x_idle x) (x_addr x) s in
      let '(rs, s2) := run_gets c r s1 in
      (res :: rs, s2)
  end.

(* the receive step with the left-over exposed *)
Lemma conforming_answer_receive addr v pre body rest :
  (0 <= addr < 65536)%Z -> ~ In c_colon pre -> valid_get_response addr v body ->
  forall n, a_receive (S n) (map IByte (pre ++ c_colon :: body ++ [c_nl]) ++ rest) = (Some body, rest).
Proof.
  intros Ha Hp Hv n. pose proof Hv as (d & s & -> & Hd & Hs).
  destruct (hexval_7 d Hd) as [Dn Da]. pose proof (hex_decodes_no_nl _ _ Hs) as Sn.
  assert (Hds : ~ In c_nl (d :: s)) by (intros [E|Hin]; [now apply Dn|contradiction]).
  cbn [a_receive].
  rewrite (a_until_delim c_colon pre ((d :: s) ++ [c_nl]) [] rest Hp). cbn [app].
  change (map IByte (d :: s ++ [c_nl]) ++ rest) with (map IByte ((d :: s) ++ c_nl :: []) ++ rest).
  rewrite (a_until_delim c_nl (d :: s) [] [] rest Hds). cbn [app map]. now rewrite Da.
Qed.

Lemma a_get_first_ok t addr rest r more w line rest' raw v :
  a_receive (S (List.length (rest ++ items_of_events (filter nonempty_event r))))
            (rest ++ items_of_events (filter nonempty_event r)) = (Some line, rest') ->
  parse_response 7 line = Ok raw -> classify_get addr raw = GValue v ->
  a_get (S t) addr rest (r :: more) w = (AValue v, S w, rest', more).
Proof. intros A P C. cbn [a_get hd tl]. now rewrite A, P, C. Qed.

(* one conforming exchange from a drained state: value, one frame, drained again *)
Theorem conforming_exchange_step c x s more :
  oks s -> st_items s = [] -> reactions (pt s) = x_react x :: more -> conforming x ->
  exists s', ve_command_get c (x_idle x) (x_addr x) s = (Ok (x_val x), s') /\
             oks s' /\ st_items s' = [] /\ reactions (pt s') = more /\
             nwrites (pt s') = S (nwrites (pt s)).
Proof.
  intros Hs Hi Hr (Ha & Hc & Hd & pre & body & Hp & Hv & Hcat).
  pose proof (ve_command_get_refines c (x_idle x) (x_addr x) s Hs) as R.
  destruct (ve_command_get c (x_idle x) (x_addr x) s) as [res s'].
  rewrite Hr, Hi in R. unfold a_get_call in R.
  replace (if x_idle x then [] else []) with (@nil item) in R by (now destruct (x_idle x)).
  destruct (get_value_complete (x_addr x) body (x_val x) Ha Hv) as (raw & P & C).
  rewrite Z.mod_small in R by lia.
  assert (A : a_receive (S (List.length ([] ++ items_of_events (filter nonempty_event (x_react x)))))
                        ([] ++ items_of_events (filter nonempty_event (x_react x))) = (Some body, [])).
  { cbn [app]. destruct (clean_filter (x_react x) Hc) as [Ef _]. rewrite Ef.
    rewrite (items_of_data _ Hd), Hcat.
    rewrite <- (app_nil_r (map IByte (pre ++ c_colon :: body ++ [c_nl]))) at 2.
    apply (conforming_answer_receive (x_addr x) (x_val x) pre body [] Ha Hp Hv). }
  change num_tries with (S 7) in R.
  rewrite (a_get_first_ok 7 (x_addr x) [] (x_react x) more 0 body [] raw (x_val x) A P C) in R.
  destruct R as (O & Rs & Rr & Nw & M).
  destruct res as [v'|e| |]; cbn [result_matches] in M; try contradiction. subst v'.
  exists s'. split; [reflexivity|]. split; [exact O|]. split; [now symmetry|]. split; [now symmetry|]. lia.
Qed.

(* C02 over histories *)
Theorem conforming_history_returns_values c : forall xs s more,
  oks s -> st_items s = [] -> reactions (pt s) = map x_react xs ++ more -> Forall conforming xs ->
  let '(rs, s') := run_gets c xs s in
  rs = map (fun x => Ok (x_val x)) xs /\ oks s' /\ st_items s' = [] /\ reactions (pt s') = more /\
  nwrites (pt s') = nwrites (pt s) + List.length xs.
Proof.
  induction xs as [|x xs IH]; intros s more Hs Hi Hr Hf; cbn [run_gets map List.length].
  - cbn [map app] in Hr. repeat split; auto; try apply Hs.
  - inversion Hf as [|? ? Hx Hxs]; subst. cbn [map app] in Hr.
    destruct (conforming_exchange_step c x s (map x_react xs ++ more) Hs Hi Hr Hx) as (s1 & E & O1 & I1 & R1 & N1).
    rewrite E. specialize (IH s1 more O1 I1 R1 Hxs).
    destruct (run_gets c xs s1) as [rs s2]. destruct IH as (-> & O2 & I2 & R2 & N2).
    split; [reflexivity|]. split; [exact O2|]. split; [exact I2|]. split; [exact R2|]. lia.
Qed.

(* ---- the same over the typed accessors, on run_calls (the function the correspondence
        check executes against the implementation) ---- *)

Inductive gkind := GRaw | GUint | GInt | GString.

Definition call_of (k : gkind) (a : Z) : call :=
  match k with GRaw => CGetRaw a | GUint => CGetUint a | GInt => CGetInt a | GString => CGetString a end.

(* what the accessor must return for the payload v the device encoded *)
Definition expect_of (k : gkind) (v : list byte) : res value :=
  match k with
  | GRaw => Ok (VBytes v)
  | GUint => Ok (VNum (le_uint v))
  | GInt => match le_int v with Some z => Ok (VNum z) | None => Err EOther end
  | GString => Ok (VBytes (strip_nul v))
  end.

Lemma io_line_end_rd_pt c s : rd (io_line_end c s) = rd s /\ pt (io_line_end c s) = pt s.
Proof. unfold io_line_end. destruct (cfg_iolog c); split; reflexivity. Qed.

Lemma typed_get_step c k x s more :
  oks s -> st_items s = [] -> reactions (pt s) = x_react x :: more -> conforming x ->
  exists s', do_call c (x_idle x) (call_of k (x_addr x)) s = (expect_of k (x_val x), s') /\
             oks s' /\ st_items s' = [] /\ reactions (pt s') = more /\
             nwrites (pt s') = S (nwrites (pt s)).
Proof.
  intros Hs Hi Hr Hx.
  destruct (conforming_exchange_step c x s more Hs Hi Hr Hx) as (s1 & E & O1 & I1 & R1 & N1).
  destruct (io_line_end_rd_pt c s1) as [Erd Ept].
  assert (Hio : oks (io_line_end c s1) /\ st_items (io_line_end c s1) = [] /\
                reactions (pt (io_line_end c s1)) = more /\ nwrites (pt (io_line_end c s1)) = S (nwrites (pt s))).
  { unfold oks, st_items. rewrite Erd, Ept. repeat split; try assumption; apply O1. }
  destruct k; cbn [call_of do_call expect_of]; unfold raw_get, get_uint, get_int, get_string, typed; rewrite E; cbn [map_res fst snd].
  - exists s1. repeat split; try assumption; apply O1.
  - exists (io_line_end c s1). split; [reflexivity|exact Hio].
  - exists (io_line_end c s1). split; [reflexivity|exact Hio].
  - exists (io_line_end c s1). split; [reflexivity|exact Hio].
Qed.

Lemma expect_of_not_stop k v : expect_of k v <> Panic /\ expect_of k v <> OutOfFuel.
Proof. destruct k; cbn [expect_of]; try (split; discriminate). destruct (le_int v); split; discriminate. Qed.

Theorem conforming_typed_history c : forall (kxs : list (gkind * exch)) s more,
  oks s -> st_items s = [] -> reactions (pt s) = map (fun kx => x_react (snd kx)) kxs ++ more ->
  Forall (fun kx => conforming (snd kx)) kxs ->
  let '(rs, s') := run_calls c (map (fun kx => (x_idle (snd kx), call_of (fst kx) (x_addr (snd kx)))) kxs) s in
  rs = map (fun kx => expect_of (fst kx) (x_val (snd kx))) kxs /\
  oks s' /\ st_items s' = [] /\ reactions (pt s') = more /\
  nwrites (pt s') = nwrites (pt s) + List.length kxs.
Proof.
  induction kxs as [|[k x] kxs IH]; intros s more Hs Hi Hr Hf; cbn [run_calls map List.length fst snd].
  - cbn [map app] in Hr. repeat split; auto; try apply Hs.
  - inversion Hf as [|? ? Hx Hxs]; subst. cbn [map app fst snd] in Hr, Hx.
    destruct (typed_get_step c k x s _ Hs Hi Hr Hx) as (s1 & E & O1 & I1 & R1 & N1).
    rewrite E. destruct (expect_of_not_stop k (x_val x)) as [NP NF].
    specialize (IH s1 more O1 I1 R1 Hxs).
    destruct (run_calls c (map (fun kx => (x_idle (snd kx), call_of (fst kx) (x_addr (snd kx)))) kxs) s1) as [rs s2].
    destruct IH as (-> & O2 & I2 & R2 & N2).
    destruct (expect_of k (x_val x)) eqn:Ee; try congruence;
      (split; [reflexivity|]; split; [exact O2|]; split; [exact I2|]; split; [exact R2|]; lia).
Qed.

(* the premises are satisfiable: a fresh driver against a device that answers 0xEDF0 with
   the two bytes 96 00 *)
Definition demo_state : vdstate :=
  mkVd (mkRdr [] None)
       (mkPort [] [[RData [x56;x09]; RData [x3a;x37;x46;x30;x45;x44;x30;x30;x39;x36;x30]; RData [x30;x44;x42;x0a]];
                   [RData [x3a;x37;x46;x30;x45;x44;x30;x30;x39;x36;x30;x30;x44;x42;x0a]]]
               [] [] false [] 0 0 0 0 [])
       [] [] [].

Example history_premises_met :
  oks demo_state /\ st_items demo_state = [] /\
  fst (run_calls (mkCfg false true) [(true, CGetUint 60912); (false, CGetInt 60912)] demo_state)
  = [Ok (VNum 150); Ok (VNum 150)].
Proof. split; [|split]; vm_compute; auto. Qed.
