(* Tie T-gen for the serial driver: every function of Gen/DrvImpl.v (the translation of
   /repo/vedirect made on every run) computes what the hand-written model of Vedirect/Driver.v and
   Vedirect/Frame.v computes, for every argument and every driver state. *)
From GV Require Import Vedirect.DrvSem Gen.DrvImpl Base.HexFacts Vedirect.FrameFacts Vedirect.PortFacts.
Import ListNotations.
Local Open Scope Z_scope.

(* ---- small facts ---- *)

Lemma wrapU_small w x : 0 <= x < 2 ^ w -> wrapU w x = x.
Proof. intros H. unfold wrapU. now apply Z.mod_small. Qed.

Lemma wrapS_small w x : 0 < w -> - 2 ^ (w - 1) <= x < 2 ^ (w - 1) -> wrapS w x = x.
Proof.
  intros Hw H. unfold wrapS.
  assert (E : 2 ^ w = 2 * 2 ^ (w - 1)) by (rewrite <- Z.pow_succ_r by lia; f_equal; lia).
  rewrite Z.mod_small by lia. lia.
Qed.

Lemma wrapU8_bz z : wrapU 8 z = bz (zb z).
Proof. now rewrite bz_zb. Qed.

Lemma bz_wrapU8 b : wrapU 8 (bz b) = bz b.
Proof. apply wrapU_small. pose proof (bz_range b). change (2 ^ 8) with 256. lia. Qed.

Lemma g_len_nonneg l : 0 <= g_len l.
Proof. unfold g_len. lia. Qed.

Lemma is_neg_false z : 0 <= z -> is_neg z = false.
Proof. destruct z; cbn; [reflexivity..|lia]. Qed.

Lemma land_low_high a b n : 0 <= n -> 0 <= a < 2 ^ n -> Z.land a (b * 2 ^ n) = 0.
Proof.
  intros Hn Ha. apply Z.bits_inj'. intros k Hk. rewrite Z.land_spec, Z.bits_0.
  destruct (Z.lt_ge_cases k n) as [Hlt|Hge].
  - rewrite Z.mul_pow2_bits_low by lia. apply andb_false_r.
  - destruct (Z.eq_dec a 0) as [->|Hne]; [now rewrite Z.bits_0|].
    rewrite (Z.bits_above_log2 a k); [reflexivity|lia|].
    apply Z.lt_le_trans with n; [|exact Hge]. apply Z.log2_lt_pow2; lia.
Qed.

Lemma lor_low_high a b n : 0 <= n -> 0 <= a < 2 ^ n -> Z.lor a (b * 2 ^ n) = a + b * 2 ^ n.
Proof.
  intros Hn Ha. pose proof (land_low_high a b n Hn Ha) as H.
  rewrite <- Z.lxor_lor by exact H. symmetry. now apply Z.add_nocarry_lxor.
Qed.

(* ---- checksum.go ---- *)

Lemma computeChecksum_loop data : forall acc s,
  @range_bytes Z Z data 0 (fun _ v_v v_checksum => ret (LCont (wrapU 8 (Z.sub v_checksum v_v)))) (bz acc) s
  = (DVal (LDone (bz (fold_left (fun a v => zb (bz a - bz v)) data acc))), s).
Proof.
  assert (G : forall i acc s,
    @range_bytes Z Z data i (fun _ v_v v_checksum => ret (LCont (wrapU 8 (Z.sub v_checksum v_v)))) (bz acc) s
    = (DVal (LDone (bz (fold_left (fun a v => zb (bz a - bz v)) data acc))), s)).
  { induction data as [|b r IH]; intros i acc s; cbn [range_bytes fold_left]; [reflexivity|].
    unfold bind at 1. cbn [ret]. rewrite wrapU8_bz. apply IH. }
  intros. apply G.
Qed.

Theorem go_computeChecksum_spec cmd data s :
  go_computeChecksum cmd data s = (DVal (bz (compute_checksum cmd data)), s).
Proof.
  unfold go_computeChecksum, compute_checksum. cbv zeta.
  rewrite (wrapU8_bz (85 - cmd)). unfold bind. rewrite computeChecksum_loop.
  change (bz x55) with 85. reflexivity.
Qed.

(* ---- binaryParser.go ---- *)

Lemma le_uint_loop l : forall i res s, 0 <= i <= 7 -> 0 <= res < 2 ^ (8 * i) ->
  @range_bytes Z Z l i (fun v_i v_b v_res =>
    let v_res := (wrapU 64 (Z.lor v_res (wrapU 64 (Z.shiftl (wrapU 64 v_b) (wrapU 64 (Z.mul v_i 8)))))) in
    if (v_i >=? 7) then ret (LBrk v_res) else ret (LCont v_res)) res s
  = (DVal (LDone (res + 2 ^ (8 * i) * le_val (firstn (Z.to_nat (8 - i)) l))), s).
Proof.
  induction l as [|b r IH]; intros i res s Hi Hres.
  - cbn [range_bytes]. rewrite firstn_nil. cbn [le_val]. unfold ret. do 3 f_equal. lia.
  - cbn [range_bytes]. cbv zeta.
    pose proof (bz_range b) as Hb.
    assert (P8 : 2 ^ (8 * (i + 1)) = 256 * 2 ^ (8 * i)).
    { replace (8 * (i + 1)) with (8 * i + 8) by lia. rewrite Z.pow_add_r by lia. change (2 ^ 8) with 256. lia. }
    assert (Pmono : 2 ^ (8 * (i + 1)) <= 2 ^ 64) by (apply Z.pow_le_mono_r; lia).
    assert (Ppos : 0 < 2 ^ (8 * i)) by (apply Z.pow_pos_nonneg; lia).
    assert (E2 : wrapU 64 (i * 8) = i * 8) by (apply wrapU_small; change (2 ^ 64) with 18446744073709551616; lia).
    rewrite E2.
    assert (E3 : wrapU 64 (bz b) = bz b) by (apply wrapU_small; change (2 ^ 64) with 18446744073709551616; lia).
    rewrite E3. rewrite Z.shiftl_mul_pow2 by lia. replace (i * 8) with (8 * i) by lia.
    assert (Hprod : 0 <= bz b * 2 ^ (8 * i) < 2 ^ (8 * (i + 1))).
    { split; [apply Z.mul_nonneg_nonneg; lia | rewrite P8; apply Z.mul_lt_mono_pos_r; lia]. }
    rewrite (wrapU_small 64 (bz b * 2 ^ (8 * i))) by lia.
    rewrite lor_low_high by lia.
    rewrite (wrapU_small 64 (res + bz b * 2 ^ (8 * i))) by (rewrite P8 in *; nia).
    replace (Z.to_nat (8 - i)) with (S (Z.to_nat (8 - (i + 1)))) by lia.
    cbn [firstn le_val].
    destruct (i >=? 7) eqn:E7.
    + assert (i = 7) by lia. subst i. change (Z.to_nat (8 - (7 + 1))) with 0%nat.
      unfold bind, ret. cbn [firstn le_val]. do 3 f_equal. ring.
    + unfold bind at 1. cbn [ret]. rewrite IH by (try lia; nia).
      do 3 f_equal. rewrite P8. ring.
Qed.

Theorem go_littleEndianBytesToUint_spec bs s :
  go_littleEndianBytesToUint bs s = (DVal (le_uint bs), s).
Proof.
  unfold go_littleEndianBytesToUint. cbv zeta. unfold bind.
  rewrite le_uint_loop by (cbn; lia). unfold le_uint. cbn [Z.to_nat Pos.to_nat Pos.iter_op Nat.add].
  unfold ret. do 2 f_equal. change (8 * 0) with 0. change (Z.to_nat (8 - 0)) with 8%nat. lia.
Qed.

Lemma wrapS_range w x : 0 < w -> - 2 ^ (w - 1) <= wrapS w x < 2 ^ (w - 1).
Proof.
  intros Hw. unfold wrapS.
  assert (E : 2 ^ w = 2 * 2 ^ (w - 1)) by (rewrite <- Z.pow_succ_r by lia; f_equal; lia).
  assert (0 < 2 ^ (w - 1)) by (apply Z.pow_pos_nonneg; lia).
  pose proof (Z.mod_pos_bound (x + 2 ^ (w - 1)) (2 ^ w)). lia.
Qed.

Definition int_result (bs : list byte) : Z * gerr :=
  match le_int bs with Some z => (z, None) | None => (0, Some EOther) end.

Theorem go_littleEndianBytesToInt_spec bs s :
  go_littleEndianBytesToInt bs s = (DVal (int_result bs), s).
Proof.
  unfold go_littleEndianBytesToInt, int_result, le_int. cbv zeta.
  assert (W8 : forall x, wrapS 64 (wrapS 8 x) = wrapS 8 x).
  { intros x. apply wrapS_small; [lia|]. pose proof (wrapS_range 8 x).
    change (2 ^ (8 - 1)) with 128 in *. change (2 ^ (64 - 1)) with 9223372036854775808. lia. }
  assert (W16 : forall x, wrapS 64 (wrapS 16 x) = wrapS 16 x).
  { intros x. apply wrapS_small; [lia|]. pose proof (wrapS_range 16 x).
    change (2 ^ (16 - 1)) with 32768 in *. change (2 ^ (64 - 1)) with 9223372036854775808. lia. }
  assert (W32 : forall x, wrapS 64 (wrapS 32 x) = wrapS 32 x).
  { intros x. apply wrapS_small; [lia|]. pose proof (wrapS_range 32 x).
    change (2 ^ (32 - 1)) with 2147483648 in *. change (2 ^ (64 - 1)) with 9223372036854775808. lia. }
  destruct bs as [|b0 [|b1 [|b2 [|b3 [|b4 [|b5 [|b6 [|b7 [|b8 r]]]]]]]]].
  - reflexivity.
  - vm_compute g_len. cbn [Z.eqb Pos.eqb]. unfold g_binary_read_le.
    cbn [List.length Nat.leb firstn skipn gerr_isnil negb]. rewrite W8. reflexivity.
  - vm_compute g_len. cbn [Z.eqb Pos.eqb]. unfold g_binary_read_le.
    cbn [List.length Nat.leb firstn skipn gerr_isnil negb]. rewrite W16. reflexivity.
  - reflexivity.
  - vm_compute g_len. cbn [Z.eqb Pos.eqb]. unfold g_binary_read_le.
    cbn [List.length Nat.leb firstn skipn gerr_isnil negb]. rewrite W32. reflexivity.
  - reflexivity.
  - reflexivity.
  - reflexivity.
  - vm_compute g_len. cbn [Z.eqb Pos.eqb]. unfold g_binary_read_le.
    cbn [List.length Nat.leb firstn skipn gerr_isnil negb]. reflexivity.
  - (* nine or more *)
    assert (L : 9 <= g_len (b0 :: b1 :: b2 :: b3 :: b4 :: b5 :: b6 :: b7 :: b8 :: r)) by (unfold g_len; cbn [List.length]; lia).
    set (n := g_len _) in *. cbn [List.length].
    destruct (Z.eqb_spec n 1); [lia|]. destruct (Z.eqb_spec n 2); [lia|].
    destruct (Z.eqb_spec n 4); [lia|]. destruct (Z.eqb_spec n 8); [lia|]. reflexivity.
Qed.

(* ---- error.go, definitions.go ---- *)

Theorem go_responseError_spec flag s : go_responseError flag s = (DVal (response_error flag), s).
Proof.
  unfold go_responseError, response_error. cbv zeta.
  destruct (Z.eqb_spec flag 1); [subst; reflexivity|].
  destruct (Z.eqb_spec flag 2); [subst; reflexivity|].
  destruct (Z.eqb_spec flag 4); [subst; reflexivity|].
  destruct (Z.eqb_spec flag 0); reflexivity.
Qed.

Theorem go_ResponseForCommand_spec cmd s : go_ResponseForCommand cmd s = (DVal (response_for_command cmd), s).
Proof.
  unfold go_ResponseForCommand, response_for_command. cbv zeta.
  repeat match goal with |- context[?a =? ?b] => destruct (Z.eqb_spec a b); [reflexivity|] end.
  reflexivity.
Qed.

(* ---- io.go ---- *)

(* a Go result (value, error) read against a model result: on an error the value is whatever
   the code returns with it (the partial data of ReadBytes, the payload of a rejected frame) *)
Definition res_rel {A} (o : dout (A * gerr)) (r : res A) : Prop :=
  match r with
  | Ok a => o = DVal (a, None)
  | Err e => exists a, o = DVal (a, Some e)
  | Panic => o = DPanic
  | OutOfFuel => o = DFuel
  end.

Lemma g_slice_removelast l : l <> [] -> forall s, g_slice l 0 (g_len l - 1) s = (DVal (removelast l), s).
Proof.
  intros Hl s. unfold g_slice, g_len.
  assert (1 <= length l)%nat by (destruct l; [contradiction|cbn; lia]).
  rewrite (is_neg_false (Z.of_nat (length l) - 1)) by lia. cbn [is_neg orb].
  replace (Z.to_nat 0) with 0%nat by reflexivity.
  replace (Z.to_nat (Z.of_nat (length l) - 1)) with (pred (length l)) by lia.
  cbn [Nat.leb andb skipn]. replace (pred (length l) <=? length l)%nat with true by (symmetry; apply Nat.leb_le; lia).
  rewrite Nat.sub_0_r. rewrite removelast_firstn_len. reflexivity.
Qed.

Theorem go_recvUntil_spec c needle v idle :
  exists o, go_recvUntil c needle (mkD v idle) = (o, mkD (snd (recv_until c (zb needle) v)) idle)
            /\ res_rel o (fst (recv_until c (zb needle) v)).
Proof.
  unfold go_recvUntil, recv_until. cbv zeta. unfold bind at 1. unfold p_read_bytes. cbn [d_vd d_idle].
  pose proof (read_until_spec (ru_fuel (rd v) (pt v)) (zb needle) [] (rd v) (pt v) (fun H => H)) as Sp.
  destruct (read_until (ru_fuel (rd v) (pt v)) (zb needle) [] (rd v) (pt v)) as [[ru r'] p'].
  destruct ru as [line|e part|].
  - destruct Sp as (d & _ & pre & -> & _ & _).
    assert (Hne : pre ++ [zb needle] <> []) by (destruct pre; discriminate).
    cbn [gerr_isnil fst snd]. destruct (cfg_iolog c).
    + unfold bind at 1. unfold get_io_rx. cbn [d_vd]. unfold bind at 1. unfold set_io_rx, upd_vd. cbn [d_vd d_idle].
      unfold bind at 1. rewrite g_slice_removelast by exact Hne.
      eexists. split; [|reflexivity]. unfold ret, set_rd_pt. cbn. reflexivity.
    + unfold bind at 1. rewrite g_slice_removelast by exact Hne.
      eexists. split; [|reflexivity]. unfold ret, set_rd_pt. cbn. reflexivity.
  - cbn [gerr_isnil fst snd]. eexists. split; [reflexivity|]. cbn. eexists. reflexivity.
  - cbn [fst snd]. eexists. split; reflexivity.
Qed.

Theorem go_write_spec c b v idle :
  go_write c b (mkD v idle)
  = (DVal (if fst (vd_write c b v) then (g_len b, None) else (0, Some EOther)), mkD (snd (vd_write c b v)) idle).
Proof.
  unfold go_write, vd_write. cbv zeta. unfold bind at 1. unfold p_port_write. cbn [d_vd d_idle].
  destruct (port_write b (pt v)) as [ok p']. destruct ok; cbn [gerr_isnil negb fst snd andb].
  - destruct (cfg_iolog c).
    + unfold bind at 1. unfold get_io_tx. cbn [d_vd]. unfold bind at 1. unfold set_io_tx, upd_vd. cbn [d_vd d_idle].
      unfold ret, set_rd_pt. cbn. reflexivity.
    + unfold ret, set_rd_pt. cbn. destruct v; reflexivity.
  - unfold ret, set_rd_pt. cbn. destruct v; reflexivity.
Qed.

Theorem go_flushReceiver_spec c v idle :
  go_flushReceiver c (mkD v idle) = (DVal tt, mkD (flush_receiver v) idle).
Proof.
  unfold go_flushReceiver, flush_receiver. unfold bind at 1. unfold p_port_flush. cbn [d_vd d_idle].
  destruct (port_flush (pt v)) as [ok p']. unfold bind at 1. unfold p_reader_reset, upd_vd. cbn [d_vd d_idle].
  unfold ret, set_rd_pt. cbn. reflexivity.
Qed.

(* ---- vecommand.go: receiveResponse ---- *)

Lemma bz_eq_A b : (bz b =? 65) = beqb b c_A.
Proof.
  destruct (beqb b c_A) eqn:E.
  - apply beqb_eq in E. subst b. reflexivity.
  - apply beqb_neq in E. apply Z.eqb_neq. intros H. apply E. apply bz_inj. exact H.
Qed.

Definition rr_body (c : cfg)
  : (list byte * gerr * list byte) -> D (lctl (list byte * gerr * list byte) (list byte * gerr)) :=
  (fun '(v_data, v_err, v_received) =>
  bind (go_recvUntil c 58) (fun '(_, v_err) =>
  if (negb (gerr_isnil v_err)) then
  ret (LRet (v_data, v_err))
  else
  bind (go_recvUntil c 10) (fun '(v_received, v_err) =>
  if (negb (gerr_isnil v_err)) then
  ret (LRet (v_data, v_err))
  else
  bind (if ((g_len v_received) >? 0) then bind (g_index v_received 0) (fun t3 =>
  ret (t3 =? 65)) else ret false) (fun t4 =>
  if t4 then
  ret (LCont (v_data, v_err, v_received))
  else
  let v_data := v_received in
  ret (@LRet ((list byte) * gerr * (list byte)) ((list byte) * gerr) (v_data, v_err)))))).

Definition rr_out (r : res (list byte)) : dout (lres (list byte * gerr * list byte) (list byte * gerr)) :=
  match r with
  | Ok l => DVal (LReturned (l, None))
  | Err e => DVal (LReturned ([], Some e))
  | Panic => DPanic
  | OutOfFuel => DFuel
  end.

Lemma receive_loop c idle fuel : forall e0 r0 v,
  loop_fuel fuel (rr_body c) ([], e0, r0) (mkD v idle)
  = (rr_out (fst (receive_response fuel c v)), mkD (snd (receive_response fuel c v)) idle).
Proof.
  induction fuel as [|f IH]; intros e0 r0 v; [reflexivity|].
  cbn [loop_fuel receive_response]. unfold rr_body at 1. unfold bind at 1. unfold bind at 1.
  destruct (go_recvUntil_spec c 58 v idle) as (o1 & E1 & R1). rewrite E1.
  change (zb 58) with c_colon in *.
  destruct (recv_until c c_colon v) as [r1 v1]. cbn [fst snd] in *.
  destruct r1 as [d1|e1| |]; cbn [res_rel] in R1.
  - subst o1. cbn [gerr_isnil negb]. unfold bind at 1.
    destruct (go_recvUntil_spec c 10 v1 idle) as (o2 & E2 & R2). rewrite E2.
    change (zb 10) with c_nl in *.
    destruct (recv_until c c_nl v1) as [r2 v2]. cbn [fst snd] in *.
    destruct r2 as [line|e2| |]; cbn [res_rel] in R2.
    + subst o2. cbn [gerr_isnil negb]. destruct line as [|b rest].
      * cbn. reflexivity.
      * unfold g_len at 1. cbn [List.length]. replace (Z.of_nat (S (List.length rest)) >? 0) with true by (symmetry; apply Z.gtb_lt; lia).
        unfold bind at 1. unfold bind at 1. unfold g_index. cbn [is_neg Z.to_nat nth_error]. unfold ret at 1. unfold ret at 1.
        rewrite bz_eq_A. destruct (beqb b c_A).
        -- unfold ret at 1. apply IH.
        -- cbn. reflexivity.
    + destruct R2 as (a & ->). cbn. reflexivity.
    + subst o2. reflexivity.
    + subst o2. reflexivity.
  - destruct R1 as (a & ->). cbn. reflexivity.
  - subst o1. reflexivity.
  - subst o1. reflexivity.
Qed.

Definition plain_out (r : res (list byte)) : dout (list byte * gerr) :=
  match r with
  | Ok l => DVal (l, None)
  | Err e => DVal ([], Some e)
  | Panic => DPanic
  | OutOfFuel => DFuel
  end.

Theorem go_receiveResponse_spec c v idle :
  go_receiveResponse c (mkD v idle)
  = (plain_out (fst (receive_response (rr_fuel v) c v)), mkD (snd (receive_response (rr_fuel v) c v)) idle).
Proof.
  unfold go_receiveResponse. cbv zeta. unfold bind at 1. unfold forever. cbn [d_vd].
  change (fun '(v_data, v_err, v_received) => _) with (rr_body c) at 1.
  rewrite receive_loop.
  destruct (receive_response (rr_fuel v) c v) as [r v']. cbn [fst snd].
  destruct r as [l|e| |]; reflexivity.
Qed.

(* ---- vecommand.go: sendCommand, sendReceive ---- *)

Theorem go_sendCommand_spec c cmd data v idle : 0 <= cmd < 256 ->
  go_sendCommand c cmd data (mkD v idle)
  = (DVal (if fst (vd_write c (tx_frame_data cmd data) v) then None else Some EOther),
     mkD (snd (vd_write c (tx_frame_data cmd data) v)) idle).
Proof.
  intros Hc. unfold go_sendCommand. cbv zeta. unfold bind at 1.
  rewrite (wrapU_small 8 cmd) by (change (2 ^ 8) with 256; lia).
  rewrite go_computeChecksum_spec. unfold bind at 1.
  change (map zb [58]) with [c_colon]. change (map zb [10]) with [c_nl].
  change ([c_colon] ++ fmt_X8 cmd ++ fmt_X_bytes data ++ fmt_02X8 (bz (compute_checksum cmd data)) ++ [c_nl])
    with (tx_frame_data cmd data).
  rewrite go_write_spec. destruct (vd_write c (tx_frame_data cmd data) v) as [ok v']. cbn [fst snd].
  destruct ok; reflexivity.
Qed.

Theorem go_sendReceive_spec c cmd data v idle : 0 <= cmd < 256 ->
  go_sendReceive c cmd data (mkD v idle)
  = (plain_out (fst (send_receive c idle cmd data v)), mkD (snd (send_receive c idle cmd data v)) false).
Proof.
  intros Hc. unfold go_sendReceive, send_receive. cbv zeta. unfold bind at 1. unfold p_idle. cbn [d_idle].
  assert (G : forall v0 i0,
    bind p_set_last_sent (fun _ =>
      bind (go_sendCommand c cmd data) (fun v_err =>
        if negb (gerr_isnil v_err) then ret (@nil byte, v_err)
        else bind (go_receiveResponse c) (fun '(v_response, v_err0) => ret (v_response, v_err0)))) (mkD v0 i0)
    = (plain_out (fst (match vd_write c (tx_frame_data cmd data) v0 with
                       | (false, s1) => (Err EOther, s1)
                       | (true, s1) => receive_response (rr_fuel s1) c s1 end)),
       mkD (snd (match vd_write c (tx_frame_data cmd data) v0 with
                 | (false, s1) => (Err EOther, s1)
                 | (true, s1) => receive_response (rr_fuel s1) c s1 end)) false)).
  { intros v0 i0. unfold bind at 1. unfold p_set_last_sent. cbn [d_vd]. unfold bind at 1.
    rewrite go_sendCommand_spec by exact Hc.
    destruct (vd_write c (tx_frame_data cmd data) v0) as [ok s1]. cbn [fst snd]. destruct ok; cbn [gerr_isnil negb].
    - unfold bind at 1. rewrite go_receiveResponse_spec.
      destruct (receive_response (rr_fuel s1) c s1) as [r s2]. cbn [fst snd]. destruct r; reflexivity.
    - reflexivity. }
  destruct idle.
  - unfold bind at 1. rewrite go_flushReceiver_spec. apply G.
  - apply G.
Qed.

(* ---- vecommand.go: VeCommand ---- *)

Lemma parse_nibble_all : forall b,
  (wrapU 8 (fst (g_parse_uint_16_8 (g_string_of_rune (bz b)))) =? parse_nibble_lenient b) = true.
Proof. apply forall_bytes. vm_compute. reflexivity. Qed.

Lemma parse_nibble_eq b : wrapU 8 (fst (g_parse_uint_16_8 (g_string_of_rune (bz b)))) = parse_nibble_lenient b.
Proof. apply Z.eqb_eq. apply parse_nibble_all. Qed.

Lemma parse_nibble_range b : 0 <= parse_nibble_lenient b < 256.
Proof.
  unfold parse_nibble_lenient. destruct (hexval b) eqn:E; [apply hexval_range in E; lia|lia].
Qed.

Lemma g_slice_tail c l s : g_slice (c :: l) 1 (g_len (c :: l)) s = (DVal l, s).
Proof.
  unfold g_slice, g_len. rewrite (is_neg_false (Z.of_nat (length (c :: l)))) by lia. cbn [is_neg orb].
  rewrite Nat2Z.id. change (Z.to_nat 1) with 1%nat. cbn [List.length skipn].
  replace (1 <=? S (length l))%nat with true by (symmetry; apply Nat.leb_le; lia).
  rewrite Nat.leb_refl. cbn [andb]. replace (S (length l) - 1)%nat with (length l) by lia.
  rewrite firstn_all. reflexivity.
Qed.

Lemma rem2_odd l : negb (Z.rem (g_len l) 2 =? 0) = Nat.odd (length l).
Proof.
  unfold g_len. rewrite Z.rem_mod_nonneg by lia.
  replace (Z.of_nat (length l) mod 2) with (Z.of_nat (length l mod 2)) by (rewrite Nat2Z.inj_mod; reflexivity).
  change 0 with (Z.of_nat 0).
  destruct (Nat.odd (length l)) eqn:E.
  - apply Nat.odd_spec in E. destruct E as [k Hk]. apply negb_true_iff. apply Z.eqb_neq.
    intros H. apply Nat2Z.inj in H. rewrite Hk in H.
    replace (2 * k + 1)%nat with (1 + k * 2)%nat in H by lia. rewrite Nat.mod_add in H by lia. discriminate.
  - apply negb_false_iff. apply Z.eqb_eq. f_equal.
    assert (Ev : Nat.even (length l) = true) by (rewrite <- Nat.negb_odd, E; reflexivity).
    apply Nat.even_spec in Ev. destruct Ev as [k Hk]. rewrite Hk.
    replace (2 * k)%nat with (0 + k * 2)%nat by lia. now rewrite Nat.mod_add by lia.
Qed.

Lemma quot2_len l : Z.quot (g_len l) 2 = Z.of_nat (length l / 2).
Proof. unfold g_len. rewrite Z.quot_div_nonneg by lia. rewrite (Nat2Z.inj_div (length l) 2). reflexivity. Qed.

Lemma hex_decode_length s bs : hex_decode s = Some bs -> length bs = (length s / 2)%nat.
Proof.
  intros H. apply hex_decode_sound, hex_decodes_length in H. rewrite H.
  replace (2 * length bs)%nat with (length bs * 2)%nat by lia. now rewrite Nat.div_mul by lia.
Qed.

Lemma g_make_len n s : g_make (Z.of_nat n) s = (DVal (repeat x00 n), s).
Proof. unfold g_make. rewrite is_neg_false by lia. now rewrite Nat2Z.id. Qed.

Lemma g_index_last l x s : g_index (l ++ [x]) (g_len (l ++ [x]) - 1) s = (DVal (bz x), s).
Proof.
  unfold g_index, g_len. rewrite app_length. cbn [List.length].
  rewrite is_neg_false by lia.
  replace (Z.to_nat (Z.of_nat (length l + 1) - 1)) with (length l) by lia.
  rewrite nth_error_app2 by lia. rewrite Nat.sub_diag. reflexivity.
Qed.

Lemma removelast_last {A} (l : list A) x : removelast (l ++ [x]) = l.
Proof. apply removelast_last. Qed.

Theorem go_VeCommand_spec c cmd addr v idle : 0 <= cmd < 256 -> 0 <= addr < 65536 ->
  exists o, go_VeCommand c cmd addr (mkD v idle) = (o, mkD (snd (ve_command c idle cmd addr v)) false)
            /\ res_rel o (fst (ve_command c idle cmd addr v)).
Proof.
  intros Hc Ha. unfold go_VeCommand, ve_command. cbv zeta.
  assert (Ep : (if orb (cmd =? 7) (cmd =? 8)
                then [zb (wrapU 8 addr); zb (wrapU 8 (wrapU 16 (Z.shiftr addr 8)))] ++ [zb 0] else [])
               = cmd_param cmd addr).
  { unfold cmd_param. destruct (orb (cmd =? 7) (cmd =? 8)); [|reflexivity].
    rewrite Z.shiftr_div_pow2 by lia. change (2 ^ 8) with 256.
    rewrite (wrapU_small 16 (addr / 256)) by (change (2 ^ 16) with 65536; split; [apply Z.div_pos; lia|apply Z.div_lt_upper_bound; lia]).
    cbn [app]. f_equal; [|f_equal].
    - apply zb_eq_mod. unfold wrapU. change (2 ^ 8) with 256. now rewrite Z.mod_mod by lia.
    - apply zb_eq_mod. unfold wrapU. change (2 ^ 8) with 256. now rewrite Z.mod_mod by lia. }
  (* the join point after the parameter construction is entered with cmd_param in both branches *)
  match goal with |- context[if ?cnd then bind (go_sendReceive c cmd ?x) ?k else bind (go_sendReceive c cmd ?y) ?k] =>
    replace (if cnd then bind (go_sendReceive c cmd x) k else bind (go_sendReceive c cmd y) k)
      with (bind (go_sendReceive c cmd (if cnd then x else y)) k) by (destruct cnd; reflexivity)
  end.
  rewrite Ep. clear Ep.
  unfold bind at 1. rewrite go_sendReceive_spec by exact Hc.
  destruct (send_receive c idle cmd (cmd_param cmd addr) v) as [r v1]. cbn [fst snd].
  destruct r as [rd|e| |]; cbn [plain_out].
  2:{ cbn [gerr_isnil negb]. eexists. split; [reflexivity|]. cbn. eexists. reflexivity. }
  2:{ eexists. split; reflexivity. }
  2:{ eexists. split; reflexivity. }
  cbn [gerr_isnil negb]. unfold parse_response.
  replace (g_len rd <? 7) with (length rd <? 7)%nat
    by (unfold g_len; destruct (Nat.ltb_spec (length rd) 7); symmetry; [apply Z.ltb_lt|apply Z.ltb_ge]; lia).
  destruct (length rd <? 7)%nat eqn:E7.
  { eexists. split; [reflexivity|]. cbn. eexists. reflexivity. }
  destruct rd as [|ch hexdata]; [cbn in E7; discriminate|].
  unfold bind at 1. unfold g_index at 1. cbn [is_neg Z.to_nat nth_error]. unfold ret at 1.
  destruct (g_parse_uint_16_8 (g_string_of_rune (bz ch))) as [vi ve] eqn:Eparse.
  assert (Evi : wrapU 8 vi = parse_nibble_lenient ch) by (rewrite <- parse_nibble_eq, Eparse; reflexivity).
  cbn [gerr_isnil negb]. rewrite Evi.
  unfold bind at 1. rewrite go_ResponseForCommand_spec.
  destruct (negb (response_for_command cmd =? parse_nibble_lenient ch)).
  { eexists. split; [reflexivity|]. cbn. eexists. reflexivity. }
  unfold bind at 1. rewrite g_slice_tail. rewrite rem2_odd.
  destruct (Nat.odd (length hexdata)).
  { eexists. split; [reflexivity|]. cbn. eexists. reflexivity. }
  rewrite quot2_len. unfold bind at 1. rewrite g_make_len.
  unfold bind at 1. unfold g_hex_decode.
  destruct (hex_decode hexdata) as [bin|] eqn:Eh.
  2:{ cbn [gerr_isnil negb orb]. eexists. split; [reflexivity|]. cbn. eexists. reflexivity. }
  pose proof (hex_decode_length _ _ Eh) as Lb.
  rewrite repeat_length. rewrite <- Lb. rewrite Nat.leb_refl.
  replace (skipn (length bin) (repeat x00 (length bin))) with (@nil byte)
    by (symmetry; apply skipn_all2; rewrite repeat_length; lia).
  rewrite app_nil_r. unfold ret at 1. cbn [gerr_isnil negb orb].
  unfold g_len at 1. rewrite Z.eqb_refl. cbn [negb].
  destruct (split_last bin) as [[values chk]|] eqn:Es.
  - apply split_last_spec in Es. subst bin.
    unfold bind at 1. rewrite g_slice_removelast by (destruct values; discriminate).
    rewrite removelast_last. unfold bind at 1. rewrite g_index_last.
    unfold bind at 1. rewrite (wrapU_small 8 (parse_nibble_lenient ch)) by (pose proof (parse_nibble_range ch); change (2 ^ 8) with 256; lia).
    rewrite go_computeChecksum_spec.
    replace (bz (compute_checksum (parse_nibble_lenient ch) values) =? bz chk)
      with (beqb (compute_checksum (parse_nibble_lenient ch) values) chk).
    2:{ destruct (beqb (compute_checksum (parse_nibble_lenient ch) values) chk) eqn:Eb.
        - apply beqb_eq in Eb. rewrite Eb. symmetry. apply Z.eqb_refl.
        - apply beqb_neq in Eb. symmetry. apply Z.eqb_neq. intros H. apply Eb. now apply bz_inj. }
    destruct (beqb (compute_checksum (parse_nibble_lenient ch) values) chk); cbn [negb].
    + eexists. split; [reflexivity|]. reflexivity.
    + eexists. split; [reflexivity|]. cbn. eexists. reflexivity.
  - apply split_last_none in Es. subst bin. eexists. split; [reflexivity|]. reflexivity.
Qed.

(* ---- vecommand.go: VeCommandGet ---- *)

Definition get_body (c : cfg) (v_address : Z)
  : Z -> (list byte * gerr) -> D (lctl (list byte * gerr) (list byte * gerr)) :=
  (fun v_try '(v_value, v_err) =>
  let v_rawValues := (@nil byte) in
  bind (go_VeCommand c 7 v_address) (fun '(v_rawValues, v_err) =>
  if (negb (gerr_isnil v_err)) then
  ret (LCont (v_value, v_err))
  else
  if ((g_len v_rawValues) <? 3) then
  let v_err := (Some EOther) in
  ret (LCont (v_value, v_err))
  else
  bind (g_slice v_rawValues 0 2) (fun t2 =>
  bind (go_littleEndianBytesToUint t2) (fun t3 =>
  let v_responseAddress := (wrapU 16 t3) in
  if (negb (v_address =? v_responseAddress)) then
  let v_err := (Some EOther) in
  ret (LCont (v_value, v_err))
  else
  bind (g_slice v_rawValues 2 3) (fun t4 =>
  bind (go_littleEndianBytesToUint t4) (fun t5 =>
  let v_responseFlag := (wrapU 8 t5) in
  bind (go_responseError v_responseFlag) (fun v_e =>
  if (negb (gerr_isnil v_e)) then
  let v_err := v_e in
  ret (LRet (v_value, v_err))
  else
  bind (g_slice v_rawValues 3 (g_len v_rawValues)) (fun v_value =>
  ret (LRet (v_value, v_err)))))))))).

Definition loop_rel (o : dout (lres (list byte * gerr) (list byte * gerr))) (r : res (list byte)) : Prop :=
  match r with
  | Ok val => o = DVal (LReturned (val, None))
  | Err e => (exists a, o = DVal (LReturned (a, Some e))) \/ (e = EOther /\ exists st, o = DVal (LDone st))
  | Panic => o = DPanic
  | OutOfFuel => o = DFuel
  end.

Lemma g_slice_02 lo hi r s : g_slice (lo :: hi :: r) 0 2 s = (DVal [lo; hi], s).
Proof. reflexivity. Qed.
Lemma g_slice_23 lo hi f r s : g_slice (lo :: hi :: f :: r) 2 3 s = (DVal [f], s).
Proof. reflexivity. Qed.
Lemma g_slice_3 lo hi f r s : g_slice (lo :: hi :: f :: r) 3 (g_len (lo :: hi :: f :: r)) s = (DVal r, s).
Proof.
  unfold g_slice, g_len. rewrite (is_neg_false (Z.of_nat _)) by lia. cbn [is_neg orb].
  rewrite Nat2Z.id. change (Z.to_nat 3) with 3%nat. cbn [List.length skipn].
  replace (3 <=? S (S (S (length r))))%nat with true by (symmetry; apply Nat.leb_le; lia).
  rewrite Nat.leb_refl. cbn [andb]. replace (S (S (S (length r))) - 3)%nat with (length r) by lia.
  rewrite firstn_all. reflexivity.
Qed.

Ltac step_IH IH :=
  match goal with |- exists o idle', for_count _ ?i _ (?a, ?e) {| d_vd := ?v1; d_idle := false |} = _ /\ _ /\ _ =>
    let o := fresh "o" in let i' := fresh "idl" in let E := fresh "E" in let R := fresh "R" in let I := fresh "I" in
    destruct (IH i a e v1 false) as (o & i' & E & R & I);
    exists o, i'; split; [exact E|split; [exact R|
      intros N1 N2; rewrite (I N1 N2);
      match goal with |- match ?n with O => _ | S _ => _ end = _ => destruct n; reflexivity end]]
  end.

Lemma get_loop c addr : 0 <= addr < 65536 -> forall n i a0 e0 v idle,
  exists o idle',
    for_count n i (get_body c addr) (a0, e0) (mkD v idle)
    = (o, mkD (snd (ve_command_get_loop n c idle addr v)) idle')
    /\ loop_rel o (fst (ve_command_get_loop n c idle addr v))
    /\ (o <> DPanic -> o <> DFuel -> idle' = match n with O => idle | S _ => false end).
Proof.
  intros Ha. induction n as [|n IH]; intros i a0 e0 v idle.
  - cbn [for_count ve_command_get_loop fst snd]. exists (DVal (LDone (a0, e0))), idle. split; [reflexivity|].
    split; [|reflexivity]. right. split; [reflexivity|]. eexists. reflexivity.
  - cbn [for_count ve_command_get_loop]. unfold get_body at 1. cbv zeta. unfold bind at 1. unfold bind at 1.
    destruct (go_VeCommand_spec c 7 addr v idle ltac:(lia) Ha) as (o1 & E1 & R1). rewrite E1.
    destruct (ve_command c idle 7 addr v) as [r1 v1]. cbn [fst snd] in *.
    destruct r1 as [raw|e1| |]; cbn [res_rel] in R1.
    + subst o1. cbn [gerr_isnil negb].
      destruct raw as [|lo [|hi [|flag val]]];
        try (change (g_len _ <? 3) with true; cbv iota; unfold ret at 1; cbn [classify_get]; step_IH IH).
      replace (g_len (lo :: hi :: flag :: val) <? 3) with false
        by (symmetry; apply Z.ltb_ge; unfold g_len; cbn [List.length]; lia).
      unfold bind at 1. rewrite g_slice_02. unfold bind at 1. rewrite go_littleEndianBytesToUint_spec.
      pose proof (bz_range lo) as Hlo. pose proof (bz_range hi) as Hhi. pose proof (bz_range flag) as Hfl.
      replace (le_uint [lo; hi]) with (bz lo + 256 * bz hi) by (unfold le_uint; cbn [firstn le_val]; lia).
      rewrite (wrapU_small 16) by (change (2 ^ 16) with 65536; lia).
      cbn [classify_get].
      destruct (negb (addr =? bz lo + 256 * bz hi)).
      { unfold ret at 1. step_IH IH. }
      unfold bind at 1. rewrite g_slice_23. unfold bind at 1. rewrite go_littleEndianBytesToUint_spec.
      replace (le_uint [flag]) with (bz flag) by (unfold le_uint; cbn [firstn le_val]; lia).
      rewrite bz_wrapU8. unfold bind at 1. rewrite go_responseError_spec.
      destruct (response_error (bz flag)) as [e|]; cbn [gerr_isnil negb].
      * eexists. eexists. split; [reflexivity|]. split; [|intros; reflexivity]. left. eexists. reflexivity.
      * unfold bind at 1. rewrite g_slice_3. eexists. eexists. split; [reflexivity|]. split; [reflexivity|intros; reflexivity].
    + destruct R1 as (a & ->). cbn [gerr_isnil negb]. unfold ret at 1. step_IH IH.
    + subst o1. eexists. eexists. split; [reflexivity|]. split; [reflexivity|]. intros N; exfalso; apply N; reflexivity.
    + subst o1. eexists. eexists. split; [reflexivity|]. split; [reflexivity|]. intros _ N; exfalso; apply N; reflexivity.
Qed.

Theorem go_VeCommandGet_spec c addr v idle : 0 <= addr < 65536 ->
  exists o idle', go_VeCommandGet c addr (mkD v idle) = (o, mkD (snd (ve_command_get c idle addr v)) idle')
            /\ res_rel o (fst (ve_command_get c idle addr v))
            /\ (o <> DPanic -> o <> DFuel -> idle' = false).
Proof.
  intros Ha. unfold go_VeCommandGet, ve_command_get, num_tries. cbv zeta.
  rewrite (Z.mod_small addr 65536) by lia.
  unfold bind at 1.
  match goal with |- context[for_count 8 0 ?b _ _] => change b with (get_body c addr) end.
  destruct (get_loop c addr Ha 8 0 [] None v idle) as (o & idle' & E & R & I). cbv [gerr] in E |- *. rewrite E.
  destruct (ve_command_get_loop 8 c idle addr v) as [r v']. cbn [fst snd] in *.
  destruct r as [val|e| |]; cbn [loop_rel] in R.
  - subst o. eexists. eexists. split; [reflexivity|]. split; [reflexivity|]. intros _ _. apply I; discriminate.
  - destruct R as [(a & ->)|(-> & st & ->)].
    + eexists. eexists. split; [reflexivity|]. split; [cbn; eexists; reflexivity|]. intros _ _. apply I; discriminate.
    + destruct st as [a e']. eexists. eexists. split; [reflexivity|]. split; [cbn; eexists; reflexivity|].
      intros _ _. apply I; discriminate.
  - subst o. eexists. eexists. split; [reflexivity|]. split; [reflexivity|]. intros N; exfalso; apply N; reflexivity.
  - subst o. eexists. eexists. split; [reflexivity|]. split; [reflexivity|]. intros _ N; exfalso; apply N; reflexivity.
Qed.

(* ---- vedirect.go: the typed calls ---- *)

Lemma line_end_spec c v idle :
  (if orb (cfg_debug c) (cfg_iolog c) then bind (go_ioLoggerLineEnd c) (fun _ => ret tt) else ret tt) (mkD v idle)
  = (DVal tt, mkD (io_line_end c v) idle).
Proof.
  unfold io_line_end, go_ioLoggerLineEnd, go_resetIoLogBuffers.
  destruct (cfg_iolog c); [rewrite orb_true_r|]; cbn [negb].
  - reflexivity.
  - destruct (cfg_debug c); cbn [orb]; [|destruct v; reflexivity]. destruct v; reflexivity.
Qed.

(* what a typed call returns, read against the model's result for that call *)
Definition call_rel {A} (inj : A -> value) (out : dout (A * gerr) * dst) (m : res value * vdstate) : Prop :=
  match fst m with
  | Ok x => exists a, fst out = DVal (a, None) /\ x = inj a /\ snd out = mkD (snd m) false
  | Err e => exists a, fst out = DVal (a, Some e) /\ snd out = mkD (snd m) false
  | Panic => fst out = DPanic
  | OutOfFuel => fst out = DFuel
  end.

Ltac finish_call EG :=
  unfold ret at 1 in EG; unfold bind at 1 in EG; rewrite line_end_spec in EG;
  injection EG as <- <-; cbn [fst snd d_vd]; eexists; repeat split.

Theorem go_GetUint_refines c addr v idle : 0 <= addr < 65536 ->
  call_rel VNum (go_GetUint c addr (mkD v idle)) (get_uint c idle addr v).
Proof.
  intros Ha. unfold get_uint, typed, call_rel.
  destruct (go_GetUint c addr (mkD v idle)) as [og sd] eqn:EG.
  unfold go_GetUint in EG. cbv zeta in EG. unfold bind at 1 in EG. unfold bind at 1 in EG.
  destruct (go_VeCommandGet_spec c addr v idle Ha) as (o & idle' & E & R & I). rewrite E in EG.
  destruct (ve_command_get c idle addr v) as [r v']. cbn [fst snd map_res] in *.
  destruct r as [raw|e| |]; cbn [res_rel] in R.
  - subst o. assert (idle' = false) by (apply I; discriminate). subst idle'. cbn [gerr_isnil negb] in EG. unfold bind at 1 in EG. rewrite go_littleEndianBytesToUint_spec in EG.
    unfold ret at 1 in EG. finish_call EG.
  - destruct R as (a & ->). assert (idle' = false) by (apply I; discriminate). subst idle'. cbn [gerr_isnil negb] in EG. finish_call EG.
  - subst o. injection EG as <- <-. reflexivity.
  - subst o. injection EG as <- <-. reflexivity.
Qed.

Theorem go_GetInt_refines c addr v idle : 0 <= addr < 65536 ->
  call_rel VNum (go_GetInt c addr (mkD v idle)) (get_int c idle addr v).
Proof.
  intros Ha. unfold get_int, typed, call_rel.
  destruct (go_GetInt c addr (mkD v idle)) as [og sd] eqn:EG.
  unfold go_GetInt in EG. cbv zeta in EG. unfold bind at 1 in EG. unfold bind at 1 in EG.
  destruct (go_VeCommandGet_spec c addr v idle Ha) as (o & idle' & E & R & I). rewrite E in EG.
  destruct (ve_command_get c idle addr v) as [r v']. cbn [fst snd map_res] in *.
  destruct r as [raw|e| |]; cbn [res_rel] in R.
  - subst o. assert (idle' = false) by (apply I; discriminate). subst idle'. cbn [gerr_isnil negb] in EG. unfold bind at 1 in EG. rewrite go_littleEndianBytesToInt_spec in EG.
    unfold int_result in EG. destruct (le_int raw) as [z|].
    + unfold ret at 1 in EG. finish_call EG.
    + unfold ret at 1 in EG. finish_call EG.
  - destruct R as (a & ->). assert (idle' = false) by (apply I; discriminate). subst idle'. cbn [gerr_isnil negb] in EG. finish_call EG.
  - subst o. injection EG as <- <-. reflexivity.
  - subst o. injection EG as <- <-. reflexivity.
Qed.

Theorem go_GetString_refines c addr v idle : 0 <= addr < 65536 ->
  call_rel VBytes (go_GetString c addr (mkD v idle)) (get_string c idle addr v).
Proof.
  intros Ha. unfold get_string, typed, call_rel.
  destruct (go_GetString c addr (mkD v idle)) as [og sd] eqn:EG.
  unfold go_GetString in EG. cbv zeta in EG. unfold bind at 1 in EG. unfold bind at 1 in EG.
  destruct (go_VeCommandGet_spec c addr v idle Ha) as (o & idle' & E & R & I). rewrite E in EG.
  destruct (ve_command_get c idle addr v) as [r v']. cbn [fst snd map_res] in *.
  destruct r as [raw|e| |]; cbn [res_rel] in R.
  - subst o. assert (idle' = false) by (apply I; discriminate). subst idle'. cbn [gerr_isnil negb] in EG. finish_call EG.
  - destruct R as (a & ->). assert (idle' = false) by (apply I; discriminate). subst idle'. cbn [gerr_isnil negb] in EG. finish_call EG.
  - subst o. injection EG as <- <-. reflexivity.
  - subst o. injection EG as <- <-. reflexivity.
Qed.

Theorem go_GetDeviceId_refines c v idle :
  call_rel VNum (go_GetDeviceId c (mkD v idle)) (get_device_id c idle v).
Proof.
  unfold get_device_id, typed, call_rel.
  destruct (go_GetDeviceId c (mkD v idle)) as [og sd] eqn:EG.
  unfold go_GetDeviceId in EG. cbv zeta in EG. unfold bind at 1 in EG. unfold bind at 1 in EG.
  destruct (go_VeCommand_spec c 4 0 v idle ltac:(lia) ltac:(lia)) as (o & E & R). rewrite E in EG.
  destruct (ve_command c idle 4 0 v) as [r v']. cbn [fst snd map_res] in *.
  destruct r as [raw|e| |]; cbn [res_rel] in R.
  - subst o. cbn [gerr_isnil negb] in EG. unfold bind at 1 in EG. unfold g_le16 in EG.
    destruct raw as [|lo [|hi rest]].
    + injection EG as <- <-. reflexivity.
    + injection EG as <- <-. reflexivity.
    + unfold ret at 1 in EG. finish_call EG.
  - destruct R as (a & ->). cbn [gerr_isnil negb] in EG. finish_call EG.
  - subst o. injection EG as <- <-. reflexivity.
  - subst o. injection EG as <- <-. reflexivity.
Qed.

Definition unit_inj (_ : unit) : value := VUnit.

(* Ping returns only an error: read it as (tt, err) *)
Definition ping_out (r : dout gerr * dst) : dout (unit * gerr) * dst :=
  (match fst r with DVal e => DVal (tt, e) | DPanic => DPanic | DFuel => DFuel end, snd r).

Theorem go_Ping_refines c v idle :
  call_rel unit_inj (ping_out (go_Ping c (mkD v idle))) (ping c idle v).
Proof.
  unfold ping, typed, call_rel, ping_out.
  destruct (go_Ping c (mkD v idle)) as [og sd] eqn:EG.
  unfold go_Ping in EG. cbv zeta in EG. unfold bind at 1 in EG. unfold bind at 1 in EG.
  rewrite go_sendReceive_spec in EG by lia.
  destruct (send_receive c idle 1 [] v) as [r v']. cbn [fst snd map_res] in *.
  destruct r as [raw|e| |]; cbn [plain_out] in EG.
  - unfold ret at 1 in EG. unfold bind at 1 in EG. rewrite line_end_spec in EG.
    injection EG as <- <-. cbn [fst snd d_vd]. exists tt. repeat split.
  - unfold ret at 1 in EG. unfold bind at 1 in EG. rewrite line_end_spec in EG.
    injection EG as <- <-. cbn [fst snd d_vd]. exists tt. repeat split.
  - injection EG as <- <-. reflexivity.
  - injection EG as <- <-. reflexivity.
Qed.

(* the raw entry points *)
Theorem go_VeCommandGet_refines c addr v idle : 0 <= addr < 65536 ->
  call_rel VBytes (go_VeCommandGet c addr (mkD v idle)) (raw_get c idle addr v).
Proof.
  intros Ha. unfold raw_get, call_rel.
  destruct (go_VeCommandGet_spec c addr v idle Ha) as (o & idle' & E & R & I). rewrite E.
  destruct (ve_command_get c idle addr v) as [r v']. cbn [fst snd map_res] in *.
  destruct r as [raw|e| |]; cbn [res_rel] in R.
  - subst o. assert (idle' = false) by (apply I; discriminate). subst idle'. eexists. repeat split.
  - destruct R as (a & ->). assert (idle' = false) by (apply I; discriminate). subst idle'. eexists. repeat split.
  - exact R.
  - exact R.
Qed.

Theorem go_VeCommand_refines c cmd addr v idle : 0 <= cmd < 256 -> 0 <= addr < 65536 ->
  call_rel VBytes (go_VeCommand c cmd addr (mkD v idle)) (raw_command c idle cmd addr v).
Proof.
  intros Hc Ha. unfold raw_command, call_rel.
  rewrite (Z.mod_small cmd 256) by lia. rewrite (Z.mod_small addr 65536) by lia.
  destruct (go_VeCommand_spec c cmd addr v idle Hc Ha) as (o & E & R). rewrite E.
  destruct (ve_command c idle cmd addr v) as [r v']. cbn [fst snd map_res] in *.
  destruct r as [raw|e| |]; cbn [res_rel] in R.
  - subst o. eexists. repeat split.
  - destruct R as (a & ->). eexists. repeat split.
  - exact R.
  - exact R.
Qed.
