(* C06: "performs only a bounded number of reads once the port reports no more data".
   reads_at_end counts the Read calls answered from the exhausted queue (end of data: EOF, or
   (0, nil) for a port that never reports it).  Every driver call adds at most 8 (EOF ports)
   resp. 8 * 100 (no-progress ports: bufio gives up after 100 empty reads) such reads, for
   every state, script and fault schedule. *)
From GV Require Import Base.Bytes Vedirect.Frame Vedirect.FrameFacts Vedirect.Port Vedirect.PortFacts
     Vedirect.Driver Vedirect.DriverFacts.
Local Open Scope nat_scope.

Definition B (p : port) : nat := if noprog p then max_empty_reads else 1.

Lemma max_empty_reads_pos : 1 <= max_empty_reads.
Proof. assert (E : max_empty_reads = 100) by reflexivity. rewrite E. lia. Qed.

Lemma B_pos p : 1 <= B p.
Proof. unfold B. destruct (noprog p); [apply max_empty_reads_pos|lia]. Qed.

(* one Read *)
Lemma port_read_end n p : 0 < n ->
  let '(d, e, p') := port_read n p in
  noprog p' = noprog p /\
  ((reads_at_end p' = reads_at_end p /\ (queue p = [] -> False)) \/
   (reads_at_end p' = S (reads_at_end p) /\ d = [] /\ queue p = [] /\ queue p' = [] /\
    e = (if noprog p then None else Some IOEof))).
Proof.
  intros Hn. unfold port_read. destruct n as [|n]; [lia|].
  destruct (queue p) as [|ev q] eqn:Eq.
  - cbn. split; [reflexivity|]. right. repeat split; reflexivity.
  - destruct ev; cbn; (split; [reflexivity|left; split; [reflexivity|discriminate]]).
Qed.

(* fill on an exhausted queue: fails, adds at most B reads at end, leaves the buffer alone *)
Lemma fill_loop_at_end i : forall r p, queue p = [] -> length (rbuf r) < bufcap ->
  let '(r', p') := fill_loop i r p in
  rerr r' <> None /\ rbuf r' = rbuf r /\ noprog p' = noprog p /\ queue p' = [] /\
  reads_at_end p <= reads_at_end p' /\ reads_at_end p' <= reads_at_end p + (if noprog p then i else 1).
Proof.
  induction i as [|i IH]; intros r p Hq Hl; cbn [fill_loop].
  - cbn [rerr rbuf]. split; [discriminate|]. split; [reflexivity|]. split; [reflexivity|]. split; [exact Hq|].
    split; [lia|destruct (noprog p); lia].
  - pose proof (port_read_end (bufcap - length (rbuf r)) p ltac:(lia)) as R.
    destruct (port_read (bufcap - length (rbuf r)) p) as [[d e] p1].
    destruct R as [Np [[_ Hne]|(Hr & -> & _ & Hq1 & ->)]]; [now elim Hne|].
    destruct (noprog p) eqn:En.
    + specialize (IH r p1 Hq1 Hl). destruct (fill_loop i r p1) as [r' p'].
      destruct IH as (He & Hb & Hn & Hq' & Hm & Hc). rewrite Np in Hc, Hn. rewrite Hr in Hc, Hm.
      split; [exact He|]. split; [exact Hb|]. split; [exact Hn|]. split; [exact Hq'|]. split; lia.
    + cbn [rbuf rerr]. rewrite app_nil_r. split; [discriminate|]. split; [reflexivity|]. split; [exact Np|].
      split; [exact Hq1|]. split; lia.
Qed.

(* fill in general *)
Lemma fill_loop_reads i : forall r p, length (rbuf r) < bufcap ->
  let '(r', p') := fill_loop i r p in
  noprog p' = noprog p /\
  reads_at_end p <= reads_at_end p' /\ reads_at_end p' <= reads_at_end p + (if noprog p then i else 1) /\
  (reads_at_end p < reads_at_end p' -> rerr r' <> None /\ rbuf r' = rbuf r).
Proof.
  induction i as [|i IH]; intros r p Hl; cbn [fill_loop].
  - split; [reflexivity|]. split; [lia|]. split; [destruct (noprog p); lia|lia].
  - destruct (queue p) as [|ev q] eqn:Eq.
    + (* already at the end *)
      pose proof (fill_loop_at_end (S i) r p Eq Hl) as A. cbn [fill_loop] in A.
      destruct (port_read (bufcap - length (rbuf r)) p) as [[d e] p1].
      destruct e as [e|].
      * destruct A as (He & Hb & Hn & _ & Hm & Hc). split; [exact Hn|]. split; [exact Hm|]. split; [exact Hc|].
        intros _. split; assumption.
      * destruct d as [|b d].
        -- destruct (fill_loop i r p1) as [r' p']. destruct A as (He & Hb & Hn & _ & Hm & Hc).
           split; [exact Hn|]. split; [exact Hm|]. split; [exact Hc|]. intros _. split; assumption.
        -- destruct A as (He & _). now elim He.
    + pose proof (port_read_end (bufcap - length (rbuf r)) p ltac:(lia)) as R.
      destruct (port_read (bufcap - length (rbuf r)) p) as [[d e] p1].
      destruct R as [Np [[Hr _]|(_ & _ & Hq0 & _)]]; [|rewrite Eq in Hq0; discriminate].
      destruct e as [e|].
      * split; [exact Np|]. split; [lia|]. split; [destruct (noprog p); lia|lia].
      * destruct d as [|b d].
        -- specialize (IH r p1 Hl). destruct (fill_loop i r p1) as [r' p'].
           destruct IH as (Hn & Hm & Hc & Hk). rewrite Np in Hn, Hc. rewrite Hr in Hc, Hk, Hm.
           split; [exact Hn|]. split; [exact Hm|]. split; [destruct (noprog p); lia|exact Hk].
        -- split; [exact Np|]. split; [lia|]. split; [destruct (noprog p); lia|lia].
Qed.

(* ReadBytes: at most B reads at end, and if there was one, the call fails *)
Lemma read_until_reads fuel delim : forall acc r p,
  let '(res, r', p') := read_until fuel delim acc r p in
  noprog p' = noprog p /\ reads_at_end p <= reads_at_end p' /\ reads_at_end p' <= reads_at_end p + B p /\
  (reads_at_end p < reads_at_end p' -> match res with RUOk _ => False | _ => True end).
Proof.
  induction fuel as [|f IH]; intros acc r p; cbn [read_until].
  - split; [reflexivity|]. split; [lia|]. split; [lia|auto].
  - destruct (split_delim delim (rbuf r)) as [[pre post]|] eqn:Es.
    + split; [reflexivity|]. split; [lia|]. split; [lia|lia].
    + destruct (rerr r) as [e|] eqn:Ee.
      * split; [reflexivity|]. split; [lia|]. split; [lia|auto].
      * destruct (bufcap <=? length (rbuf r)) eqn:Ec.
        -- apply IH.
        -- apply Nat.leb_gt in Ec.
           pose proof (fill_loop_reads max_empty_reads r p Ec) as F. unfold fill.
           destruct (fill_loop max_empty_reads r p) as [r1 p1]. destruct F as (Hn & Hm & Hc & Hk).
           assert (HcB : reads_at_end p1 <= reads_at_end p + B p) by (unfold B; destruct (noprog p); lia).
           destruct (Nat.eq_dec (reads_at_end p1) (reads_at_end p)) as [Eq|Ne].
           ++ specialize (IH acc r1 p1). destruct (read_until f delim acc r1 p1) as [[res r'] p'].
              destruct IH as (Hn' & Hm' & Hc' & Hk'). unfold B in *. rewrite Hn in *. rewrite Eq in *.
              split; [congruence|]. split; [exact Hm'|]. split; [exact Hc'|exact Hk'].
           ++ (* reads at end happened: the reader now holds an error and the same buffer *)
              destruct (Hk ltac:(lia)) as [He Hb].
              destruct f as [|f']; cbn [read_until].
              ** split; [exact Hn|]. split; [exact Hm|]. split; [exact HcB|auto].
              ** rewrite Hb, Es. destruct (rerr r1) as [e1|]; [|now elim He].
                 split; [exact Hn|]. split; [exact Hm|]. split; [exact HcB|auto].
Qed.

(* ---- the driver layers ---- *)

Definition rae (s : vdstate) : nat := reads_at_end (pt s).
Definition Bs (s : vdstate) : nat := B (pt s).

(* what every layer below guarantees: same kind of port, the counter only grows, by at most
   [k] * B, and (for the receiving layers) a read at end means failure *)
Definition bounded (k : nat) (s s' : vdstate) : Prop :=
  noprog (pt s') = noprog (pt s) /\ rae s <= rae s' /\ rae s' <= rae s + k * Bs s.

Lemma bounded_trans k1 k2 a b c : bounded k1 a b -> bounded k2 b c -> bounded (k1 + k2) a c.
Proof.
  intros (N1 & M1 & C1) (N2 & M2 & C2). unfold bounded, Bs, B in *. rewrite N1 in *.
  split; [congruence|]. split; [lia|]. rewrite Nat.mul_add_distr_r. lia.
Qed.

Lemma bounded_weaken k k' a b : k <= k' -> bounded k a b -> bounded k' a b.
Proof. intros H (N & M & C). split; [exact N|]. split; [exact M|]. nia. Qed.

Lemma bounded_refl_pt a b : pt b = pt a -> bounded 0 a b.
Proof. intros E. unfold bounded, rae, Bs. rewrite E. split; [reflexivity|]. split; lia. Qed.

Lemma recv_until_reads c delim s :
  let '(res, s') := recv_until c delim s in
  bounded 1 s s' /\ (rae s < rae s' -> match res with Ok _ => False | _ => True end).
Proof.
  unfold recv_until.
  pose proof (read_until_reads (ru_fuel (rd s) (pt s)) delim [] (rd s) (pt s)) as R.
  destruct (read_until _ _ _ _ _) as [[res r'] p']. destruct R as (N & M & C & K).
  unfold bounded, rae, Bs.
  destruct res as [line|e part|]; cbn [pt set_rd_pt]; (split; [split; [exact N|split; [exact M|lia]]|exact K]).
Qed.

Lemma receive_response_reads fuel c : forall s,
  let '(res, s') := receive_response fuel c s in
  bounded 1 s s' /\ (rae s < rae s' -> match res with Ok _ => False | _ => True end).
Proof.
  induction fuel as [|f IH]; intros s; cbn [receive_response].
  - split; [apply bounded_weaken with 0; [lia|now apply bounded_refl_pt]|auto].
  - pose proof (recv_until_reads c c_colon s) as R1.
    destruct (recv_until c c_colon s) as [res1 s1]. destruct R1 as [B1 K1].
    destruct res1 as [o|e1| |]; try (split; [exact B1|exact K1]).
    (* the first recvUntil succeeded: it made no read at end *)
    assert (E1 : rae s1 = rae s).
    { destruct B1 as (_ & M & _). destruct (Nat.eq_dec (rae s1) (rae s)); [assumption|]. exfalso. apply K1. lia. }
    pose proof (recv_until_reads c c_nl s1) as R2.
    destruct (recv_until c c_nl s1) as [res2 s2]. destruct R2 as [B2 K2].
    assert (B12 : bounded 1 s s2 /\ (rae s < rae s2 -> match res2 with Ok _ => False | _ => True end)).
    { destruct B1 as (N1 & _ & _). destruct B2 as (N2 & M2 & C2). unfold bounded, Bs, B in *.
      rewrite N1 in *. rewrite E1 in *. split; [split; [congruence|split; [exact M2|exact C2]]|exact K2]. }
    destruct res2 as [line|e2| |]; try exact B12.
    assert (E2 : rae s2 = rae s).
    { destruct B12 as [(_ & M & _) K]. destruct (Nat.eq_dec (rae s2) (rae s)); [assumption|]. exfalso. apply K. lia. }
    destruct line as [|b l]; [exact B12|]. destruct (beqb b c_A); [|exact B12].
    specialize (IH s2). destruct (receive_response f c s2) as [res3 s3]. destruct IH as [B3 K3].
    destruct B12 as [(N12 & _ & _) _]. destruct B3 as (N3 & M3 & C3). unfold bounded, Bs, B in *.
    rewrite N12 in *. rewrite E2 in *. split; [split; [congruence|split; [exact M3|exact C3]]|exact K3].
Qed.

Lemma send_receive_reads c idle cmd data s : bounded 1 s (snd (send_receive c idle cmd data s)).
Proof.
  unfold send_receive.
  set (s0 := if idle then flush_receiver s else s).
  assert (H0 : bounded 0 s s0).
  { subst s0. destruct idle; [|now apply bounded_refl_pt]. unfold flush_receiver, port_flush, bounded, rae, Bs, B. cbn. split; [reflexivity|]. split; lia. }
  unfold vd_write, port_write.
  destruct (match wfaults (pt s0) with b :: _ => b | [] => false end); cbn [fst snd].
  - apply bounded_weaken with 0; [lia|]. destruct H0 as (N & M & C). unfold bounded, rae, Bs, B in *. cbn [pt noprog reads_at_end].
    split; [exact N|]. split; [exact M|exact C].
  - match goal with |- context[receive_response _ c ?st] => set (s1 := st) end.
    pose proof (receive_response_reads (rr_fuel s1) c s1) as R. destruct (receive_response (rr_fuel s1) c s1) as [res s2].
    destruct R as [R _]. cbn [snd].
    apply (bounded_trans 0 1 s s1 s2); [|exact R].
    destruct H0 as (N & M & C). subst s1. unfold bounded, rae, Bs, B in *. cbn [pt noprog reads_at_end].
    split; [exact N|]. split; [exact M|exact C].
Qed.

Lemma ve_command_reads c idle cmd addr s : bounded 1 s (snd (ve_command c idle cmd addr s)).
Proof.
  unfold ve_command. pose proof (send_receive_reads c idle cmd (cmd_param cmd addr) s) as H.
  destruct (send_receive c idle cmd (cmd_param cmd addr) s) as [[x|e| |] s1]; exact H.
Qed.

Lemma ve_command_get_loop_reads tries c : forall idle addr s,
  bounded tries s (snd (ve_command_get_loop tries c idle addr s)).
Proof.
  induction tries as [|t IH]; intros idle addr s; cbn [ve_command_get_loop snd]; [now apply bounded_refl_pt|].
  pose proof (ve_command_reads c idle 7 addr s) as H1.
  destruct (ve_command c idle 7 addr s) as [[raw|e| |] s1]; cbn [snd] in *.
  - destruct (classify_get addr raw); cbn [snd];
      [apply (bounded_trans 1 t s s1 _ H1 (IH false addr s1))| |]; (apply bounded_weaken with 1; [lia|exact H1]).
  - apply (bounded_trans 1 t s s1 _ H1 (IH false addr s1)).
  - apply bounded_weaken with 1; [lia|exact H1].
  - apply bounded_weaken with 1; [lia|exact H1].
Qed.

Lemma typed_pt c x : pt (snd (typed c x)) = pt (snd x).
Proof. unfold typed, io_line_end. cbn [snd]. destruct (cfg_iolog c); reflexivity. Qed.

Lemma map_res_snd' {A B} (f : A -> res B) x : snd (map_res f x) = snd x.
Proof. destruct x as [[a|e| |] sx]; reflexivity. Qed.

(* C06: every driver call, any state, script and fault schedule *)
Theorem do_call_reads c idle k s : bounded 8 s (snd (do_call c idle k s)).
Proof.
  assert (G : forall a, bounded 8 s (snd (ve_command_get c idle a s))).
  { intros a. unfold ve_command_get. change num_tries with 8. apply ve_command_get_loop_reads. }
  assert (Hpt : forall s1 s2, pt s2 = pt s1 -> bounded 8 s s1 -> bounded 8 s s2).
  { intros s1 s2 E (N & M & C). unfold bounded, rae in *. rewrite E. auto. }
  destruct k; cbn [do_call]; unfold ping, get_device_id, raw_get, get_uint, get_int, get_string, raw_command.
  - apply (Hpt (snd (send_receive c idle 1 [] s))); [now rewrite typed_pt, map_res_snd'|].
    apply bounded_weaken with 1; [lia|apply send_receive_reads].
  - apply (Hpt (snd (ve_command c idle 4 0 s))); [now rewrite typed_pt, map_res_snd'|].
    apply bounded_weaken with 1; [lia|apply ve_command_reads].
  - rewrite map_res_snd'. apply G.
  - apply (Hpt (snd (ve_command_get c idle addr s))); [now rewrite typed_pt, map_res_snd'|apply G].
  - apply (Hpt (snd (ve_command_get c idle addr s))); [now rewrite typed_pt, map_res_snd'|apply G].
  - apply (Hpt (snd (ve_command_get c idle addr s))); [now rewrite typed_pt, map_res_snd'|apply G].
  - rewrite map_res_snd'. apply bounded_weaken with 1; [lia|apply ve_command_reads].
Qed.

(* in numbers *)
Corollary do_call_reads_at_end c idle k s :
  reads_at_end (pt (snd (do_call c idle k s))) <=
  reads_at_end (pt s) + 8 * (if noprog (pt s) then max_empty_reads else 1).
Proof. destruct (do_call_reads c idle k s) as (_ & _ & C). exact C. Qed.
