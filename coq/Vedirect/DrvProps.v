(* Properties stated on the translated source itself (Gen/DrvImpl.v), obtained from the theorems
   about the hand-written model through the refinement of Vedirect/DrvRefine.v, and a few that
   only the source can carry (the value returned together with an error). *)
From GV Require Import Vedirect.DrvSem Gen.DrvImpl Base.HexFacts Vedirect.FrameFacts Vedirect.PortFacts
     Vedirect.DriverFacts Vedirect.DriverSpec Vedirect.DrvRefine.
Import ListNotations.
Local Open Scope Z_scope.

(* ---- one statement for the seven entry points ---- *)

(* a typed call of the translated driver, its result canonicalised to the model's value type *)
Definition canon {A} (inj : A -> value) (r : dout (A * gerr) * dst) : dout (value * gerr) * dst :=
  (match fst r with
   | DVal (a, e) => DVal (inj a, e)
   | DPanic => DPanic
   | DFuel => DFuel
   end, snd r).

Definition go_call (c : cfg) (k : call) : D (value * gerr) :=
  fun s =>
    match k with
    | CPing => canon unit_inj (ping_out (go_Ping c s))
    | CDeviceId => canon VNum (go_GetDeviceId c s)
    | CGetRaw a => canon VBytes (go_VeCommandGet c a s)
    | CGetUint a => canon VNum (go_GetUint c a s)
    | CGetInt a => canon VNum (go_GetInt c a s)
    | CGetString a => canon VBytes (go_GetString c a s)
    | CCommand cmd a => canon VBytes (go_VeCommand c cmd a s)
    end.

Definition call_in_range (k : call) : Prop :=
  match k with
  | CPing | CDeviceId => True
  | CGetRaw a | CGetUint a | CGetInt a | CGetString a => 0 <= a < 65536
  | CCommand cmd a => 0 <= cmd < 256 /\ 0 <= a < 65536
  end.

(* the outcome of the translated call against the model's: same value or same error class, same
   driver state (port traffic, buffered bytes, I/O log) whenever the call returns *)
Definition outcome_rel (out : dout (value * gerr) * dst) (m : res value * vdstate) : Prop :=
  match fst m with
  | Ok x => fst out = DVal (x, None) /\ d_vd (snd out) = snd m
  | Err e => (exists a, fst out = DVal (a, Some e)) /\ d_vd (snd out) = snd m
  | Panic => fst out = DPanic
  | OutOfFuel => fst out = DFuel
  end.

Lemma canon_rel {A} (inj : A -> value) out m : call_rel inj out m -> outcome_rel (canon inj out) m.
Proof.
  unfold call_rel, outcome_rel, canon. destruct (fst m) as [x|e| |]; cbn [fst snd].
  - intros (a & -> & -> & E). split; [reflexivity|now rewrite E].
  - intros (a & -> & E). split; [eexists; reflexivity|now rewrite E].
  - intros ->. reflexivity.
  - intros ->. reflexivity.
Qed.

Theorem go_call_refines c idle k s : call_in_range k ->
  outcome_rel (go_call c k (mkD s idle)) (do_call c idle k s).
Proof.
  destruct k as [| |a|a|a|a|cmd a]; cbn [call_in_range go_call do_call]; intros H.
  - apply canon_rel, go_Ping_refines.
  - apply canon_rel, go_GetDeviceId_refines.
  - apply canon_rel, go_VeCommandGet_refines; exact H.
  - apply canon_rel, go_GetUint_refines; exact H.
  - apply canon_rel, go_GetInt_refines; exact H.
  - apply canon_rel, go_GetString_refines; exact H.
  - destruct H. apply canon_rel, go_VeCommand_refines; assumption.
Qed.

(* ---- C06 on the source: no panic, no fuel exhaustion ---- *)

Theorem src_call_total c idle k s : call_in_range k ->
  fst (go_call c k (mkD s idle)) <> DPanic /\ fst (go_call c k (mkD s idle)) <> DFuel.
Proof.
  intros H. pose proof (go_call_refines c idle k s H) as R. unfold outcome_rel in R.
  destruct (do_call_total c idle k s) as [NF NP].
  destruct (fst (do_call c idle k s)) as [x|e| |].
  - destruct R as [-> _]. split; discriminate.
  - destruct R as [(a & ->) _]. split; discriminate.
  - contradiction.
  - contradiction.
Qed.

(* ---- C01 on the source ---- *)

Lemma res_rel_ok {A} (o : dout (A * gerr)) r v : res_rel o r -> o = DVal (v, None) -> r = Ok v.
Proof.
  destruct r as [a|e| |]; cbn [res_rel].
  - intros -> E. injection E as ->. reflexivity.
  - intros (a & ->) E. discriminate.
  - intros -> E. discriminate.
  - intros -> E. discriminate.
Qed.

Theorem src_get_sound c idle addr s v sd : 0 <= addr < 65536 ->
  go_VeCommandGet c addr (mkD s idle) = (DVal (v, None), sd) ->
  exists d pre body post,
    delivered (pt (d_vd sd)) = delivered (pt s) ++ d /\
    rbuf (rd s) ++ d = pre ++ c_colon :: body ++ c_nl :: post /\
    valid_get_response addr v body.
Proof.
  intros Ha E. destruct (go_VeCommandGet_spec c addr s idle Ha) as (o & idle' & E' & R & _).
  rewrite E in E'. injection E' as <- ->. cbn [d_vd].
  pose proof (res_rel_ok _ _ v R eq_refl) as Em.
  destruct (ve_command_get c idle addr s) as [r s'] eqn:Eg. cbn [fst snd] in *. subst r.
  destruct (ve_command_get_sound c idle addr s v s' Eg) as (d & pre & body & post & H1 & H2 & H3).
  rewrite (Z.mod_small addr 65536) in H3 by lia. eauto 8.
Qed.

Lemma call_rel_ok {A} (inj : A -> value) out m a sd :
  call_rel inj out m -> out = (DVal (a, None), sd) -> m = (Ok (inj a), d_vd sd).
Proof.
  unfold call_rel. destruct m as [r s']. cbn [fst snd]. intros H ->. cbn [fst snd] in H.
  destruct r as [x|e| |].
  - destruct H as (a' & E & -> & Es). injection E as ->. cbn [snd] in Es. rewrite Es. reflexivity.
  - destruct H as (a' & E & _). discriminate.
  - discriminate.
  - discriminate.
Qed.

Theorem src_uint_sound c idle addr s n sd : 0 <= addr < 65536 ->
  go_GetUint c addr (mkD s idle) = (DVal (n, None), sd) ->
  exists v d pre body post, n = le_uint v /\
    delivered (pt (d_vd sd)) = delivered (pt s) ++ d /\
    rbuf (rd s) ++ d = pre ++ c_colon :: body ++ c_nl :: post /\
    valid_get_response addr v body.
Proof.
  intros Ha E. pose proof (call_rel_ok _ _ _ _ _ (go_GetUint_refines c addr s idle Ha) E) as Em.
  destruct (get_uint_sound c idle addr s n (d_vd sd) Em) as (v & d & pre & body & post & H0 & H1 & H2 & H3).
  rewrite (Z.mod_small addr 65536) in H3 by lia. eauto 10.
Qed.

Theorem src_device_id_sound c idle s id sd :
  go_GetDeviceId c (mkD s idle) = (DVal (id, None), sd) ->
  exists d pre body post lo hi rest,
    delivered (pt (d_vd sd)) = delivered (pt s) ++ d /\
    rbuf (rd s) ++ d = pre ++ c_colon :: body ++ c_nl :: post /\
    valid_response 1 body (lo :: hi :: rest) /\ id = bz lo + 256 * bz hi.
Proof.
  intros E. pose proof (call_rel_ok _ _ _ _ _ (go_GetDeviceId_refines c s idle) E) as Em.
  exact (get_device_id_sound c idle s id (d_vd sd) Em).
Qed.

(* ---- C05 on the source: an error comes with the zero value ---- *)

Theorem src_uint_error_zero c addr s n e sd :
  go_GetUint c addr s = (DVal (n, Some e), sd) -> n = 0.
Proof.
  unfold go_GetUint. cbv zeta. unfold bind at 1. unfold bind at 1.
  destruct (go_VeCommandGet c addr s) as [[[raw er]| |] s1]; [|discriminate..].
  destruct er as [e1|]; cbn [gerr_isnil negb].
  - unfold ret at 1. unfold bind at 1.
    destruct ((if orb (cfg_debug c) (cfg_iolog c) then bind (go_ioLoggerLineEnd c) (fun _ => ret tt) else ret tt) s1) as [[u| |] s2];
      [|discriminate..].
    unfold ret. intros E. injection E as <- _ _. reflexivity.
  - unfold bind at 1. rewrite go_littleEndianBytesToUint_spec. unfold ret at 1. unfold bind at 1.
    destruct ((if orb (cfg_debug c) (cfg_iolog c) then bind (go_ioLoggerLineEnd c) (fun _ => ret tt) else ret tt) s1) as [[u| |] s2];
      [|discriminate..].
    unfold ret. intros E. discriminate.
Qed.

Theorem src_int_error_zero c addr s n e sd :
  go_GetInt c addr s = (DVal (n, Some e), sd) -> n = 0.
Proof.
  unfold go_GetInt. cbv zeta. unfold bind at 1. unfold bind at 1.
  destruct (go_VeCommandGet c addr s) as [[[raw er]| |] s1]; [|discriminate..].
  destruct er as [e1|]; cbn [gerr_isnil negb].
  - unfold ret at 1. unfold bind at 1.
    destruct ((if orb (cfg_debug c) (cfg_iolog c) then bind (go_ioLoggerLineEnd c) (fun _ => ret tt) else ret tt) s1) as [[u| |] s2];
      [|discriminate..].
    unfold ret. intros E. injection E as <- _ _. reflexivity.
  - unfold bind at 1. rewrite go_littleEndianBytesToInt_spec. unfold int_result.
    destruct (le_int raw) as [z|]; unfold ret at 1; unfold bind at 1.
    + destruct ((if orb (cfg_debug c) (cfg_iolog c) then bind (go_ioLoggerLineEnd c) (fun _ => ret tt) else ret tt) s1) as [[u| |] s2];
        [|discriminate..].
      unfold ret. intros E. discriminate.
    + destruct ((if orb (cfg_debug c) (cfg_iolog c) then bind (go_ioLoggerLineEnd c) (fun _ => ret tt) else ret tt) s1) as [[u| |] s2];
        [|discriminate..].
      unfold ret. intros E. injection E as <- _ _. reflexivity.
Qed.

Theorem src_string_error_zero c addr s t e sd :
  go_GetString c addr s = (DVal (t, Some e), sd) -> t = [].
Proof.
  unfold go_GetString. cbv zeta. unfold bind at 1. unfold bind at 1.
  destruct (go_VeCommandGet c addr s) as [[[raw er]| |] s1]; [|discriminate..].
  destruct er as [e1|]; cbn [gerr_isnil negb]; unfold ret at 1; unfold bind at 1.
  - destruct ((if orb (cfg_debug c) (cfg_iolog c) then bind (go_ioLoggerLineEnd c) (fun _ => ret tt) else ret tt) s1) as [[u| |] s2];
      [|discriminate..].
    unfold ret. intros E. injection E as <- _ _. reflexivity.
  - destruct ((if orb (cfg_debug c) (cfg_iolog c) then bind (go_ioLoggerLineEnd c) (fun _ => ret tt) else ret tt) s1) as [[u| |] s2];
      [|discriminate..].
    unfold ret. intros E. discriminate.
Qed.

(* the error of a flagged answer has the class the flag byte names *)
Theorem src_device_error_class flag s :
  go_responseError flag s =
  (DVal (if flag =? 0 then None else if flag =? 1 then Some EUnknownId else if flag =? 2 then Some ENotSupported
         else if flag =? 4 then Some EParameter else Some EOther), s).
Proof. rewrite go_responseError_spec. reflexivity. Qed.

(* ---- C03 on the source: the bytes handed to Write ---- *)

Theorem src_frame_written c cmd data v idle : 0 <= cmd < 16 ->
  let out := go_sendCommand c cmd data (mkD v idle) in
  written (pt (d_vd (snd out))) = written (pt v) \/
  (written (pt (d_vd (snd out))) = written (pt v) ++ [tx_frame_data cmd data] /\ tx_wellformed (tx_frame_data cmd data) = true).
Proof.
  intros Hc. cbv zeta. rewrite go_sendCommand_spec by lia. cbn [snd d_vd].
  unfold vd_write. destruct (port_write (tx_frame_data cmd data) (pt v)) as [ok p'] eqn:Ew. cbn [snd pt].
  unfold port_write in Ew. destruct (match wfaults (pt v) with b :: _ => b | [] => false end).
  - injection Ew as <- <-. left. reflexivity.
  - injection Ew as <- <-. right. split; [reflexivity|]. now apply tx_frame_data_wellformed.
Qed.
