(* Vocabulary for the translation of vd.debugPrintf (gvgen dbg): the state is the indentation counter
   logDebugIndent and the number of lines handed to the debug logger; the text is not modelled.
   Import AFTER Vedirect.DrvSem. *)
From GV Require Import Vedirect.DrvSem.
From GV Require Export Base.Bytes Vedirect.Driver.
Open Scope Z_scope.

Record dbgst := mkDbg { dbg_indent : Z; dbg_lines : nat }.
Definition D (A : Type) := dbgst -> dout A * dbgst.
Definition ret {A} (a : A) : D A := fun s => (DVal a, s).
Definition bind {A B} (m : D A) (f : A -> D B) : D B :=
  fun s => match m s with
           | (DVal a, s') => f a s'
           | (DPanic, s') => (DPanic, s')
           | (DFuel, s') => (DFuel, s')
           end.
Definition dpanic {A} : D A := fun s => (DPanic, s).

Definition get_indent : D Z := fun s => (DVal (dbg_indent s), s).
Definition set_indent (z : Z) : D unit := fun s => (DVal tt, mkDbg z (dbg_lines s)).
Definition p_debug_println : D unit := fun s => (DVal tt, mkDbg (dbg_indent s) (S (dbg_lines s))).

(* the text of a debug line *)
Definition g_text : list byte := [].
(* strings.Repeat(s, n): a negative count panics *)
Definition g_repeat_text (n : Z) : D (list byte) := if n <? 0 then dpanic else ret [].

(* strings.Contains *)
Fixpoint is_prefix (p s : list byte) : bool :=
  match p, s with
  | [], _ => true
  | a :: p', b :: s' => beqb a b && is_prefix p' s'
  | _ :: _, [] => false
  end.
Fixpoint g_contains (s needle : list byte) : bool :=
  is_prefix needle s || match s with [] => false | _ :: r => g_contains r needle end.
