(* The driver model against the byte stream: what every layer consumes from
   (buffered ++ delivered), that no modelled loop runs out of fuel, and C01's soundness on
   the bytes received. *)
From GV Require Import Base.Bytes Base.Hex Base.LE Vedirect.Frame Vedirect.FrameFacts
     Vedirect.Port Vedirect.PortFacts Vedirect.Driver Vedirect.DriverFacts.
Local Open Scope nat_scope.

Definition avail (s : vdstate) : nat := List.length (rbuf (rd s)) + pending_bytes (queue (pt s)).

Lemma removelast_snoc {A} (l : list A) x : removelast (l ++ [x]) = l.
Proof. apply removelast_last. Qed.

(* ---- recvUntil ---- *)

Theorem recv_until_spec c delim s :
  let '(res, s') := recv_until c delim s in
  exists d, delivered (pt s') = delivered (pt s) ++ d /\
    match res with
    | Ok out => rbuf (rd s) ++ d = out ++ delim :: rbuf (rd s') /\ ~ In delim out /\
                avail s' + List.length out + 1 = avail s
    | Err _ => rbuf (rd s') = [] /\ avail s' <= avail s
    | Panic => False
    | OutOfFuel => False
    end.
Proof.
  unfold recv_until.
  pose proof (read_until_spec (ru_fuel (rd s) (pt s)) delim [] (rd s) (pt s) (fun H => H)) as Sp.
  pose proof (read_until_fuel (ru_fuel (rd s) (pt s)) delim [] (rd s) (pt s) (ru_fuel_enough _ _)) as F.
  pose proof (read_until_pending (ru_fuel (rd s) (pt s)) delim [] (rd s) (pt s)) as P.
  destruct (read_until _ _ _ _ _) as [[res r'] p']. cbn [fst] in F. cbv beta iota zeta in Sp, P.
  destruct Sp as (d & Hd & Hres). specialize (P F).
  destruct res as [line|e part|]; [exists d|exists d|contradiction]; cbn [pt rd set_rd_pt].
  - split; [exact Hd|]. destruct Hres as (pre & -> & Hn & E). rewrite removelast_snoc.
    cbn [app] in E. split; [rewrite E, <- app_assoc; reflexivity|]. split; [exact Hn|].
    unfold avail. cbn [rd pt ru_out_len List.length] in *. rewrite app_length in P. cbn [List.length] in P. lia.
  - split; [exact Hd|]. destruct Hres as (_ & E & _). split; [exact E|].
    unfold avail, set_rd_pt. cbn [rd pt ru_out_len List.length] in *. lia.
Qed.

(* ---- receiveResponse ---- *)

(* consumption: what is buffered afterwards is a suffix of buffered ++ delivered *)
Definition consumed (s s' : vdstate) (d : list byte) : Prop :=
  delivered (pt s') = delivered (pt s) ++ d /\ exists x, rbuf (rd s) ++ d = x ++ rbuf (rd s').

Lemma chain {A} (a d12 d3 h r2 t : list A) : a ++ d12 = h ++ r2 -> r2 ++ d3 = t -> a ++ d12 ++ d3 = h ++ t.
Proof. intros H1 H2. rewrite app_assoc, H1, <- app_assoc, H2. reflexivity. Qed.

Theorem receive_response_spec fuel c : forall s, avail s < fuel ->
  let '(res, s') := receive_response fuel c s in
  exists d, consumed s s' d /\ avail s' <= avail s /\
    match res with
    | Ok line => exists pre, rbuf (rd s) ++ d = pre ++ c_colon :: line ++ c_nl :: rbuf (rd s') /\ ~ In c_nl line
    | Err _ => True
    | Panic => False
    | OutOfFuel => False
    end.
Proof.
  induction fuel as [|f IH]; intros s Hf; [lia|]. cbn [receive_response].
  pose proof (recv_until_spec c c_colon s) as R1.
  destruct (recv_until c c_colon s) as [[o1|e1| |] s1]; destruct R1 as (d1 & D1 & H1); try contradiction.
  2:{ exists d1. destruct H1 as [E A]. split; [split; [exact D1|exists (rbuf (rd s) ++ d1); now rewrite E, app_nil_r]|]. split; [exact A|exact I]. }
  destruct H1 as (E1 & _ & A1).
  pose proof (recv_until_spec c c_nl s1) as R2.
  destruct (recv_until c c_nl s1) as [[line|e2| |] s2]; destruct R2 as (d2 & D2 & H2); try contradiction.
  2:{ exists (d1 ++ d2). destruct H2 as [E A]. split.
      - split; [rewrite D2, D1; now rewrite app_assoc|]. exists (rbuf (rd s) ++ d1 ++ d2). now rewrite E, app_nil_r.
      - split; [lia|exact I]. }
  destruct H2 as (E2 & N2 & A2).
  (* buffered ++ delivered = o1 ':' line '\n' ++ what is still buffered *)
  assert (Hcat : rbuf (rd s) ++ (d1 ++ d2) = (o1 ++ c_colon :: line ++ [c_nl]) ++ rbuf (rd s2)).
  { rewrite app_assoc, E1. rewrite <- !app_assoc. cbn [app]. rewrite <- app_assoc. cbn [app]. do 2 f_equal. exact E2. }
  assert (Hok : exists d, consumed s s2 d /\ avail s2 <= avail s /\
                  exists pre, rbuf (rd s) ++ d = pre ++ c_colon :: line ++ c_nl :: rbuf (rd s2) /\ ~ In c_nl line).
  { exists (d1 ++ d2). split; [split; [rewrite D2, D1; now rewrite app_assoc|]|].
    - eexists. exact Hcat.
    - split; [lia|]. exists o1. split; [|exact N2]. rewrite Hcat. rewrite <- !app_assoc. cbn [app]. now rewrite <- app_assoc. }
  destruct line as [|b l]; [exact Hok|].
  destruct (beqb b c_A); [|exact Hok].
  (* an async line: loop on the rest *)
  assert (Hf2 : avail s2 < f) by (cbn [List.length] in A2; lia).
  specialize (IH s2 Hf2). destruct (receive_response f c s2) as [res s3].
  destruct IH as (d3 & [D3 [x3 X3]] & A3 & H3). exists ((d1 ++ d2) ++ d3).
  split; [split; [rewrite D3, D2, D1; now rewrite !app_assoc|]|].
  - exists ((o1 ++ c_colon :: (b :: l) ++ [c_nl]) ++ x3).
    rewrite (chain _ _ _ _ _ _ Hcat X3). now rewrite app_assoc.
  - split; [lia|]. destruct res as [line3|e3| |]; try exact H3; try exact I.
    destruct H3 as (pre3 & P3 & N3). exists ((o1 ++ c_colon :: (b :: l) ++ [c_nl]) ++ pre3). split; [|exact N3].
    rewrite (chain _ _ _ _ _ _ Hcat P3). now rewrite app_assoc.
Qed.

(* ---- sendReceive: an optional flush, one write, one receiveResponse ---- *)

Lemma vd_write_reader c f s : rd (snd (vd_write c f s)) = rd s /\ delivered (pt (snd (vd_write c f s))) = delivered (pt s).
Proof. unfold vd_write, port_write. destruct (match wfaults (pt s) with b :: _ => b | [] => false end); cbn; auto. Qed.

Lemma flush_delivered s : delivered (pt (flush_receiver s)) = delivered (pt s) /\ rbuf (rd (flush_receiver s)) = [].
Proof. unfold flush_receiver. cbn. auto. Qed.

(* the frame lies in (buffered ++ delivered): stale bytes discarded by an idle flush are a
   prefix that is simply not looked at *)
Theorem send_receive_spec c idle cmd data s :
  let '(res, s') := send_receive c idle cmd data s in
  exists d, delivered (pt s') = delivered (pt s) ++ d /\ (exists x, rbuf (rd s) ++ d = x ++ rbuf (rd s')) /\
    match res with
    | Ok line => exists pre, rbuf (rd s) ++ d = pre ++ c_colon :: line ++ c_nl :: rbuf (rd s') /\ ~ In c_nl line
    | Err _ => True
    | Panic => False
    | OutOfFuel => False
    end.
Proof.
  unfold send_receive.
  set (s0 := if idle then flush_receiver s else s).
  assert (H0 : delivered (pt s0) = delivered (pt s) /\ exists y, rbuf (rd s) = y ++ rbuf (rd s0)).
  { subst s0. destruct idle; [|split; [reflexivity|exists []; reflexivity]].
    destruct (flush_delivered s) as [-> ->]. split; [reflexivity|]. exists (rbuf (rd s)). now rewrite app_nil_r. }
  destruct H0 as [D0 [y Y]].
  pose proof (vd_write_reader c (tx_frame_data cmd data) s0) as [Wr Wd].
  destruct (vd_write c (tx_frame_data cmd data) s0) as [[|] s1]; cbn [snd] in Wr, Wd.
  - assert (Hf : avail s1 < rr_fuel s1) by (unfold avail, rr_fuel; lia).
    pose proof (receive_response_spec (rr_fuel s1) c s1 Hf) as R.
    destruct (receive_response (rr_fuel s1) c s1) as [res s2].
    destruct R as (d & [D [x X]] & _ & H). exists d. rewrite Wr in *. rewrite Wd, D0 in D.
    split; [exact D|]. split; [exists (y ++ x); rewrite Y, <- !app_assoc; now rewrite X|].
    destruct res as [line|e| |]; try exact H.
    destruct H as (pre & P & N). exists (y ++ pre). split; [|exact N]. rewrite Y, <- !app_assoc. now rewrite P.
  - exists []. rewrite app_nil_r. rewrite Wd, D0, Wr. split; [reflexivity|]. split; [exists y; now rewrite app_nil_r|exact I].
Qed.

(* ---- the retry loop: C01 on the bytes received ---- *)

Theorem ve_command_get_loop_sound tries c : forall idle addr s, (0 <= addr < 65536)%Z ->
  let '(res, s') := ve_command_get_loop tries c idle addr s in
  exists d, delivered (pt s') = delivered (pt s) ++ d /\ (exists x, rbuf (rd s) ++ d = x ++ rbuf (rd s')) /\
    match res with
    | Ok v => exists pre body post, rbuf (rd s) ++ d = pre ++ c_colon :: body ++ c_nl :: post /\
                                    valid_get_response addr v body
    | Err _ => True
    | Panic => False
    | OutOfFuel => False
    end.
Proof.
  induction tries as [|t IH]; intros idle addr s Ha; cbn [ve_command_get_loop].
  - exists []. split; [now rewrite app_nil_r|]. split; [exists []; now rewrite app_nil_r|exact I].
  - unfold ve_command.
    pose proof (send_receive_spec c idle 7 (cmd_param 7 addr) s) as R.
    destruct (send_receive c idle 7 (cmd_param 7 addr) s) as [[line|e| |] s1];
      destruct R as (d1 & D1 & [x1 X1] & H1); try contradiction.
    + (* a line was received *)
      destruct (parse_response 7 line) as [raw|pe| |] eqn:Ep.
      * destruct (classify_get addr raw) as [|ge|v] eqn:Ec.
        -- (* retry *)
           specialize (IH false addr s1 Ha). destruct (ve_command_get_loop t c false addr s1) as [res s2].
           destruct IH as (d2 & D2 & [x2 X2] & H2). exists (d1 ++ d2).
           split; [rewrite D2, D1; now rewrite app_assoc|].
           split; [exists (x1 ++ x2); rewrite app_assoc, X1, <- !app_assoc; now rewrite X2|].
           destruct res as [v|e2| |]; try exact H2.
           destruct H2 as (pre & body & post & P & V). exists (x1 ++ pre), body, post. split; [|exact V].
           rewrite app_assoc, X1, <- !app_assoc. now rewrite P.
        -- exists d1. split; [exact D1|]. split; [exists x1; exact X1|exact I].
        -- exists d1. split; [exact D1|]. split; [exists x1; exact X1|].
           destruct H1 as (pre & P & _). exists pre, line, (rbuf (rd s1)). split; [exact P|].
           eapply get_value_sound; eassumption.
      * (* invalid line: retry *)
        specialize (IH false addr s1 Ha). destruct (ve_command_get_loop t c false addr s1) as [res s2].
        destruct IH as (d2 & D2 & [x2 X2] & H2). exists (d1 ++ d2).
        split; [rewrite D2, D1; now rewrite app_assoc|].
        split; [exists (x1 ++ x2); rewrite app_assoc, X1, <- !app_assoc; now rewrite X2|].
        destruct res as [v|e2| |]; try exact H2.
        destruct H2 as (pre & body & post & P & V). exists (x1 ++ pre), body, post. split; [|exact V].
        rewrite app_assoc, X1, <- !app_assoc. now rewrite P.
      * exfalso. destruct (parse_response_no_panic 7 line) as [N1 N2]. congruence.
      * exfalso. destruct (parse_response_no_panic 7 line) as [N1 N2]. congruence.
    + (* the exchange failed: retry *)
      specialize (IH false addr s1 Ha). destruct (ve_command_get_loop t c false addr s1) as [res s2].
      destruct IH as (d2 & D2 & [x2 X2] & H2). exists (d1 ++ d2).
      split; [rewrite D2, D1; now rewrite app_assoc|].
      split; [exists (x1 ++ x2); rewrite app_assoc, X1, <- !app_assoc; now rewrite X2|].
      destruct res as [v|e2| |]; try exact H2.
      destruct H2 as (pre & body & post & P & V). exists (x1 ++ pre), body, post. split; [|exact V].
      rewrite app_assoc, X1, <- !app_assoc. now rewrite P.
Qed.

Lemma mod_65536_range a : (0 <= a mod 65536 < 65536)%Z.
Proof. apply Z.mod_pos_bound. reflexivity. Qed.

(* C01, raw accessor: a value is returned only if (bytes buffered before the call ++ bytes
   handed out by the port during the call) contain ':' body '\n' with body a valid Get
   response for the address with flag 0 carrying exactly that value *)
Theorem ve_command_get_sound c idle addr s v s' :
  ve_command_get c idle addr s = (Ok v, s') ->
  exists d pre body post,
    delivered (pt s') = delivered (pt s) ++ d /\
    rbuf (rd s) ++ d = pre ++ c_colon :: body ++ c_nl :: post /\
    valid_get_response (addr mod 65536) v body.
Proof.
  unfold ve_command_get. intros H.
  pose proof (ve_command_get_loop_sound num_tries c idle (addr mod 65536)%Z s (mod_65536_range addr)) as Sp.
  rewrite H in Sp. destruct Sp as (d & D & _ & pre & body & post & P & V). exists d, pre, body, post. auto.
Qed.

(* the device-id query: a Done (type 1) frame whose first two payload bytes are the id *)
Theorem get_device_id_sound c idle s id s' :
  get_device_id c idle s = (Ok (VNum id), s') ->
  exists d pre body post lo hi rest,
    delivered (pt s') = delivered (pt s) ++ d /\
    rbuf (rd s) ++ d = pre ++ c_colon :: body ++ c_nl :: post /\
    valid_response 1 body (lo :: hi :: rest) /\ id = (bz lo + 256 * bz hi)%Z.
Proof.
  unfold get_device_id, typed, map_res, ve_command. intros H.
  pose proof (send_receive_spec c idle 4 (cmd_param 4 0) s) as R.
  destruct (send_receive c idle 4 (cmd_param 4 0) s) as [[line|e| |] s1]; destruct R as (d & D & _ & H1); try discriminate.
  destruct (parse_response 4 line) as [raw|pe| |] eqn:Ep; try discriminate.
  destruct raw as [|lo [|hi rest]]; try discriminate.
  cbv beta iota delta [fst snd] in H. injection H as Hid Hs. subst s'.
  destruct H1 as (pre & P & _).
  exists d, pre, line, (rbuf (rd s1)), lo, hi, rest.
  assert (T : delivered (pt (io_line_end c s1)) = delivered (pt s1)) by (unfold io_line_end; destruct (cfg_iolog c); reflexivity).
  rewrite T. split; [exact D|]. split; [exact P|]. split; [|symmetry; exact Hid].
  apply (parse_response_sound 4). exact Ep.
Qed.

(* ---- C06: the modelled loops never run out of fuel ---- *)

Lemma send_receive_total c idle cmd data s : fst (send_receive c idle cmd data s) <> OutOfFuel.
Proof.
  pose proof (send_receive_spec c idle cmd data s) as R.
  destruct (send_receive c idle cmd data s) as [[l|e| |] s1]; cbn [fst]; try discriminate.
  destruct R as (d & _ & _ & F). contradiction.
Qed.

Lemma ve_command_total c idle cmd addr s : fst (ve_command c idle cmd addr s) <> OutOfFuel.
Proof.
  unfold ve_command. pose proof (send_receive_total c idle cmd (cmd_param cmd addr) s) as H.
  destruct (send_receive _ _ _ _ _) as [[l|e| |] s1]; cbn [fst] in *; try discriminate; try congruence.
  apply parse_response_no_panic.
Qed.

Lemma ve_command_get_loop_total tries c idle addr s : fst (ve_command_get_loop tries c idle addr s) <> OutOfFuel.
Proof.
  revert idle s. induction tries as [|t IH]; intros idle s; cbn [ve_command_get_loop]; [discriminate|].
  pose proof (ve_command_total c idle 7 addr s) as H.
  destruct (ve_command c idle 7 addr s) as [[raw|e| |] s1]; cbn [fst] in *; try discriminate; try congruence; try apply IH.
  destruct (classify_get addr raw); [apply IH|discriminate|discriminate].
Qed.

(* every driver call returns a value or an error, for every state, script and fault schedule *)
Theorem do_call_total c idle k s : fst (do_call c idle k s) <> OutOfFuel /\ fst (do_call c idle k s) <> Panic.
Proof.
  split; [|apply do_call_no_panic].
  destruct k as [| |a|a|a|a|cmd a]; cbn [do_call];
    unfold ping, get_device_id, get_uint, get_int, get_string, raw_get, raw_command, typed, map_res, ve_command_get;
    cbn [fst].
  - pose proof (send_receive_total c idle 1 [] s). destruct (send_receive _ _ _ _ _) as [[x|e| |] s1]; cbn [fst] in *; congruence.
  - pose proof (ve_command_total c idle 4 0 s) as H.
    destruct (ve_command c idle 4 0 s) as [[raw|e| |] s1]; cbn [fst] in *; try congruence.
    destruct raw as [|lo [|hi r]]; discriminate.
  - pose proof (ve_command_get_loop_total num_tries c idle (a mod 65536) s).
    destruct (ve_command_get_loop _ _ _ _ _) as [[x|e| |] s1]; cbn [fst] in *; congruence.
  - pose proof (ve_command_get_loop_total num_tries c idle (a mod 65536) s).
    destruct (ve_command_get_loop _ _ _ _ _) as [[x|e| |] s1]; cbn [fst] in *; congruence.
  - pose proof (ve_command_get_loop_total num_tries c idle (a mod 65536) s).
    destruct (ve_command_get_loop _ _ _ _ _) as [[x|e| |] s1]; cbn [fst] in *; try congruence.
    destruct (le_int x); discriminate.
  - pose proof (ve_command_get_loop_total num_tries c idle (a mod 65536) s).
    destruct (ve_command_get_loop _ _ _ _ _) as [[x|e| |] s1]; cbn [fst] in *; congruence.
  - pose proof (ve_command_total c idle (cmd mod 256) (a mod 65536) s).
    destruct (ve_command _ _ _ _ _) as [[x|e| |] s1]; cbn [fst] in *; congruence.
Qed.

(* ---- the typed accessors ---- *)

Lemma io_line_end_delivered c s : delivered (pt (io_line_end c s)) = delivered (pt s).
Proof. unfold io_line_end. destruct (cfg_iolog c); reflexivity. Qed.

Lemma typed_get_sound c idle addr s (f : list byte -> res value) val s' :
  typed c (map_res f (ve_command_get c idle addr s)) = (Ok val, s') ->
  exists v d pre body post,
    f v = Ok val /\
    delivered (pt s') = delivered (pt s) ++ d /\
    rbuf (rd s) ++ d = pre ++ c_colon :: body ++ c_nl :: post /\
    valid_get_response (addr mod 65536) v body.
Proof.
  unfold typed, map_res. destruct (ve_command_get c idle addr s) as [[v|e| |] s1] eqn:E; cbn [fst snd]; intros H; try discriminate.
  injection H as Hf Hs. subst s'.
  destruct (ve_command_get_sound c idle addr s v s1 E) as (d & pre & body & post & D & P & V).
  exists v, d, pre, body, post. rewrite io_line_end_delivered. auto.
Qed.

(* GetUint / GetInt / GetString return exactly the decoding of such a frame's value *)
Theorem get_uint_sound c idle addr s n s' :
  get_uint c idle addr s = (Ok (VNum n), s') ->
  exists v d pre body post, n = le_uint v /\
    delivered (pt s') = delivered (pt s) ++ d /\
    rbuf (rd s) ++ d = pre ++ c_colon :: body ++ c_nl :: post /\
    valid_get_response (addr mod 65536) v body.
Proof.
  intros H. apply typed_get_sound in H as (v & d & pre & body & post & F & D & P & V).
  exists v, d, pre, body, post. injection F as <-. auto.
Qed.

Theorem get_int_sound c idle addr s n s' :
  get_int c idle addr s = (Ok (VNum n), s') ->
  exists v d pre body post, le_int v = Some n /\
    delivered (pt s') = delivered (pt s) ++ d /\
    rbuf (rd s) ++ d = pre ++ c_colon :: body ++ c_nl :: post /\
    valid_get_response (addr mod 65536) v body.
Proof.
  intros H. apply typed_get_sound in H as (v & d & pre & body & post & F & D & P & V).
  exists v, d, pre, body, post. destruct (le_int v) as [z|]; [|discriminate]. injection F as <-. auto.
Qed.

Theorem get_string_sound c idle addr s t s' :
  get_string c idle addr s = (Ok (VBytes t), s') ->
  exists v d pre body post, t = strip_nul v /\
    delivered (pt s') = delivered (pt s) ++ d /\
    rbuf (rd s) ++ d = pre ++ c_colon :: body ++ c_nl :: post /\
    valid_get_response (addr mod 65536) v body.
Proof.
  intros H. apply typed_get_sound in H as (v & d & pre & body & post & F & D & P & V).
  exists v, d, pre, body, post. injection F as <-. auto.
Qed.
