(* C18: logging is transparent (results, port and reader state do not depend on the logger
   configuration or on the log buffers), and the shape of the I/O log. *)
From GV Require Import Base.Bytes Base.Hex Base.LE Vedirect.Frame Vedirect.Port Vedirect.Driver Vedirect.DriverFacts.

Definition sim (a b : vdstate) : Prop := rd a = rd b /\ pt a = pt b.

Lemma sim_refl a : sim a a. Proof. split; reflexivity. Qed.

Definition rsim {A} (x y : res A * vdstate) : Prop := fst x = fst y /\ sim (snd x) (snd y).

Lemma recv_until_sim c1 c2 delim a b : sim a b -> rsim (recv_until c1 delim a) (recv_until c2 delim b).
Proof.
  intros [Hr Hp]. unfold recv_until. rewrite Hr, Hp.
  destruct (read_until _ _ _ _ _) as [[[line|e part|] r'] p']; split; try reflexivity; split; reflexivity.
Qed.

Lemma receive_response_sim fuel c1 c2 a b :
  sim a b -> rsim (receive_response fuel c1 a) (receive_response fuel c2 b).
Proof.
  revert a b. induction fuel as [|f IH]; intros a b H; cbn [receive_response].
  - split; [reflexivity|exact H].
  - pose proof (recv_until_sim c1 c2 c_colon a b H) as [E1 S1].
    destruct (recv_until c1 c_colon a) as [r1 a1], (recv_until c2 c_colon b) as [r1' b1].
    cbn [fst snd] in *. subst r1'. destruct r1 as [x|e| |]; try (split; [reflexivity|exact S1]).
    pose proof (recv_until_sim c1 c2 c_nl a1 b1 S1) as [E2 S2].
    destruct (recv_until c1 c_nl a1) as [r2 a2], (recv_until c2 c_nl b1) as [r2' b2].
    cbn [fst snd] in *. subst r2'. destruct r2 as [line|e| |]; try (split; [reflexivity|exact S2]).
    destruct line as [|x0 l]; [split; [reflexivity|exact S2]|].
    destruct (beqb x0 c_A); [apply IH; exact S2|split; [reflexivity|exact S2]].
Qed.

Lemma rr_fuel_sim a b : sim a b -> rr_fuel a = rr_fuel b.
Proof. intros [Hr Hp]. unfold rr_fuel. now rewrite Hr, Hp. Qed.

Lemma send_receive_sim c1 c2 idle cmd data a b :
  sim a b -> rsim (send_receive c1 idle cmd data a) (send_receive c2 idle cmd data b).
Proof.
  intros H. unfold send_receive.
  assert (H0 : sim (if idle then flush_receiver a else a) (if idle then flush_receiver b else b)).
  { destruct idle; [|exact H]. destruct H as [Hr Hp]. unfold flush_receiver. rewrite Hp.
    destruct (port_flush (pt b)). split; reflexivity. }
  destruct H0 as [Hr Hp]. unfold vd_write. rewrite Hp.
  destruct (port_write _ _) as [[|] p'].
  - cbn [fst snd]. erewrite rr_fuel_sim; [apply receive_response_sim|]; split; cbn; auto.
  - split; [reflexivity|split; cbn; auto].
Qed.

Lemma ve_command_sim c1 c2 idle cmd addr a b :
  sim a b -> rsim (ve_command c1 idle cmd addr a) (ve_command c2 idle cmd addr b).
Proof.
  intros H. unfold ve_command.
  pose proof (send_receive_sim c1 c2 idle cmd (cmd_param cmd addr) a b H) as [E S].
  destruct (send_receive c1 _ _ _ a) as [r a1], (send_receive c2 _ _ _ b) as [r' b1].
  cbn [fst snd] in *. subst r'. destruct r; split; try reflexivity; exact S.
Qed.

Lemma ve_command_get_loop_sim tries c1 c2 idle addr a b :
  sim a b -> rsim (ve_command_get_loop tries c1 idle addr a) (ve_command_get_loop tries c2 idle addr b).
Proof.
  revert idle a b. induction tries as [|t IH]; intros idle a b H; cbn [ve_command_get_loop].
  - split; [reflexivity|exact H].
  - pose proof (ve_command_sim c1 c2 idle 7 addr a b H) as [E S].
    destruct (ve_command c1 idle 7 addr a) as [r a1], (ve_command c2 idle 7 addr b) as [r' b1].
    cbn [fst snd] in *. subst r'. destruct r as [raw|e| |]; try (split; [reflexivity|exact S]).
    + destruct (classify_get addr raw); [apply IH; exact S|split; [reflexivity|exact S]..].
    + apply IH; exact S.
Qed.

Lemma io_line_end_sim c1 c2 a b : sim a b -> sim (io_line_end c1 a) (io_line_end c2 b).
Proof. intros [Hr Hp]. unfold io_line_end. destruct (cfg_iolog c1), (cfg_iolog c2); split; cbn; auto. Qed.

Lemma map_res_sim {A B} (f : A -> res B) x y : rsim x y -> rsim (map_res f x) (map_res f y).
Proof.
  intros [E S]. destruct x as [r a], y as [r' b]. cbn [fst snd] in *. subst r'.
  destruct r; split; try reflexivity; exact S.
Qed.

Lemma typed_sim c1 c2 x y : rsim x y -> rsim (typed c1 x) (typed c2 y).
Proof. intros [E S]. split; [exact E|]. cbn [snd typed]. apply io_line_end_sim, S. Qed.

(* one call: result and I/O state are independent of the logger configuration *)
Theorem do_call_sim c1 c2 idle k a b : sim a b -> rsim (do_call c1 idle k a) (do_call c2 idle k b).
Proof.
  intros H. destruct k as [| |x|x|x|x|cmd x]; cbn [do_call];
    unfold ping, get_device_id, get_uint, get_int, get_string, raw_get, raw_command, ve_command_get;
    try apply typed_sim; apply map_res_sim;
    first [apply send_receive_sim | apply ve_command_sim | apply ve_command_get_loop_sim]; exact H.
Qed.

Theorem run_calls_sim c1 c2 ks a b :
  sim a b -> fst (run_calls c1 ks a) = fst (run_calls c2 ks b) /\ sim (snd (run_calls c1 ks a)) (snd (run_calls c2 ks b)).
Proof.
  revert a b. induction ks as [|[idle k] ks IH]; intros a b H; cbn [run_calls].
  - split; [reflexivity|exact H].
  - pose proof (do_call_sim c1 c2 idle k a b H) as [E S].
    destruct (do_call c1 idle k a) as [r a1], (do_call c2 idle k b) as [r' b1].
    cbn [fst snd] in *. subst r'.
    destruct r; try (split; [reflexivity|exact S]);
      (specialize (IH a1 b1 S); destruct (run_calls c1 ks a1), (run_calls c2 ks b1); cbn [fst snd] in *;
       destruct IH as [-> S2]; split; [reflexivity|exact S2]).
Qed.

(* without an I/O logger no line is emitted and the log buffers stay empty *)
Lemma no_iolog_no_lines c idle k s :
  cfg_iolog c = false -> io_lines (snd (do_call c idle k s)) = io_lines s.
Proof.
  intros Hc.
  assert (R : forall d s0, io_lines (snd (recv_until c d s0)) = io_lines s0).
  { intros d s0. unfold recv_until. destruct (read_until _ _ _ _ _) as [[[line|e part|] r'] p']; reflexivity. }
  assert (RR : forall f s0, io_lines (snd (receive_response f c s0)) = io_lines s0).
  { induction f as [|f IH]; intros s0; cbn [receive_response]; [reflexivity|].
    pose proof (R c_colon s0) as H1. destruct (recv_until c c_colon s0) as [[x|e| |] s1]; cbn [snd] in *; try exact H1.
    pose proof (R c_nl s1) as H2. destruct (recv_until c c_nl s1) as [[line|e| |] s2]; cbn [snd] in *; try congruence.
    destruct line as [|x0 l]; [cbn; congruence|]. destruct (beqb x0 c_A); [rewrite IH|cbn [snd]]; congruence. }
  assert (SR : forall idle0 cmd data s0, io_lines (snd (send_receive c idle0 cmd data s0)) = io_lines s0).
  { intros idle0 cmd data s0. unfold send_receive, vd_write.
    assert (F : io_lines (if idle0 then flush_receiver s0 else s0) = io_lines s0).
    { destruct idle0; [|reflexivity]. unfold flush_receiver. destruct (port_flush _). reflexivity. }
    destruct (port_write _ _) as [[|] p']; cbn [snd]; [rewrite RR|]; exact F. }
  assert (VC : forall idle0 cmd a s0, io_lines (snd (ve_command c idle0 cmd a s0)) = io_lines s0).
  { intros. unfold ve_command. pose proof (SR idle0 cmd (cmd_param cmd a) s0) as H.
    destruct (send_receive _ _ _ _ _) as [[x|e| |] s1]; exact H. }
  assert (VG : forall t idle0 a s0, io_lines (snd (ve_command_get_loop t c idle0 a s0)) = io_lines s0).
  { induction t as [|t IH]; intros; cbn [ve_command_get_loop]; [reflexivity|].
    pose proof (VC idle0 7 a s0) as H. destruct (ve_command c idle0 7 a s0) as [[raw|e| |] s1]; cbn [snd] in *; try exact H.
    - destruct (classify_get a raw); [rewrite IH|cbn [snd]..]; exact H.
    - rewrite IH; exact H. }
  assert (LE : forall s0, io_lines (io_line_end c s0) = io_lines s0) by (intros; unfold io_line_end; now rewrite Hc).
  destruct k as [| |x|x|x|x|cmd x]; cbn [do_call];
    unfold ping, get_device_id, get_uint, get_int, get_string, raw_get, raw_command, ve_command_get, typed;
    cbn [snd]; rewrite ?LE;
    match goal with |- io_lines (snd (map_res ?f ?x)) = _ =>
      let H := fresh in assert (H : snd (map_res f x) = snd x) by (destruct x as [[?|?| |] ?]; reflexivity); rewrite H end;
    auto.
Qed.

Lemma map_res_snd_eq {A B} (f : A -> res B) x : snd (map_res f x) = snd x.
Proof. destruct x as [[a|e| |] s]; reflexivity. Qed.

(* ---- the I/O log: with the logger on, the tx part of a typed call's line is exactly the
        frames successfully written during the call ---- *)

Definition tx_inv (s : vdstate) (w0 : list (list byte)) (t0 : list byte) : Prop :=
  exists ws, written (pt s) = w0 ++ ws /\ io_tx s = t0 ++ concat ws.

Lemma tx_inv_refl s : tx_inv s (written (pt s)) (io_tx s).
Proof. exists []. now rewrite !app_nil_r. Qed.

Section TxLog.
  Context (c : cfg) (Hlog : cfg_iolog c = true).

  Lemma recv_until_tx delim s w0 t0 : tx_inv s w0 t0 -> tx_inv (snd (recv_until c delim s)) w0 t0.
  Proof.
    intros (ws & W & T). unfold recv_until.
    pose proof (DriverFacts.read_until_wstate (ru_fuel (rd s) (pt s)) delim [] (rd s) (pt s)) as H.
    destruct (read_until _ _ _ _ _) as [[[line|e part|] r'] p']; cbn [snd] in *;
      unfold DriverFacts.wstate in H; injection H as Hw _ _ _; exists ws; cbn [pt io_tx set_rd_pt]; rewrite Hw; auto.
  Qed.

  Lemma receive_response_tx fuel : forall s w0 t0, tx_inv s w0 t0 -> tx_inv (snd (receive_response fuel c s)) w0 t0.
  Proof.
    induction fuel as [|f IH]; intros s w0 t0 H; cbn [receive_response]; [exact H|].
    pose proof (recv_until_tx c_colon s w0 t0 H) as H1.
    destruct (recv_until c c_colon s) as [[x|e| |] s1]; cbn [snd] in *; try exact H1.
    pose proof (recv_until_tx c_nl s1 w0 t0 H1) as H2.
    destruct (recv_until c c_nl s1) as [[line|e| |] s2]; cbn [snd] in *; try exact H2.
    destruct line as [|b l]; [exact H2|]. destruct (beqb b c_A); [now apply IH|exact H2].
  Qed.

  Lemma send_receive_tx idle cmd data s w0 t0 : tx_inv s w0 t0 -> tx_inv (snd (send_receive c idle cmd data s)) w0 t0.
  Proof.
    intros H. unfold send_receive.
    assert (H0 : tx_inv (if idle then flush_receiver s else s) w0 t0).
    { destruct idle; [|exact H]. destruct H as (ws & W & T). exists ws. unfold flush_receiver, port_flush. cbn. auto. }
    destruct H0 as (ws & W & T). unfold vd_write, port_write.
    destruct (match wfaults (pt _) with b :: _ => b | [] => false end); cbn [fst snd].
    - exists ws. cbn. auto.
    - apply receive_response_tx. exists (ws ++ [tx_frame_data cmd data]). cbn [pt written io_tx]. rewrite Hlog. cbn [andb].
      rewrite W, T. rewrite !app_assoc. split; [reflexivity|]. rewrite concat_app. cbn [concat]. now rewrite app_nil_r, app_assoc.
  Qed.

  Lemma ve_command_tx idle cmd addr s w0 t0 : tx_inv s w0 t0 -> tx_inv (snd (ve_command c idle cmd addr s)) w0 t0.
  Proof.
    intros H. unfold ve_command. pose proof (send_receive_tx idle cmd (cmd_param cmd addr) s w0 t0 H) as H1.
    destruct (send_receive c idle cmd (cmd_param cmd addr) s) as [[x|e| |] s1]; exact H1.
  Qed.

  Lemma ve_command_get_loop_tx tries : forall idle addr s w0 t0,
    tx_inv s w0 t0 -> tx_inv (snd (ve_command_get_loop tries c idle addr s)) w0 t0.
  Proof.
    induction tries as [|t IH]; intros idle addr s w0 t0 H; cbn [ve_command_get_loop]; [exact H|].
    pose proof (ve_command_tx idle 7 addr s w0 t0 H) as H1.
    destruct (ve_command c idle 7 addr s) as [[raw|e| |] s1]; cbn [snd] in *; try exact H1; try (now apply IH).
    destruct (classify_get addr raw); [now apply IH|exact H1|exact H1].
  Qed.

  (* every typed call emits exactly one line; its tx part is what was logged before the call
     followed by the frames successfully written during the call, in order *)
  Theorem typed_call_one_line idle k s :
    match k with CPing | CDeviceId | CGetUint _ | CGetInt _ | CGetString _ => True | _ => False end ->
    exists ws rx,
      written (pt (snd (do_call c idle k s))) = written (pt s) ++ ws /\
      io_lines (snd (do_call c idle k s)) = io_lines s ++ [(io_tx s ++ concat ws, rx)] /\
      io_tx (snd (do_call c idle k s)) = [] /\ io_rx (snd (do_call c idle k s)) = [].
  Proof.
    intros Hk.
    assert (Hend : forall x, tx_inv x (written (pt s)) (io_tx s) -> io_lines x = io_lines s ->
              exists ws rx, written (pt (io_line_end c x)) = written (pt s) ++ ws /\
                            io_lines (io_line_end c x) = io_lines s ++ [(io_tx s ++ concat ws, rx)] /\
                            io_tx (io_line_end c x) = [] /\ io_rx (io_line_end c x) = []).
    { intros x (ws & W & T) L. exists ws, (io_rx x). unfold io_line_end. rewrite Hlog. cbn. rewrite W, T, L. auto. }
    assert (Lines : forall f st, io_lines (snd (receive_response f c st)) = io_lines st).
    { induction f as [|f IH]; intros st; cbn [receive_response]; [reflexivity|].
      assert (R : forall d s0, io_lines (snd (recv_until c d s0)) = io_lines s0).
      { intros d s0. unfold recv_until. destruct (read_until _ _ _ _ _) as [[[line|e part|] r'] p']; reflexivity. }
      pose proof (R c_colon st) as H1. destruct (recv_until c c_colon st) as [[x|e| |] s1]; cbn [snd] in *; try exact H1.
      pose proof (R c_nl s1) as H2. destruct (recv_until c c_nl s1) as [[line|e| |] s2]; cbn [snd] in *; try congruence.
      destruct line as [|b l]; [cbn [snd]; congruence|]. destruct (beqb b c_A); [rewrite IH|cbn [snd]]; congruence. }
    assert (SR : forall idle0 cmd data st, io_lines (snd (send_receive c idle0 cmd data st)) = io_lines st).
    { intros. unfold send_receive, vd_write.
      assert (F : io_lines (if idle0 then flush_receiver st else st) = io_lines st) by (destruct idle0; [unfold flush_receiver; destruct (port_flush _)|]; reflexivity).
      destruct (port_write _ _) as [[|] p']; cbn [snd]; [rewrite Lines|]; exact F. }
    assert (VC : forall idle0 cmd a st, io_lines (snd (ve_command c idle0 cmd a st)) = io_lines st).
    { intros. unfold ve_command. pose proof (SR idle0 cmd (cmd_param cmd a) st) as H.
      destruct (send_receive _ _ _ _ _) as [[x|e| |] s1]; exact H. }
    assert (VG : forall t idle0 a st, io_lines (snd (ve_command_get_loop t c idle0 a st)) = io_lines st).
    { induction t as [|t IH]; intros; cbn [ve_command_get_loop]; [reflexivity|].
      pose proof (VC idle0 7 a st) as H. destruct (ve_command c idle0 7 a st) as [[raw|e| |] s1]; cbn [snd] in *; try exact H.
      - destruct (classify_get a raw); [rewrite IH|cbn [snd]..]; exact H.
      - rewrite IH; exact H. }
    destruct k as [| |a|a|a|a|cmd a]; try contradiction; cbn [do_call];
      unfold ping, get_device_id, get_uint, get_int, get_string, ve_command_get, typed; cbn [snd];
      rewrite map_res_snd_eq; apply Hend;
      first [ apply send_receive_tx; apply tx_inv_refl | apply ve_command_tx; apply tx_inv_refl
            | apply ve_command_get_loop_tx; apply tx_inv_refl | apply SR | apply VC | apply VG ].
  Qed.
End TxLog.
