(* Facts about the scripted port and the bufio model: what a read delivers, what ReadBytes
   returns, and that the supplied fuel always suffices. *)
From GV Require Import Base.Bytes Vedirect.Frame Vedirect.Port.
Local Open Scope nat_scope.

Lemma bufcap_pos : 0 < bufcap.
Proof. apply Nat.ltb_lt. vm_compute. reflexivity. Qed.

(* ---- port_read ---- *)

Definition qsize (q : list revent) : nat := pending_bytes q + List.length q.

Lemma port_read_spec n p :
  let '(d, e, p') := port_read n p in
  delivered p' = delivered p ++ d /\ List.length d <= n /\
  noprog p' = noprog p /\
  (* progress: data or an error consumes from the queue *)
  (d <> [] -> qsize (queue p') < qsize (queue p)) /\
  (qsize (queue p') <= qsize (queue p)).
Proof.
  unfold port_read. destruct n as [|n].
  - cbn. rewrite app_nil_r. repeat split; auto; try congruence.
  - destruct (queue p) as [|[d| | |] q] eqn:Eq.
    + cbn. rewrite app_nil_r. repeat split; auto; try lia; try congruence.
    + cbn [delivered noprog queue]. split; [reflexivity|]. split; [rewrite firstn_length; lia|]. split; [reflexivity|].
      assert (L : List.length d = List.length (firstn (S n) d) + List.length (skipn (S n) d))
        by (rewrite <- app_length, firstn_skipn; reflexivity).
      unfold qsize. split.
      * intros Hne. destruct (skipn (S n) d) as [|x xs] eqn:Es; cbn [pending_bytes List.length] in *; [lia|].
        assert (List.length (firstn (S n) d) <> 0) by (destruct (firstn (S n) d); [contradiction|cbn; lia]). lia.
      * destruct (skipn (S n) d) as [|x xs] eqn:Es; cbn [pending_bytes List.length] in *; lia.
    + cbn. rewrite app_nil_r. unfold qsize. cbn [pending_bytes List.length]. repeat split; auto; try lia; try congruence.
    + cbn. rewrite app_nil_r. unfold qsize. cbn [pending_bytes List.length]. repeat split; auto; try lia; try congruence.
    + cbn. rewrite app_nil_r. unfold qsize. cbn [pending_bytes List.length]. repeat split; auto; try lia; try congruence.
Qed.

(* ---- fill ---- *)

Lemma fill_loop_spec i r p : rerr r = None ->
  let '(r', p') := fill_loop i r p in
  exists d, rbuf r' = rbuf r ++ d /\ delivered p' = delivered p ++ d /\
            List.length d <= bufcap - List.length (rbuf r) /\
            qsize (queue p') <= qsize (queue p) /\
            (rerr r' = None -> d <> [] /\ qsize (queue p') < qsize (queue p)).
Proof.
  revert r p. induction i as [|i IH]; intros r p Hr; cbn [fill_loop].
  - exists []. rewrite !app_nil_r. cbn. repeat split; auto; try lia; discriminate.
  - pose proof (port_read_spec (bufcap - List.length (rbuf r)) p) as S.
    destruct (port_read (bufcap - List.length (rbuf r)) p) as [[d e] p'].
    destruct S as (Hd & Hl & _ & Hprog & Hle).
    destruct e as [e|].
    + exists d. cbn [rbuf rerr]. repeat split; auto; discriminate.
    + destruct d as [|x d].
      * specialize (IH r p' Hr). destruct (fill_loop i r p') as [r'' p''].
        destruct IH as (d' & E1 & E2 & E3 & E4 & E5). exists d'. rewrite app_nil_r in Hd.
        split; [exact E1|]. split; [congruence|]. split; [exact E3|]. split; [lia|].
        intros Hn. apply E5 in Hn. destruct Hn. split; [assumption|lia].
      * exists (x :: d). cbn [rbuf rerr]. repeat split; auto; try discriminate.
        all: try (apply Hprog; discriminate).
Qed.

(* ---- split_delim ---- *)

Lemma split_delim_some delim l pre post :
  split_delim delim l = Some (pre, post) -> l = pre ++ delim :: post /\ ~ In delim pre.
Proof.
  revert pre post. induction l as [|b l IH]; intros pre post H; [discriminate|].
  cbn [split_delim] in H. destruct (beqb b delim) eqn:E.
  - apply beqb_eq in E. injection H as <- <-. subst b. split; [reflexivity|]. intros [].
  - destruct (split_delim delim l) as [[p q]|]; [|discriminate]. injection H as <- <-.
    destruct (IH p q eq_refl) as [-> Hn]. split; [reflexivity|].
    intros [->|Hin]; [rewrite beqb_refl in E; discriminate|contradiction].
Qed.

Lemma split_delim_none delim l : split_delim delim l = None -> ~ In delim l.
Proof.
  induction l as [|b l IH]; intros H; [intros []|]. cbn [split_delim] in H.
  destruct (beqb b delim) eqn:E; [discriminate|].
  destruct (split_delim delim l) as [[p q]|]; [discriminate|].
  intros [->|Hin]; [rewrite beqb_refl in E; discriminate|now apply IH].
Qed.

(* ---- ReadBytes ---- *)

(* what ReadBytes(delim) returns: the bytes consumed from (accumulated ++ buffered ++ newly
   delivered), up to and including the first delimiter; on an error everything pending *)
Theorem read_until_spec fuel delim : forall acc r p, ~ In delim acc ->
  let '(res, r', p') := read_until fuel delim acc r p in
  exists d, delivered p' = delivered p ++ d /\
    match res with
    | RUOk line => exists pre, line = pre ++ [delim] /\ ~ In delim pre /\ acc ++ rbuf r ++ d = line ++ rbuf r'
    | RUErr _ part => part = acc ++ rbuf r ++ d /\ rbuf r' = [] /\ ~ In delim part
    | RUFuel => True
    end.
Proof.
  induction fuel as [|f IH]; intros acc r p Hacc; cbn [read_until].
  - exists []. rewrite app_nil_r. split; [reflexivity|exact I].
  - destruct (split_delim delim (rbuf r)) as [[pre post]|] eqn:Es.
    + apply split_delim_some in Es as [E Hn]. exists []. rewrite !app_nil_r. split; [reflexivity|].
      exists (acc ++ pre). cbn [rbuf]. repeat split.
      * now rewrite app_assoc.
      * intros Hin. apply in_app_or in Hin as [?|?]; contradiction.
      * rewrite E. rewrite <- !app_assoc. reflexivity.
    + apply split_delim_none in Es.
      destruct (rerr r) as [e|] eqn:Ee.
      * exists []. rewrite !app_nil_r. cbn [rbuf]. repeat split; auto.
        intros Hin. apply in_app_or in Hin as [?|?]; contradiction.
      * destruct (bufcap <=? List.length (rbuf r)).
        -- specialize (IH (acc ++ rbuf r) (mkRdr [] None) p).
           assert (Hn : ~ In delim (acc ++ rbuf r)) by (intros Hin; apply in_app_or in Hin as [?|?]; contradiction).
           specialize (IH Hn). destruct (read_until f delim (acc ++ rbuf r) (mkRdr [] None) p) as [[res r'] p'].
           destruct IH as (d & Hd & Hres). exists d. split; [exact Hd|].
           cbn [rbuf] in Hres. destruct res as [line|e part|]; [| |exact I].
           ++ destruct Hres as (pre & E1 & E2 & E3). exists pre. repeat split; auto.
              rewrite <- E3. now rewrite <- !app_assoc.
           ++ destruct Hres as (E1 & E2 & E3). repeat split; auto. rewrite E1. now rewrite <- !app_assoc.
        -- unfold fill. pose proof (fill_loop_spec max_empty_reads r p Ee) as F.
           destruct (fill_loop max_empty_reads r p) as [r1 p1].
           destruct F as (d1 & B1 & D1 & _).
           specialize (IH acc r1 p1 Hacc). destruct (read_until f delim acc r1 p1) as [[res r'] p'].
           destruct IH as (d & Hd & Hres). exists (d1 ++ d). split; [rewrite Hd, D1; now rewrite app_assoc|].
           rewrite B1 in Hres. destruct res as [line|e part|]; [| |exact I].
           ++ destruct Hres as (pre & E1 & E2 & E3). exists pre. repeat split; auto.
              rewrite <- E3. now rewrite <- !app_assoc.
           ++ destruct Hres as (E1 & E2 & E3). repeat split; auto. rewrite E1. now rewrite <- !app_assoc.
Qed.

(* ---- the fuel suffices ---- *)

Definition ru_measure (r : rdr) (p : port) : nat :=
  match rerr r with
  | Some _ => 1
  | None => 2 * qsize (queue p) + 3 + (if bufcap <=? List.length (rbuf r) then 1 else 0)
  end.

Theorem read_until_fuel fuel delim : forall acc r p,
  ru_measure r p <= fuel -> fst (fst (read_until fuel delim acc r p)) <> RUFuel.
Proof.
  induction fuel as [|f IH]; intros acc r p Hm.
  - unfold ru_measure in Hm. destruct (rerr r); lia.
  - cbn [read_until]. destruct (split_delim delim (rbuf r)) as [[pre post]|]; [discriminate|].
    destruct (rerr r) as [e|] eqn:Ee; [discriminate|].
    unfold ru_measure in Hm. rewrite Ee in Hm.
    destruct (bufcap <=? List.length (rbuf r)) eqn:Ef.
    + apply IH. unfold ru_measure. cbn [rerr rbuf List.length].
      pose proof bufcap_pos. replace (bufcap <=? 0) with false by (symmetry; apply Nat.leb_gt; lia). lia.
    + unfold fill. pose proof (fill_loop_spec max_empty_reads r p Ee) as F.
      destruct (fill_loop max_empty_reads r p) as [r1 p1]. destruct F as (d1 & B1 & D1 & L1 & Q1 & P1).
      apply IH. unfold ru_measure. destruct (rerr r1) eqn:E1; [lia|].
      destruct (P1 eq_refl) as [_ Hlt]. destruct (bufcap <=? List.length (rbuf r1)); lia.
Qed.

Lemma ru_fuel_enough r p : ru_measure r p <= ru_fuel r p.
Proof.
  unfold ru_measure, ru_fuel, qsize. destruct (rerr r); [lia|]. destruct (bufcap <=? _); lia.
Qed.

(* ---- bytes handed out come out of the pending data, one for one ---- *)

Lemma port_read_pending n p :
  pending_bytes (queue (snd (port_read n p))) + List.length (fst (fst (port_read n p))) = pending_bytes (queue p).
Proof.
  unfold port_read. destruct n as [|n]; [cbn; lia|].
  destruct (queue p) as [|[d| | |] q] eqn:Eq; cbn [fst snd queue upd_queue pending_bytes List.length]; try lia.
  assert (L : List.length d = List.length (firstn (S n) d) + List.length (skipn (S n) d))
    by (rewrite <- app_length, firstn_skipn; reflexivity).
  destruct (skipn (S n) d) as [|x xs] eqn:Es; cbn [pending_bytes List.length] in *; lia.
Qed.

Lemma fill_loop_pending i r p : rerr r = None ->
  pending_bytes (queue (snd (fill_loop i r p))) + List.length (rbuf (fst (fill_loop i r p))) =
  pending_bytes (queue p) + List.length (rbuf r).
Proof.
  revert r p. induction i as [|i IH]; intros r p Hr; cbn [fill_loop]; [reflexivity|].
  pose proof (port_read_pending (bufcap - List.length (rbuf r)) p) as P.
  destruct (port_read (bufcap - List.length (rbuf r)) p) as [[d e] p']. cbn [fst snd] in P.
  destruct e as [e|].
  - cbn [fst snd rbuf]. rewrite app_length. lia.
  - destruct d as [|x d].
    + rewrite (IH r p' Hr). cbn [List.length] in P. lia.
    + cbn [fst snd rbuf]. rewrite app_length. lia.
Qed.

Definition ru_out_len (res : ru_result) : nat :=
  match res with RUOk line => List.length line | RUErr _ part => List.length part | RUFuel => 0 end.

(* the bytes returned (or dropped with an error) plus what stays buffered and pending is what
   was accumulated, buffered and pending before *)
Lemma read_until_pending fuel delim : forall acc r p,
  let '(res, r', p') := read_until fuel delim acc r p in
  res <> RUFuel ->
  pending_bytes (queue p') + List.length (rbuf r') + ru_out_len res =
  pending_bytes (queue p) + List.length (rbuf r) + List.length acc.
Proof.
  induction fuel as [|f IH]; intros acc r p; cbn [read_until]; [congruence|].
  destruct (split_delim delim (rbuf r)) as [[pre post]|] eqn:Es.
  - intros _. apply split_delim_some in Es as [E _]. cbn [rbuf ru_out_len]. rewrite E, !app_length. cbn [List.length]. lia.
  - destruct (rerr r) as [e|] eqn:Ee.
    + intros _. cbn [rbuf ru_out_len List.length]. rewrite app_length. lia.
    + destruct (bufcap <=? List.length (rbuf r)).
      * specialize (IH (acc ++ rbuf r) (mkRdr [] None) p).
        destruct (read_until f delim (acc ++ rbuf r) (mkRdr [] None) p) as [[res r'] p'].
        intros Hn. specialize (IH Hn). cbn [rbuf List.length] in IH. rewrite app_length in IH. lia.
      * unfold fill. pose proof (fill_loop_pending max_empty_reads r p Ee) as F.
        destruct (fill_loop max_empty_reads r p) as [r1 p1]. cbn [fst snd] in F.
        specialize (IH acc r1 p1). destruct (read_until f delim acc r1 p1) as [[res r'] p'].
        intros Hn. specialize (IH Hn). lia.
Qed.
