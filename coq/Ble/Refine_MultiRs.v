(* C07/C08: the translated decoder DecodeMultiRsRecord equals the layout specification, for every input. *)
From GV Require Import Ble.RefineTac.

Lemma layout_len_MultiRs : layout_len layout_MultiRs = 14.
Proof. vm_compute. reflexivity. Qed.

Theorem refine_MultiRs inp :
  good fields_MultiRsRecord (DecodeMultiRsRecord inp) (spec_decode layout_MultiRs inp).
Proof.
  unfold spec_decode. rewrite layout_len_MultiRs.
  unfold DecodeMultiRsRecord. unfold_helpers. cbn [bind].
  destruct (Z.ltb_spec (g_len inp) 14) as [Hs|Hl].
  - cbn. reflexivity.
  - do 14 (destruct inp as [|? inp]; [exfalso; unfold g_len in Hl; cbn [List.length] in Hl; lia|]); clear Hl.
    refine_core red_MultiRsRecord.
Qed.
