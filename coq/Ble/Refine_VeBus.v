(* C07/C08: the translated decoder DecodeVeBusRecord equals the layout specification, for every input. *)
From GV Require Import Ble.RefineTac.

Lemma layout_len_VeBus : layout_len layout_VeBus = 13.
Proof. vm_compute. reflexivity. Qed.

Theorem refine_VeBus inp :
  good fields_VeBusRecord (DecodeVeBusRecord inp) (spec_decode layout_VeBus inp).
Proof.
  unfold spec_decode. rewrite layout_len_VeBus.
  unfold DecodeVeBusRecord. unfold_helpers. cbn [bind].
  destruct (Z.ltb_spec (g_len inp) 13) as [Hs|Hl].
  - cbn. reflexivity.
  - do 13 (destruct inp as [|? inp]; [exfalso; unfold g_len in Hl; cbn [List.length] in Hl; lia|]); clear Hl.
    refine_core red_VeBusRecord.
Qed.
