(* Facts about the layout specification: the record's bytes alone determine the result
   (suffix independence), totality, and the meaning of `bits` as a slice of the
   little-endian number. *)
From Coq Require Import ZifyBool.
From GV Require Import Ble.GoSem Ble.Layout.
Ltac Zify.zify_post_hook ::= Z.div_mod_to_equations.
Open Scope Z_scope.

Lemma firstn_skipn_app {A} (r s : list A) k n :
  (k + n <= List.length r)%nat -> firstn n (skipn k (r ++ s)) = firstn n (skipn k r).
Proof.
  intros H. rewrite skipn_app, firstn_app.
  replace (n - List.length (skipn k r))%nat with 0%nat by (rewrite skipn_length; lia).
  cbn [firstn]. now rewrite app_nil_r.
Qed.

(* bytes a field needs *)
Definition field_end (start width : Z) : Z := start / 8 + (start mod 8 + width + 7) / 8.

Lemma bits_app r s start width :
  0 <= start -> 0 <= width -> field_end start width <= g_len r ->
  bits (r ++ s) start width = bits r start width.
Proof.
  intros Hs Hw H. unfold bits, field_end, g_len in *.
  rewrite firstn_skipn_app; [reflexivity|]. lia.
Qed.

Definition field_fits (len : Z) (f : field) : bool :=
  (0 <=? fd_start f) && (0 <=? fd_width f) && (field_end (fd_start f) (fd_width f) <=? len) &&
  match fd_when f with
  | Some (s, w, _) => (0 <=? s) && (0 <=? w) && (field_end s w <=? len)
  | None => true
  end.

Definition layout_fits (l : list field) : bool := forallb (field_fits (layout_len l)) l.

Lemma field_value_app len r s f :
  field_fits len f = true -> len <= g_len r -> field_value (r ++ s) f = field_value r f.
Proof.
  unfold field_fits. intros H Hl.
  apply andb_prop in H as [H Hwhen]. apply andb_prop in H as [H H3]. apply andb_prop in H as [H1 H2].
  unfold field_value, raw_value. rewrite !bits_app by lia.
  destruct (fd_kind f); try reflexivity.
  destruct (fd_when f) as [[[s0 w0] v0]|]; [|reflexivity].
  apply andb_prop in Hwhen as [Hwhen W3]. apply andb_prop in Hwhen as [W1 W2].
  rewrite bits_app by lia. reflexivity.
Qed.

Lemma first_enum_error_app len r s l :
  forallb (field_fits len) l = true -> len <= g_len r ->
  first_enum_error (r ++ s) l = first_enum_error r l.
Proof.
  intros H Hl. induction l as [|f l IH]; [reflexivity|].
  cbn [forallb] in H. apply andb_prop in H as [Hf H]. cbn [first_enum_error].
  destruct (fd_kind f); try (apply IH; exact H).
  unfold field_fits in Hf. apply andb_prop in Hf as [Hf _]. apply andb_prop in Hf as [Hf H3]. apply andb_prop in Hf as [H1 H2].
  rewrite bits_app by lia. destruct (gerr_is_nil _); [apply IH; exact H|reflexivity].
Qed.

(* C08: for inputs at least as long as the record the specification reads the record's
   bytes only *)
Theorem spec_decode_app l r s :
  layout_fits l = true -> layout_len l <= g_len r ->
  spec_decode l (r ++ s) = spec_decode l r.
Proof.
  intros F Hl. unfold spec_decode.
  assert (Hl2 : layout_len l <= g_len (r ++ s)) by (unfold g_len in *; rewrite app_length; lia).
  replace (g_len (r ++ s) <? layout_len l) with false by lia.
  replace (g_len r <? layout_len l) with false by lia.
  rewrite (first_enum_error_app (layout_len l)) by assumption.
  destruct (first_enum_error r l); [reflexivity|]. f_equal.
  apply map_ext_in. intros f Hin. apply (field_value_app (layout_len l)); [|exact Hl].
  unfold layout_fits in F. rewrite forallb_forall in F. now apply F.
Qed.

(* the specification answers ErrInputTooShort exactly for inputs shorter than the record *)
Theorem spec_short_iff l inp :
  spec_decode l inp = SpecError GInputTooShort <-> g_len inp < layout_len l.
Proof.
  unfold spec_decode. destruct (Z.ltb_spec (g_len inp) (layout_len l)); split; intros; auto; try lia.
  destruct (first_enum_error inp l); discriminate.
Qed.

(* bits is the slice [start, start+width) of the little-endian number of the whole input,
   whenever the field lies inside the input *)
Lemma le_val_app a b : le_val (a ++ b) = le_val a + 256 ^ Z.of_nat (List.length a) * le_val b.
Proof.
  induction a as [|x a IH]; cbn [app le_val List.length]; [lia|].
  rewrite IH, Nat2Z.inj_succ, Z.pow_succ_r by lia. lia.
Qed.

Lemma le_val_bound l : 0 <= le_val l < 256 ^ Z.of_nat (List.length l).
Proof.
  induction l as [|b l IH]; cbn [le_val List.length]; [lia|].
  pose proof (bz_range b). rewrite Nat2Z.inj_succ, Z.pow_succ_r by lia. lia.
Qed.

Theorem bits_is_le_slice inp start width :
  0 <= start -> 0 <= width -> field_end start width <= g_len inp ->
  bits inp start width = (le_val inp / 2 ^ start) mod 2 ^ width.
Proof.
  intros Hs Hw Hf. unfold bits, field_end, g_len in *.
  set (k := Z.to_nat (start / 8)). set (nb := Z.to_nat ((start mod 8 + width + 7) / 8)).
  assert (Hk : (k + nb <= List.length inp)%nat) by lia.
  rewrite <- (firstn_skipn k inp) at 2.
  rewrite le_val_app.
  rewrite <- (firstn_skipn nb (skipn k inp)) at 2. rewrite le_val_app.
  set (lo := le_val (firstn k inp)). set (mid := le_val (firstn nb (skipn k inp))).
  set (hi := le_val (skipn nb (skipn k inp))).
  assert (Lk : List.length (firstn k inp) = k) by (apply firstn_length_le; lia).
  assert (Ln : List.length (firstn nb (skipn k inp)) = nb) by (apply firstn_length_le; rewrite skipn_length; lia).
  pose proof (le_val_bound (firstn k inp)) as Blo. rewrite Lk in Blo. fold lo in Blo.
  pose proof (le_val_bound (firstn nb (skipn k inp))) as Bmid. rewrite Ln in Bmid. fold mid in Bmid.
  pose proof (le_val_bound (skipn nb (skipn k inp))) as Bhi. fold hi in Bhi.
  rewrite Lk, Ln.
  (* 256^k = 2^(8k), start = 8k + o *)
  set (o := start mod 8).
  assert (Es : start = 8 * Z.of_nat k + o) by (subst k o; lia).
  assert (P1 : 256 ^ Z.of_nat k = 2 ^ (8 * Z.of_nat k)) by (change 256 with (2 ^ 8); rewrite <- Z.pow_mul_r by lia; reflexivity).
  assert (P2 : 256 ^ Z.of_nat nb = 2 ^ (8 * Z.of_nat nb)) by (change 256 with (2 ^ 8); rewrite <- Z.pow_mul_r by lia; reflexivity).
  rewrite P1, P2 in *.
  assert (Ho : 0 <= o < 8) by (subst o; lia).
  rewrite Es. rewrite Z.pow_add_r by lia.
  set (A := 2 ^ (8 * Z.of_nat k)) in *. set (B := 2 ^ (8 * Z.of_nat nb)) in *.
  assert (PA : 0 < A) by (subst A; apply Z.pow_pos_nonneg; lia).
  assert (PB : 0 < B) by (subst B; apply Z.pow_pos_nonneg; lia).
  (* (lo + A*(mid + B*hi)) / (A * 2^o) = (mid + B*hi) / 2^o  since lo < A *)
  rewrite <- Z.div_div by (try lia; apply Z.pow_pos_nonneg; lia).
  replace ((lo + A * (mid + B * hi)) / A) with (mid + B * hi).
  2:{ symmetry. rewrite Z.add_comm, Z.mul_comm, Z.div_add_l by lia. rewrite (Z.div_small lo A) by lia. lia. }
  (* the high part B*hi vanishes modulo 2^width after the shift because 8*nb >= o + width *)
  assert (Hnb : o + width <= 8 * Z.of_nat nb) by (subst nb o; lia).
  assert (EB : B = 2 ^ o * (2 ^ width * 2 ^ (8 * Z.of_nat nb - o - width))).
  { subst B. rewrite <- !Z.pow_add_r by lia. f_equal. lia. }
  rewrite EB. set (T := 2 ^ (8 * Z.of_nat nb - o - width)).
  replace (mid + 2 ^ o * (2 ^ width * T) * hi) with (mid + (2 ^ width * T * hi) * 2 ^ o) by ring.
  rewrite Z.div_add by (apply Z.pow_nonzero; lia).
  replace (2 ^ width * T * hi) with ((T * hi) * 2 ^ width) by ring.
  rewrite Z.mod_add by (apply Z.pow_nonzero; lia). reflexivity.
Qed.

(* bits outside a field never influence it: two inputs that agree on the bytes covering the
   field give the same slice *)
Theorem bits_ext a b start width :
  firstn (Z.to_nat ((start mod 8 + width + 7) / 8)) (skipn (Z.to_nat (start / 8)) a) =
  firstn (Z.to_nat ((start mod 8 + width + 7) / 8)) (skipn (Z.to_nat (start / 8)) b) ->
  bits a start width = bits b start width.
Proof. intros H. unfold bits. now rewrite H. Qed.
