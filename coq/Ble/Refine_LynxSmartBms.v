(* C07/C08: the translated decoder DecodeLynxSmartBms equals the layout specification, for every input. *)
From GV Require Import Ble.RefineTac.

Lemma layout_len_LynxSmartBms : layout_len layout_LynxSmartBms = 16.
Proof. vm_compute. reflexivity. Qed.

Theorem refine_LynxSmartBms inp :
  good fields_LynxSmartBms (DecodeLynxSmartBms inp) (spec_decode layout_LynxSmartBms inp).
Proof.
  unfold spec_decode. rewrite layout_len_LynxSmartBms.
  unfold DecodeLynxSmartBms. unfold_helpers. cbn [bind].
  destruct (Z.ltb_spec (g_len inp) 16) as [Hs|Hl].
  - cbn. reflexivity.
  - do 16 (destruct inp as [|? inp]; [exfalso; unfold g_len in Hl; cbn [List.length] in Hl; lia|]); clear Hl.
    refine_core red_LynxSmartBms.
Qed.
