(* The Gallina vocabulary of the advertisement-handler translation (harness/cmd/gvgen blehandler): a
   monad over the lines handed to log.Printf, the configuration interfaces as records, AES in counter
   mode through the FIPS-197 model of Ble/Aes.v, the solar-charger decoder of Gen/BleImpl.v.  No proofs
   here.  Import this file AFTER Vedirect.DrvSem. *)
From GV Require Import Vedirect.DrvSem.
From GV Require Ble.GoSem Gen.BleImpl Ble.Handler Ble.Aes.
From Coq Require Export String.
From GV Require Export Base.Bytes Base.Hex Base.LE Vedirect.Frame.
Open Scope Z_scope.

Definition SolarChargerRecord := GV.Gen.BleImpl.SolarChargerRecord.

(* what log.Printf receives: byte slices and integers as values, the decoded record; names and other
   texts are not modelled *)
Inductive larg := LBytes (b : list byte) | LInt (z : Z) | LSolar (r : SolarChargerRecord) | LErr | LOther.
Definition logline := (string * list larg)%type.

Record devcfg := mkDev { dc_mac : list byte; dc_key : list byte }.
Record blecfg := mkBle { bc_debug : bool; bc_devices : list devcfg }.

Definition D (A : Type) := list logline -> dout A * list logline.
Definition ret {A} (a : A) : D A := fun s => (DVal a, s).
Definition bind {A B} (m : D A) (f : A -> D B) : D B :=
  fun s => match m s with
           | (DVal a, s') => f a s'
           | (DPanic, s') => (DPanic, s')
           | (DFuel, s') => (DFuel, s')
           end.
Definition dpanic {A} : D A := fun s => (DPanic, s).

Definition p_log (fmt : string) (args : list larg) : D unit := fun s => (DVal tt, s ++ [(fmt, args)]).

Fixpoint range_list (A : Type) {V R} (l : list A) (body : A -> V -> D (lctl V R)) (v : V) : D (lres V R) :=
  match l with
  | [] => ret (LDone v)
  | x :: rest => bind (body x v) (fun c =>
                   match c with
                   | LCont v' => range_list A rest body v'
                   | LBrk v' => ret (LDone v')
                   | LRet r => ret (LReturned r)
                   end)
  end.

(* ---- slices (as in DrvSem, over this monad) ---- *)
Definition g_len (l : list byte) : Z := Z.of_nat (List.length l).
Definition is_neg (z : Z) : bool := match z with Zneg _ => true | _ => false end.
Definition g_index (l : list byte) (i : Z) : D Z :=
  if is_neg i then dpanic
  else match nth_error l (Z.to_nat i) with Some b => ret (bz b) | None => dpanic end.
Definition g_slice (l : list byte) (a b : Z) : D (list byte) :=
  if is_neg a || is_neg b then dpanic
  else if (Z.to_nat a <=? Z.to_nat b)%nat && (Z.to_nat b <=? List.length l)%nat
       then ret (firstn (Z.to_nat b - Z.to_nat a) (skipn (Z.to_nat a) l))
       else dpanic.
Definition g_make (n : Z) : D (list byte) :=
  if is_neg n then dpanic else ret (repeat x00 (Z.to_nat n)).
Definition g_le16 (l : list byte) : D Z :=
  match l with lo :: hi :: _ => ret (bz lo + 256 * bz hi) | _ => dpanic end.
Definition g_put_le16 (l : list byte) (v : Z) : D (list byte) :=
  match l with _ :: _ :: r => ret (zb v :: zb (v / 256) :: r) | _ => dpanic end.
(* a % b on ints: division by zero panics *)
Definition g_rem (a b : Z) : D Z := if b =? 0 then dpanic else ret (Z.rem a b).
(* bytes.Repeat(l, n): a negative count panics *)
Definition g_repeat (l : list byte) (n : Z) : D (list byte) :=
  if is_neg n then dpanic else ret (concat (repeat l (Z.to_nat n))).
Definition g_bytes_eqb (a b : list byte) : bool :=
  if list_eq_dec Byte.byte_eq_dec a b then true else false.

(* strings.ReplaceAll(s, "c", "") *)
Definition g_remove_byte (c : Z) (s : list byte) : list byte := filter (fun b => negb (beqb b (zb c))) s.
(* hex.DecodeString: the bytes decoded before the first error, and the error *)
Definition g_hex_decode_string (s : list byte) : list byte * gerr :=
  (GV.Ble.Handler.hex_decode_partial s, match Base.Hex.hex_decode s with Some _ => None | None => Some EOther end).

(* ---- crypto/aes, crypto/cipher ---- *)
(* aes.NewCipher(key): the key is the handle; an error unless the key has 16, 24 or 32 bytes *)
Definition g_aes_new_cipher (key : list byte) : list byte * gerr :=
  (key, if GV.Ble.Handler.key_len_ok (List.length key) then None else Some EOther).
Definition g_block_size (blk : list byte) : Z := 16.
(* cipher.NewCTR(block, iv): panics unless the iv has the block size *)
Definition g_new_ctr (blk iv : list byte) : D (list byte * list byte) :=
  if (List.length iv =? 16)%nat then ret (blk, iv) else dpanic.
(* stream.XORKeyStream(dst, src): panics if dst is shorter than src; the rest of dst is left as it is *)
Definition g_ctr_xor (st : list byte * list byte) (dst src : list byte) : D (list byte) :=
  if (List.length src <=? List.length dst)%nat
  then ret (GV.Ble.Handler.ctr_stream (S (List.length src)) (GV.Ble.Aes.aes_encrypt (fst st)) (snd st) src ++ skipn (List.length src) dst)
  else dpanic.

(* bleparser.DecodeSolarChargeRecord: the translated decoder (Gen/BleImpl.v) *)
Definition g_decode_solar (b : list byte) : D (SolarChargerRecord * gerr) :=
  match GV.Gen.BleImpl.DecodeSolarChargeRecord b with
  | GV.Ble.GoSem.MOk (r, e) =>
      ret (r, match e with
              | GV.Ble.GoSem.GNil => None
              | GV.Ble.GoSem.GInputTooShort => Some EInputTooShort
              | GV.Ble.GoSem.GInvalidEnumIdx => Some EInvalidEnumIdx
              end)
  | GV.Ble.GoSem.MFault => dpanic
  end.
