(* C19: AES (FIPS-197) encryption of one block, for 128/192/256-bit keys, as an executable
   Gallina function over bytes-as-Z.  The advertisement handler uses the block cipher only in
   counter mode (encryption direction).  Test vectors of FIPS-197 Appendix C are checked in
   AesFacts.v.  The state is the flat list of 16 bytes in input order (index r + 4c). *)
From Coq Require Import ZArith List.
From GV Require Import Base.Bytes.
Import ListNotations.
Local Open Scope Z_scope.

Definition sbox_table : list Z := [
  99; 124; 119; 123; 242; 107; 111; 197; 48; 1; 103; 43; 254; 215; 171; 118;
  202; 130; 201; 125; 250; 89; 71; 240; 173; 212; 162; 175; 156; 164; 114; 192;
  183; 253; 147; 38; 54; 63; 247; 204; 52; 165; 229; 241; 113; 216; 49; 21;
  4; 199; 35; 195; 24; 150; 5; 154; 7; 18; 128; 226; 235; 39; 178; 117;
  9; 131; 44; 26; 27; 110; 90; 160; 82; 59; 214; 179; 41; 227; 47; 132;
  83; 209; 0; 237; 32; 252; 177; 91; 106; 203; 190; 57; 74; 76; 88; 207;
  208; 239; 170; 251; 67; 77; 51; 133; 69; 249; 2; 127; 80; 60; 159; 168;
  81; 163; 64; 143; 146; 157; 56; 245; 188; 182; 218; 33; 16; 255; 243; 210;
  205; 12; 19; 236; 95; 151; 68; 23; 196; 167; 126; 61; 100; 93; 25; 115;
  96; 129; 79; 220; 34; 42; 144; 136; 70; 238; 184; 20; 222; 94; 11; 219;
  224; 50; 58; 10; 73; 6; 36; 92; 194; 211; 172; 98; 145; 149; 228; 121;
  231; 200; 55; 109; 141; 213; 78; 169; 108; 86; 244; 234; 101; 122; 174; 8;
  186; 120; 37; 46; 28; 166; 180; 198; 232; 221; 116; 31; 75; 189; 139; 138;
  112; 62; 181; 102; 72; 3; 246; 14; 97; 53; 87; 185; 134; 193; 29; 158;
  225; 248; 152; 17; 105; 217; 142; 148; 155; 30; 135; 233; 206; 85; 40; 223;
  140; 161; 137; 13; 191; 230; 66; 104; 65; 153; 45; 15; 176; 84; 187; 22
].

Definition sbox (x : Z) : Z := nth (Z.to_nat x) sbox_table 0.

Definition xtime (x : Z) : Z :=
  let y := 2 * x in if 256 <=? y then Z.lxor (y - 256) 27 else y.     (* 0x11b = 256 + 27 *)

Definition mul2 := xtime.
Definition mul3 (x : Z) : Z := Z.lxor (xtime x) x.

Definition xor_list (a b : list Z) : list Z := map (fun p => Z.lxor (fst p) (snd p)) (combine a b).

Definition sub_bytes (s : list Z) : list Z := map sbox s.

(* s'[r,c] = s[r,(c+r) mod 4]; index = r + 4c *)
Definition shift_rows (s : list Z) : list Z :=
  map (fun i => let r := (i mod 4)%nat in let c := (i / 4)%nat in nth (r + 4 * ((c + r) mod 4))%nat s 0)
      (seq 0 16).

Definition mix_column (col : list Z) : list Z :=
  match col with
  | [s0; s1; s2; s3] =>
      [Z.lxor (Z.lxor (mul2 s0) (mul3 s1)) (Z.lxor s2 s3);
       Z.lxor (Z.lxor s0 (mul2 s1)) (Z.lxor (mul3 s2) s3);
       Z.lxor (Z.lxor s0 s1) (Z.lxor (mul2 s2) (mul3 s3));
       Z.lxor (Z.lxor (mul3 s0) s1) (Z.lxor s2 (mul2 s3))]
  | _ => col
  end.

Definition mix_columns (s : list Z) : list Z :=
  flat_map (fun c => mix_column (firstn 4 (skipn (4 * c) s))) (seq 0 4).

(* ---- key expansion: the words w[0 .. 4(Nr+1)-1], each a list of four bytes ---- *)

Definition rot_word (w : list Z) : list Z := match w with a :: r => r ++ [a] | [] => [] end.
Definition sub_word (w : list Z) : list Z := map sbox w.

Fixpoint rcon (i : nat) : Z := match i with O => 0 | S O => 1 | S k => xtime (rcon k) end.   (* rcon 1 = 1 *)

Fixpoint chunks4 (fuel : nat) (l : list Z) : list (list Z) :=
  match fuel with
  | O => []
  | S f => match l with [] => [] | _ => firstn 4 l :: chunks4 f (skipn 4 l) end
  end.

(* [ws] holds the words so far, newest LAST; [i] = its length *)
Fixpoint expand (steps : nat) (nk : nat) (i : nat) (ws : list (list Z)) : list (list Z) :=
  match steps with
  | O => ws
  | S st =>
      let prev := nth (i - 1) ws [] in
      let temp := if (i mod nk =? 0)%nat
                  then xor_list (sub_word (rot_word prev)) [rcon (i / nk); 0; 0; 0]
                  else if (6 <? nk)%nat && (i mod nk =? 4)%nat then sub_word prev
                  else prev in
      expand st nk (S i) (ws ++ [xor_list (nth (i - nk) ws []) temp])
  end.

Definition key_words (key : list Z) : list (list Z) :=
  let nk := (List.length key / 4)%nat in
  let nr := (nk + 6)%nat in
  expand (4 * (nr + 1) - nk) nk nk (chunks4 nk key).

Definition round_key (ws : list (list Z)) (j : nat) : list Z := concat (firstn 4 (skipn (4 * j) ws)).

Fixpoint rounds (n : nat) (j : nat) (ws : list (list Z)) (s : list Z) : list Z :=
  match n with
  | O => s
  | S k => rounds k (S j) ws (xor_list (mix_columns (shift_rows (sub_bytes s))) (round_key ws j))
  end.

(* Cipher(in, w) of FIPS-197 section 5.1; key of 16, 24 or 32 bytes; block of 16 bytes *)
Definition aes_encrypt_z (key block : list Z) : list Z :=
  let ws := key_words key in
  let nr := (List.length key / 4 + 6)%nat in
  let s0 := xor_list block (round_key ws 0) in
  let s1 := rounds (nr - 1) 1 ws s0 in
  xor_list (shift_rows (sub_bytes s1)) (round_key ws nr).

Definition aes_encrypt (key block : list byte) : list byte :=
  map zb (aes_encrypt_z (map bz key) (map bz block)).
