(* C07/C08: the translated decoder DecodeAcChargerRecord equals the layout specification, for every input. *)
From GV Require Import Ble.RefineTac.

Lemma layout_len_AcCharger : layout_len layout_AcCharger = 13.
Proof. vm_compute. reflexivity. Qed.

Theorem refine_AcCharger inp :
  good fields_AcChargerRecord (DecodeAcChargerRecord inp) (spec_decode layout_AcCharger inp).
Proof.
  unfold spec_decode. rewrite layout_len_AcCharger.
  unfold DecodeAcChargerRecord. unfold_helpers. cbn [bind].
  destruct (Z.ltb_spec (g_len inp) 13) as [Hs|Hl].
  - cbn. reflexivity.
  - do 13 (destruct inp as [|? inp]; [exfalso; unfold g_len in Hl; cbn [List.length] in Hl; lia|]); clear Hl.
    refine_core red_AcChargerRecord.
Qed.
