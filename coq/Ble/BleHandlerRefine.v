(* Tie T-gen for C19: the advertisement handler, PKCS7Padding, bluezAddrBytes and getDeviceConfig of
   Gen/BleHandlerImpl.v (the translation of /repo/ble/ble.go made on every run) against the model of
   Ble/Handler.v, for every payload, key and configuration. *)
From GV Require Import Vedirect.DrvSem Ble.BleSem Gen.BleHandlerImpl.
From GV Require Ble.GoSem Gen.BleImpl Ble.Handler Ble.HandlerFacts Ble.Aes Ble.RefineTac Ble.Refine_SolarCharger Vedirect.FrameFacts.
Import ListNotations.
Local Open Scope Z_scope.

Module H := GV.Ble.Handler.
Module G := GV.Ble.GoSem.

Lemma is_neg_false z : 0 <= z -> is_neg z = false.
Proof. destruct z; cbn; [reflexivity..|lia]. Qed.

Lemma wrapU_small_8 x : 0 <= x < 256 -> wrapU 8 x = x.
Proof. intros Hx. unfold wrapU. change (2 ^ 8) with 256. now apply Z.mod_small. Qed.

(* ---- PKCS7Padding ---- *)

Lemma concat_repeat_single {A} (x : A) n : concat (repeat [x] n) = repeat x n.
Proof. induction n as [|n IH]; cbn [repeat concat app]; [reflexivity|]. now rewrite IH. Qed.

Theorem go_PKCS7Padding_spec data (bs : nat) s : (1 <= bs <= 255)%nat ->
  go_PKCS7Padding data (Z.of_nat bs) s = (DVal (H.pkcs7 data bs), s).
Proof.
  intros Hb. unfold go_PKCS7Padding, H.pkcs7. unfold bind at 1. unfold g_rem.
  replace (Z.of_nat bs =? 0) with false by (symmetry; apply Z.eqb_neq; lia).
  unfold ret at 1. cbv zeta. unfold g_len. rewrite Z.rem_mod_nonneg by lia.
  rewrite <- (Nat2Z.inj_mod (List.length data) bs).
  assert (Hm : (List.length data mod bs < bs)%nat) by (apply Nat.mod_upper_bound; lia).
  set (m := (List.length data mod bs)%nat) in *.
  replace (Z.of_nat bs - Z.of_nat m) with (Z.of_nat (bs - m)) by lia.
  unfold bind at 1. unfold g_repeat. rewrite (is_neg_false (Z.of_nat (bs - m))) by lia.
  rewrite Nat2Z.id. rewrite concat_repeat_single. unfold ret.
  rewrite (wrapU_small_8 (Z.of_nat (bs - m))) by lia. reflexivity.
Qed.

(* ---- the handler ---- *)

(* what the harness reads out of the handler's log *)
Inductive hev := EvShort | EvBadKey | EvPlain (p : list byte) | EvSolar (r : SolarChargerRecord) | EvDecodeErr.

Definition ev_of (l : logline) : list hev :=
  let '(fmt, args) := l in
  if String.eqb fmt "ble[%s]->%s: len(rawBytes) is to low" then [EvShort]
  else if String.eqb fmt "ble[%s]->%s: cannot create aes cipher: %s" then [EvBadKey]
  else if String.eqb fmt "ble[%s]->%s: decryptedBytes=%x, len=%d" then
         match args with [_; _; LBytes p; _] => [EvPlain p] | _ => [] end
  else if String.eqb fmt "ble[%s]->%s: solar charger record=%#v" then
         match args with [_; _; LSolar r] => [EvSolar r] | _ => [] end
  else if String.eqb fmt "ble[%s]->%s: cannot decode solar charger record: %s" then [EvDecodeErr]
  else [].

Definition events (log : list logline) : list hev := flat_map ev_of log.

Definition expected (h : H.handled) : option (list hev) :=
  match h with
  | H.HIgnored => Some [EvShort]
  | H.HBadKey => Some [EvBadKey]
  | H.HPlain p => Some [EvPlain p]
  | H.HSolar p (G.MOk (r, G.GNil)) => Some [EvPlain p; EvSolar r]
  | H.HSolar p (G.MOk (_, _)) => Some [EvPlain p; EvDecodeErr]
  | H.HSolar p G.MFault => None
  end.

Definition handler_rel (out : dout unit * list logline) (h : H.handled) : Prop :=
  match expected h with
  | Some evs => fst out = DVal tt /\ events (snd out) = evs
  | None => fst out = DPanic
  end.

Lemma zb_lo lo hi : zb (bz lo + 256 * bz hi) = lo.
Proof.
  rewrite <- (zb_bz lo) at 2. apply GV.Vedirect.FrameFacts.zb_eq_mod.
  rewrite (Z.mul_comm 256). now rewrite Z.mod_add by lia.
Qed.

Lemma zb_hi lo hi : zb ((bz lo + 256 * bz hi) / 256) = hi.
Proof.
  pose proof (bz_range lo). rewrite Z.add_comm, Z.mul_comm, Z.div_add_l by lia.
  rewrite (Z.div_small (bz lo) 256) by lia. rewrite Z.add_0_r. apply zb_bz.
Qed.

Lemma g_slice_from8 b0 b1 b2 b3 b4 b5 b6 b7 enc s :
  g_slice (b0 :: b1 :: b2 :: b3 :: b4 :: b5 :: b6 :: b7 :: enc) 8 (g_len (b0 :: b1 :: b2 :: b3 :: b4 :: b5 :: b6 :: b7 :: enc)) s
  = (DVal enc, s).
Proof.
  unfold g_slice, g_len. rewrite (is_neg_false (Z.of_nat _)) by lia. cbn [is_neg orb].
  rewrite Nat2Z.id. change (Z.to_nat 8) with 8%nat. cbn [List.length skipn].
  replace (8 <=? S (S (S (S (S (S (S (S (List.length enc)))))))))%nat with true by (symmetry; apply Nat.leb_le; lia).
  rewrite Nat.leb_refl. cbn [andb].
  replace (S (S (S (S (S (S (S (S (List.length enc)))))))) - 8)%nat with (List.length enc) by lia.
  rewrite firstn_all. reflexivity.
Qed.

Lemma g_make_len l s : g_make (g_len l) s = (DVal (repeat x00 (List.length l)), s).
Proof. unfold g_make, g_len. rewrite is_neg_false by lia. now rewrite Nat2Z.id. Qed.

Lemma skipn_repeat_all {A} (x : A) n : skipn n (repeat x n) = [].
Proof. apply skipn_all2. rewrite repeat_length. lia. Qed.

Theorem go_handle_refines c dc raw :
  handler_rel (go_handleNewManufacturerData c dc raw [])
              (H.handle (GV.Ble.Aes.aes_encrypt (dc_key dc)) (List.length (dc_key dc)) raw).
Proof.
  unfold go_handleNewManufacturerData. cbv zeta.
  (* the debug line adds no event: it is enough to run the rest from a log without events *)
  match goal with |- handler_rel ((if bc_debug c then bind _ (fun _ => ?k) else ?k) []) ?h =>
    assert (Core : forall log0, events log0 = [] -> handler_rel (k log0) h);
      [|destruct (bc_debug c); [unfold bind at 1; unfold p_log at 1; apply Core; reflexivity|apply Core; reflexivity]]
  end.
  intros log0 Hlog. unfold H.handle.
  replace (g_len raw <? 9) with (List.length raw <? 9)%nat
    by (unfold g_len; destruct (Nat.ltb_spec (List.length raw) 9); symmetry; [apply Z.ltb_lt|apply Z.ltb_ge]; lia).
  destruct (List.length raw <? 9)%nat eqn:E9.
  { unfold handler_rel, expected, bind, p_log, ret. cbn [fst snd]. split; [reflexivity|].
    unfold events. rewrite flat_map_app. fold (events log0). rewrite Hlog. reflexivity. }
  destruct raw as [|b0 [|b1 [|b2 [|b3 [|rtype [|nlo [|nhi [|b7 [|e0 enc]]]]]]]]]; try (cbn in E9; discriminate).
  set (encb := e0 :: enc) in *.
  unfold bind at 1. change (g_slice (b0 :: b1 :: b2 :: b3 :: rtype :: nlo :: nhi :: b7 :: encb) 0 2 log0) with (DVal [b0; b1], log0).
  unfold bind at 1. change (g_slice (b0 :: b1 :: b2 :: b3 :: rtype :: nlo :: nhi :: b7 :: encb) 2 4 log0) with (DVal [b2; b3], log0).
  unfold bind at 1. unfold g_le16 at 1. unfold ret at 1.
  unfold bind at 1. change (g_index (b0 :: b1 :: b2 :: b3 :: rtype :: nlo :: nhi :: b7 :: encb) 4 log0) with (DVal (bz rtype), log0).
  unfold bind at 1. change (g_slice (b0 :: b1 :: b2 :: b3 :: rtype :: nlo :: nhi :: b7 :: encb) 5 7 log0) with (DVal [nlo; nhi], log0).
  unfold bind at 1. unfold g_le16 at 1. unfold ret at 1.
  unfold bind at 1. change (g_index (b0 :: b1 :: b2 :: b3 :: rtype :: nlo :: nhi :: b7 :: encb) 7 log0) with (DVal (bz b7), log0).
  unfold bind at 1. rewrite g_slice_from8.
  unfold bind at 1. unfold p_log at 1. unfold bind at 1. unfold p_log at 1.
  unfold g_aes_new_cipher.
  destruct (H.key_len_ok (List.length (dc_key dc))) eqn:Ek; cbn [negb gerr_isnil].
  2:{ unfold handler_rel, expected, bind, p_log, ret. cbn [fst snd]. split; [reflexivity|].
      unfold events. rewrite !flat_map_app. fold (events log0). rewrite Hlog. reflexivity. }
  unfold bind at 1. change (g_block_size (dc_key dc)) with (Z.of_nat 16).
  rewrite go_PKCS7Padding_spec by lia.
  set (padded := H.pkcs7 encb 16).
  unfold bind at 1. unfold p_log at 1.
  unfold bind at 1. rewrite g_make_len.
  unfold bind at 1. change (g_make 16) with (@ret (list byte) (repeat x00 16)). unfold ret at 1.
  unfold bind at 1. cbn [repeat]. unfold g_put_le16 at 1. unfold ret at 1. rewrite zb_lo, zb_hi.
  unfold bind at 1. unfold p_log at 1.
  unfold bind at 1. unfold g_new_ctr at 1. cbn [List.length Nat.eqb]. unfold ret at 1.
  unfold bind at 1. unfold g_ctr_xor at 1. cbn [fst snd]. rewrite repeat_length, Nat.leb_refl. unfold ret at 1.
  rewrite skipn_repeat_all, app_nil_r.
  change (x00 :: x00 :: x00 :: x00 :: x00 :: x00 :: x00 :: x00 :: x00 :: x00 :: x00 :: x00 :: x00 :: x00 :: []) with (repeat x00 14).
  change (H.ctr_stream (S (List.length padded)) (GV.Ble.Aes.aes_encrypt (dc_key dc)) (nlo :: nhi :: repeat x00 14) padded)
    with (H.ctr_decrypt (GV.Ble.Aes.aes_encrypt (dc_key dc)) nlo nhi padded).
  set (plain := H.ctr_decrypt (GV.Ble.Aes.aes_encrypt (dc_key dc)) nlo nhi padded).
  unfold bind at 1. unfold p_log at 1.
  destruct (bz rtype =? 1) eqn:Er.
  - unfold bind at 1. unfold g_decode_solar.
    destruct (GV.Gen.BleImpl.DecodeSolarChargeRecord plain) as [[r e]|] eqn:Ed.
    + unfold ret at 1. destruct e; cbn [gerr_isnil negb].
      * unfold handler_rel, expected, bind, p_log, ret. cbn [fst snd]. split; [reflexivity|].
        unfold events. rewrite !flat_map_app. fold (events log0). rewrite Hlog. reflexivity.
      * unfold handler_rel, expected, bind, p_log, ret. cbn [fst snd]. split; [reflexivity|].
        unfold events. rewrite !flat_map_app. fold (events log0). rewrite Hlog. reflexivity.
      * unfold handler_rel, expected, bind, p_log, ret. cbn [fst snd]. split; [reflexivity|].
        unfold events. rewrite !flat_map_app. fold (events log0). rewrite Hlog. reflexivity.
    + unfold handler_rel, expected, dpanic. cbn [fst]. reflexivity.
  - unfold handler_rel, expected, ret. cbn [fst snd]. split; [reflexivity|].
    unfold events. rewrite !flat_map_app. fold (events log0). rewrite Hlog. reflexivity.
Qed.

Lemma handle_solar_shape E k raw p m : H.handle E k raw = H.HSolar p m -> m = GV.Gen.BleImpl.DecodeSolarChargeRecord p.
Proof.
  unfold H.handle. destruct (List.length raw <? 9)%nat; [discriminate|]. destruct (negb (H.key_len_ok k)); [discriminate|].
  destruct raw as [|b0 [|b1 [|b2 [|b3 [|rtype [|nlo [|nhi [|b7 enc]]]]]]]]; try discriminate.
  destruct (bz rtype =? 1); [|discriminate]. intros E1. injection E1 as <- <-. reflexivity.
Qed.

(* the handler never panics, for every payload, key and configuration: the translated solar-charger
   decoder never faults (C08, Ble/Refine_SolarCharger.v) *)
Theorem go_handle_no_panic c dc raw : fst (go_handleNewManufacturerData c dc raw []) = DVal tt.
Proof.
  pose proof (go_handle_refines c dc raw) as R. unfold handler_rel in R.
  destruct (H.handle (GV.Ble.Aes.aes_encrypt (dc_key dc)) (List.length (dc_key dc)) raw) as [| |p|p m] eqn:Eh;
    cbn [expected] in R; try (destruct R as [R _]; exact R).
  apply handle_solar_shape in Eh. subst m.
  pose proof (GV.Ble.Refine_SolarCharger.refine_SolarCharger p) as Gd.
  destruct (GV.Gen.BleImpl.DecodeSolarChargeRecord p) as [[r e]|].
  - destruct e; destruct R as [R _]; exact R.
  - destruct (GV.Ble.Layout.spec_decode GV.Ble.Layout.layout_SolarCharger p); contradiction.
Qed.

(* ---- getDeviceConfig ---- *)

Theorem go_bluezAddrBytes_value addr s : exists s', go_bluezAddrBytes addr s = (DVal (H.bluez_addr_bytes addr), s').
Proof.
  unfold go_bluezAddrBytes, g_hex_decode_string, H.bluez_addr_bytes, g_remove_byte. cbv zeta.
  change (zb 58) with c_colon.
  destruct (Base.Hex.hex_decode _); cbn [gerr_isnil negb].
  - eexists. reflexivity.
  - unfold bind, p_log, ret. eexists. reflexivity.
Qed.

Lemma first_match_shift macs a i : H.first_match macs a (S i) = option_map S (H.first_match macs a i).
Proof.
  revert i. induction macs as [|m r IH]; intros i; cbn [H.first_match option_map]; [reflexivity|].
  destruct (list_eq_dec Byte.byte_eq_dec m a); [reflexivity|apply IH].
Qed.

(* the device matched is the first configured one whose MAC equals the address bytes *)
Theorem go_getDeviceConfig_spec devs dbg addr s :
  exists s', go_getDeviceConfig (mkBle dbg devs) addr s =
             (DVal (match H.get_device_config (map dc_mac devs) addr with
                    | Some i => nth_error devs i
                    | None => None
                    end), s').
Proof.
  unfold go_getDeviceConfig, H.get_device_config. cbn [bc_devices].
  assert (L : forall s0, exists s1,
    @range_list devcfg unit (option devcfg) devs (fun v_d (_ : unit) =>
      bind (go_bluezAddrBytes addr) (fun t1 =>
        if g_bytes_eqb (dc_mac v_d) t1 then ret (LRet (Some v_d)) else ret (LCont tt))) tt s0
    = (DVal (match H.first_match (map dc_mac devs) (H.bluez_addr_bytes addr) 0 with
             | Some i => match nth_error devs i with Some d => LReturned (Some d) | None => LDone tt end
             | None => LDone tt end), s1)).
  { induction devs as [|d rest IH]; intros s0; cbn [range_list map H.first_match].
    - eexists. reflexivity.
    - unfold bind at 1. unfold bind at 1. destruct (go_bluezAddrBytes_value addr s0) as (s1 & E). rewrite E.
      destruct (g_bytes_eqb (dc_mac d) (H.bluez_addr_bytes addr)) eqn:Eb; unfold g_bytes_eqb in Eb;
        destruct (list_eq_dec Byte.byte_eq_dec (dc_mac d) (H.bluez_addr_bytes addr)); try discriminate.
      + unfold ret. cbn [nth_error]. eexists. reflexivity.
      + unfold ret at 1. cbv beta iota. destruct (IH s1) as (s2 & E2). rewrite E2. rewrite first_match_shift.
        destruct (H.first_match (map dc_mac rest) (H.bluez_addr_bytes addr) 0) as [i|]; cbn [option_map nth_error];
          eexists; reflexivity. }
  unfold bind at 1. destruct (L s) as (s1 & E). rewrite E.
  destruct (H.first_match (map dc_mac devs) (H.bluez_addr_bytes addr) 0) as [i|] eqn:Ef.
  - destruct (nth_error devs i) as [d|] eqn:En; [eexists; reflexivity|].
    (* the index of a match is inside the list *)
    exfalso. apply nth_error_None in En.
    assert (Hb : forall macs a j k, H.first_match macs a j = Some k -> (k < j + List.length macs)%nat).
    { induction macs as [|m r IHm]; intros a j k; cbn [H.first_match List.length]; [discriminate|].
      destruct (list_eq_dec Byte.byte_eq_dec m a); intros Hk; [injection Hk as <-; lia|]. apply IHm in Hk. lia. }
    apply Hb in Ef. rewrite map_length in Ef. lia.
  - eexists. reflexivity.
Qed.
