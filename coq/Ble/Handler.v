(* C19: model of ble/ble.go — PKCS7 padding, AES-CTR over an arbitrary block function,
   advertisement handling, MAC matching.  No proofs here. *)
From GV Require Export Ble.GoSem Gen.BleImpl.
Open Scope Z_scope.

(* PKCS7Padding(ciphertext, blocksize) *)
Definition pkcs7 (data : list byte) (blocksize : nat) : list byte :=
  let padding := (blocksize - List.length data mod blocksize)%nat in
  data ++ repeat (zb (Z.of_nat padding)) padding.

(* ---- CTR mode over a block function E (the key is fixed inside E) ---- *)

Definition block := list byte.

(* big-endian increment of a counter block *)
Fixpoint inc_rev (rb : list byte) : list byte :=
  match rb with
  | [] => []
  | b :: r => if bz b =? 255 then x00 :: inc_rev r else zb (bz b + 1) :: r
  end.
Definition ctr_inc (c : block) : block := rev (inc_rev (rev c)).

Definition xor_bytes (a b : list byte) : list byte :=
  map (fun p => zb (Z.lxor (bz (fst p)) (bz (snd p)))) (combine a b).

(* XORKeyStream over data of any length, block size 16 *)
Fixpoint ctr_stream (fuel : nat) (E : block -> block) (c : block) (data : list byte) : list byte :=
  match fuel with
  | O => []
  | S f =>
      match data with
      | [] => []
      | _ => xor_bytes (firstn 16 data) (E c) ++ ctr_stream f E (ctr_inc c) (skipn 16 data)
      end
  end.

(* iv: the 16-bit little-endian nonce in bytes 0..1, fourteen zero bytes *)
Definition iv_of_nonce (lo hi : byte) : block := lo :: hi :: repeat x00 14.

Definition ctr_decrypt (E : block -> block) (lo hi : byte) (data : list byte) : list byte :=
  ctr_stream (S (List.length data)) E (iv_of_nonce lo hi) data.

(* ---- the handler ---- *)

Inductive handled :=
| HIgnored                                   (* payload shorter than 9 bytes *)
| HBadKey                                    (* aes.NewCipher rejects the key length *)
| HPlain (plain : list byte)                 (* decrypted, record type not decoded *)
| HSolar (plain : list byte) (r : M (SolarChargerRecord * gerr)).

Definition key_len_ok (n : nat) : bool := (n =? 16)%nat || (n =? 24)%nat || (n =? 32)%nat.

Definition handle (E : block -> block) (keylen : nat) (raw : list byte) : handled :=
  if (List.length raw <? 9)%nat then HIgnored
  else if negb (key_len_ok keylen) then HBadKey
  else
    match raw with
    | _ :: _ :: _ :: _ :: rtype :: nlo :: nhi :: _ :: enc =>
        let plain := ctr_decrypt E nlo nhi (pkcs7 enc 16) in
        if bz rtype =? 1 then HSolar plain (DecodeSolarChargeRecord plain) else HPlain plain
    | _ => HIgnored
    end.

(* ---- MAC matching ---- *)

(* hex.DecodeString: the bytes decoded before the first error (odd length or bad digit) *)
Fixpoint hex_decode_partial (s : list byte) : list byte :=
  match s with
  | a :: b :: r =>
      match Base.Hex.hexval a, Base.Hex.hexval b with
      | Some x, Some y => zb (16 * x + y) :: hex_decode_partial r
      | _, _ => []
      end
  | _ => []
  end.

(* bluezAddrBytes: strip every ':' then hex-decode *)
Definition bluez_addr_bytes (addr : list byte) : list byte :=
  hex_decode_partial (filter (fun c => negb (beqb c c_colon)) addr).

(* getDeviceConfig: index of the first configured device whose MAC equals the address bytes *)
Fixpoint first_match (macs : list (list byte)) (a : list byte) (i : nat) : option nat :=
  match macs with
  | [] => None
  | m :: r => if list_eq_dec Byte.byte_eq_dec m a then Some i else first_match r a (S i)
  end.

Definition get_device_config (macs : list (list byte)) (addr : list byte) : option nat :=
  first_match macs (bluez_addr_bytes addr) 0.

(* a well-formed address: six colon-separated hex pairs; its value *)
Definition render_mac (mac : list byte) : list byte :=
  match flat_map (fun b => c_colon :: Base.Hex.hex_of_byte b) mac with
  | _ :: r => r
  | [] => []
  end.
