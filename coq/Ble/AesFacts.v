(* C19: facts about the AES model: the FIPS-197 Appendix C example vectors for all three key
   sizes, and the block length of the output for every key of a valid size and every input. *)
From Coq Require Import ZArith List Lia.
From GV Require Import Base.Bytes Ble.Aes.
Import ListNotations.
Local Open Scope Z_scope.

Definition fips_plain : list Z := [0x00;0x11;0x22;0x33;0x44;0x55;0x66;0x77;0x88;0x99;0xaa;0xbb;0xcc;0xdd;0xee;0xff].

(* FIPS-197 C.1, C.2, C.3: key 00 01 02 ... *)
Example fips197_c1 : aes_encrypt_z (map Z.of_nat (seq 0 16)) fips_plain =
  [0x69;0xc4;0xe0;0xd8;0x6a;0x7b;0x04;0x30;0xd8;0xcd;0xb7;0x80;0x70;0xb4;0xc5;0x5a].
Proof. vm_compute. reflexivity. Qed.
Example fips197_c2 : aes_encrypt_z (map Z.of_nat (seq 0 24)) fips_plain =
  [0xdd;0xa9;0x7c;0xa4;0x86;0x4c;0xdf;0xe0;0x6e;0xaf;0x70;0xa0;0xec;0x0d;0x71;0x91].
Proof. vm_compute. reflexivity. Qed.
Example fips197_c3 : aes_encrypt_z (map Z.of_nat (seq 0 32)) fips_plain =
  [0x8e;0xa2;0xb7;0xca;0x51;0x67;0x45;0xbf;0xea;0xfc;0x49;0x90;0x4b;0x49;0x60;0x89].
Proof. vm_compute. reflexivity. Qed.

(* FIPS-197 Appendix B (the worked example): key 2b7e1516..., input 3243f6a8... *)
Example fips197_b : aes_encrypt_z
  [0x2b;0x7e;0x15;0x16;0x28;0xae;0xd2;0xa6;0xab;0xf7;0x15;0x88;0x09;0xcf;0x4f;0x3c]
  [0x32;0x43;0xf6;0xa8;0x88;0x5a;0x30;0x8d;0x31;0x31;0x98;0xa2;0xe0;0x37;0x07;0x34] =
  [0x39;0x25;0x84;0x1d;0x02;0xdc;0x09;0xfb;0xdc;0x11;0x85;0x97;0x19;0x6a;0x0b;0x32].
Proof. vm_compute. reflexivity. Qed.

(* the S-box is a permutation of 0..255 *)
Example sbox_permutation :
  forallb (fun y => existsb (fun x => Z.eqb (sbox (Z.of_nat x)) (Z.of_nat y)) (seq 0 256)) (seq 0 256) = true.
Proof. vm_compute. reflexivity. Qed.

(* ---- lengths ---- *)

Lemma xor_list_length a b : length (xor_list a b) = Nat.min (length a) (length b).
Proof. unfold xor_list. now rewrite map_length, combine_length. Qed.

Definition len4 (w : list Z) : Prop := length w = 4%nat.

Lemma rot_word_len4 w : len4 w -> len4 (rot_word w).
Proof. unfold len4. destruct w as [|a r]; cbn; [discriminate|]. rewrite app_length. cbn. lia. Qed.

Lemma sub_word_len4 w : len4 w -> len4 (sub_word w).
Proof. unfold len4, sub_word. now rewrite map_length. Qed.

Lemma nth_len4 ws i : Forall len4 ws -> (i < length ws)%nat -> len4 (nth i ws []).
Proof. intros H Hi. rewrite Forall_forall in H. apply H. now apply nth_In. Qed.

Lemma expand_inv st nk : forall i ws, i = length ws -> (1 <= nk <= i)%nat -> Forall len4 ws ->
  length (expand st nk i ws) = (i + st)%nat /\ Forall len4 (expand st nk i ws).
Proof.
  induction st as [|st IH]; intros i ws Hi Hnk Hall; cbn [expand]; [split; [lia|exact Hall]|].
  assert (Hp : len4 (nth (i - 1) ws [])) by (apply nth_len4; [exact Hall|lia]).
  assert (Hq : len4 (nth (i - nk) ws [])) by (apply nth_len4; [exact Hall|lia]).
  set (temp := if (i mod nk =? 0)%nat then _ else _).
  assert (Ht : len4 temp).
  { subst temp. destruct (i mod nk =? 0)%nat.
    - unfold len4. rewrite xor_list_length. rewrite (sub_word_len4 _ (rot_word_len4 _ Hp)). reflexivity.
    - destruct ((6 <? nk)%nat && (i mod nk =? 4)%nat); [now apply sub_word_len4|exact Hp]. }
  assert (Hw : len4 (xor_list (nth (i - nk) ws []) temp)).
  { unfold len4. rewrite xor_list_length. rewrite Hq, Ht. reflexivity. }
  destruct (IH (S i) (ws ++ [xor_list (nth (i - nk) ws []) temp])) as [L F].
  - rewrite app_length. cbn. lia.
  - lia.
  - apply Forall_app. split; [exact Hall|]. constructor; [exact Hw|constructor].
  - split; [lia|exact F].
Qed.

Lemma chunks4_inv n : forall l, length l = (4 * n)%nat ->
  length (chunks4 n l) = n /\ Forall len4 (chunks4 n l).
Proof.
  induction n as [|n IH]; intros l Hl; cbn [chunks4]; [split; [reflexivity|constructor]|].
  destruct l as [|a l']; [cbn in Hl; lia|].
  destruct (IH (skipn 4 (a :: l'))) as [L F]; [rewrite skipn_length; lia|].
  cbn [length]. split; [now rewrite L|].
  constructor; [|exact F]. unfold len4. rewrite firstn_length. lia.
Qed.

Lemma concat_len4 ws : Forall len4 ws -> length (concat ws) = (4 * length ws)%nat.
Proof.
  induction 1 as [|w ws Hw _ IH]; [reflexivity|]. cbn [concat length]. rewrite app_length, IH, Hw. lia.
Qed.

Lemma Forall_firstn {A} (P : A -> Prop) n : forall l, Forall P l -> Forall P (firstn n l).
Proof. induction n as [|n IH]; intros l H; [constructor|]. destruct H; cbn [firstn]; constructor; auto. Qed.

Lemma Forall_skipn {A} (P : A -> Prop) n : forall l, Forall P l -> Forall P (skipn n l).
Proof. induction n as [|n IH]; intros l H; [exact H|]. destruct H; cbn [skipn]; [constructor|auto]. Qed.

Lemma round_key_length ws j : Forall len4 ws -> (4 * j + 4 <= length ws)%nat -> length (round_key ws j) = 16%nat.
Proof.
  intros H Hj. unfold round_key. rewrite concat_len4.
  - rewrite firstn_length, skipn_length. lia.
  - apply Forall_firstn. now apply Forall_skipn.
Qed.

Lemma shift_rows_length s : length (shift_rows s) = 16%nat.
Proof. unfold shift_rows. now rewrite map_length, seq_length. Qed.

(* for a key of 16, 24 or 32 bytes the result has 16 bytes, whatever the input *)
Theorem aes_encrypt_length key block : In (length key) [16; 24; 32]%nat -> length (aes_encrypt key block) = 16%nat.
Proof.
  intros Hk. unfold aes_encrypt, aes_encrypt_z. rewrite map_length, xor_list_length, shift_rows_length, !map_length.
  set (nk := (length key / 4)%nat).
  assert (Hnk : (nk = 4 \/ nk = 6 \/ nk = 8)%nat /\ length (map bz key) = (4 * nk)%nat).
  { rewrite map_length. subst nk. cbn in Hk. destruct Hk as [E|[E|[E|[]]]]; rewrite <- E; cbn; auto. }
  destruct Hnk as [Hn Hl].
  unfold key_words. rewrite map_length. fold nk.
  destruct (chunks4_inv nk (map bz key) Hl) as [CL CF].
  destruct (expand_inv (4 * (nk + 6 + 1) - nk) nk nk (chunks4 nk (map bz key)) (eq_sym CL) ltac:(lia) CF) as [EL EF].
  rewrite (round_key_length _ (nk + 6) EF) by lia. reflexivity.
Qed.

