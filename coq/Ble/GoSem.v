(* The Gallina vocabulary the GoLite translator (harness/cmd/gvgen ble) targets. *)
From Coq Require Export QArith.
From GV Require Export Base.Bytes Base.LE Vedirect.Frame.
From GV Require Export Tables.ObsTypes Tables.Lookup Gen.ObsEnum.
Open Scope Z_scope.

Inductive M (A : Type) := MOk (a : A) | MFault.
Arguments MOk {A} a. Arguments MFault {A}.

Definition bind {A B} (m : M A) (f : A -> M B) : M B :=
  match m with MOk a => f a | MFault => MFault end.

(* float64 values as exact rationals; rounding is not modelled *)
Inductive fval := FNaN | FNum (q : Q).

Definition f_of_Z (z : Z) : fval := FNum (inject_Z z).
Definition f_const (n : Z) (d : positive) : fval := FNum (n # d).
Definition f_bin (op : Q -> Q -> Q) (a b : fval) : fval :=
  match a, b with FNum x, FNum y => FNum (op x y) | _, _ => FNaN end.
Definition f_add := f_bin Qplus.
Definition f_sub := f_bin Qminus.
Definition f_mul := f_bin Qmult.
Definition f_div := f_bin Qdiv.

Definition feq (a b : fval) : Prop :=
  match a, b with FNaN, FNaN => True | FNum x, FNum y => (x == y)%Q | _, _ => False end.

(* Go errors of the decoders *)
Inductive gerr := GNil | GInputTooShort | GInvalidEnumIdx.
Definition gerr_is_nil (e : gerr) : bool := match e with GNil => true | _ => false end.

(* slices: indexing, slicing and fixed-width reads are judged against len (a read into
   spare capacity is a fault of the model although Go would not panic) *)
Definition g_len (l : list byte) : Z := Z.of_nat (List.length l).

Definition is_neg (z : Z) : bool := match z with Zneg _ => true | _ => false end.

(* (the comparisons are made on nat so that they compute structurally on a list with a
   concrete prefix and an abstract tail) *)
Definition g_index (l : list byte) (i : Z) : M Z :=
  if is_neg i then MFault
  else match nth_error l (Z.to_nat i) with Some b => MOk (bz b) | None => MFault end.

Definition g_slice (l : list byte) (a b : Z) : M (list byte) :=
  if is_neg a || is_neg b then MFault
  else if (Z.to_nat a <=? Z.to_nat b)%nat && (Z.to_nat b <=? List.length l)%nat
       then MOk (firstn (Z.to_nat b - Z.to_nat a) (skipn (Z.to_nat a) l))
       else MFault.

Definition g_le (n : nat) (l : list byte) : M Z :=
  if (n <=? List.length l)%nat then MOk (le_val (firstn n l)) else MFault.
Definition g_le16 := g_le 2.
Definition g_le32 := g_le 4.
Definition g_le64 := g_le 8.

Definition g_bytes (l : list Z) : list byte := map zb l.

(* veconst.XFactory.New(b): the regenerated observation of the typed constructor *)
Definition enum_new (factory : string) (b : Z) : Z * gerr :=
  match find (fun e => String.eqb (e_name e) factory) obs_enums with
  | Some e => match assoc b (e_new_ok e) with
              | Some (idx, _) => (idx, GNil)
              | None => (0, GInvalidEnumIdx)
              end
  | None => (0, GInvalidEnumIdx)
  end.

(* decoded field values, for comparison with the layout specification *)
Inductive fieldval := FVFloat (f : fval) | FVInt (z : Z).

Definition fieldval_eq (a b : fieldval) : Prop :=
  match a, b with
  | FVFloat x, FVFloat y => feq x y
  | FVInt x, FVInt y => x = y
  | _, _ => False
  end.
