(* C07/C08: the translated decoder DecodeDcEnergyMeterRecord equals the layout specification, for every input. *)
From GV Require Import Ble.RefineTac.

Lemma layout_len_DcEnergyMeter : layout_len layout_DcEnergyMeter = 11.
Proof. vm_compute. reflexivity. Qed.

Theorem refine_DcEnergyMeter inp :
  good fields_DcEnergyMeterRecord (DecodeDcEnergyMeterRecord inp) (spec_decode layout_DcEnergyMeter inp).
Proof.
  unfold spec_decode. rewrite layout_len_DcEnergyMeter.
  unfold DecodeDcEnergyMeterRecord. unfold_helpers. cbn [bind].
  destruct (Z.ltb_spec (g_len inp) 11) as [Hs|Hl].
  - cbn. reflexivity.
  - do 11 (destruct inp as [|? inp]; [exfalso; unfold g_len in Hl; cbn [List.length] in Hl; lia|]); clear Hl.
    refine_core red_DcEnergyMeterRecord.
Qed.
