(* C07/C08: the translated decoder DecodeGxDeviceRecord equals the layout specification, for every input. *)
From GV Require Import Ble.RefineTac.

Lemma layout_len_GxDevice : layout_len layout_GxDevice = 11.
Proof. vm_compute. reflexivity. Qed.

Theorem refine_GxDevice inp :
  good fields_GxDeviceRecord (DecodeGxDeviceRecord inp) (spec_decode layout_GxDevice inp).
Proof.
  unfold spec_decode. rewrite layout_len_GxDevice.
  unfold DecodeGxDeviceRecord. unfold_helpers. cbn [bind].
  destruct (Z.ltb_spec (g_len inp) 11) as [Hs|Hl].
  - cbn. reflexivity.
  - do 11 (destruct inp as [|? inp]; [exfalso; unfold g_len in Hl; cbn [List.length] in Hl; lia|]); clear Hl.
    refine_core red_GxDeviceRecord.
Qed.
