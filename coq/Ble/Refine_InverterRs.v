(* C07/C08: the translated decoder DecodeInverterRsRecord equals the layout specification, for every input. *)
From GV Require Import Ble.RefineTac.

Lemma layout_len_InverterRs : layout_len layout_InverterRs = 12.
Proof. vm_compute. reflexivity. Qed.

Theorem refine_InverterRs inp :
  good fields_InverterRsRecord (DecodeInverterRsRecord inp) (spec_decode layout_InverterRs inp).
Proof.
  unfold spec_decode. rewrite layout_len_InverterRs.
  unfold DecodeInverterRsRecord. unfold_helpers. cbn [bind].
  destruct (Z.ltb_spec (g_len inp) 12) as [Hs|Hl].
  - cbn. reflexivity.
  - do 12 (destruct inp as [|? inp]; [exfalso; unfold g_len in Hl; cbn [List.length] in Hl; lia|]); clear Hl.
    refine_core red_InverterRsRecord.
Qed.
