(* C07/C08: the translated decoder DecodeDcDcConverterRecord equals the layout specification, for every input. *)
From GV Require Import Ble.RefineTac.

Lemma layout_len_DcDcConverter : layout_len layout_DcDcConverter = 10.
Proof. vm_compute. reflexivity. Qed.

Theorem refine_DcDcConverter inp :
  good fields_DcDcConverterRecord (DecodeDcDcConverterRecord inp) (spec_decode layout_DcDcConverter inp).
Proof.
  unfold spec_decode. rewrite layout_len_DcDcConverter.
  unfold DecodeDcDcConverterRecord. unfold_helpers. cbn [bind].
  destruct (Z.ltb_spec (g_len inp) 10) as [Hs|Hl].
  - cbn. reflexivity.
  - do 10 (destruct inp as [|? inp]; [exfalso; unfold g_len in Hl; cbn [List.length] in Hl; lia|]); clear Hl.
    refine_core red_DcDcConverterRecord.
Qed.
