(* C19: the advertisement handler under the device's AES key. *)
From Coq Require Import ZArith List Lia.
From GV Require Import Ble.GoSem Gen.BleImpl Ble.Handler Ble.HandlerFacts Ble.Aes Ble.AesFacts.
Import ListNotations.
Local Open Scope Z_scope.

(* C19: the handler under the device's key *)
Theorem handle_aes_ctr : forall key b0 b1 b2 b3 rtype nlo nhi b7 enc,
  In (List.length key) [16; 24; 32]%nat -> (1 <= List.length enc)%nat ->
  let plain := ctr_decrypt (aes_encrypt key) nlo nhi (pkcs7 enc 16) in
  handle (aes_encrypt key) (List.length key) (b0 :: b1 :: b2 :: b3 :: rtype :: nlo :: nhi :: b7 :: enc) =
    (if bz rtype =? 1 then HSolar plain (DecodeSolarChargeRecord plain) else HPlain plain) /\
  firstn (List.length enc) plain = ctr_decrypt (aes_encrypt key) nlo nhi enc.
Proof.
  intros key b0 b1 b2 b3 rtype nlo nhi b7 enc Hk He plain. split.
  - apply handle_dispatch; [|exact He]. cbn in Hk. destruct Hk as [<-|[<-|[<-|[]]]]; reflexivity.
  - subst plain. destruct (pkcs7_spec enc 16 ltac:(lia)) as (n & _ & -> & _).
    apply ctr_decrypt_prefix. intros c. now apply aes_encrypt_length.
Qed.
