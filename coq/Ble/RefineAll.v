(* C07/C08: the thirteen refinement theorems collected, and their corollaries. *)
From GV Require Import Ble.GoSem Ble.Layout Ble.LayoutFacts Gen.BleImpl Ble.RefineTac.
From GV Require Import Ble.Refine_AcCharger Ble.Refine_BatteryMonitor Ble.Refine_DcDcConverter Ble.Refine_DcEnergyMeter
     Ble.Refine_GxDevice Ble.Refine_Inverter Ble.Refine_InverterRs Ble.Refine_LynxSmartBms Ble.Refine_MultiRs
     Ble.Refine_SmartBatteryProtect Ble.Refine_SmartLithium Ble.Refine_SolarCharger Ble.Refine_VeBus.
Open Scope Z_scope.

Definition refines {R} (fields : R -> list fieldval) (dec : list byte -> M (R * gerr)) (l : list field) : Prop :=
  forall inp, good fields (dec inp) (spec_decode l inp).

(* what C08 asks of one decoder *)
Definition length_safe {R} (fields : R -> list fieldval) (dec : list byte -> M (R * gerr)) (l : list field) : Prop :=
  (* total: never a panic / read beyond the slice's length *)
  (forall inp, dec inp <> MFault) /\
  (* ErrInputTooShort exactly when shorter than the documented record length *)
  (forall inp r e, dec inp = MOk (r, e) -> (e = GInputTooShort <-> g_len inp < layout_len l)) /\
  (* the bytes after the record do not matter *)
  (forall r s, layout_len l <= g_len r -> good fields (dec (r ++ s)) (spec_decode l r)).

Lemma refines_length_safe {R} (fields : R -> list fieldval) dec l :
  layout_fits l = true -> refines fields dec l -> length_safe fields dec l.
Proof.
  intros F H. split; [|split].
  - intros inp E. specialize (H inp). rewrite E in H. exact H.
  - intros inp r e E. specialize (H inp). rewrite E in H. unfold good in H.
    pose proof (spec_short_iff l inp) as S.
    destruct (spec_decode l inp) as [fs|se] eqn:Es.
    + destruct H as [-> _]. split; [discriminate|]. intros L. apply S in L. discriminate.
    + subst se. split.
      * intros ->. now apply S.
      * intros L. apply S in L. now injection L.
  - intros r s L. rewrite <- (spec_decode_app l r s F L). apply H.
Qed.

Theorem all_refine :
  refines fields_AcChargerRecord DecodeAcChargerRecord layout_AcCharger /\
  refines fields_BatteryMonitorRecord DecodeBatteryMonitorRecord layout_BatteryMonitor /\
  refines fields_DcDcConverterRecord DecodeDcDcConverterRecord layout_DcDcConverter /\
  refines fields_DcEnergyMeterRecord DecodeDcEnergyMeterRecord layout_DcEnergyMeter /\
  refines fields_GxDeviceRecord DecodeGxDeviceRecord layout_GxDevice /\
  refines fields_InverterRecord DecodeInverterRecord layout_Inverter /\
  refines fields_InverterRsRecord DecodeInverterRsRecord layout_InverterRs /\
  refines fields_LynxSmartBms DecodeLynxSmartBms layout_LynxSmartBms /\
  refines fields_MultiRsRecord DecodeMultiRsRecord layout_MultiRs /\
  refines fields_SmartBatteryProtectRecord DecodeSmartBatteryProtectRecord layout_SmartBatteryProtect /\
  refines fields_SmartLithiumRecord DecodeSmartLithiumRecord layout_SmartLithium /\
  refines fields_SolarChargerRecord DecodeSolarChargeRecord layout_SolarCharger /\
  refines fields_VeBusRecord DecodeVeBusRecord layout_VeBus.
Proof.
  repeat split; intro inp;
    first [ apply refine_AcCharger | apply refine_BatteryMonitor | apply refine_DcDcConverter | apply refine_DcEnergyMeter
          | apply refine_GxDevice | apply refine_Inverter | apply refine_InverterRs | apply refine_LynxSmartBms
          | apply refine_MultiRs | apply refine_SmartBatteryProtect | apply refine_SmartLithium | apply refine_SolarCharger
          | apply refine_VeBus ].
Qed.

Lemma all_layouts_fit :
  forallb layout_fits [layout_AcCharger; layout_BatteryMonitor; layout_DcDcConverter; layout_DcEnergyMeter; layout_GxDevice;
                       layout_Inverter; layout_InverterRs; layout_LynxSmartBms; layout_MultiRs; layout_SmartBatteryProtect;
                       layout_SmartLithium; layout_SolarCharger; layout_VeBus] = true.
Proof. vm_compute. reflexivity. Qed.

Theorem all_length_safe :
  length_safe fields_AcChargerRecord DecodeAcChargerRecord layout_AcCharger /\
  length_safe fields_BatteryMonitorRecord DecodeBatteryMonitorRecord layout_BatteryMonitor /\
  length_safe fields_DcDcConverterRecord DecodeDcDcConverterRecord layout_DcDcConverter /\
  length_safe fields_DcEnergyMeterRecord DecodeDcEnergyMeterRecord layout_DcEnergyMeter /\
  length_safe fields_GxDeviceRecord DecodeGxDeviceRecord layout_GxDevice /\
  length_safe fields_InverterRecord DecodeInverterRecord layout_Inverter /\
  length_safe fields_InverterRsRecord DecodeInverterRsRecord layout_InverterRs /\
  length_safe fields_LynxSmartBms DecodeLynxSmartBms layout_LynxSmartBms /\
  length_safe fields_MultiRsRecord DecodeMultiRsRecord layout_MultiRs /\
  length_safe fields_SmartBatteryProtectRecord DecodeSmartBatteryProtectRecord layout_SmartBatteryProtect /\
  length_safe fields_SmartLithiumRecord DecodeSmartLithiumRecord layout_SmartLithium /\
  length_safe fields_SolarChargerRecord DecodeSolarChargeRecord layout_SolarCharger /\
  length_safe fields_VeBusRecord DecodeVeBusRecord layout_VeBus.
Proof.
  pose proof all_layouts_fit as F. cbn [forallb] in F.
  repeat (apply andb_prop in F as [? F]).
  destruct all_refine as (R1 & R2 & R3 & R4 & R5 & R6 & R7 & R8 & R9 & R10 & R11 & R12 & R13).
  repeat (split; [apply refines_length_safe; assumption|]). apply refines_length_safe; assumption.
Qed.
