(* C07/C08 specification: bit slices and the published layouts of the thirteen BLE
   advertisement records (transcribed from the tables above each record struct in
   /repo/bleparser, read with the rules of DESIGN.md section 6).  No proofs here. *)
From GV Require Export Ble.GoSem.

(* the little-endian bit slice [start, start+width), from the bytes covering it *)
Definition bits (inp : list byte) (start width : Z) : Z :=
  let nb := Z.to_nat ((start mod 8 + width + 7) / 8) in
  (le_val (firstn nb (skipn (Z.to_nat (start / 8)) inp)) / 2 ^ (start mod 8)) mod 2 ^ width.

Inductive fkind :=
| KFloat (scale off : Q)          (* value = raw * scale + off; NA codes -> NaN *)
| KInt                            (* raw integer (signed or unsigned as declared) *)
| KEnum (factory : string).       (* raw byte validated by the named veconst factory *)

Record field := mkField {
  fd_name : string;
  fd_start : Z; fd_width : Z;
  fd_signed : bool;               (* two's complement of the field width *)
  fd_na : list Z;                 (* not-available raw codes (compared before sign extension) *)
  fd_kind : fkind;
  fd_when : option (Z * Z * Z)    (* Some (start,width,v): the field carries a value only if bits = v *)
}.

Definition raw_value (inp : list byte) (f : field) : Z :=
  let u := bits inp (fd_start f) (fd_width f) in
  if fd_signed f then wrapS (fd_width f) u else u.

Definition field_value (inp : list byte) (f : field) : fieldval :=
  let u := bits inp (fd_start f) (fd_width f) in
  match fd_kind f with
  | KFloat scale off =>
      let active := match fd_when f with
                    | Some (s, w, v) => bits inp s w =? v
                    | None => true
                    end in
      if negb active || existsb (Z.eqb u) (fd_na f) then FVFloat FNaN
      else FVFloat (FNum (inject_Z (raw_value inp f) * scale + off))
  | KInt => FVInt (raw_value inp f)
  | KEnum _ => FVInt u
  end.

(* documented byte length: ceil(max(start+width)/8) *)
Definition layout_len (l : list field) : Z :=
  (fold_right Z.max 0 (map (fun f => fd_start f + fd_width f) l) + 7) / 8.

Inductive spec_result := SpecFields (fs : list fieldval) | SpecError (e : gerr).

Fixpoint first_enum_error (inp : list byte) (l : list field) : bool :=
  match l with
  | [] => false
  | f :: r =>
      match fd_kind f with
      | KEnum fac => if gerr_is_nil (snd (enum_new fac (bits inp (fd_start f) (fd_width f))))
                     then first_enum_error inp r else true
      | _ => first_enum_error inp r
      end
  end.

Definition spec_decode (l : list field) (inp : list byte) : spec_result :=
  if g_len inp <? layout_len l then SpecError GInputTooShort
  else if first_enum_error inp l then SpecError GInvalidEnumIdx
  else SpecFields (map (field_value inp) l).

(* ---- the thirteen layouts ---- *)

Definition fl (name : string) (start width : Z) (signed : bool) (na : list Z) (scale off : Q) : field :=
  mkField name start width signed na (KFloat scale off) None.
Definition flw (name : string) (start width : Z) (signed : bool) (na : list Z) (scale off : Q) (w : Z * Z * Z) : field :=
  mkField name start width signed na (KFloat scale off) (Some w).
Definition fi (name : string) (start width : Z) (signed : bool) : field :=
  mkField name start width signed [] KInt None.
Definition fe (name : string) (start width : Z) (factory : string) : field :=
  mkField name start width false [] (KEnum factory) None.

Local Open Scope string_scope.

Definition layout_BatteryMonitor : list field := [
  fl "Ttg" 0 16 false [65535] 60 0;                                  (* minutes -> s *)
  fl "BatteryVoltage" 16 16 true [32767] (1 # 100) 0;
  fi "AlarmReason" 32 16 false;
  flw "AuxVoltage" 48 16 true [32767] (1 # 100) 0 (64, 2, 0);
  flw "MidVoltage" 48 16 false [65535] (1 # 100) 0 (64, 2, 1);
  flw "Temperature" 48 16 false [65535] (1 # 100) (- (27315 # 100)) (64, 2, 2);   (* 0.01 K -> degC *)
  fi "AuxMode" 64 2 false;
  fl "BatteryCurrent" 66 22 true [4194303; 2097151] (1 # 1000) 0;
  fl "ConsumedAh" 88 20 false [1048575] (- (1 # 10)) 0;              (* -104857 .. 0 Ah *)
  fl "StateOfCharge" 108 10 false [1023] (1 # 10) 0 ].

Definition layout_SolarCharger : list field := [
  fe "DeviceState" 0 8 "SolarChargerStateFactoryType";
  fe "ChargerError" 8 8 "SolarChargerErrorFactoryType";
  fl "BatteryVoltage" 16 16 true [32767] (1 # 100) 0;
  fl "BatteryCurrent" 32 16 true [32767] (1 # 10) 0;
  fl "YieldToday" 48 16 false [65535] 10 0;                          (* 0.01 kWh -> Wh *)
  fl "PvPower" 64 16 false [65535] 1 0;
  fl "LoadCurrent" 80 9 false [511] (1 # 10) 0 ].

Definition layout_DcDcConverter : list field := [
  fe "DeviceState" 0 8 "DcDcConverterStateFactoryType";
  fe "ChargerError" 8 8 "DcDcConverterErrorFactoryType";
  fl "InputVoltage" 16 16 false [65535] (1 # 100) 0;
  fl "OutputVoltage" 32 16 true [32767] (1 # 100) 0;
  fi "OffReason" 48 32 false ].

Definition layout_Inverter : list field := [
  fe "DeviceState" 0 8 "InverterStateFactoryType";
  fi "AlarmReason" 8 16 false;
  fl "BatteryVoltage" 24 16 true [32767] (1 # 100) 0;
  fl "AcApparentPower" 40 16 false [65535] 1 0;
  fl "AcVoltage" 56 15 false [32767] (1 # 100) 0;
  fl "AcCurrent" 71 11 false [2047] (1 # 10) 0 ].

Definition layout_InverterRs : list field := [
  fe "DeviceState" 0 8 "InverterStateFactoryType";
  fe "ChargerError" 8 8 "SolarChargerErrorFactoryType";
  fl "BatteryVoltage" 16 16 true [32767] (1 # 100) 0;
  fl "BatteryCurrent" 32 16 true [32767] (1 # 10) 0;
  fl "PvPower" 48 16 false [65535] 1 0;
  fl "YieldToday" 64 16 false [65535] 10 0;
  fl "AcOutPower" 80 16 true [32767] 1 0 ].

Definition layout_GxDevice : list field := [
  fl "BatteryVoltage" 0 16 false [65535] (1 # 100) 0;
  fl "PvPower" 16 20 false [1048575] 1 0;
  fl "Soc" 36 7 false [127] 1 0;
  fl "BatteryPower" 43 21 true [1048575] 1 0;
  fl "DcPower" 64 21 true [1048575] 1 0 ].

Definition layout_AcCharger : list field := [
  fe "DeviceState" 0 8 "SolarChargerStateFactoryType";
  fe "ChargerError" 8 8 "SolarChargerErrorFactoryType";
  fl "BatteryVoltage1" 16 13 false [8191] (1 # 100) 0;
  fl "BatteryCurrent1" 29 11 false [2047] (1 # 10) 0;
  fl "BatteryVoltage2" 40 13 false [8191] (1 # 100) 0;
  fl "BatteryCurrent2" 53 11 false [2047] (1 # 10) 0;
  fl "BatteryVoltage3" 64 13 false [8191] (1 # 100) 0;
  fl "BatteryCurrent3" 77 11 false [2047] (1 # 10) 0;
  fl "Temperature" 88 7 false [127] 1 (- 40);
  fl "AcCurrent" 95 9 false [511] (1 # 10) 0 ].

Definition layout_SmartBatteryProtect : list field := [
  fi "DeviceState" 0 8 false;
  fi "OutputState" 8 8 false;
  fi "ErrorCode" 16 8 false;
  fi "AlarmReason" 24 16 false;
  fi "WarningReason" 40 16 false;
  fl "InputVoltage" 56 16 true [32767] (1 # 100) 0;
  fl "OutputVoltage" 72 16 false [65535] (1 # 100) 0;
  fi "OffReason" 88 32 false ].

Definition layout_LynxSmartBms : list field := [
  fi "Error" 0 8 false;
  fl "Ttg" 8 16 false [65535] 60 0;
  fl "BatteryVoltage" 24 16 true [32767] (1 # 100) 0;
  fl "BatteryCurrent" 40 16 true [32767] (1 # 10) 0;
  fi "IoStatus" 56 16 false;
  fi "WarningsAlarms" 72 18 false;
  fl "Soc" 90 10 false [1023] (1 # 10) 0;
  fl "ConsumedAh" 100 20 false [1048575] (- (1 # 10)) 0;
  fl "Temperature" 120 7 false [127] 1 (- 40) ].

Definition layout_MultiRs : list field := [
  fe "DeviceState" 0 8 "InverterStateFactoryType";
  fe "ChargerError" 8 8 "SolarChargerErrorFactoryType";
  fl "BatteryCurrent" 16 16 true [32767] (1 # 10) 0;
  fl "BatteryVoltage" 32 14 false [16383] (1 # 100) 0;               (* 0 .. 163.83 V on 14 bits *)
  fi "ActiveAcIn" 46 2 false;
  fl "ActiveAcInPower" 48 16 true [32767] 1 0;
  fl "AcOutPower" 64 16 true [32767] 1 0;
  fl "PvPower" 80 16 false [65535] 1 0;
  fl "YieldToday" 96 16 false [65535] 10 0 ].

Definition layout_VeBus : list field := [
  fi "DeviceState" 0 8 false;
  fi "VeBusError" 8 8 false;
  fl "BatteryCurrent" 16 16 true [32767] (1 # 10) 0;
  fl "BatteryVoltage" 32 14 false [16383] (1 # 100) 0;
  fi "ActiveAcIn" 46 2 false;
  fl "ActiveAcInPower" 48 19 true [524287] 1 0;
  fl "AcOutPower" 67 19 true [524287] 1 0;
  fi "Alarm" 86 2 false;
  fl "Temperature" 88 7 false [127] 1 (- 40);
  fl "Soc" 95 7 false [127] 1 0 ].

Definition layout_DcEnergyMeter : list field := [
  fi "BmvMonitorMode" 0 16 true;
  fl "BatteryVoltage" 16 16 true [32767] (1 # 100) 0;
  fi "AlarmReason" 32 16 false;
  flw "AuxVoltage" 48 16 true [32767] (1 # 100) 0 (64, 2, 0);
  flw "Temperature" 48 16 false [65535] (1 # 100) 0 (64, 2, 2);      (* the record declares K *)
  fi "AuxMode" 64 2 false;
  fl "BatteryCurrent" 66 22 true [4194303] (1 # 1000) 0 ].

Definition cell (name : string) (start : Z) : field := fl name start 7 false [127] (1 # 100) (26 # 10).

Definition layout_SmartLithium : list field := [
  fi "BmvFlags" 0 32 false;
  fi "SmartLithiumError" 32 16 false;
  cell "Cell1" 48; cell "Cell2" 55; cell "Cell3" 62; cell "Cell4" 69;
  cell "Cell5" 76; cell "Cell6" 83; cell "Cell7" 90; cell "Cell8" 97;
  fl "BatteryVoltage" 104 12 false [4095] (1 # 100) 0;
  fi "BalancerStatus" 116 4 false;
  fl "BatteryTemperature" 120 7 false [127] 1 (- 40) ].
