(* C07/C08: the translated decoder DecodeSolarChargeRecord equals the layout specification, for every input. *)
From GV Require Import Ble.RefineTac.

Lemma layout_len_SolarCharger : layout_len layout_SolarCharger = 12.
Proof. vm_compute. reflexivity. Qed.

Theorem refine_SolarCharger inp :
  good fields_SolarChargerRecord (DecodeSolarChargeRecord inp) (spec_decode layout_SolarCharger inp).
Proof.
  unfold spec_decode. rewrite layout_len_SolarCharger.
  unfold DecodeSolarChargeRecord. unfold_helpers. cbn [bind].
  destruct (Z.ltb_spec (g_len inp) 12) as [Hs|Hl].
  - cbn. reflexivity.
  - do 12 (destruct inp as [|? inp]; [exfalso; unfold g_len in Hl; cbn [List.length] in Hl; lia|]); clear Hl.
    refine_core red_SolarChargerRecord.
Qed.
