(* C07/C08: the translated decoder DecodeSmartBatteryProtectRecord equals the layout specification, for every input. *)
From GV Require Import Ble.RefineTac.

Lemma layout_len_SmartBatteryProtect : layout_len layout_SmartBatteryProtect = 15.
Proof. vm_compute. reflexivity. Qed.

Theorem refine_SmartBatteryProtect inp :
  good fields_SmartBatteryProtectRecord (DecodeSmartBatteryProtectRecord inp) (spec_decode layout_SmartBatteryProtect inp).
Proof.
  unfold spec_decode. rewrite layout_len_SmartBatteryProtect.
  unfold DecodeSmartBatteryProtectRecord. unfold_helpers. cbn [bind].
  destruct (Z.ltb_spec (g_len inp) 15) as [Hs|Hl].
  - cbn. reflexivity.
  - do 15 (destruct inp as [|? inp]; [exfalso; unfold g_len in Hl; cbn [List.length] in Hl; lia|]); clear Hl.
    refine_core red_SmartBatteryProtectRecord.
Qed.
