(* The float vocabulary of the GoLite translator once more, this time in IEEE-754 binary64
   (Flocq): a float64 is its bit pattern (math.Float64bits).  Gen/BleImplF.v is the SAME
   generated text as Gen/BleImpl.v, read against this vocabulary (Module FV shadows the names
   fval, f_of_Z, f_const, f_add, f_sub, f_mul, f_div, FNaN, FNum, fieldval, FVFloat, FVInt); it is
   executed by the runner and compared bit for bit with what the real decoders return.  The
   refinement theorems are about the exact-rational reading (Ble/GoSem.v). *)
From Coq Require Import ZArith QArith.
From Flocq Require Import Core IEEE754.BinarySingleNaN IEEE754.Binary IEEE754.Bits.
From GV Require Export Ble.GoSem.
From GV Require Import Api.Float.
Local Open Scope Z_scope.

Module FV.
  Definition fval := Z.

  Definition f64_mul : binary64 -> binary64 -> binary64 := Bmult 53 1024 eq_refl eq_refl binop_nan_pl64 mode_NE.
  Definition f64_minus : binary64 -> binary64 -> binary64 := Bminus 53 1024 eq_refl eq_refl binop_nan_pl64 mode_NE.

  Definition lift2 (op : binary64 -> binary64 -> binary64) (a b : fval) : fval :=
    bits_of_b64 (op (b64_of_bits a) (b64_of_bits b)).

  Definition f_of_Z (z : Z) : fval := bits_of_b64 (f64_of_Z z).
  (* a decimal literal n/d: the nearest float64 (one correctly rounded division of two exactly
     represented integers) *)
  Definition f_const (n : Z) (d : positive) : fval := bits_of_b64 (f64_div (f64_of_Z n) (f64_of_Z (Zpos d))).
  Definition f_add := lift2 f64_plus.
  Definition f_sub := lift2 f64_minus.
  Definition f_mul := lift2 f64_mul.
  Definition f_div := lift2 f64_div.

  Definition FNaN : fval := 0x7FF8000000000001.                (* math.NaN() *)
  Definition FNum (q : Q) : fval := f_const (Qnum q) (Qden q).

  Definition is_nan_bits (b : fval) : bool :=
    (Z.land (Z.shiftr b 52) 0x7FF =? 0x7FF) && negb (Z.land b 0xFFFFFFFFFFFFF =? 0).

  Inductive fieldval := FVFloat (f : fval) | FVInt (z : Z).
End FV.
