(* The generic refinement script: a translated decoder equals the layout specification. *)
From Coq Require Import ZifyBool.
From GV Require Export Ble.GoSem Ble.Layout Gen.BleImpl Tables.Enum Tables.EnumFacts.
Ltac Zify.zify_post_hook ::= Z.div_mod_to_equations.
Open Scope Z_scope.

Arguments Z.mul : simpl never. Arguments Z.add : simpl never. Arguments Z.sub : simpl never.
Arguments Z.div : simpl never. Arguments Z.modulo : simpl never. Arguments Z.pow : simpl never.
Arguments Z.land : simpl never. Arguments Z.lor : simpl never. Arguments Z.shiftr : simpl never.
Arguments Z.shiftl : simpl never. Arguments Z.opp : simpl never. Arguments Z.eqb : simpl never.
Arguments Z.ltb : simpl never. Arguments Z.leb : simpl never. Arguments Z.of_nat : simpl never.
Arguments Z.to_nat : simpl never. Arguments Z.max : simpl never.
Arguments inject_Z : simpl never. Arguments Qmult : simpl never. Arguments Qdiv : simpl never.
Arguments Qminus : simpl never. Arguments Qplus : simpl never. Arguments Qopp : simpl never.
Arguments bz : simpl never. Arguments zb : simpl never.
Arguments wrapU : simpl never. Arguments wrapS : simpl never.
Arguments enum_new : simpl never.

Definition good {R} (fields : R -> list fieldval) (m : M (R * gerr)) (sp : spec_result) : Prop :=
  match m, sp with
  | MOk (r, e), SpecFields fs => e = GNil /\ Forall2 fieldval_eq (fields r) fs
  | MOk (r, e), SpecError se => e = se
  | MFault, _ => False
  end.

(* an enum value accepted by the typed constructor is the byte itself *)
Lemma enum_new_ok_idx f b v : enum_new f b = (v, GNil) -> v = b.
Proof.
  unfold enum_new. destruct (find _ obs_enums) as [e|] eqn:Ef; [|discriminate].
  apply find_some in Ef as [Hin _].
  destruct all_enum_obs_ok as [A _]. rewrite forallb_forall in A. specialize (A e Hin).
  unfold enum_obs_ok in A. repeat (apply andb_prop in A as [A ?]).
  destruct (assoc b (e_new_ok e)) as [[idx nm]|] eqn:Ea; [|discriminate].
  intros E. injection E as <-.
  apply assoc_in in Ea.
  match goal with H : list_eqb pair_eqb (e_new_ok e) _ = true |- _ => rename H into L end.
  clear - Ea L. revert L. generalize (e_map e). induction (e_new_ok e) as [|x l IH]; intros m L; [destruct Ea|].
  destruct m as [|[k n] m]; cbn [map list_eqb] in L; [discriminate|].
  apply andb_prop in L as [P L]. destruct Ea as [->|Ea]; [|eapply IH; eassumption].
  unfold pair_eqb in P. cbn [fst snd] in P. lia.
Qed.

Lemma enum_new_err f b v e : enum_new f b = (v, e) -> e = GNil \/ e = GInvalidEnumIdx.
Proof.
  unfold enum_new. destruct (find _ obs_enums); [destruct (assoc _ _) as [[? ?]|]|]; intros E; injection E as _ <-; auto.
Qed.

Lemma land_mask x k : 0 <= k -> Z.land x (2 ^ k - 1) = x mod 2 ^ k.
Proof. intros. rewrite <- Z.land_ones by lia. f_equal. rewrite Z.ones_equiv. lia. Qed.

Lemma g_len_cons (b : byte) l : g_len (b :: l) = 1 + g_len l.
Proof. unfold g_len. cbn [List.length]. lia. Qed.

Lemma g_len_nonneg l : 0 <= g_len l.
Proof. unfold g_len. lia. Qed.

Ltac norm_pow := repeat match goal with
  | |- context[2 ^ ?k] => let v := eval vm_compute in (2 ^ k) in change (2 ^ k) with v
  end.
Ltac norm_pow_all := repeat match goal with
  | H : context[2 ^ ?k] |- _ => let v := eval vm_compute in (2 ^ k) in change (2 ^ k) with v in H
  end; norm_pow.

Ltac mask k := let m := eval vm_compute in (2 ^ k - 1) in
  repeat match goal with |- context[Z.land ?x m] =>
    change (Z.land x m) with (Z.land x (2 ^ k - 1)); rewrite (land_mask x k) by lia end.
Ltac masks := mask 2; mask 4; mask 7; mask 9; mask 10; mask 11; mask 12; mask 13; mask 14; mask 15; mask 16;
              mask 18; mask 19; mask 20; mask 21; mask 22.
Ltac shifts := repeat rewrite Z.shiftr_div_pow2 by lia; repeat rewrite Z.shiftl_mul_pow2 by lia.

Ltac bytes_bounds := repeat match goal with b : byte |- _ =>
  let H := fresh "Hb" in pose proof (bz_range b) as H; generalize dependent (bz b); clear b; intros end.

Ltac eqbs := repeat match goal with
  | H : (Z.eqb ?a ?b) = true |- _ => apply Z.eqb_eq in H
  | H : (Z.eqb ?a ?b) = false |- _ => apply Z.eqb_neq in H
  | |- context[Z.eqb ?a ?b] => destruct (Z.eqb_spec a b)
  end.

Ltac qz := cbv [feq fieldval_eq Qeq Qmult Qdiv Qinv Qplus Qminus Qopp inject_Z Qnum Qden f_of_Z f_const f_bin f_add f_sub f_mul f_div]; lia.

(* ---- normalising the translated decoder ---- *)

Lemma if_MOk {A} (c : bool) (x y : A) : (if c then MOk x else MOk y) = MOk (if c then x else y).
Proof. destruct c; reflexivity. Qed.

Lemma if_triple {A B C} (c : bool) (a b : A) (e : B) (d : C) :
  (if c then (a, e, d) else (b, e, d)) = ((if c then a else b), e, d).
Proof. destruct c; reflexivity. Qed.

Ltac ground e := lazymatch e with
  | context[bz _] => fail | context[g_len _] => fail | context[List.length _] => fail | _ => idtac end.

Ltac compute_closed := repeat match goal with
  | |- context[Z.to_nat ?e] => ground e; let v := eval vm_compute in (Z.to_nat e) in progress change (Z.to_nat e) with v
  | |- context[wrapS ?w ?e] => ground e; let v := eval vm_compute in (wrapS w e) in progress change (wrapS w e) with v
  | |- context[wrapU ?w ?e] => ground e; let v := eval vm_compute in (wrapU w e) in progress change (wrapU w e) with v
  end.

(* bits with literal start/width: the closed sub-terms are evaluated *)
Ltac eval_bits := repeat match goal with
  | |- context[bits ?l ?s ?w] =>
      let nb := eval vm_compute in (Z.to_nat ((s mod 8 + w + 7) / 8)) in
      let sk := eval vm_compute in (Z.to_nat (s / 8)) in
      let sh := eval vm_compute in (2 ^ (s mod 8)) in
      let md := eval vm_compute in (2 ^ w) in
      change (bits l s w) with ((le_val (firstn nb (skipn sk l)) / sh) mod md)
  end.

Ltac push_ifs :=
  repeat (first [ rewrite if_MOk | rewrite if_triple | progress autorewrite with ifpush ]; cbn [bind]).

(* ---- the generic proof ---- *)

Ltac destruct_bytes n inp Hl :=
  do n (destruct inp as [|? inp]; [exfalso; unfold g_len in Hl; cbn [List.length] in Hl; lia|]); clear Hl.

Ltac enum_cases := repeat match goal with |- context[enum_new ?f ?x] =>
  let v := fresh "v" in let e := fresh "e" in let E := fresh "E" in
  destruct (enum_new f x) as [v e] eqn:E;
  destruct (enum_new_err _ _ _ _ E); subst e; cbn;
  [apply enum_new_ok_idx in E; subst v|] end.

(* remaining ifs whose branches are records (mode switches): case split *)
Ltac record_ifs := repeat match goal with
  | |- context[if ?c then ?a else ?b] =>
      lazymatch type of a with
      | fval => fail | Z => fail | fieldval => fail | bool => fail
      | _ => destruct c eqn:?
      end
  end.

Ltac hyp_eqbs := repeat match goal with
  | H : (Z.eqb ?a ?b) = true |- _ => apply Z.eqb_eq in H
  | H : (Z.eqb ?a ?b) = false |- _ => apply Z.eqb_neq in H
  | H : negb _ = true |- _ => apply negb_true_iff in H
  | H : negb _ = false |- _ => apply negb_false_iff in H
  | H : (_ || _) = false |- _ => apply orb_false_iff in H; destruct H
  end.

Ltac field_goal :=
  rewrite ?zb_bz in *;
  bytes_bounds;
  cbv [fieldval_eq feq f_of_Z f_const f_bin f_add f_sub f_mul f_div];
  hyp_eqbs;
  repeat match goal with
  | |- context[Z.eqb ?a ?b] => destruct (Z.eqb_spec a b)
  end; cbn [negb orb andb existsb];
  unfold wrapU, wrapS in *; norm_pow_all;
  try (exfalso; lia); try lia; try exact I;
  try (cbv [Qeq Qmult Qdiv Qinv Qplus Qminus Qopp inject_Z Qnum Qden]; lia).

Ltac refine_core redtac :=
  unfold g_index, g_slice, g_le16, g_le32, g_le64, g_le, g_bytes;
  compute_closed; cbn;
  eval_bits; cbn [firstn skipn le_val];
  repeat match goal with |- context[((bz ?b + 256 * 0) / 1) mod 256] =>
    replace (((bz b + 256 * 0) / 1) mod 256) with (bz b) by (pose proof (bz_range b); lia) end;
  enum_cases;
  push_ifs;
  cbv beta iota delta [good];
  try reflexivity;
  (split; [reflexivity|]);
  masks; shifts;
  record_ifs;
  redtac;
  repeat (constructor; [|]); try constructor;
  field_goal.
