(* C19 proofs. *)
From Coq Require Import ZifyBool.
From GV Require Import Base.HexFacts Ble.GoSem Gen.BleImpl Ble.Handler Ble.Layout Ble.LayoutFacts Ble.RefineTac Ble.Refine_SolarCharger.
Ltac Zify.zify_post_hook ::= Z.div_mod_to_equations.
Open Scope Z_scope.

(* ---- padding ---- *)

Theorem pkcs7_spec data bs : (1 <= bs <= 255)%nat ->
  exists n, (1 <= n <= bs)%nat /\
    pkcs7 data bs = data ++ repeat (zb (Z.of_nat n)) n /\
    bz (zb (Z.of_nat n)) = Z.of_nat n /\
    (List.length (pkcs7 data bs) mod bs = 0)%nat.
Proof.
  intros H. unfold pkcs7. set (n := (bs - List.length data mod bs)%nat).
  assert (Hm : (List.length data mod bs < bs)%nat) by (apply Nat.mod_upper_bound; lia).
  exists n. split; [subst n; lia|]. split; [reflexivity|]. split.
  - rewrite bz_zb. subst n. lia.
  - rewrite app_length, repeat_length. subst n.
    pose proof (Nat.div_mod (List.length data) bs ltac:(lia)) as D.
    set (q := (List.length data / bs)%nat) in *. set (r := (List.length data mod bs)%nat) in *.
    replace (List.length data + (bs - r))%nat with ((q + 1) * bs)%nat by lia.
    apply Nat.mod_mul. lia.
Qed.

Lemma pkcs7_prefix data bs : firstn (List.length data) (pkcs7 data bs) = data.
Proof. unfold pkcs7. rewrite firstn_app, firstn_all, Nat.sub_diag. cbn. now rewrite app_nil_r. Qed.

(* ---- CTR ---- *)

Lemma xor_bytes_length a b : List.length (xor_bytes a b) = Nat.min (List.length a) (List.length b).
Proof. unfold xor_bytes. now rewrite map_length, combine_length. Qed.

Lemma firstn_xor n a b : firstn n (xor_bytes a b) = xor_bytes (firstn n a) b.
Proof.
  revert a b. induction n as [|n IH]; intros a b; [reflexivity|].
  destruct a as [|x a]; [reflexivity|]. destruct b as [|y b]; [cbn; destruct (firstn n a); reflexivity|].
  cbn [xor_bytes combine map firstn]. f_equal. apply IH.
Qed.

Lemma ctr_stream_nil fuel E c : ctr_stream fuel E c [] = [].
Proof. destruct fuel; reflexivity. Qed.

Lemma ctr_stream_step fuel E c data : data <> [] ->
  ctr_stream (S fuel) E c data = xor_bytes (firstn 16 data) (E c) ++ ctr_stream fuel E (ctr_inc c) (skipn 16 data).
Proof. intros H. destruct data; [contradiction|reflexivity]. Qed.

(* the first |ct| plaintext bytes do not depend on what is appended to the ciphertext
   (advertisements are padded before decryption): stated for block functions that return
   full blocks *)
Theorem ctr_stream_prefix E (HE : forall c, List.length (E c) = 16%nat) :
  forall fuel c data extra fuel',
    (List.length data < fuel)%nat -> (List.length (data ++ extra) < fuel')%nat ->
    firstn (List.length data) (ctr_stream fuel' E c (data ++ extra)) = ctr_stream fuel E c data.
Proof.
  induction fuel as [|f IH]; intros c data extra fuel' Hf Hf'; [lia|].
  destruct fuel' as [|f']; [lia|].
  destruct (list_eq_dec Byte.byte_eq_dec data []) as [->|Hne].
  - cbn [List.length]. rewrite firstn_O. now rewrite ctr_stream_nil.
  - assert (Hne' : data ++ extra <> []) by (destruct data; [contradiction|discriminate]).
    rewrite (ctr_stream_step f' E c (data ++ extra) Hne'), (ctr_stream_step f E c data Hne).
    assert (LX : forall d, List.length (xor_bytes (firstn 16 d) (E c)) = Nat.min 16 (List.length d)).
    { intros d. rewrite xor_bytes_length, HE, firstn_length. lia. }
    destruct (Nat.le_gt_cases (List.length data) 16) as [Hs|Hl].
    + (* the data ends inside this block *)
      rewrite (skipn_all2 data) by lia. rewrite ctr_stream_nil, app_nil_r.
      rewrite firstn_app, LX, app_length.
      replace (List.length data - Nat.min 16 (List.length data + List.length extra))%nat with 0%nat by lia.
      rewrite firstn_O, app_nil_r.
      rewrite firstn_xor, firstn_firstn.
      replace (Nat.min (List.length data) 16) with (List.length data) by lia.
      rewrite firstn_app, firstn_all, Nat.sub_diag. rewrite firstn_O, app_nil_r.
      now rewrite (firstn_all2 data) by lia.
    + (* a full block, then the rest *)
      rewrite firstn_app, LX, app_length.
      replace (Nat.min 16 (List.length data + List.length extra)) with 16%nat by lia.
      rewrite (firstn_all2 (xor_bytes _ _)) by (rewrite LX, app_length; lia).
      rewrite firstn_app. replace (16 - List.length data)%nat with 0%nat by lia. rewrite firstn_O, app_nil_r.
      f_equal.
      rewrite skipn_app. replace (16 - List.length data)%nat with 0%nat by lia. rewrite skipn_O.
      replace (List.length data - 16)%nat with (List.length (skipn 16 data)) by (rewrite skipn_length; lia).
      apply IH.
      * rewrite skipn_length. lia.
      * rewrite app_length, skipn_length. rewrite app_length in Hf'. lia.
Qed.

Theorem ctr_decrypt_prefix E (HE : forall c, List.length (E c) = 16%nat) lo hi data extra :
  firstn (List.length data) (ctr_decrypt E lo hi (data ++ extra)) = ctr_decrypt E lo hi data.
Proof. unfold ctr_decrypt. apply ctr_stream_prefix; [exact HE|lia|lia]. Qed.

(* ---- the handler ---- *)

Theorem handle_short E keylen raw : (List.length raw < 9)%nat -> handle E keylen raw = HIgnored.
Proof. intros H. unfold handle. now replace (List.length raw <? 9)%nat with true by lia. Qed.

Theorem handle_bad_key E keylen raw :
  (9 <= List.length raw)%nat -> key_len_ok keylen = false -> handle E keylen raw = HBadKey.
Proof.
  intros H K. unfold handle. replace (List.length raw <? 9)%nat with false by lia. now rewrite K.
Qed.

(* with a valid key and at least 9 bytes: the plaintext is the CTR decryption of bytes 8.. under
   the nonce of bytes 5..6, and a type 0x01 record is decoded by the solar-charger decoder *)
Theorem handle_dispatch E keylen b0 b1 b2 b3 rtype nlo nhi b7 enc :
  key_len_ok keylen = true -> (1 <= List.length enc)%nat ->
  let plain := ctr_decrypt E nlo nhi (pkcs7 enc 16) in
  handle E keylen (b0 :: b1 :: b2 :: b3 :: rtype :: nlo :: nhi :: b7 :: enc) =
  if bz rtype =? 1 then HSolar plain (DecodeSolarChargeRecord plain) else HPlain plain.
Proof.
  intros K L. unfold handle. cbn [List.length].
  replace (S (S (S (S (S (S (S (S (List.length enc)))))))) <? 9)%nat with false by lia.
  rewrite K. reflexivity.
Qed.

(* ... and that decoding is the layout specification's (C07), never a fault *)
Theorem handle_solar_decodes plain :
  good fields_SolarChargerRecord (DecodeSolarChargeRecord plain) (spec_decode layout_SolarCharger plain).
Proof. apply refine_SolarCharger. Qed.

(* ---- MAC matching ---- *)

Lemma hex_decode_partial_upper bs : hex_decode_partial (Base.Hex.hex_upper bs) = bs.
Proof.
  induction bs as [|b bs IH]; [reflexivity|].
  cbn [Base.Hex.hex_upper flat_map Base.Hex.hex_of_byte app hex_decode_partial].
  destruct (hex_of_byte_decode b) as [-> ->].
  change (flat_map Base.Hex.hex_of_byte bs) with (Base.Hex.hex_upper bs). rewrite IH.
  f_equal. replace (16 * (bz b / 16) + bz b mod 16) with (bz b) by (pose proof (bz_range b); lia). apply zb_bz.
Qed.

Lemma hexdigit_not_colon n : 0 <= n < 16 -> beqb (Base.Hex.hexdigit n) c_colon = false.
Proof.
  intros H. assert (E : In n (map Z.of_nat (seq 0 16))).
  { replace n with (Z.of_nat (Z.to_nat n)) by lia. apply in_map, in_seq. lia. }
  cbn in E. repeat (destruct E as [<-|E]; [vm_compute; reflexivity|]). destruct E.
Qed.

Lemma strip_colons_render mac :
  filter (fun c => negb (beqb c c_colon)) (flat_map (fun b => c_colon :: Base.Hex.hex_of_byte b) mac) = Base.Hex.hex_upper mac.
Proof.
  induction mac as [|b mac IH]; [reflexivity|].
  cbn [flat_map Base.Hex.hex_of_byte app filter]. rewrite beqb_refl. cbn [negb].
  pose proof (bz_range b).
  rewrite !hexdigit_not_colon by lia. cbn [negb].
  unfold Base.Hex.hex_upper. cbn [flat_map Base.Hex.hex_of_byte app]. f_equal. f_equal. exact IH.
Qed.

(* the colon-separated upper-case rendering of a MAC decodes to that MAC *)
Theorem bluez_addr_of_render mac : mac <> [] -> bluez_addr_bytes (render_mac mac) = mac.
Proof.
  intros Hne. unfold bluez_addr_bytes, render_mac.
  destruct mac as [|b mac]; [contradiction|].
  pose proof (strip_colons_render (b :: mac)) as S.
  cbn [flat_map app] in *. cbn [filter] in S. rewrite beqb_refl in S. cbn [negb] in S.
  rewrite S. apply hex_decode_partial_upper.
Qed.

(* a device is matched to the first configuration whose MAC equals the address bytes, and to
   none if no MAC equals them *)
Theorem first_match_spec macs a i :
  match first_match macs a i with
  | Some k => exists j, k = (i + j)%nat /\ nth_error macs j = Some a /\ forall j', (j' < j)%nat -> nth_error macs j' <> Some a
  | None => forall j, nth_error macs j <> Some a
  end.
Proof.
  revert i. induction macs as [|m r IH]; intros i; cbn [first_match].
  - intros j. destruct j; discriminate.
  - destruct (list_eq_dec Byte.byte_eq_dec m a) as [->|Hne].
    + exists 0%nat. split; [lia|]. split; [reflexivity|]. intros j' H. lia.
    + specialize (IH (S i)). destruct (first_match r a (S i)) as [k|].
      * destruct IH as (j & -> & Hj & Hmin). exists (S j). split; [lia|]. split; [exact Hj|].
        intros [|j'] H; cbn [nth_error]; [congruence|]. apply Hmin. lia.
      * intros [|j]; cbn [nth_error]; [congruence|]. apply IH.
Qed.
