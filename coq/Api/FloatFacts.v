(* C09: the binary64 number reader is the correctly rounded evaluation of raw/factor + offset
   and never overflows or produces a NaN. *)
From Coq Require Import ZArith Reals Lia Lra.
From Flocq Require Import Core IEEE754.BinarySingleNaN IEEE754.Binary IEEE754.Bits.
From GV Require Import Tables.ObsTypes Api.Float.
Local Open Scope R_scope.

Notation fexp64 := (SpecFloat.fexp 53 1024).
Notation RN := (round radix2 fexp64 ZnearestE).

Lemma fexp64_valid : Valid_exp fexp64.
Proof. apply (fexp_correct 53 1024). reflexivity. Qed.
#[local] Existing Instance fexp64_valid.

Lemma format_bpow k : (0 <= k)%Z -> generic_format radix2 fexp64 (bpow radix2 k).
Proof. intros Hk. apply generic_format_bpow. unfold SpecFloat.fexp, SpecFloat.emin. lia. Qed.

(* rounding keeps a magnitude bound that is a power of two, hence stays far below 2^1024 *)
Lemma rn_abs_le x k : (0 <= k)%Z -> Rabs x <= bpow radix2 k -> Rabs (RN x) <= bpow radix2 k.
Proof. intros Hk Hx. apply abs_round_le_generic; auto with typeclass_instances. now apply format_bpow. Qed.

Lemma rn_no_overflow x k : (0 <= k < 1024)%Z -> Rabs x <= bpow radix2 k ->
  Rlt_bool (Rabs (RN x)) (bpow radix2 1024) = true.
Proof.
  intros Hk Hx. apply Rlt_bool_true. apply Rle_lt_trans with (bpow radix2 k).
  - apply rn_abs_le; [lia|exact Hx].
  - apply bpow_lt. lia.
Qed.

Lemma rn_abs_ge_1 x : 1 <= Rabs x -> 1 <= Rabs (RN x).
Proof.
  intros Hx. change 1 with (bpow radix2 0). apply abs_round_ge_generic; auto with typeclass_instances.
  now apply format_bpow.
Qed.

Lemma IZR_abs_le z k : (0 <= k)%Z -> (Z.abs z <= 2 ^ k)%Z -> Rabs (IZR z) <= bpow radix2 k.
Proof.
  intros Hk Hz. rewrite <- abs_IZR. rewrite <- (IZR_Zpower radix2 k Hk). apply IZR_le. exact Hz.
Qed.

(* float64(n) *)
Lemma f64_of_Z_correct z : (Z.abs z <= 2 ^ 64)%Z ->
  B2R 53 1024 (f64_of_Z z) = RN (IZR z) /\ is_finite 53 1024 (f64_of_Z z) = true.
Proof.
  intros Hz. unfold f64_of_Z.
  pose proof (binary_normalize_correct 53 1024 eq_refl eq_refl mode_NE z 0 false) as H.
  assert (E : F2R (Float radix2 z 0) = IZR z) by (unfold F2R; cbn; lra).
  rewrite E in H. cbn [round_mode] in H.
  rewrite (rn_no_overflow (IZR z) 64) in H by (try lia; now apply IZR_abs_le).
  destruct H as (H1 & H2 & _). split; assumption.
Qed.

Lemma div_abs_le a b k : 1 <= Rabs b -> Rabs a <= bpow radix2 k -> Rabs (a / b) <= bpow radix2 k.
Proof.
  intros Hb Ha. assert (Hb0 : b <> 0) by (intros ->; rewrite Rabs_R0 in Hb; lra).
  unfold Rdiv. rewrite Rabs_mult, Rabs_inv.
  assert (Hi : / Rabs b <= 1) by (rewrite <- Rinv_1; apply Rinv_le_contravar; lra).
  apply Rle_trans with (Rabs a * 1); [|lra].
  apply Rmult_le_compat_l; [apply Rabs_pos|exact Hi].
Qed.

(* a / b in binary64 for two converted integers, b <> 0 *)
Lemma f64_div_ints a b : (Z.abs a <= 2 ^ 64)%Z -> (1 <= Z.abs b <= 2 ^ 64)%Z ->
  let q := f64_div (f64_of_Z a) (f64_of_Z b) in
  B2R 53 1024 q = RN (RN (IZR a) / RN (IZR b)) /\ is_finite 53 1024 q = true /\ Rabs (B2R 53 1024 q) <= bpow radix2 64.
Proof.
  intros Ha Hb. cbv zeta.
  destruct (f64_of_Z_correct a Ha) as [Ra Fa]. destruct (f64_of_Z_correct b ltac:(lia)) as [Rb Fb].
  assert (Hb1 : 1 <= Rabs (RN (IZR b))).
  { apply rn_abs_ge_1. rewrite <- abs_IZR. apply IZR_le. lia. }
  assert (Hbn : B2R 53 1024 (f64_of_Z b) <> 0) by (rewrite Rb; intros E; rewrite E, Rabs_R0 in Hb1; lra).
  assert (Hq : Rabs (RN (IZR a) / RN (IZR b)) <= bpow radix2 64).
  { apply div_abs_le; [exact Hb1|]. apply rn_abs_le; [lia|]. now apply IZR_abs_le. }
  unfold f64_div.
  pose proof (Bdiv_correct 53 1024 eq_refl eq_refl binop_nan_pl64 mode_NE (f64_of_Z a) (f64_of_Z b) Hbn) as H.
  cbn [round_mode] in H. rewrite Ra, Rb in H.
  rewrite (rn_no_overflow _ 64 ltac:(lia) Hq) in H. destruct H as (H1 & H2 & _).
  split; [exact H1|]. split; [now rewrite H2|]. rewrite H1. apply rn_abs_le; [lia|exact Hq].
Qed.

(* C09: the float64 result of the number reader *)
Theorem number_value_f64_correct r raw :
  (Z.abs raw <= 2 ^ 64)%Z -> (1 <= Z.abs (r_factor r) <= 2 ^ 64)%Z ->
  (Z.abs (r_off_num r) <= 2 ^ 64)%Z -> (1 <= Z.abs (r_off_den r) <= 2 ^ 64)%Z ->
  is_finite 53 1024 (number_value_f64 r raw) = true /\
  B2R 53 1024 (number_value_f64 r raw) =
    RN (RN (RN (IZR raw) / RN (IZR (r_factor r))) + RN (RN (IZR (r_off_num r)) / RN (IZR (r_off_den r)))).
Proof.
  intros Hraw Hf Hn Hd. unfold number_value_f64, f64_offset.
  destruct (f64_div_ints raw (r_factor r) Hraw Hf) as (Q1 & Q2 & Q3).
  destruct (f64_div_ints (r_off_num r) (r_off_den r) Hn Hd) as (O1 & O2 & O3).
  cbv zeta in *. unfold f64_plus.
  pose proof (Bplus_correct 53 1024 eq_refl eq_refl binop_nan_pl64 mode_NE _ _ Q2 O2) as H.
  cbn [round_mode] in H.
  assert (Hs : Rabs (B2R 53 1024 (f64_div (f64_of_Z raw) (f64_of_Z (r_factor r))) +
                     B2R 53 1024 (f64_div (f64_of_Z (r_off_num r)) (f64_of_Z (r_off_den r)))) <= bpow radix2 65).
  { eapply Rle_trans; [apply Rabs_triang|]. change (bpow radix2 65) with (bpow radix2 (64 + 1)).
    rewrite bpow_plus_1. change (IZR radix2) with 2. lra. }
  rewrite (rn_no_overflow _ 65 ltac:(lia) Hs) in H. destruct H as (H1 & H2 & _).
  split; [exact H2|]. rewrite H1, Q1, O1. reflexivity.
Qed.

(* integers below 2^53 convert exactly *)
Lemma RN_int z : (Z.abs z < 2 ^ 53)%Z -> RN (IZR z) = IZR z.
Proof.
  intros Hz. apply round_generic; auto with typeclass_instances.
  change (SpecFloat.fexp 53 1024) with (FLT_exp (-1074) 53).
  apply generic_format_FLT. exists (Float radix2 z 0).
  - unfold F2R. cbn. lra.
  - exact Hz.
  - cbn. lia.
Qed.

(* ... so for raw values and factors below 2^53 (every factor of the register tables, every
   1..4-byte raw value and 8-byte values below 2^53) the result is the double rounding
   RN (RN (raw / factor) + offset) of the exact quotient and the float64 offset *)
Corollary number_value_f64_small r raw :
  (Z.abs raw < 2 ^ 53)%Z -> (1 <= Z.abs (r_factor r) < 2 ^ 53)%Z ->
  (Z.abs (r_off_num r) < 2 ^ 53)%Z -> (1 <= Z.abs (r_off_den r) < 2 ^ 53)%Z ->
  is_finite 53 1024 (number_value_f64 r raw) = true /\
  B2R 53 1024 (number_value_f64 r raw) =
    RN (RN (IZR raw / IZR (r_factor r)) + RN (IZR (r_off_num r) / IZR (r_off_den r))).
Proof.
  intros Hraw Hf Hn Hd.
  destruct (number_value_f64_correct r raw) as [F E]; try lia.
  split; [exact F|]. rewrite E. rewrite !RN_int by lia. reflexivity.
Qed.
