(* The register lists of every product id satisfy the hypothesis of the streaming refinement
   (kinds by group, 16-bit addresses): closed by computation over the regenerated tables. *)
From Coq Require Import QArith.
From GV Require Import Vedirect.DrvSem Gen.DrvImpl Api.ApiSem Gen.ApiImpl Api.ApiRefine.
Import ListNotations.
Local Open Scope Z_scope.

Definition reg_okb (k : Z) (r : reg) : bool := (r_kind r =? k) && (0 <=? r_addr r) && (r_addr r <? 65536).

Definition reglist_okb (rl : reglist) : bool :=
  forallb (reg_okb 1) (l_numbers rl) && forallb (reg_okb 2) (l_texts rl) &&
  forallb (reg_okb 3) (l_enums rl) && forallb (reg_okb 4) (l_fieldlists rl).

Lemma reg_okb_sound k l : forallb (reg_okb k) l = true -> Forall (fun r => r_kind r = k /\ addr_ok r) l.
Proof.
  intros H. apply Forall_forall. intros r Hin. rewrite forallb_forall in H. specialize (H r Hin).
  unfold reg_okb in H. apply andb_prop in H as [H H3]. apply andb_prop in H as [H1 H2].
  unfold addr_ok. split; lia.
Qed.

Lemma reglist_okb_sound rl : reglist_okb rl = true -> reglist_ok rl.
Proof.
  unfold reglist_okb, reglist_ok. intros H.
  apply andb_prop in H as [H H4]. apply andb_prop in H as [H H3]. apply andb_prop in H as [H1 H2].
  repeat split; now apply reg_okb_sound.
Qed.

Lemma all_lists_ok : forallb (fun kv => reglist_okb (snd kv)) obs_reglists = true.
Proof. vm_compute. reflexivity. Qed.

Theorem product_lists_ok id : reglist_ok (snd (obs_reglist id)).
Proof.
  apply reglist_okb_sound. unfold obs_reglist, obs_reglist_at. cbn [snd].
  apply (lookup_forall (fun _ rl => reglist_okb rl) empty_reglist obs_reglists all_lists_ok).
  intros _. reflexivity.
Qed.

(* the streaming loop of the translated source on the register list of any product id *)
Theorem go_stream_product_lists c id h cn v :
  run_rel (go_StreamRegisterList c tt (snd (obs_reglist id)) h (mkA (mkD v false) [] cn))
          (stream_register_list c h (snd (obs_reglist id)) cn v) cn.
Proof. apply go_StreamRegisterList_refines, product_lists_ok. Qed.
