(* Model of vedirectapi/registerApi.go: the four register readers, streaming, the
   map-returning variant and connecting.  No proofs here. *)
From Coq Require Import QArith.
From GV Require Export Base.Bytes Base.LE Vedirect.Frame Vedirect.Port Vedirect.Driver.
From GV Require Export Tables.ObsTypes Tables.Lookup Gen.Obs Tables.Product Tables.Enum Tables.RegFactory.
Open Scope Z_scope.

Definition name_bytes (r : reg) : list byte := list_byte_of_string (r_name r).

(* ---- strings.TrimSpace on UTF-8 bytes ---- *)

Definition ascii_space (b : byte) : bool :=
  let v := bz b in ((9 <=? v) && (v <=? 13)) || (v =? 32).

(* the UTF-8 encodings of the non-ASCII runes for which unicode.IsSpace holds:
   U+0085 U+00A0 U+1680 U+2000..U+200A U+2028 U+2029 U+202F U+205F U+3000 *)
Definition space_prefix_len (s : list byte) : nat :=
  match s with
  | b :: r =>
      if ascii_space b then 1%nat
      else match map bz s with
           | 194 :: 133 :: _ => 2%nat
           | 194 :: 160 :: _ => 2%nat
           | 225 :: 154 :: 128 :: _ => 3%nat
           | 226 :: 128 :: x :: _ =>
               if ((128 <=? x) && (x <=? 138)) || (x =? 168) || (x =? 169) || (x =? 175) then 3%nat else 0%nat
           | 226 :: 129 :: 159 :: _ => 3%nat
           | 227 :: 128 :: 128 :: _ => 3%nat
           | _ => 0%nat
           end
  | [] => 0%nat
  end.

Fixpoint trim_left (fuel : nat) (s : list byte) : list byte :=
  match fuel with
  | O => s
  | S f => match space_prefix_len s with
           | O => s
           | n => trim_left f (skipn n s)
           end
  end.

(* trailing: the same encodings read backwards (utf8.DecodeLastRune finds the nearest
   start byte; a proper encoding ending at the end of the string is one rune) *)
Definition space_suffix_len (rs : list byte) : nat :=   (* rs = reversed string *)
  match rs with
  | b :: _ =>
      if ascii_space b then 1%nat
      else match map bz rs with
           | 133 :: 194 :: _ => 2%nat
           | 160 :: 194 :: _ => 2%nat
           | 128 :: 154 :: 225 :: _ => 3%nat
           | x :: 128 :: 226 :: _ =>
               if ((128 <=? x) && (x <=? 138)) || (x =? 168) || (x =? 169) || (x =? 175) then 3%nat else 0%nat
           | 159 :: 129 :: 226 :: _ => 3%nat
           | 128 :: 128 :: 227 :: _ => 3%nat
           | _ => 0%nat
           end
  | [] => 0%nat
  end.

Fixpoint trim_right_rev (fuel : nat) (rs : list byte) : list byte :=
  match fuel with
  | O => rs
  | S f => match space_suffix_len rs with
           | O => rs
           | n => trim_right_rev f (skipn n rs)
           end
  end.

Definition trim_space (s : list byte) : list byte :=
  let l := trim_left (List.length s) s in
  rev (trim_right_rev (List.length l) (rev l)).

(* ---- register values ---- *)

Inductive rvalue :=
| RVNum (q : Q) (raw : Z)                (* exact value raw/factor + offset, and the raw integer it was computed from
                                           (the float64 the code returns is Float.number_value_f64 r raw) *)
| RVText (t : list byte)
| RVEnum (idx : Z) (name : string)
| RVFields (fs : list (Z * bool)).

Definition wrap (r : reg) (e : err) : err := EWrap (name_bytes r) e.

Definition enum_map_of (factory : string) : list (Z * string) :=
  match find (fun e => String.eqb (e_name e) factory) obs_enums with
  | Some e => e_map e
  | None => []
  end.

Definition fl_of (factory : string) : option fl_obs :=
  find (fun f => String.eqb (f_name f) factory) obs_fieldlists.

(* Go: int(uint64) *)
Definition int_of_uint64 (n : Z) : Z := if n <? 2 ^ 63 then n else n - 2 ^ 64.

Definition number_value (r : reg) (raw : Z) : Q :=
  (inject_Z raw / inject_Z (r_factor r) + (r_off_num r # Z.to_pos (r_off_den r)))%Q.

(* ReadNumberRegister / ReadTextRegister / ReadEnumRegister / ReadFieldListRegister *)
Definition read_register (c : cfg) (idle : bool) (r : reg) (s : vdstate) : res rvalue * vdstate :=
  if r_kind r =? 1 then
    match (if r_signed r then get_int c idle (r_addr r) s else get_uint c idle (r_addr r) s) with
    | (Ok (VNum n), s1) => (Ok (RVNum (number_value r n) n), s1)
    | (Ok _, s1) => (Panic, s1)
    | (Err e, s1) => (Err (wrap r e), s1)
    | (Panic, s1) => (Panic, s1)
    | (OutOfFuel, s1) => (OutOfFuel, s1)
    end
  else if r_kind r =? 2 then
    match get_string c idle (r_addr r) s with
    | (Ok (VBytes b), s1) => (Ok (RVText (trim_space b)), s1)
    | (Ok _, s1) => (Panic, s1)
    | (Err e, s1) => (Err (wrap r e), s1)
    | (Panic, s1) => (Panic, s1)
    | (OutOfFuel, s1) => (OutOfFuel, s1)
    end
  else
    match get_uint c idle (r_addr r) s with
    | (Ok (VNum n), s1) =>
        if r_kind r =? 3 then
          match new_enum (enum_map_of (r_factory r)) (int_of_uint64 n) with
          | Some (i, nm) => (Ok (RVEnum i nm), s1)
          | None => (Err (wrap r EInvalidEnumIdx), s1)
          end
        else
          match fl_of (r_factory r) with
          | Some f => (Ok (RVFields (fl_fields (f_map f) (n mod 2 ^ f_bits f))), s1)
          | None => (Panic, s1)                       (* nil factory *)
          end
    | (Ok _, s1) => (Panic, s1)
    | (Err e, s1) => (Err (wrap r e), s1)
    | (Panic, s1) => (Panic, s1)
    | (OutOfFuel, s1) => (OutOfFuel, s1)
    end.

(* ---- StreamRegisterList ---- *)

(* which handlers are set (non-nil) *)
Record handlers := mkHandlers { h_num : bool; h_text : bool; h_enum : bool; h_fl : bool }.

(* Cancellation: the context is found done at a check point iff at least [cancel_after]
   registers have been delivered before it (None = never cancelled).  Every schedule of a
   concurrent cancel() is one such number, since the context is only looked at before each
   register. *)
Definition cancelled (cancel_after : option nat) (delivered : nat) : bool :=
  match cancel_after with Some k => (k <=? delivered)%nat | None => false end.

Inductive stream_end := SDone | SError (e : err) | SCancelled | SPanic | SFuel.

Fixpoint stream_group (c : cfg) (regs : list reg) (cancel_after : option nat)
         (acc : list (reg * rvalue)) (s : vdstate) : stream_end * list (reg * rvalue) * vdstate :=
  match regs with
  | [] => (SDone, acc, s)
  | r :: rest =>
      if cancelled cancel_after (List.length acc) then (SCancelled, acc, s)
      else match read_register c false r s with
           | (Ok v, s1) => stream_group c rest cancel_after (acc ++ [(r, v)]) s1
           | (Err e, s1) => (SError e, acc, s1)
           | (Panic, s1) => (SPanic, acc, s1)
           | (OutOfFuel, s1) => (SFuel, acc, s1)
           end
  end.

(* the registers the run will touch, in order: numbers, texts, enums, field lists, for the
   groups whose handler is set *)
Definition stream_plan (h : handlers) (rl : reglist) : list reg :=
  (if h_num h then l_numbers rl else []) ++ (if h_text h then l_texts rl else []) ++
  (if h_enum h then l_enums rl else []) ++ (if h_fl h then l_fieldlists rl else []).

Definition stream_register_list (c : cfg) (h : handlers) (rl : reglist) (cancel_after : option nat)
           (s : vdstate) : stream_end * list (reg * rvalue) * vdstate :=
  stream_group c (stream_plan h rl) cancel_after [] s.

(* ReadRegisterList: all handlers set; the maps hold what was delivered, keyed by name *)
Definition all_handlers : handlers := mkHandlers true true true true.

(* ---- NewRegisterApi ---- *)

Inductive connect_result :=
| Connected (product : Z) (registers : reglist)
| ConnectFailed (e : err)
| ConnectPanic.

Definition connect (c : cfg) (s : vdstate) : connect_result * vdstate :=
  match ping c true s with
  | (Ok _, s1) =>
      match get_device_id c false s1 with
      | (Ok (VNum id), s2) =>
          if p_exists (obs_product id) then
            let '(e, rl) := obs_reglist id in
            if e =? 0 then (Connected id rl, s2)
            else (ConnectFailed (if e =? 1 then EUnsupportedType else EOther), s2)
          else (ConnectFailed EOther, s2)
      | (Ok _, s2) => (ConnectPanic, s2)
      | (Err e, s2) => (ConnectFailed e, s2)
      | (_, s2) => (ConnectPanic, s2)
      end
  | (Err e, s1) => (ConnectFailed e, s1)
  | (_, s1) => (ConnectPanic, s1)
  end.
