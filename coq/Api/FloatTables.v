(* C09: every number register reachable through GetRegisterListByProduct, for all 65536 ids,
   meets the side conditions of the binary64 theorem (non-zero factor below 2^53, offset a
   quotient of integers below 2^53) — computed over the regenerated tables. *)
From Coq Require Import ZArith Reals Lia.
From Flocq Require Import Core IEEE754.BinarySingleNaN IEEE754.Binary IEEE754.Bits.
From GV Require Import Tables.ObsTypes Tables.Lookup Gen.Obs Tables.RegFactory Api.Float Api.FloatFacts.
Import ListNotations.
Local Open Scope Z_scope.

Definition f64_reg_ok (r : reg) : bool :=
  (1 <=? Z.abs (r_factor r)) && (Z.abs (r_factor r) <? 2 ^ 53) &&
  (Z.abs (r_off_num r) <? 2 ^ 53) && (1 <=? Z.abs (r_off_den r)) && (Z.abs (r_off_den r) <? 2 ^ 53).

Lemma number_registers_f64_ok :
  forallb (fun kv => forallb f64_reg_ok (l_numbers (snd kv))) obs_reglists = true.
Proof. vm_compute. reflexivity. Qed.

Lemma lookup_in_or_default {A} (d : A) l k : lookup d l k = d \/ In (k, lookup d l k) l.
Proof.
  unfold lookup. destruct (assoc k l) as [v|] eqn:E; [right; now apply assoc_in|now left].
Qed.

Theorem number_value_f64_tables id r raw :
  In r (l_numbers (snd (obs_reglist id))) -> Z.abs raw < 2 ^ 53 ->
  is_finite 53 1024 (number_value_f64 r raw) = true /\
  B2R 53 1024 (number_value_f64 r raw) =
    RN (RN (IZR raw / IZR (r_factor r)) + RN (IZR (r_off_num r) / IZR (r_off_den r))).
Proof.
  intros Hin Hraw. unfold obs_reglist, obs_reglist_at in Hin. cbn [snd] in Hin.
  set (k := snd (lookup obs_reglist_default obs_reglist_of id)) in Hin.
  destruct (lookup_in_or_default empty_reglist obs_reglists k) as [E|E].
  - rewrite E in Hin. contradiction.
  - pose proof number_registers_f64_ok as H. rewrite forallb_forall in H. specialize (H _ E). cbn [snd] in H.
    rewrite forallb_forall in H. specialize (H r Hin). unfold f64_reg_ok in H.
    repeat (apply andb_prop in H as [H ?]).
    apply number_value_f64_small; lia.
Qed.
