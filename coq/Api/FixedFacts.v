(* C20: rounding to six decimals is to nearest, ties to even, of the exact binary value. *)
From Coq Require Import ZArith Lia.
From Flocq Require Import Core IEEE754.BinarySingleNaN IEEE754.Binary IEEE754.Bits.
From GV Require Import Tables.ObsTypes Api.Float Api.Fixed.
Local Open Scope Z_scope.

Theorem rhe_spec num den : 0 < den ->
  2 * Z.abs (num - rhe num den * den) <= den /\
  (2 * Z.abs (num - rhe num den * den) = den -> Z.even (rhe num den) = true).
Proof.
  intros Hd. unfold rhe.
  pose proof (Z.div_mod num den ltac:(lia)) as E. pose proof (Z.mod_pos_bound num den Hd) as Hr.
  set (q := num / den) in *. set (r := num mod den) in *.
  destruct (den <? 2 * r) eqn:E1; cbn [orb].
  - apply Z.ltb_lt in E1. split; [lia|]. intros H. lia.
  - apply Z.ltb_ge in E1. destruct (den =? 2 * r) eqn:E2; cbn [andb].
    + apply Z.eqb_eq in E2. destruct (Z.odd q) eqn:Eo.
      * split; [lia|]. intros _. rewrite Z.even_add. rewrite <- Z.negb_odd, Eo. reflexivity.
      * split; [lia|]. intros _. now rewrite <- Z.negb_odd, Eo.
    + apply Z.eqb_neq in E2. split; [lia|]. intros H. lia.
Qed.

(* the magnitude of a finite binary64 number m * 2^e, in millionths *)
Theorem fixed6_finite s m e H :
  fixed6_of_f64 (B754_finite 53 1024 s m e H) =
  Some (s, if 0 <=? e then Zpos m * 2 ^ e * 1000000 else rhe (Zpos m * 1000000) (2 ^ (- e))).
Proof.
  cbn [fixed6_of_f64]. destruct (0 <=? e) eqn:Ee; [|reflexivity].
  f_equal. f_equal. unfold rhe. rewrite Z.div_1_r, Z.mod_1_r. reflexivity.
Qed.
