(* C09, number reader in IEEE-754 binary64 (Flocq): what
     value = float64(intValue); value = value/float64(r.Factor()) + r.Offset()
   computes, bit for bit.  int64/uint64 -> float64 conversion, division and addition all round
   to nearest even.  The offset of a register is a float64 constant; the table holds it as the
   exact rational num/den it denotes (den a power of two, |num| < 2^53), so the quotient of
   the two conversions below is exact.  No proofs here (FloatFacts.v). *)
From Coq Require Import ZArith.
From Flocq Require Import Core IEEE754.BinarySingleNaN IEEE754.Binary IEEE754.Bits.
From GV Require Import Tables.ObsTypes.
Local Open Scope Z_scope.

(* the two binary64 operations used, round to nearest even (Flocq's b64_div / b64_plus with
   transparent side conditions) *)
Definition f64_div : binary64 -> binary64 -> binary64 := Bdiv 53 1024 eq_refl eq_refl binop_nan_pl64 mode_NE.
Definition f64_plus : binary64 -> binary64 -> binary64 := Bplus 53 1024 eq_refl eq_refl binop_nan_pl64 mode_NE.

(* float64(n) for an integer n *)
Definition f64_of_Z (z : Z) : binary64 := binary_normalize 53 1024 eq_refl eq_refl mode_NE z 0 false.

Definition f64_offset (r : reg) : binary64 :=
  f64_div (f64_of_Z (r_off_num r)) (f64_of_Z (r_off_den r)).

Definition number_value_f64 (r : reg) (raw : Z) : binary64 :=
  f64_plus (f64_div (f64_of_Z raw) (f64_of_Z (r_factor r))) (f64_offset r).

(* math.Float64bits of the result *)
Definition number_value_bits (r : reg) (raw : Z) : Z := bits_of_b64 (number_value_f64 r raw).
