(* C05 at the register API: a device-reported error comes back wrapped with the register
   name, still matchable, after exactly one command frame. *)
From GV Require Import Base.Bytes Vedirect.Frame Vedirect.FrameFacts Vedirect.Port Vedirect.Driver Vedirect.DriverFacts.
From GV Require Import Tables.ObsTypes Gen.Obs Api.Api Api.ApiFacts.

Lemma read_register_pt c idle r s :
  pt (snd (read_register c idle r s)) = pt (snd (ve_command_get c idle (r_addr r) s)).
Proof.
  assert (Hio : forall x, pt (io_line_end c x) = pt x) by (intros x; unfold io_line_end; destruct (cfg_iolog c); reflexivity).
  unfold read_register, get_int, get_uint, get_string, typed, map_res.
  destruct (ve_command_get c idle (r_addr r) s) as [[raw|e| |] s1]; cbn [fst snd];
    destruct (r_kind r =? 1); [destruct (r_signed r); cbn [fst snd]; try apply Hio; destruct (le_int raw); cbn [snd]; apply Hio| |
                               destruct (r_signed r); cbn [snd]; apply Hio | | destruct (r_signed r); cbn [snd]; apply Hio | |
                               destruct (r_signed r); cbn [snd]; apply Hio | ];
    destruct (r_kind r =? 2); cbn [fst snd]; try apply Hio;
    destruct (r_kind r =? 3); cbn [fst snd]; try apply Hio.
  - destruct (new_enum _ _) as [[i nm]|]; cbn [snd]; apply Hio.
  - destruct (fl_of (r_factory r)); cbn [snd]; apply Hio.
Qed.

Theorem api_device_error c idle r s raw e s1 :
  ve_command c idle 7 (r_addr r mod 65536) s = (Ok raw, s1) ->
  classify_get (r_addr r mod 65536) raw = GFail e ->
  fst (read_register c idle r s) = Err (wrap r e) /\
  err_root (wrap r e) = err_root e /\
  nwrites (pt (snd (read_register c idle r s))) = S (nwrites (pt s)).
Proof.
  intros Hc Hg.
  assert (E : ve_command_get c idle (r_addr r) s = (Err e, s1)).
  { unfold ve_command_get. change num_tries with (S 7). now apply device_error_not_retried with (raw := raw). }
  split; [rewrite read_register_spec, E; reflexivity|]. split; [reflexivity|].
  rewrite read_register_pt, E. cbn [snd].
  pose proof (ve_command_writes c idle 7 (r_addr r mod 65536) s) as [Hn _]. rewrite Hc in Hn. exact Hn.
Qed.
