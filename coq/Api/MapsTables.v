(* C10: for every product's register list (all 65536 ids) the names are pairwise distinct
   (C12), so the maps of ReadRegisterList ARE the delivered prefix of the list, kind by kind. *)
From GV Require Import Base.Bytes Vedirect.Frame Vedirect.Port Vedirect.Driver.
From GV Require Import Tables.ObsTypes Tables.Lookup Gen.Obs Tables.RegFactory Tables.RegFactoryFacts
     Api.Api Api.ApiFacts Api.Maps Api.MapsFacts.
From Coq Require Import String Lia.
Local Open Scope Z_scope.

Lemma string_eqb_list_in l s : string_eqb_list l s = true <-> In s l.
Proof.
  induction l as [|x l IH]; cbn [string_eqb_list In]; [split; [discriminate|tauto]|].
  rewrite Bool.orb_true_iff, IH, String.eqb_eq. tauto.
Qed.

Lemma nodup_strings_NoDup l : nodup_strings l = true -> NoDup l.
Proof.
  induction l as [|x l IH]; cbn [nodup_strings]; intros H; [constructor|].
  apply andb_prop in H as [Hx Hl]. constructor; [|now apply IH].
  intros Hin. apply string_eqb_list_in in Hin. rewrite Hin in Hx. discriminate Hx.
Qed.

Lemma NoDup_map_filter {A B} (f : A -> B) (p : A -> bool) l : NoDup (map f l) -> NoDup (map f (filter p l)).
Proof.
  induction l as [|x l IH]; cbn [map filter]; intros H; [constructor|].
  inversion H as [|? ? Hn Hr]; subst. destruct (p x); cbn [map]; [|now apply IH].
  constructor; [|now apply IH]. intros Hin. apply Hn. apply in_map_iff in Hin as (y & Ey & Hy).
  apply in_map_iff. exists y. split; [exact Ey|]. now apply filter_In in Hy as [Hy _].
Qed.

Lemma NoDup_firstn {A} k : forall (l : list A), NoDup l -> NoDup (firstn k l).
Proof.
  induction k as [|k IH]; intros l H; [constructor|]. destruct H as [|x l Hn Hl]; cbn [firstn]; constructor.
  - intros Hin. apply Hn. clear -Hin. revert k Hin. induction l as [|y l IHl]; intros k Hin; destruct k; cbn [firstn] in Hin; try destruct Hin.
    + now left.
    + right. now apply (IHl k).
  - now apply IH.
Qed.

(* the delivered registers are a prefix of numbers ++ texts ++ enums ++ field lists *)
Lemma delivered_prefix c rl ca s :
  let '(e, d, s') := stream_register_list c all_handlers rl ca s in
  exists k, map fst d = firstn k (all_regs rl).
Proof.
  unfold stream_register_list.
  pose proof (stream_group_spec c (stream_plan all_handlers rl) ca [] s) as H.
  destruct (stream_group c (stream_plan all_handlers rl) ca [] s) as [[e d] s'].
  destruct H as (k & _ & Hm & _). exists k. exact Hm.
Qed.

Theorem maps_of_product_lists id c ca s :
  let rl := snd (obs_reglist id) in
  let '(e, m, s') := read_register_list c rl ca s in
  let '(e2, d, s2) := stream_register_list c all_handlers rl ca s in
  0 <= id < 65536 -> forall k, rv_map k m = map entry (deliv_kind k d).
Proof.
  cbv zeta. pose proof (read_register_list_spec c (snd (obs_reglist id)) ca s) as R.
  pose proof (delivered_prefix c (snd (obs_reglist id)) ca s) as P.
  destruct (read_register_list c (snd (obs_reglist id)) ca s) as [[e m] s'].
  destruct (stream_register_list c all_handlers (snd (obs_reglist id)) ca s) as [[e2 d] s2].
  destruct R as (_ & _ & _ & _ & Hnd). destruct P as (j & Hj).
  intros Hid k. apply Hnd.
  (* names of the list are pairwise distinct: c12_wellformed for every id *)
  pose proof (c12_all_products id Hid) as Hok. unfold c12_ok, c12_ok_at in Hok.
  apply andb_prop in Hok as [_ Hwf]. unfold c12_wellformed in Hwf.
  repeat (apply andb_prop in Hwf as [Hwf _]).
  apply nodup_strings_NoDup in Hwf.
  change (snd (obs_reglist_at (lookup obs_reglist_default obs_reglist_of id))) with (snd (obs_reglist id)) in Hwf.
  unfold deliv_kind. apply (NoDup_map_filter (fun x : reg * rvalue => r_name (fst x))).
  rewrite <- (map_map fst r_name), Hj. rewrite <- firstn_map. now apply NoDup_firstn.
Qed.
