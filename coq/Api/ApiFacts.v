(* Facts about the register-API model (C09, C10, C11). *)
From Coq Require Import QArith.
From GV Require Import Base.Bytes Base.LE Vedirect.Frame Vedirect.FrameFacts Vedirect.Port Vedirect.Driver
     Vedirect.DriverFacts.
From GV Require Import Tables.ObsTypes Tables.Lookup Gen.Obs Tables.Product Tables.Enum Tables.EnumFacts
     Tables.RegFactory Tables.RegFactoryFacts Api.Api.
Open Scope Z_scope.

(* ---- C09: the readers in terms of the raw payload the driver obtained ---- *)

Definition decode_register (r : reg) (raw : list byte) : res rvalue :=
  if r_kind r =? 1 then
    if r_signed r
    then match le_int raw with
         | Some z => Ok (RVNum (number_value r z) z)
         | None => Err (wrap r EOther)
         end
    else Ok (RVNum (number_value r (le_uint raw)) (le_uint raw))
  else if r_kind r =? 2 then Ok (RVText (trim_space (strip_nul raw)))
  else if r_kind r =? 3 then
    match new_enum (enum_map_of (r_factory r)) (int_of_uint64 (le_uint raw)) with
    | Some (i, nm) => Ok (RVEnum i nm)
    | None => Err (wrap r EInvalidEnumIdx)
    end
  else match fl_of (r_factory r) with
       | Some f => Ok (RVFields (fl_fields (f_map f) (le_uint raw mod 2 ^ f_bits f)))
       | None => Panic
       end.

Theorem read_register_spec c idle r s :
  fst (read_register c idle r s) =
  match fst (ve_command_get c idle (r_addr r) s) with
  | Ok raw => decode_register r raw
  | Err e => Err (wrap r e)
  | Panic => Panic
  | OutOfFuel => OutOfFuel
  end.
Proof.
  unfold read_register, decode_register, get_int, get_uint, get_string, typed, map_res.
  destruct (ve_command_get c idle (r_addr r) s) as [[raw|e| |] s1]; cbn [fst snd];
    destruct (r_kind r =? 1); [destruct (r_signed r); cbn [fst]; try reflexivity; destruct (le_int raw); reflexivity| |
                               destruct (r_signed r); reflexivity | | destruct (r_signed r); reflexivity | |
                               destruct (r_signed r); reflexivity | ];
    destruct (r_kind r =? 2); cbn [fst]; try reflexivity;
    destruct (r_kind r =? 3); cbn [fst]; try reflexivity.
  - destruct (new_enum _ _) as [[i nm]|]; reflexivity.
  - destruct (fl_of (r_factory r)); reflexivity.
Qed.

(* wrapped errors stay matchable: the root of the chain is the original error *)
Theorem wrap_matchable r e : err_root (wrap r e) = err_root e.
Proof. reflexivity. Qed.

(* the number reader yields raw/factor + offset exactly *)
Theorem number_value_exact r n :
  (number_value r n == inject_Z n / inject_Z (r_factor r) + (r_off_num r # Z.to_pos (r_off_den r)))%Q.
Proof. unfold number_value. reflexivity. Qed.

(* the field-list reader: truncation to the constructor's width loses no documented bit *)
Lemma fl_fields_trunc f n :
  In f obs_fieldlists -> fl_fields (f_map f) (n mod 2 ^ f_bits f) = fl_fields (f_map f) n.
Proof.
  intros Hf. pose proof fl_tables_ok as T. rewrite forallb_forall in T. specialize (T f Hf).
  apply andb_prop in T as [_ T]. rewrite forallb_forall in T.
  unfold fl_fields. apply map_ext_in. intros [k nm] Hin. specialize (T _ Hin). cbn [fst snd] in *.
  f_equal. apply Z.mod_pow2_bits_low. lia.
Qed.

(* ---- C10: streaming ---- *)

Lemma stream_group_spec c regs ca : forall acc s,
  let '(e, delivered, s') := stream_group c regs ca acc s in
  exists k, (k <= List.length regs)%nat /\
    map fst delivered = map fst acc ++ firstn k regs /\
    firstn (List.length acc) delivered = acc /\
    (forall j, (j < k)%nat -> cancelled ca (List.length acc + j) = false) /\
    match e with
    | SDone => k = List.length regs
    | SCancelled => (k < List.length regs)%nat /\ cancelled ca (List.length acc + k) = true
    | SError err => (k < List.length regs)%nat /\ cancelled ca (List.length acc + k) = false /\
                    exists s0, read_register c false (nth k regs (mkReg 0 "" "" "" 0 0 false false false 0 0 0 "" "")) s0 = (Err err, s')
    | SPanic | SFuel => (k < List.length regs)%nat
    end.
Proof.
  induction regs as [|r rest IH]; intros acc s; cbn [stream_group].
  - exists 0%nat. cbn [firstn List.length]. rewrite app_nil_r, firstn_all.
    split; [lia|]. split; [reflexivity|]. split; [reflexivity|]. split; [intros j Hj; lia|reflexivity].
  - destruct (cancelled ca (List.length acc)) eqn:Ec.
    + exists 0%nat. cbn [firstn List.length]. rewrite app_nil_r, firstn_all, Nat.add_0_r.
      split; [lia|]. split; [reflexivity|]. split; [reflexivity|]. split; [intros j Hj; lia|]. split; [lia|exact Ec].
    + destruct (read_register c false r s) as [[v|err| |] s1] eqn:Er.
      * specialize (IH (acc ++ [(r, v)]) s1).
        destruct (stream_group c rest ca (acc ++ [(r, v)]) s1) as [[e delivered] s'].
        destruct IH as (k & Hk & Hm & Hf & Hc & He).
        exists (S k). rewrite app_length in *. cbn [List.length] in *.
        split; [lia|]. split.
        { rewrite Hm, map_app. cbn [map fst firstn]. now rewrite <- app_assoc. }
        split.
        { apply (f_equal (firstn (List.length acc))) in Hf.
          rewrite firstn_firstn in Hf. replace (Init.Nat.min _ _) with (List.length acc) in Hf by lia.
          rewrite Hf. rewrite firstn_app, firstn_all, Nat.sub_diag. cbn [firstn]. now rewrite app_nil_r. }
        split.
        { intros j Hj. destruct j as [|j]; [now rewrite Nat.add_0_r|].
          replace (List.length acc + S j)%nat with (List.length acc + 1 + j)%nat by lia. apply Hc. lia. }
        destruct e; cbn [nth].
        -- lia.
        -- destruct He as (H1 & H2 & H3). split; [lia|]. split; [|exact H3].
           now replace (List.length acc + S k)%nat with (List.length acc + 1 + k)%nat by lia.
        -- destruct He as (H1 & H2). split; [lia|].
           now replace (List.length acc + S k)%nat with (List.length acc + 1 + k)%nat by lia.
        -- lia.
        -- lia.
      * exists 0%nat. cbn [firstn List.length nth]. rewrite app_nil_r, firstn_all, Nat.add_0_r.
        split; [lia|]. split; [reflexivity|]. split; [reflexivity|]. split; [intros j Hj; lia|].
        split; [lia|]. split; [exact Ec|]. exists s. exact Er.
      * exists 0%nat. cbn [firstn List.length]. rewrite app_nil_r, firstn_all.
        split; [lia|]. split; [reflexivity|]. split; [reflexivity|]. split; [intros j Hj; lia|lia].
      * exists 0%nat. cbn [firstn List.length]. rewrite app_nil_r, firstn_all.
        split; [lia|]. split; [reflexivity|]. split; [reflexivity|]. split; [intros j Hj; lia|lia].
Qed.

(* no handler set: nothing is read, nothing reported, the state is untouched *)
Theorem stream_no_handlers c rl ca s :
  stream_register_list c (mkHandlers false false false false) rl ca s = (SDone, [], s).
Proof. reflexivity. Qed.

(* only registers of the plan are read: the frames written during a run are Get frames *)
Lemma read_register_written c idle r s :
  exists k, written (pt (snd (read_register c idle r s))) = written (pt s) ++ repeat (tx_frame 7 (r_addr r mod 65536)) k.
Proof.
  assert (T : forall x, written (pt (io_line_end c x)) = written (pt x)).
  { intros x. unfold io_line_end. destruct (cfg_iolog c); reflexivity. }
  assert (G : exists k, written (pt (snd (ve_command_get c idle (r_addr r) s))) =
                        written (pt s) ++ repeat (tx_frame 7 (r_addr r mod 65536)) k).
  { unfold ve_command_get. destruct (ve_command_get_loop_frames num_tries c idle (r_addr r mod 65536) s) as (k & _ & E).
    exists k. exact E. }
  destruct G as (k & G). exists k. rewrite <- G.
  unfold read_register, get_int, get_uint, get_string, typed, map_res.
  destruct (ve_command_get c idle (r_addr r) s) as [[raw|e| |] s1]; cbn [fst snd];
    destruct (r_kind r =? 1); [destruct (r_signed r); cbn [fst snd]; rewrite ?T; try reflexivity;
                               destruct (le_int raw); cbn [snd]; rewrite ?T; reflexivity| |
                               destruct (r_signed r); cbn [snd]; now rewrite T | |
                               destruct (r_signed r); cbn [snd]; now rewrite T | |
                               destruct (r_signed r); cbn [snd]; now rewrite T | ];
    destruct (r_kind r =? 2); cbn [fst snd]; rewrite ?T; try reflexivity;
    destruct (r_kind r =? 3); cbn [fst snd]; rewrite ?T; try reflexivity.
  - destruct (new_enum _ _) as [[i nm]|]; cbn [snd]; now rewrite T.
  - destruct (fl_of (r_factory r)); cbn [snd]; now rewrite T.
Qed.

(* ---- C11: connecting ---- *)

Theorem connect_iff c s id rl s' :
  connect c s = (Connected id rl, s') <->
  exists v s1, ping c true s = (Ok v, s1) /\ get_device_id c false s1 = (Ok (VNum id), s') /\
               p_exists (obs_product id) = true /\ obs_reglist id = (0, rl).
Proof.
  unfold connect. split.
  - destruct (ping c true s) as [[v|e| |] s1]; try discriminate.
    destruct (get_device_id c false s1) as [[[|b|n]|e| |] s2] eqn:Ed; try discriminate.
    destruct (p_exists (obs_product n)) eqn:Ex; [|discriminate].
    destruct (obs_reglist n) as [e rl'] eqn:El.
    destruct (e =? 0) eqn:E0; [|discriminate]. intros H. injection H as <- <- <-.
    exists v, s1. split; [reflexivity|]. split; [exact Ed|]. split; [exact Ex|].
    apply Z.eqb_eq in E0. now subst e.
  - intros (v & s1 & -> & -> & -> & ->). reflexivity.
Qed.

(* ... and then the product is known, of a supported class, and the list is that class's *)
Theorem connect_supported c s id rl s' :
  0 <= id < 65536 -> connect c s = (Connected id rl, s') ->
  class_of (obs_product id) <> ClsUnsupported /\ reglist_eqb rl (expected_list (class_of (obs_product id))) = true.
Proof.
  intros Hid H. apply connect_iff in H as (v & s1 & _ & _ & Ex & El).
  pose proof (c12_all_products id Hid) as C. unfold c12_ok, c12_ok_at in C.
  apply andb_prop in C as [C _]. unfold obs_reglist in El. rewrite El in C. unfold c12_by_class in C. cbn [fst snd] in C.
  destruct (class_of (obs_product id)); cbn [andb] in C; try (split; [discriminate|exact C]).
  discriminate C.
Qed.

Lemma typed_written c x : written (pt (snd (typed c x))) = written (pt (snd x)).
Proof. unfold typed, io_line_end. cbn [snd]. destruct (cfg_iolog c); reflexivity. Qed.

Lemma map_res_snd {A B} (f : A -> res B) x : snd (map_res f x) = snd x.
Proof. destruct x as [[a|e| |] s]; reflexivity. Qed.

(* ping first, then the device id query; nothing else *)
Theorem connect_order c s :
  let w := written (pt (snd (connect c s))) in
  w = written (pt s) \/ w = written (pt s) ++ [tx_frame 1 0] \/
  w = written (pt s) ++ [tx_frame 4 0] \/ w = written (pt s) ++ [tx_frame 1 0; tx_frame 4 0].
Proof.
  unfold connect.
  assert (P : forall st, written (pt (snd (ping c true st))) = written (pt st) \/
                         written (pt (snd (ping c true st))) = written (pt st) ++ [tx_frame 1 0]).
  { intros st. unfold ping. rewrite typed_written, map_res_snd.
    exact (proj2 (send_receive_one_write c true 1 [] st)). }
  assert (D : forall st, written (pt (snd (get_device_id c false st))) = written (pt st) \/
                         written (pt (snd (get_device_id c false st))) = written (pt st) ++ [tx_frame 4 0]).
  { intros st. unfold get_device_id. rewrite typed_written, map_res_snd.
    exact (proj2 (ve_command_writes c false 4 0 st)). }
  specialize (P s). destruct (ping c true s) as [[v|e| |] s1]; cbn [snd] in *; try (destruct P as [->| ->]; auto).
  specialize (D s1).
  assert (Q : written (pt (snd (match get_device_id c false s1 with
       | (Ok (VNum id), s2) => if p_exists (obs_product id) then let '(e, rl) := obs_reglist id in
             if e =? 0 then (Connected id rl, s2) else (ConnectFailed (if e =? 1 then EUnsupportedType else EOther), s2)
           else (ConnectFailed EOther, s2)
       | (Ok _, s2) => (ConnectPanic, s2) | (Err e, s2) => (ConnectFailed e, s2) | (_, s2) => (ConnectPanic, s2) end)))
       = written (pt (snd (get_device_id c false s1)))).
  { destruct (get_device_id c false s1) as [[[|b|n]|e| |] s2]; cbn [snd]; try reflexivity.
    destruct (p_exists (obs_product n)); [|reflexivity]. destruct (obs_reglist n) as [e rl]. destruct (e =? 0); reflexivity. }
  rewrite Q. destruct P as [P|P], D as [D|D]; rewrite D, P; auto.
  right. right. right. now rewrite <- app_assoc.
Qed.
