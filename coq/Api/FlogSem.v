(* Vocabulary for the translation of vedirectapi/fileLogger.go (gvgen flog): one file opened with
   O_APPEND|O_CREATE|O_WRONLY behind a bufio.Writer.  The content on disk, the writer's buffer and fault
   oracles are the state.  Import AFTER Vedirect.DrvSem. *)
From GV Require Import Vedirect.DrvSem.
From GV Require Export Base.Bytes Vedirect.Frame.
Open Scope Z_scope.

Record fst8 := mkF {
  f_disk : list byte;          (* the file's content *)
  f_buf : list byte;           (* bytes the bufio.Writer still holds *)
  f_open : bool;
  f_open_fails : bool;         (* oracles *)
  f_write_fails : bool;
  f_stdout : nat               (* lines printed to stdout by the logger itself *)
}.

Definition D (A : Type) := fst8 -> dout A * fst8.
Definition ret {A} (a : A) : D A := fun s => (DVal a, s).
Definition bind {A B} (m : D A) (f : A -> D B) : D B :=
  fun s => match m s with
           | (DVal a, s') => f a s'
           | (DPanic, s') => (DPanic, s')
           | (DFuel, s') => (DFuel, s')
           end.

(* os.OpenFile(path, O_APPEND|O_CREATE|O_WRONLY, 0644): the previous content stays, writes go to its end *)
Definition p_open_append : D (unit * gerr) :=
  fun s => if f_open_fails s then (DVal (tt, Some EOther), s)
           else (DVal (tt, None), mkF (f_disk s) [] true false (f_write_fails s) (f_stdout s)).

(* fmt.Fprintln(w, v...) for operands rendering as [text]: text and a line feed go to the writer; the writer
   hands what it holds to the file when told to (or earlier: only the final content is modelled) *)
Definition p_fprintln (text : list byte) : D (Z * gerr) :=
  fun s => if f_write_fails s then (DVal (0, Some EOther), s)
           else (DVal (Z.of_nat (List.length text) + 1, None),
                 mkF (f_disk s) (f_buf s ++ text ++ [c_nl]) (f_open s) (f_open_fails s) false (f_stdout s)).

Definition p_stdout : D unit :=
  fun s => (DVal tt, mkF (f_disk s) (f_buf s) (f_open s) (f_open_fails s) (f_write_fails s) (S (f_stdout s))).

(* w.Flush(): the buffered bytes are appended to the file *)
Definition p_flush : D gerr :=
  fun s => if f_write_fails s then (DVal (Some EOther), s)
           else (DVal None, mkF (f_disk s ++ f_buf s) [] (f_open s) (f_open_fails s) false (f_stdout s)).

Definition p_close : D gerr :=
  fun s => (DVal None, mkF (f_disk s) (f_buf s) false (f_open_fails s) (f_write_fails s) (f_stdout s)).
