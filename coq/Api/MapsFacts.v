(* C10: the maps returned by ReadRegisterList hold precisely what was delivered. *)
From GV Require Import Base.Bytes Vedirect.Frame Vedirect.Port Vedirect.Driver.
From GV Require Import Tables.ObsTypes Gen.Obs Api.Api Api.Maps.
From Coq Require Import String.

Lemma m_get_set k k' v m : m_get k (m_set k' v m) = if String.eqb k' k then Some v else m_get k m.
Proof.
  induction m as [|[k0 v0] m IH]; cbn [m_set m_get].
  - reflexivity.
  - destruct (String.eqb k0 k') eqn:E0; cbn [m_get].
    + apply String.eqb_eq in E0. subst k0. destruct (String.eqb k' k); reflexivity.
    + destruct (String.eqb k0 k) eqn:E1.
      * apply String.eqb_eq in E1. subst k0. rewrite String.eqb_sym. now rewrite E0.
      * exact IH.
Qed.

Definition of_kind (k : vkind) (x : reg * rvalue) : bool := vkind_eqb (kind_of_value (snd x)) k.
Definition deliv_kind (k : vkind) (d : list (reg * rvalue)) : list (reg * rvalue) := filter (of_kind k) d.
Definition named (n : string) (x : reg * rvalue) : bool := String.eqb (r_name (fst x)) n.

Lemma rv_map_put k m x :
  rv_map k (rv_put m x) = if of_kind k x then m_set (r_name (fst x)) (snd x) (rv_map k m) else rv_map k m.
Proof. unfold of_kind, rv_put. destruct x as [r v]. cbn [fst snd]. destruct v, k; reflexivity. Qed.

Lemma find_app {A} (f : A -> bool) a b :
  find f (a ++ b) = match find f a with Some y => Some y | None => find f b end.
Proof. induction a as [|x a IH]; cbn [app find]; [reflexivity|]. destruct (f x); [reflexivity|exact IH]. Qed.

(* lookups see the LAST value delivered under the name in that kind's group, or what was
   there before *)
Lemma fold_put_get k n : forall d m,
  m_get n (rv_map k (fold_left rv_put d m)) =
  match find (named n) (rev (deliv_kind k d)) with
  | Some x => Some (snd x)
  | None => m_get n (rv_map k m)
  end.
Proof.
  induction d as [|x d IH]; intros m; cbn [fold_left deliv_kind filter rev find]; [reflexivity|].
  rewrite IH, rv_map_put. fold (deliv_kind k d).
  destruct (of_kind k x) eqn:Ek.
  - cbn [rev]. rewrite find_app. destruct (find (named n) (rev (deliv_kind k d))); [reflexivity|].
    cbn [find]. rewrite m_get_set. unfold named. destruct (String.eqb (r_name (fst x)) n); reflexivity.
  - reflexivity.
Qed.

Theorem collect_get k n d :
  m_get n (rv_map k (collect d)) = option_map snd (find (named n) (rev (deliv_kind k d))).
Proof.
  unfold collect. rewrite fold_put_get. destruct (find (named n) (rev (deliv_kind k d))); [reflexivity|].
  destruct k; reflexivity.
Qed.

(* a name is a key of the k-map iff a value of kind k was delivered under it *)
Theorem collect_keys k n d :
  m_get n (rv_map k (collect d)) <> None <-> exists x, In x d /\ of_kind k x = true /\ r_name (fst x) = n.
Proof.
  rewrite collect_get. split.
  - destruct (find (named n) (rev (deliv_kind k d))) as [x|] eqn:F; [intros _|intros H; now elim H].
    apply find_some in F as [Hin Hn]. apply in_rev, filter_In in Hin as [Hin Hk].
    exists x. split; [exact Hin|]. split; [exact Hk|]. now apply String.eqb_eq.
  - intros (x & Hin & Hk & Hn).
    destruct (find (named n) (rev (deliv_kind k d))) as [y|] eqn:F; [discriminate|].
    exfalso. assert (Hx : In x (rev (deliv_kind k d))) by (apply -> in_rev; apply filter_In; split; assumption).
    pose proof (find_none _ _ F x Hx) as Hf. unfold named in Hf. rewrite Hn, String.eqb_refl in Hf. discriminate Hf.
Qed.

(* with pairwise distinct names (every register list of the product table, C13) the map IS the
   delivered sequence of that kind: same entries, same multiplicity, nothing else *)
Lemma m_set_fresh k v m : ~ In k (map fst m) -> m_set k v m = m ++ [(k, v)].
Proof.
  induction m as [|[k0 v0] m IH]; intros H; cbn [m_set app]; [reflexivity|].
  destruct (String.eqb k0 k) eqn:E; [apply String.eqb_eq in E; subst; exfalso; apply H; now left|].
  rewrite IH; [reflexivity|]. intros Hin. apply H. now right.
Qed.

Definition entry (x : reg * rvalue) : string * rvalue := (r_name (fst x), snd x).

Lemma fold_put_nodup k : forall d m,
  NoDup (map fst (rv_map k m) ++ map (fun x => r_name (fst x)) (deliv_kind k d)) ->
  rv_map k (fold_left rv_put d m) = rv_map k m ++ map entry (deliv_kind k d).
Proof.
  induction d as [|x d IH]; intros m H; cbn [fold_left deliv_kind filter map]; [now rewrite app_nil_r|].
  fold (deliv_kind k d). cbn [deliv_kind filter] in H. fold (deliv_kind k d) in H.
  destruct (of_kind k x) eqn:Ek.
  - cbn [map] in H. assert (Hfresh : ~ In (r_name (fst x)) (map fst (rv_map k m))).
    { apply NoDup_remove_2 in H. intros Hin. apply H. apply in_or_app. now left. }
    rewrite IH; rewrite rv_map_put, Ek, (m_set_fresh _ _ _ Hfresh).
    + rewrite <- app_assoc. reflexivity.
    + rewrite map_app. cbn [map fst]. rewrite <- app_assoc. cbn [app].
      exact H.
  - rewrite IH; rewrite rv_map_put, Ek; [reflexivity|exact H].
Qed.

Theorem collect_nodup k d :
  NoDup (map (fun x => r_name (fst x)) (deliv_kind k d)) -> rv_map k (collect d) = map entry (deliv_kind k d).
Proof.
  intros H. unfold collect. rewrite fold_put_nodup.
  - destruct k; reflexivity.
  - destruct k; exact H.
Qed.

(* ReadRegisterList = StreamRegisterList with all handlers + the maps of what it delivered *)
Theorem read_register_list_spec c rl ca s :
  let '(e, m, s') := read_register_list c rl ca s in
  let '(e2, d, s2) := stream_register_list c all_handlers rl ca s in
  e = e2 /\ s' = s2 /\
  (forall k n, m_get n (rv_map k m) = option_map snd (find (named n) (rev (deliv_kind k d)))) /\
  (forall k n, m_get n (rv_map k m) <> None <-> exists x, In x d /\ of_kind k x = true /\ r_name (fst x) = n) /\
  (forall k, NoDup (map (fun x => r_name (fst x)) (deliv_kind k d)) -> rv_map k m = map entry (deliv_kind k d)).
Proof.
  unfold read_register_list. destruct (stream_register_list c all_handlers rl ca s) as [[e d] s'].
  split; [reflexivity|]. split; [reflexivity|]. split; [intros k n; apply collect_get|].
  split; [intros k n; apply collect_keys|intros k; apply collect_nodup].
Qed.
