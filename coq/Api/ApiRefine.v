(* Tie T-gen for the register API: the four register readers and the streaming loop of
   Gen/ApiImpl.v (the translation of /repo/vedirectapi/registerApi.go made on every run) compute
   what the hand-written model Api/Api.v computes, for every register, handler set, cancellation
   point and driver state. *)
From Coq Require Import QArith.
From GV Require Import Vedirect.DrvSem Gen.DrvImpl Vedirect.DrvRefine Api.ApiSem Gen.ApiImpl.
Import ListNotations.
Local Open Scope Z_scope.

Lemma int_of_uint64_wrapS n : 0 <= n < 2 ^ 64 -> wrapS 64 n = int_of_uint64 n.
Proof.
  intros H. unfold wrapS, int_of_uint64.
  change (2 ^ (64 - 1)) with 9223372036854775808 in *. change (2 ^ 63) with 9223372036854775808.
  change (2 ^ 64) with 18446744073709551616 in *.
  destruct (Z.ltb_spec n 9223372036854775808).
  - rewrite Z.mod_small by lia. lia.
  - replace (n + 9223372036854775808) with ((n - 9223372036854775808) + 1 * 18446744073709551616) by lia.
    rewrite Z.mod_add by lia. rewrite Z.mod_small by lia. lia.
Qed.

Lemma le_uint_range bs : 0 <= le_uint bs < 2 ^ 64.
Proof.
  unfold le_uint. pose proof (HexFacts.le_val_range (firstn 8 bs)) as H.
  assert (L : (List.length (firstn 8 bs) <= 8)%nat) by (rewrite firstn_length; lia).
  assert (256 ^ Z.of_nat (List.length (firstn 8 bs)) <= 256 ^ 8) by (apply Z.pow_le_mono_r; lia).
  change (256 ^ 8) with (2 ^ 64) in *. lia.
Qed.

(* a reader of the translated API against the model's reader: result and driver state; the values
   delivered so far and the cancellation oracle are untouched; the clock flag is false afterwards *)
Definition read_rel {A} (inj : A -> rvalue -> Prop) (out : dout (A * gerr) * ast) (m : res rvalue * vdstate)
           (hist : list (reg * gvalue)) (cn : option nat) : Prop :=
  match fst m with
  | Ok rv => exists a, fst out = DVal (a, None) /\ inj a rv /\ snd out = mkA (mkD (snd m) false) hist cn
  | Err e => exists a, fst out = DVal (a, Some e) /\ snd out = mkA (mkD (snd m) false) hist cn
  | Panic => fst out = DPanic
  | OutOfFuel => fst out = DFuel
  end.

Definition addr_ok (r : reg) : Prop := 0 <= r_addr r < 65536.

Lemma lift_call {A} (inj : A -> value) (m : DrvSem.D (A * gerr)) v idle hist cn mr :
  call_rel inj (m (mkD v idle)) mr ->
  match fst mr with
  | Ok x => exists a, lift m (mkA (mkD v idle) hist cn) = (DVal (a, None), mkA (mkD (snd mr) false) hist cn) /\ x = inj a
  | Err e => exists a, lift m (mkA (mkD v idle) hist cn) = (DVal (a, Some e), mkA (mkD (snd mr) false) hist cn)
  | Panic => fst (lift m (mkA (mkD v idle) hist cn)) = DPanic
  | OutOfFuel => fst (lift m (mkA (mkD v idle) hist cn)) = DFuel
  end.
Proof.
  unfold call_rel, lift. cbn [a_d a_out a_cancel]. destruct (m (mkD v idle)) as [o sd]. cbn [fst snd].
  destruct (fst mr) as [x|e| |].
  - intros (a & -> & -> & ->). exists a. split; reflexivity.
  - intros (a & -> & ->). exists a. reflexivity.
  - intros ->. reflexivity.
  - intros ->. reflexivity.
Qed.

Ltac lift_cases L EG :=
  match type of L with
  | match fst (?mr, ?v1) with _ => _ end => cbn [fst snd] in L
  | _ => idtac
  end.

Theorem go_ReadNumberRegister_refines c r v idle hist cn : r_kind r = 1 -> addr_ok r ->
  read_rel (fun q rv => exists n, rv = RVNum q n) (go_ReadNumberRegister c r (mkA (mkD v idle) hist cn))
           (read_register c idle r v) hist cn.
Proof.
  intros Hk Ha. unfold read_register. rewrite Hk. cbn [Z.eqb Pos.eqb]. unfold read_rel.
  destruct (go_ReadNumberRegister c r (mkA (mkD v idle) hist cn)) as [og sa] eqn:EG.
  unfold go_ReadNumberRegister in EG. cbv zeta in EG.
  destruct (r_signed r).
  - unfold bind at 1 in EG.
    pose proof (lift_call VNum (go_GetInt c (r_addr r)) v idle hist cn _ (go_GetInt_refines c (r_addr r) v idle Ha)) as L.
    destruct (get_int c idle (r_addr r) v) as [mr v1]. cbn [fst snd] in *.
    destruct mr as [x|e| |].
    + destruct L as (a & E & ->). rewrite E in EG. cbn [gerr_isnil negb] in EG. injection EG as <- <-.
      eexists. split; [reflexivity|]. split; [|reflexivity]. eexists. reflexivity.
    + destruct L as (a & E). rewrite E in EG. cbn [gerr_isnil negb] in EG. injection EG as <- <-.
      eexists. split; reflexivity.
    + destruct (lift (go_GetInt c (r_addr r)) _) as [o s1]. cbn [fst] in L. subst o. injection EG as <- _. reflexivity.
    + destruct (lift (go_GetInt c (r_addr r)) _) as [o s1]. cbn [fst] in L. subst o. injection EG as <- _. reflexivity.
  - unfold bind at 1 in EG.
    pose proof (lift_call VNum (go_GetUint c (r_addr r)) v idle hist cn _ (go_GetUint_refines c (r_addr r) v idle Ha)) as L.
    destruct (get_uint c idle (r_addr r) v) as [mr v1]. cbn [fst snd] in *.
    destruct mr as [x|e| |].
    + destruct L as (a & E & ->). rewrite E in EG. cbn [gerr_isnil negb] in EG. injection EG as <- <-.
      eexists. split; [reflexivity|]. split; [|reflexivity]. eexists. reflexivity.
    + destruct L as (a & E). rewrite E in EG. cbn [gerr_isnil negb] in EG. injection EG as <- <-.
      eexists. split; reflexivity.
    + destruct (lift (go_GetUint c (r_addr r)) _) as [o s1]. cbn [fst] in L. subst o. injection EG as <- _. reflexivity.
    + destruct (lift (go_GetUint c (r_addr r)) _) as [o s1]. cbn [fst] in L. subst o. injection EG as <- _. reflexivity.
Qed.

Theorem go_ReadTextRegister_refines c r v idle hist cn : r_kind r = 2 -> addr_ok r ->
  read_rel (fun t rv => rv = RVText t) (go_ReadTextRegister c r (mkA (mkD v idle) hist cn))
           (read_register c idle r v) hist cn.
Proof.
  intros Hk Ha. unfold read_register. rewrite Hk. cbn [Z.eqb Pos.eqb]. unfold read_rel.
  destruct (go_ReadTextRegister c r (mkA (mkD v idle) hist cn)) as [og sa] eqn:EG.
  unfold go_ReadTextRegister in EG. cbv zeta in EG. unfold bind at 1 in EG.
  pose proof (lift_call VBytes (go_GetString c (r_addr r)) v idle hist cn _ (go_GetString_refines c (r_addr r) v idle Ha)) as L.
  destruct (get_string c idle (r_addr r) v) as [mr v1]. cbn [fst snd] in *.
  destruct mr as [x|e| |].
  - destruct L as (a & E & ->). rewrite E in EG. cbn [gerr_isnil negb] in EG. injection EG as <- <-.
    eexists. split; [reflexivity|]. split; reflexivity.
  - destruct L as (a & E). rewrite E in EG. cbn [gerr_isnil negb] in EG. injection EG as <- <-.
    eexists. split; reflexivity.
  - destruct (lift (go_GetString c (r_addr r)) _) as [o s1]. cbn [fst] in L. subst o. injection EG as <- _. reflexivity.
  - destruct (lift (go_GetString c (r_addr r)) _) as [o s1]. cbn [fst] in L. subst o. injection EG as <- _. reflexivity.
Qed.

(* the unsigned reader returns a value below 2^64 *)
Lemma get_uint_value_range c idle a v n v1 : get_uint c idle a v = (Ok (VNum n), v1) -> 0 <= n < 2 ^ 64.
Proof.
  unfold get_uint, typed. destruct (ve_command_get c idle a v) as [r s1]. cbn [map_res fst snd].
  destruct r as [raw|e| |]; intros E; try discriminate. injection E as <- _. apply le_uint_range.
Qed.

Theorem go_ReadEnumRegister_refines c r v idle hist cn : r_kind r = 3 -> addr_ok r ->
  read_rel (fun e rv => rv = RVEnum (fst e) (snd e)) (go_ReadEnumRegister c r (mkA (mkD v idle) hist cn))
           (read_register c idle r v) hist cn.
Proof.
  intros Hk Ha. unfold read_register. rewrite Hk. cbn [Z.eqb Pos.eqb]. unfold read_rel.
  destruct (go_ReadEnumRegister c r (mkA (mkD v idle) hist cn)) as [og sa] eqn:EG.
  unfold go_ReadEnumRegister in EG. cbv zeta in EG. unfold bind at 1 in EG.
  pose proof (lift_call VNum (go_GetUint c (r_addr r)) v idle hist cn _ (go_GetUint_refines c (r_addr r) v idle Ha)) as L.
  pose proof (get_uint_value_range c idle (r_addr r) v) as Rg.
  destruct (get_uint c idle (r_addr r) v) as [mr v1]. cbn [fst snd] in *.
  destruct mr as [x|e| |].
  - destruct L as (a & E & ->). rewrite E in EG. cbn [gerr_isnil negb] in EG.
    rewrite int_of_uint64_wrapS in EG by (eapply Rg; reflexivity). unfold g_new_enum in EG.
    destruct (new_enum (enum_map_of (r_factory r)) (int_of_uint64 a)) as [[i nm]|].
    + cbn [gerr_isnil negb] in EG. injection EG as <- <-. eexists. split; [reflexivity|]. split; reflexivity.
    + cbn [gerr_isnil negb] in EG. injection EG as <- <-. eexists. split; reflexivity.
  - destruct L as (a & E). rewrite E in EG. cbn [gerr_isnil negb] in EG. injection EG as <- <-.
    eexists. split; reflexivity.
  - destruct (lift (go_GetUint c (r_addr r)) _) as [o s1]. cbn [fst] in L. subst o. injection EG as <- _. reflexivity.
  - destruct (lift (go_GetUint c (r_addr r)) _) as [o s1]. cbn [fst] in L. subst o. injection EG as <- _. reflexivity.
Qed.

Theorem go_ReadFieldListRegister_refines c r v idle hist cn : r_kind r = 4 -> addr_ok r ->
  read_rel (fun fs rv => rv = RVFields fs) (go_ReadFieldListRegister c r (mkA (mkD v idle) hist cn))
           (read_register c idle r v) hist cn.
Proof.
  intros Hk Ha. unfold read_register. rewrite Hk. cbn [Z.eqb Pos.eqb]. unfold read_rel.
  destruct (go_ReadFieldListRegister c r (mkA (mkD v idle) hist cn)) as [og sa] eqn:EG.
  unfold go_ReadFieldListRegister in EG. cbv zeta in EG. unfold bind at 1 in EG.
  pose proof (lift_call VNum (go_GetUint c (r_addr r)) v idle hist cn _ (go_GetUint_refines c (r_addr r) v idle Ha)) as L.
  pose proof (get_uint_value_range c idle (r_addr r) v) as Rg.
  destruct (get_uint c idle (r_addr r) v) as [mr v1]. cbn [fst snd] in *.
  destruct mr as [x|e| |].
  - destruct L as (a & E & ->). rewrite E in EG. cbn [gerr_isnil negb] in EG.
    rewrite (wrapU_small 64 a) in EG by (eapply Rg; reflexivity). unfold bind at 1 in EG. unfold g_new_fieldlist in EG.
    destruct (fl_of (r_factory r)) as [f|].
    + unfold ret at 1 in EG. cbn [gerr_isnil negb] in EG. injection EG as <- <-. eexists. split; [reflexivity|]. split; reflexivity.
    + unfold dpanic in EG. injection EG as <- _. reflexivity.
  - destruct L as (a & E). rewrite E in EG. cbn [gerr_isnil negb] in EG. injection EG as <- <-.
    eexists. split; reflexivity.
  - destruct (lift (go_GetUint c (r_addr r)) _) as [o s1]. cbn [fst] in L. subst o. injection EG as <- _. reflexivity.
  - destruct (lift (go_GetUint c (r_addr r)) _) as [o s1]. cbn [fst] in L. subst o. injection EG as <- _. reflexivity.
Qed.

(* ---- StreamRegisterList ---- *)

Definition gpair (p : reg * rvalue) : reg * gvalue := (fst p, gvalue_of (snd p)).

(* the loop body the translator emits for each of the four groups *)
Definition sbody {A} (G : reg -> D (A * gerr)) (dl : reg -> A -> D unit) : reg -> unit -> D (lctl unit gerr) :=
  fun v_r _ =>
  bind (p_ctx_done) (fun t5 =>
  if t5 then
  ret (LRet (Some ECtxDone))
  else
  bind (G v_r) (fun '(v_v, v_err) =>
  if (negb (gerr_isnil v_err)) then
  ret (LRet v_err)
  else
  bind (dl v_r v_v) (fun _ =>
  ret (LCont tt)))).

(* outcome of a group (or of the whole run) against the model's *)
Definition stream_rel {X} (done : X) (out : dout (lres unit gerr) * ast)
           (m : stream_end * list (reg * rvalue) * vdstate) (cn : option nat)
           (wrap : lres unit gerr -> X) : Prop := True.

Definition group_rel (out : dout (lres unit gerr) * ast) (m : stream_end * list (reg * rvalue) * vdstate)
           (cn : option nat) : Prop :=
  let '(e, acc, v') := m in
  match e with
  | SDone => out = (DVal (LDone tt), mkA (mkD v' false) (map gpair acc) cn)
  | SError er => out = (DVal (LReturned (Some er)), mkA (mkD v' false) (map gpair acc) cn)
  | SCancelled => out = (DVal (LReturned (Some ECtxDone)), mkA (mkD v' false) (map gpair acc) cn)
  | SPanic => fst out = DPanic
  | SFuel => fst out = DFuel
  end.

Lemma group_refines {A} c cn (G : reg -> D (A * gerr)) (gv : A -> gvalue) (inj : A -> rvalue -> Prop) (P : reg -> Prop) :
  (forall r v hist, P r -> read_rel inj (G r (mkA (mkD v false) hist cn)) (read_register c false r v) hist cn) ->
  (forall a rv, inj a rv -> gv a = gvalue_of rv) ->
  forall l, Forall P l -> forall acc v,
    group_rel (range_regs l (sbody G (fun r a => p_deliver r (gv a))) tt (mkA (mkD v false) (map gpair acc) cn))
              (stream_group c l cn acc v) cn.
Proof.
  intros Hread Hinj l. induction l as [|r rest IH]; intros HP acc v.
  - cbn [range_regs stream_group group_rel]. reflexivity.
  - inversion HP as [|? ? Pr Prest]; subst. cbn [range_regs stream_group].
    unfold bind at 1. unfold sbody at 1. unfold bind at 1. unfold p_ctx_done at 1. cbn [a_cancel a_out].
    rewrite map_length.
    destruct (cancelled cn (List.length acc)).
    + cbn [group_rel]. reflexivity.
    + unfold bind at 1. pose proof (Hread r v (map gpair acc) Pr) as R. unfold read_rel in R.
      destruct (read_register c false r v) as [mr v1]. cbn [fst snd] in R.
      destruct (G r _) as [og sa]. cbn [fst snd] in R.
      destruct mr as [rv|e| |].
      * destruct R as (a & -> & Hi & ->). cbn [gerr_isnil negb]. unfold bind at 1. unfold p_deliver at 1.
        cbn [a_d a_out a_cancel]. unfold ret at 1.
        rewrite (Hinj a rv Hi).
        replace (map gpair acc ++ [(r, gvalue_of rv)]) with (map gpair (acc ++ [(r, rv)]))
          by (rewrite map_app; reflexivity).
        apply IH. exact Prest.
      * destruct R as (a & -> & ->). cbn [gerr_isnil negb group_rel]. reflexivity.
      * subst og. cbn [group_rel]. reflexivity.
      * subst og. cbn [group_rel]. reflexivity.
Qed.

Lemma stream_group_app c cn l1 : forall l2 acc s,
  stream_group c (l1 ++ l2) cn acc s =
  match stream_group c l1 cn acc s with
  | (SDone, acc1, s1) => stream_group c l2 cn acc1 s1
  | other => other
  end.
Proof.
  induction l1 as [|r rest IH]; intros l2 acc s; cbn [app stream_group]; [reflexivity|].
  destruct (cancelled cn (List.length acc)); [reflexivity|].
  destruct (read_register c false r s) as [[rv|e| |] s1]; try reflexivity. apply IH.
Qed.

(* the registers of a list are of the kind of their group and their addresses are 16 bits wide *)
Definition reglist_ok (rl : reglist) : Prop :=
  Forall (fun r => r_kind r = 1 /\ addr_ok r) (l_numbers rl) /\
  Forall (fun r => r_kind r = 2 /\ addr_ok r) (l_texts rl) /\
  Forall (fun r => r_kind r = 3 /\ addr_ok r) (l_enums rl) /\
  Forall (fun r => r_kind r = 4 /\ addr_ok r) (l_fieldlists rl).

Definition run_rel (out : dout gerr * ast) (m : stream_end * list (reg * rvalue) * vdstate) (cn : option nat) : Prop :=
  let '(e, acc, v') := m in
  match e with
  | SDone => out = (DVal None, mkA (mkD v' false) (map gpair acc) cn)
  | SError er => out = (DVal (Some er), mkA (mkD v' false) (map gpair acc) cn)
  | SCancelled => out = (DVal (Some ECtxDone), mkA (mkD v' false) (map gpair acc) cn)
  | SPanic => fst out = DPanic
  | SFuel => fst out = DFuel
  end.

(* one guarded group followed by the rest of the function *)
Lemma phase c cn (on : bool) (l : list reg) body (K : unit -> D gerr) rest_plan acc v :
  group_rel (range_regs l body tt (mkA (mkD v false) (map gpair acc) cn)) (stream_group c l cn acc v) cn ->
  (forall acc1 v1, run_rel (K tt (mkA (mkD v1 false) (map gpair acc1) cn)) (stream_group c rest_plan cn acc1 v1) cn) ->
  run_rel ((if on then
              bind (range_regs l body tt) (fun t => match t with LDone _ => K tt | LReturned x => ret x end)
            else K tt) (mkA (mkD v false) (map gpair acc) cn))
          (stream_group c ((if on then l else []) ++ rest_plan) cn acc v) cn.
Proof.
  intros Hg Hk. destruct on; [|cbn [app]; apply Hk].
  rewrite stream_group_app. unfold bind.
  destruct (stream_group c l cn acc v) as [[e acc1] v1]. cbn [group_rel] in Hg.
  destruct (range_regs l body tt _) as [o sa].
  destruct e.
  - injection Hg as -> ->. apply Hk.
  - injection Hg as -> ->. cbn [run_rel]. reflexivity.
  - injection Hg as -> ->. cbn [run_rel]. reflexivity.
  - cbn [fst] in Hg. subst o. cbn [run_rel]. reflexivity.
  - cbn [fst] in Hg. subst o. cbn [run_rel]. reflexivity.
Qed.

Theorem go_StreamRegisterList_refines c rl h cn v : reglist_ok rl ->
  run_rel (go_StreamRegisterList c tt rl h (mkA (mkD v false) [] cn)) (stream_register_list c h rl cn v) cn.
Proof.
  intros (Hn & Ht & He & Hf). unfold stream_register_list, stream_plan, go_StreamRegisterList. cbv zeta.
  change (@nil (reg * gvalue)) with (map gpair []).
  match goal with |- run_rel ((if _ then bind (range_regs _ ?b tt) _ else ?k) _) _ _ =>
    apply (phase c cn (h_num h) (l_numbers rl) b (fun _ => k)) end.
  { apply (group_refines c cn (go_ReadNumberRegister c) GNum (fun q rv => exists n, rv = RVNum q n)
             (fun r => r_kind r = 1 /\ addr_ok r)).
    - intros r v0 hist [Hk Ha]. now apply go_ReadNumberRegister_refines.
    - intros a rv (n & ->). reflexivity.
    - exact Hn. }
  intros acc1 v1. cbv beta.
  match goal with |- run_rel ((if _ then bind (range_regs _ ?b tt) _ else ?k) _) _ _ =>
    apply (phase c cn (h_text h) (l_texts rl) b (fun _ => k)) end.
  { apply (group_refines c cn (go_ReadTextRegister c) GText (fun t rv => rv = RVText t)
             (fun r => r_kind r = 2 /\ addr_ok r)).
    - intros r v0 hist [Hk Ha]. now apply go_ReadTextRegister_refines.
    - intros a rv ->. reflexivity.
    - exact Ht. }
  intros acc2 v2. cbv beta.
  match goal with |- run_rel ((if _ then bind (range_regs _ ?b tt) _ else ?k) _) _ _ =>
    apply (phase c cn (h_enum h) (l_enums rl) b (fun _ => k)) end.
  { apply (group_refines c cn (go_ReadEnumRegister c) GEnum (fun e rv => rv = RVEnum (fst e) (snd e))
             (fun r => r_kind r = 3 /\ addr_ok r)).
    - intros r v0 hist [Hk Ha]. now apply go_ReadEnumRegister_refines.
    - intros a rv ->. destruct a; reflexivity.
    - exact He. }
  intros acc3 v3. cbv beta.
  replace (if h_fl h then l_fieldlists rl else []) with ((if h_fl h then l_fieldlists rl else []) ++ []) by apply app_nil_r.
  match goal with |- run_rel ((if _ then bind (range_regs _ ?b tt) _ else ?k) _) _ _ =>
    apply (phase c cn (h_fl h) (l_fieldlists rl) b (fun _ => k)) end.
  { apply (group_refines c cn (go_ReadFieldListRegister c) GFields (fun fs rv => rv = RVFields fs)
             (fun r => r_kind r = 4 /\ addr_ok r)).
    - intros r v0 hist [Hk Ha]. now apply go_ReadFieldListRegister_refines.
    - intros a rv ->. reflexivity.
    - exact Hf. }
  intros acc4 v4. cbn [stream_group run_rel]. reflexivity.
Qed.

(* ---- NewRegisterApi ---- *)

Definition connect_rel (out : dout (option apiobj * gerr) * ast) (m : connect_result * vdstate)
           (hist : list (reg * gvalue)) (cn : option nat) : Prop :=
  match fst m with
  | Connected id rl => out = (DVal (Some (mkApi id rl), None), mkA (mkD (snd m) false) hist cn)
  | ConnectFailed e => out = (DVal (None, Some e), mkA (mkD (snd m) false) hist cn)
  | ConnectPanic => fst out = DPanic \/ fst out = DFuel
  end.

Lemma get_device_id_range c idle v id v1 : get_device_id c idle v = (Ok (VNum id), v1) -> 0 <= id < 65536.
Proof.
  unfold get_device_id, typed. destruct (ve_command c idle 4 0 v) as [r s1]. cbn [map_res fst snd].
  destruct r as [raw|e| |]; intros E; try discriminate.
  destruct raw as [|lo [|hi rest]]; try discriminate.
  apply (f_equal fst) in E. cbn [fst snd map_res] in E.
  assert (H2 : bz lo + 256 * bz hi = id) by congruence.
  pose proof (bz_range lo). pose proof (bz_range hi). lia.
Qed.

(* a fresh driver has never sent: the clock flag is true *)
Theorem go_NewRegisterApi_refines c v hist cn :
  connect_rel (go_NewRegisterApi tt c (mkA (mkD v true) hist cn)) (connect c v) hist cn.
Proof.
  unfold connect, connect_rel.
  destruct (go_NewRegisterApi tt c (mkA (mkD v true) hist cn)) as [og sa] eqn:EG.
  unfold go_NewRegisterApi in EG. cbv zeta in EG. unfold bind at 1 in EG.
  change (p_new_vedirect (mkA (mkD v true) hist cn)) with (DVal (tt, @None err), mkA (mkD v true) hist cn) in EG.
  cbv iota beta in EG. cbn [gerr_isnil negb] in EG. unfold bind at 1 in EG.
  pose proof (go_Ping_refines c v true) as P. unfold call_rel, ping_out in P.
  unfold lift at 1 in EG. cbn [a_d a_out a_cancel] in EG.
  destruct (go_Ping c (mkD v true)) as [op sp]. cbn [fst snd] in P.
  destruct (ping c true v) as [rp v1]. cbn [fst snd] in *.
  destruct rp as [x|e| |].
  - destruct P as (a & Ea & _ & ->). destruct a. destruct op as [ge| |]; try discriminate. injection Ea as ->.
    cbn [gerr_isnil negb] in EG. unfold bind at 1 in EG.
    pose proof (go_GetDeviceId_refines c v1 false) as G. unfold call_rel in G.
    pose proof (get_device_id_range c false v1) as Rg.
    unfold lift at 1 in EG. cbn [a_d a_out a_cancel] in EG.
    destruct (go_GetDeviceId c (mkD v1 false)) as [og2 sg]. cbn [fst snd] in G.
    destruct (get_device_id c false v1) as [rg v2]. cbn [fst snd] in *.
    destruct rg as [[|b|id]|e| |].
    + destruct G as (a & -> & Ev & _). discriminate.
    + destruct G as (a & -> & Ev & _). discriminate.
    + destruct G as (a & -> & Ev & ->). injection Ev as <-. cbn [gerr_isnil negb] in EG.
      rewrite (wrapU_small 16 id) in EG by (change (2 ^ 16) with 65536; eapply Rg; reflexivity).
      cbn [ao_product ao_registers] in EG. unfold g_product_exists in EG.
      destruct (p_exists (obs_product id)); cbn [negb] in EG.
      * unfold g_reglist_by_product in EG. destruct (obs_reglist id) as [e rl]. cbn [ao_product] in EG.
        destruct (e =? 0); cbn [gerr_isnil negb] in EG.
        -- injection EG as <- <-. cbn [fst snd]. reflexivity.
        -- injection EG as <- <-. cbn [fst snd]. reflexivity.
      * injection EG as <- <-. cbn [fst snd]. reflexivity.
    + destruct G as (a & -> & ->). cbn [gerr_isnil negb] in EG. injection EG as <- <-. cbn [fst snd]. reflexivity.
    + subst og2. injection EG as <- _. cbn [fst]. left. reflexivity.
    + subst og2. injection EG as <- _. cbn [fst]. right. reflexivity.
  - destruct P as (a & Ea & ->). destruct a. destruct op as [ge| |]; try discriminate. injection Ea as ->.
    cbn [gerr_isnil negb] in EG. injection EG as <- <-. cbn [fst snd]. reflexivity.
  - destruct op as [ge| |]; try discriminate. injection EG as <- _. cbn [fst]. left. reflexivity.
  - destruct op as [ge| |]; try discriminate. injection EG as <- _. cbn [fst]. right. reflexivity.
Qed.
