(* C06 at the register API: one register read adds at most 8 * B reads at end. *)
From GV Require Import Base.Bytes Vedirect.Frame Vedirect.Port Vedirect.Driver Vedirect.DriverFacts Vedirect.ReadsFacts.
From GV Require Import Tables.ObsTypes Gen.Obs Api.Api Api.ApiFacts Api.ApiErr.

Theorem read_register_reads c idle r s : bounded 8%nat s (snd (read_register c idle r s)).
Proof.
  assert (G : bounded 8%nat s (snd (ve_command_get c idle (r_addr r) s))).
  { unfold ve_command_get. change num_tries with 8%nat. apply ve_command_get_loop_reads. }
  destruct G as (N & M & C). unfold bounded, rae in *. rewrite read_register_pt. auto.
Qed.
