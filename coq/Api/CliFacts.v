(* C20 proofs. *)
From Coq Require Import Sorting.Permutation Sorting.Sorted.
From GV Require Import Api.Api Api.ApiFacts Api.Cli Tables.RegList Tables.RegListFacts.

Definition line_key (l : cli_line) : option Z := match l with LValue r _ => Some (r_sort r) | _ => None end.

(* when the device answers everything: the first line reports the count, then one line per
   delivered register value (a permutation of them), with non-decreasing sort keys *)
Theorem cli_output_ok c s id rl s1 delivered s2 :
  connect c s = (Connected id rl, s1) ->
  stream_register_list c all_handlers rl None s1 = (SDone, delivered, s2) ->
  exists vals,
    fst (cli_run c s) = LFetched (List.length vals) :: map (fun p => LValue (fst p) (snd p)) vals /\
    Permutation (dedup_last delivered) vals /\
    Sorted (fun a b => r_sort (fst a) <= r_sort (fst b)) vals /\
    map fst delivered = stream_plan all_handlers rl.
Proof.
  intros Hc Hs. unfold cli_run. rewrite Hc, Hs. cbn [fst].
  exists (sort_by (fun p => r_sort (fst p)) (dedup_last delivered)).
  split; [reflexivity|]. split; [apply sort_by_perm|]. split; [apply (sort_by_sorted (fun p => r_sort (fst p)))|].
  pose proof (stream_group_spec c (stream_plan all_handlers rl) None [] s1) as G.
  unfold stream_register_list in Hs. rewrite Hs in G.
  destruct G as (k & _ & Hm & _ & _ & Hk). subst k. cbn [map app] in Hm. now rewrite firstn_all in Hm.
Qed.

(* a device silent (or failing) during connect: the error line and nothing else *)
Theorem cli_connect_fails c s :
  (forall id rl, fst (connect c s) <> Connected id rl) -> fst (cli_run c s) = [LErrorCreatingApi].
Proof.
  intros H. unfold cli_run. destruct (connect c s) as [[id rl|e|] s1]; cbn [fst] in *; try reflexivity.
  exfalso. now apply (H id rl).
Qed.

(* a device that stops answering after connect: the error line, then "fetched 0 registers" *)
Theorem cli_fetch_fails c s id rl s1 e delivered s2 :
  connect c s = (Connected id rl, s1) ->
  stream_register_list c all_handlers rl None s1 = (e, delivered, s2) -> e <> SDone ->
  fst (cli_run c s) = [LErrorFetching; LFetched 0].
Proof.
  intros Hc Hs He. unfold cli_run. rewrite Hc, Hs. destruct e; try reflexivity. contradiction.
Qed.
