(* C20: model of vecli/cmd/vedirect.go on top of connect and streaming: what the CLI
   prints, as structured lines (the printf formatting itself is checked against the real
   binary by parsing its output). *)
From Coq Require Import Sorting.Permutation Sorting.Sorted.
From GV Require Export Api.Api Tables.RegList Tables.RegListFacts.

Inductive cli_line :=
| LErrorCreatingApi                       (* "error creating api: ..." and nothing else *)
| LErrorFetching                          (* "error fetching registers: ..." *)
| LFetched (n : nat)                      (* "fetched n registers, ..." *)
| LValue (r : reg) (v : rvalue).          (* one line per register value *)

(* RegisterValues: maps keyed by name; the last value delivered under a name wins *)
Fixpoint dedup_last (l : list (reg * rvalue)) : list (reg * rvalue) :=
  match l with
  | [] => []
  | x :: r => if existsb (fun y => String.eqb (r_name (fst y)) (r_name (fst x))) r then dedup_last r else x :: dedup_last r
  end.

Definition cli_run (c : cfg) (s : vdstate) : list cli_line * vdstate :=
  match connect c s with
  | (Connected id rl, s1) =>
      match stream_register_list c all_handlers rl None s1 with
      | (SDone, delivered, s2) =>
          let vals := sort_by (fun p => r_sort (fst p)) (dedup_last delivered) in
          (LFetched (List.length vals) :: map (fun p => LValue (fst p) (snd p)) vals, s2)
      | (_, _, s2) => ([LErrorFetching; LFetched 0], s2)    (* the partial result is discarded *)
      end
  | (_, s1) => ([LErrorCreatingApi], s1)
  end.
