(* Properties stated on the translated register API itself (Gen/ApiImpl.v). *)
From Coq Require Import QArith.
From GV Require Import Vedirect.DrvSem Gen.DrvImpl Api.ApiSem Gen.ApiImpl Api.ApiRefine.
Import ListNotations.
Local Open Scope Z_scope.

(* C05/C09: whatever error a reader returns is wrapped with the register's name, and its root is
   the error of the driver call (errors.Is still matches it) *)
Definition wrapped_with (r : reg) (e : err) : Prop := exists e0, e = EWrap (name_bytes r) e0.

Lemma wrap_name_wrapped r g e : gerr_wrap_name (name_bytes r) g = Some e -> wrapped_with r e.
Proof. destruct g as [x|]; cbn; intros E; injection E as <-; eexists; reflexivity. Qed.

Theorem src_number_error_wrapped c r s q e sd :
  go_ReadNumberRegister c r s = (DVal (q, Some e), sd) -> wrapped_with r e /\ q = inject_Z 0.
Proof.
  unfold go_ReadNumberRegister. cbv zeta. destruct (r_signed r); unfold bind at 1.
  - destruct (lift (go_GetInt c (r_addr r)) s) as [[[n er]| |] s1]; [|discriminate..].
    destruct er as [x|]; cbn [gerr_isnil negb]; unfold ret; intros E; [|discriminate].
    inversion E; subst. split; [|reflexivity]. eexists. reflexivity.
  - destruct (lift (go_GetUint c (r_addr r)) s) as [[[n er]| |] s1]; [|discriminate..].
    destruct er as [x|]; cbn [gerr_isnil negb]; unfold ret; intros E; [|discriminate].
    inversion E; subst. split; [|reflexivity]. eexists. reflexivity.
Qed.

Theorem src_text_error_wrapped c r s t e sd :
  go_ReadTextRegister c r s = (DVal (t, Some e), sd) -> wrapped_with r e /\ t = [].
Proof.
  unfold go_ReadTextRegister. cbv zeta. unfold bind at 1.
  destruct (lift (go_GetString c (r_addr r)) s) as [[[n er]| |] s1]; [|discriminate..].
  destruct er as [x|]; cbn [gerr_isnil negb]; unfold ret; intros E; [|discriminate].
  inversion E; subst. split; [|reflexivity]. eexists. reflexivity.
Qed.

Theorem src_enum_error_wrapped c r s v e sd :
  go_ReadEnumRegister c r s = (DVal (v, Some e), sd) -> wrapped_with r e.
Proof.
  unfold go_ReadEnumRegister. cbv zeta. unfold bind at 1.
  destruct (lift (go_GetUint c (r_addr r)) s) as [[[n er]| |] s1]; [|discriminate..].
  destruct er as [x|]; cbn [gerr_isnil negb].
  - unfold ret. intros E. inversion E; subst. eexists. reflexivity.
  - destruct (g_new_enum (r_factory r) (wrapS 64 n)) as [en ee]. destruct ee as [y|]; cbn [gerr_isnil negb]; unfold ret; intros E; [|discriminate].
    inversion E; subst. eexists. reflexivity.
Qed.

Theorem src_fieldlist_error_wrapped c r s v e sd :
  go_ReadFieldListRegister c r s = (DVal (v, Some e), sd) -> wrapped_with r e.
Proof.
  unfold go_ReadFieldListRegister. cbv zeta. unfold bind at 1.
  destruct (lift (go_GetUint c (r_addr r)) s) as [[[n er]| |] s1]; [|discriminate..].
  destruct er as [x|]; cbn [gerr_isnil negb].
  - unfold ret. intros E. inversion E; subst. eexists. reflexivity.
  - unfold bind at 1. destruct (g_new_fieldlist (r_factory r) (wrapU 64 n) s1) as [[[fl fe]| |] s2]; [|discriminate..].
    destruct fe as [y|]; cbn [gerr_isnil negb]; unfold ret; intros E; [|discriminate].
    inversion E; subst. eexists. reflexivity.
Qed.

(* C09/C15: the field set a field-list reader returns is the bit set of the unsigned value the
   driver read, cut to the width of the type: bit i of that value decides field i *)
Theorem src_fieldlist_bits c r v idle hist cn fs sa : r_kind r = 4 -> addr_ok r ->
  go_ReadFieldListRegister c r (mkA (mkD v idle) hist cn) = (DVal (fs, None), sa) ->
  exists n v1 f, get_uint c idle (r_addr r) v = (Ok (VNum n), v1) /\ fl_of (r_factory r) = Some f /\
                 fs = fl_fields (f_map f) (n mod 2 ^ f_bits f).
Proof.
  intros Hk Ha E. pose proof (go_ReadFieldListRegister_refines c r v idle hist cn Hk Ha) as R.
  rewrite E in R. unfold read_rel, read_register in R. rewrite Hk in R. cbn [Z.eqb Pos.eqb fst snd] in R.
  destruct (get_uint c idle (r_addr r) v) as [mr v1].
  destruct mr as [[|b|n]|e| |]; cbn [fst snd] in R; try discriminate.
  - destruct (fl_of (r_factory r)) as [f|]; cbn [fst] in R; [|discriminate].
    destruct R as (a & E1 & E2 & _). injection E1 as <-. injection E2 as <-. eauto 6.
  - destruct R as (a & E1 & _). discriminate.
Qed.
